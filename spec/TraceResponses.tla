--------------------------- MODULE TraceResponses ---------------------------
(***************************************************************************)
(* C19 trace specification.  One NDJSON line per real engine run (2        *)
(* instances, 30 ammo) of a gun kind against a scripted misbehaving        *)
(* target: the letters the ammo asked for (in ring order), Engine.Run's    *)
(* result, the engine's request counter, every sample with the letter that *)
(* caused it.  Each run must be a terminal state of Responses.tla's pool:  *)
(* no pool failure (except the documented fatal http2-vs-non-h2 case),     *)
(* every ammo fired, and for every letter exactly the samples Outcome      *)
(* demands.                                                                *)
(***************************************************************************)
EXTENDS Responses, Json, IOUtils

VARIABLE l

Trace == ndJsonDeserialize(IOEnv.VERIF_TRACE)
Chunk == 4

TInit == /\ l = 0 /\ run = <<>> /\ taken = 0 /\ pc = <<>> /\ cur = <<>> /\ nsamples = 0 /\ due = 0 /\ poolErr = "none"
TNext == /\ UNCHANGED vars
         /\ \/ l = 0 /\ l' \in {j \in 1..Len(Trace) : j % Chunk = 1}
            \/ l > 0 /\ l % Chunk # 0 /\ l < Len(Trace) /\ l' = l + 1

R == Trace[IF l = 0 THEN 1 ELSE l]
Live == l > 0 /\ ~R.fatal

\* the real gun and provider could be built
Built == l = 0 \/ R.build_err = ""
\* the pool never fails because of a response: Engine.Run returned nil
RunOK == Live => R.run_err = ""
\* every ammo was fired: the instances went on after each response
AllFired == Live => R.fired = R.shots /\ R.answered = R.shots

\* Which ammo were shot?  With several instances a token is not tied to an ammo: an instance that is
\* descheduled between Acquire and Wait keeps ITS ring position while the others use up the tokens on the
\* following positions (up to position shots+inst-1); when it wakes up no token is left and its ammo is
\* dropped - any position, not only the last ones (seen under load average 100).  So the shots are the first
\* shots+inst-1 ring positions minus inst-1 of them: per letter at most its count there, `shots` in total.
Ext == R.ammo \o SubSeq(R.ammo, 1, R.inst - 1)
CountIn(x, n) == Cardinality({j \in 1..n : Ext[j] = x})
Letters == {Ext[j] : j \in 1..Len(Ext)}
First == IF R.gun \in {"http", "https", "http2", "connect", "grpc"} THEN "" ELSE "a"
StepName(k, n) == IF k = 1 THEN First ELSE "b"
ShotsWith(x) == Cardinality({j \in 1..Len(R.samples) : R.samples[j].letter = x /\ R.samples[j].step = First})

Matches(s, e) == /\ (IF e.proto = GE400 THEN s.proto >= 400 ELSE s.proto = e.proto)
                 /\ s.err = e.err
                 /\ s.empty = e.failed

\* every shot yields its first-step sample; per letter exactly the samples Outcome demands, one set per shot
SamplesOK == Live =>
    /\ Cardinality({j \in 1..Len(R.samples) : R.samples[j].step = First}) = R.shots
    /\ \A x \in Letters :
         LET exp == Outcome(R.gun, x, R.posts)
             n == ShotsWith(x)
             mine == {j \in 1..Len(R.samples) : R.samples[j].letter = x}
         IN /\ n <= CountIn(x, R.shots + R.inst - 1)
            /\ IF x.l \in ShareLetters
               THEN \* the letter hits a share of the handshakes: every request of the run either fails like the letter
                    \* says or is answered with a plain 200; a shot ends at its first failed step
                    LET ok == Outcome(R.gun, OkLetter(R.gun), R.posts)
                        fits(j, k) == R.samples[j].step = StepName(k, 2) /\
                                      (Matches(R.samples[j], exp[1]) \/ Matches(R.samples[j], ok[k]))
                    IN /\ \A j \in mine : \E k \in 1..Len(ok) : fits(j, k)
                       /\ Len(ok) = 2 => Cardinality({j \in mine : R.samples[j].step = "b"})
                            = Cardinality({j \in mine : R.samples[j].step = First /\ Matches(R.samples[j], ok[1])})
               ELSE /\ Cardinality(mine) = n * Len(exp)
                    /\ \A k \in 1..Len(exp) :
                         Cardinality({j \in mine : R.samples[j].step = StepName(k, Len(exp)) /\ Matches(R.samples[j], exp[k])}) = n
\* var/header modifiers, enumerated: one scenario per (a, b) of SubstrCases(value length) plus a few chains of the
\* other modifiers; step b echoes the captured value to the target.  The whole enumerated space was exercised, every
\* capture produced SOME value (the run went on), and where the semantics are pinned it is the expected substring.
IsSub(c) == c.kind = "substr"
SubstrOK == (Live /\ R.kind = "substr") =>
    /\ {<<R.cases[j].a, R.cases[j].b, R.cases[j].hasb>> : j \in {k \in 1..Len(R.cases) : IsSub(R.cases[k])}} = SubstrCases(R.vlen)
    /\ \A j \in 1..Len(R.cases) :
         LET c == R.cases[j] IN
         /\ c.seen
         /\ (IsSub(c) /\ R.vlen > 0 /\ Pinned(R.vlen, c.a, c.b, c.hasb)) =>
               LET e == SubstrExpected(R.vlen, c.a, c.b, c.hasb)
               IN c.len = e.len /\ (e.len > 0 => c.start = e.start)

\* and nothing else
NoStray == Live => \A j \in 1..Len(R.samples) : R.samples[j].letter \in Letters
\* the run is one the alphabet knows
Known == Live => (R.avariant \in AmmoVariants /\ \A x \in Letters : x \in LettersOf(R.gun))
=============================================================================
