--------------------------- MODULE SampleCodingMC ---------------------------
(***************************************************************************)
(* Constants for TLC.  CaseSpace is the complete M2 case space; Small is   *)
(* the catalogue the OneSamplePerRequest machine picks shots from.         *)
(***************************************************************************)
EXTENDS SampleCoding, TLC

I2 == {"i1", "i2"}

Out(k, st) == [kind |-> k, status |-> st]
Failures == {Out("refused", 0), Out("reset", 0), Out("timeout", 0), Out("truncated", 200), Out("truncated", 503), Out("resetbody", 200)}

HttpCases(lo, hi) == {[kind |-> "http", out |-> o] : o \in {Out("status", st) : st \in lo..hi} \cup Failures}

Segs == <<"s1", "s2", "s3", "s4">>
Shapes == {SubSeq(Segs, 1, n) \o t : n \in 0..4, t \in {<<>>, <<"">>}}
Queries == {"", "?x=1", "?r=/x/y&z=/"}
AutoCfgs(depths) == {NoAuto} \cup {[enabled |-> TRUE, depth |-> d, notagonly |-> n] : d \in depths, n \in BOOLEAN}
\* URIs without any path: query only (uri, json) and absolute-form without a path (uri, raw)
NoPathCases(depths) ==
    {c \in {[kind |-> "tag", fmt |-> fu[1], tag |-> t, at |-> a, elems |-> <<>>, nopath |-> TRUE, query |-> "", uri |-> fu[2]] :
               fu \in {<<"uri", "?x=1">>, <<"json", "?x=1">>, <<"uri", "http://abs.test">>, <<"raw", "http://abs.test">>,
                        <<"uri", "http://abs.test?q=/a/b">>},
               t \in {"", "t1"}, a \in AutoCfgs(depths)} :
        \* (a tagged entry with no-tag-only off would get the empty auto-tag appended, "t1|": a blemish the statement
        \* does not speak about - left out)
        c.tag = "" \/ ~c.at.enabled \/ c.at.notagonly}
\* failure kinds and plain answers with the gun's side channels looking on
SideOuts == {Out("status", 200), Out("status", 503), Out("truncated", 200), Out("truncated", 503), Out("resetbody", 200), Out("reset", 0)}
HttpSideCases == {[kind |-> "http", out |-> o, side |-> [answlog |-> a, trace |-> t]] :
                     o \in SideOuts, a \in {"off", "all"}, t \in BOOLEAN}
\* scenario shots whose context is cancelled: during step 1's sleep, during step 1's exchange, between steps 1 and 2
ScnCancelCases == {[kind |-> "scncancel", gun |-> g, name |-> "cscn", steps |-> <<"s1", "s2", "s3">>, when |-> a] :
                      g \in {"http", "grpc"}, a \in {"sleep", "exchange", "between"}}
TagCases(fmts, depths) ==
    {[kind |-> "tag", fmt |-> f, tag |-> t, at |-> a, elems |-> e, query |-> q, uri |-> PathOf(e) \o q] :
        f \in fmts, t \in {"", "t1"}, a \in AutoCfgs(depths), e \in Shapes, q \in Queries}

GrpcCases == {[kind |-> "grpc", status |-> st] : st \in (0..17) \cup {99}}
GrpcBad == {[kind |-> "grpcbad", what |-> w] : w \in {"unknown_method", "bad_payload"}}
GrpcFail == {[kind |-> "grpcfail", what |-> w] : w \in {"refused", "timeout"}}
Invalid == {[kind |-> "invalid"]}

\* ---- scenario steps: a curated set of step variants, scenarios = all sequences of them up to a length ----
HStep(pre, out, post, sleep) == [pre |-> pre, out |-> out, post |-> post, sleep |-> sleep]
Answers == {Out("status", 200), Out("status", 404), Out("status", 500)}
HttpStepVariants ==
       {HStep("none", o, "none", FALSE) : o \in Answers \cup {Out("reset", 0), Out("truncated", 200)}}   \* exchange outcomes
  \cup {HStep("none", o, p, FALSE) : o \in Answers, p \in {"pass", "assertfail", "extractfail"}}       \* postprocessor outcomes x response kinds
  \cup {HStep(p, Out("status", 200), "none", FALSE) : p \in {"ok", "fail", "tmplfail"}}                \* before the request
  \cup {HStep("none", Out("status", 200), "pass", TRUE)}                                               \* a step followed by a sleep
\* TLC cannot enumerate a set with a dependent bound directly: one union per length
HttpScnCases(maxLen) ==
    UNION {{[kind |-> "httpscn", name |-> "scn",
             steps |-> [k \in 1..n |-> [name |-> Segs[k], pre |-> f[k].pre, out |-> f[k].out, post |-> f[k].post, sleep |-> f[k].sleep]]] :
               f \in [1..n -> HttpStepVariants]} : n \in 1..maxLen}

\* want: the code the step's status assert is given (TLC renders it: GrpcCode for a passing assert, 299 never matches)
GStep(pre, st, post) == [pre |-> pre, status |-> st, post |-> post,
                         want |-> IF post = "pass" THEN GrpcCode(st) ELSE IF post = "assertfail" THEN 299 ELSE 0]
GrpcStepVariants ==
       {GStep("none", st, p) : st \in {0, 5, 13}, p \in {"none", "pass", "assertfail", "extractfail"}}
  \cup {GStep(p, 0, "none") : p \in {"ok", "fail", "tmplfail"}}
GrpcScnCases(maxLen) ==
    UNION {{[kind |-> "grpcscn", name |-> "gscn",
             steps |-> [k \in 1..n |-> [tag |-> Segs[k], pre |-> f[k].pre, status |-> f[k].status, post |-> f[k].post, want |-> f[k].want]]] :
               f \in [1..n -> GrpcStepVariants]} : n \in 1..maxLen}

\* heterogeneous grpc/json files, several times the provider's queue (128) long: tagged entries, entries without a tag key,
\* lines that are not JSON, in patterns whose period is prime to the queue length
GrpcFileCases(n) == {[kind |-> "grpcfile", n |-> n, pattern |-> p] :
                        p \in {<<"ta", "">>, <<"ta", "tb", "", "tc", "", "">>, <<"ta", "", "!", "tb", "", "">>}}
SpaceQuick == GrpcFileCases(600) \cup HttpCases(200, 599) \cup HttpSideCases \cup NoPathCases(1..3) \cup ScnCancelCases \cup TagCases({"uri", "json"}, 1..3) \cup GrpcCases \cup GrpcBad \cup GrpcFail \cup Invalid
              \cup HttpScnCases(2) \cup GrpcScnCases(2)
SpaceBig   == GrpcFileCases(2500) \cup HttpCases(200, 599) \cup HttpSideCases \cup NoPathCases(1..5) \cup ScnCancelCases \cup TagCases({"uri", "json", "raw", "uripost"}, 1..5) \cup GrpcCases \cup GrpcBad \cup GrpcFail \cup Invalid
              \cup HttpScnCases(3) \cup GrpcScnCases(3)
\* scenario cases alone (3 steps: 5 831 + 3 615 cases) are the bulk of the thorough space

\* the catalogue of the state machine: one or two of each kind that Expected() covers
Small == {[kind |-> "http", out |-> Out("status", 200)], [kind |-> "http", out |-> Out("reset", 0)],
          [kind |-> "http", out |-> Out("truncated", 503)],
          [kind |-> "grpc", status |-> 13],
          [kind |-> "grpcfile", n |-> 3, pattern |-> <<"ta", "", "!">>],
          [kind |-> "tag", fmt |-> "uri", tag |-> "", at |-> [enabled |-> TRUE, depth |-> 1, notagonly |-> TRUE],
           elems |-> <<"s1", "s2">>, query |-> "", uri |-> "/s1/s2"],
          [kind |-> "tag", fmt |-> "uri", tag |-> "", at |-> [enabled |-> TRUE, depth |-> 1, notagonly |-> TRUE],
           elems |-> <<>>, nopath |-> TRUE, query |-> "", uri |-> "?x=1"],
          [kind |-> "httpscn", name |-> "scn",
           steps |-> <<[name |-> "s1", pre |-> "none", out |-> Out("status", 404), post |-> "pass", sleep |-> FALSE],
                       [name |-> "s2", pre |-> "none", out |-> Out("reset", 0), post |-> "none", sleep |-> FALSE],
                       [name |-> "s3", pre |-> "none", out |-> Out("status", 200), post |-> "none", sleep |-> FALSE]>>],
          [kind |-> "httpscn", name |-> "scn",
           steps |-> <<[name |-> "s1", pre |-> "ok", out |-> Out("status", 200), post |-> "none", sleep |-> TRUE],
                       [name |-> "s2", pre |-> "none", out |-> Out("status", 500), post |-> "assertfail", sleep |-> FALSE],
                       [name |-> "s3", pre |-> "none", out |-> Out("status", 200), post |-> "none", sleep |-> FALSE]>>],
          [kind |-> "httpscn", name |-> "scn",
           steps |-> <<[name |-> "s1", pre |-> "tmplfail", out |-> Out("status", 200), post |-> "none", sleep |-> FALSE],
                       [name |-> "s2", pre |-> "none", out |-> Out("status", 200), post |-> "none", sleep |-> FALSE]>>],
          [kind |-> "grpcscn", name |-> "gscn",
           steps |-> <<[tag |-> "s1", pre |-> "none", status |-> 5, post |-> "pass", want |-> 404],
                       [tag |-> "s2", pre |-> "none", status |-> 0, post |-> "extractfail", want |-> 0],
                       [tag |-> "s3", pre |-> "none", status |-> 0, post |-> "none", want |-> 0]>>]}
=============================================================================
