--------------------------- MODULE SampleCodingMC ---------------------------
(***************************************************************************)
(* Constants for TLC.  CaseSpace is the complete M2 case space; Small is   *)
(* the catalogue the OneSamplePerRequest machine picks shots from.         *)
(***************************************************************************)
EXTENDS SampleCoding, TLC

I2 == {"i1", "i2"}

Out(k, st) == [kind |-> k, status |-> st]
Failures == {Out("refused", 0), Out("reset", 0), Out("timeout", 0), Out("truncated", 200), Out("truncated", 503)}

HttpCases(lo, hi) == {[kind |-> "http", out |-> o] : o \in {Out("status", st) : st \in lo..hi} \cup Failures}

Segs == <<"s1", "s2", "s3", "s4">>
Shapes == {SubSeq(Segs, 1, n) \o t : n \in 0..4, t \in {<<>>, <<"">>}}
Queries == {"", "?x=1", "?r=/x/y&z=/"}
AutoCfgs(depths) == {NoAuto} \cup {[enabled |-> TRUE, depth |-> d, notagonly |-> n] : d \in depths, n \in BOOLEAN}
TagCases(fmts, depths) ==
    {[kind |-> "tag", fmt |-> f, tag |-> t, at |-> a, elems |-> e, query |-> q, uri |-> PathOf(e) \o q] :
        f \in fmts, t \in {"", "t1"}, a \in AutoCfgs(depths), e \in Shapes, q \in Queries}

GrpcCases == {[kind |-> "grpc", status |-> st] : st \in (0..17) \cup {99}}
GrpcBad == {[kind |-> "grpcbad", what |-> w] : w \in {"unknown_method", "bad_payload"}}
GrpcFail == {[kind |-> "grpcfail", what |-> w] : w \in {"refused", "timeout"}}
Invalid == {[kind |-> "invalid"]}

StepOuts == {Out("status", 200), Out("status", 404), Out("status", 500), Out("reset", 0), Out("truncated", 200)}
\* TLC cannot enumerate a set with a dependent bound directly: one union per length
HttpScnCases(maxLen) == UNION {{[kind |-> "httpscn", name |-> "scn", steps |-> [k \in 1..n |-> [name |-> Segs[k], out |-> f[k]]]] :
                                   f \in [1..n -> StepOuts]} : n \in 1..maxLen}
GrpcScnCases(maxLen) == UNION {{[kind |-> "grpcscn", name |-> "gscn", steps |-> [k \in 1..n |-> [tag |-> Segs[k], status |-> f[k]]]] :
                                   f \in [1..n -> {0, 5, 13}]} : n \in 1..maxLen}

SpaceQuick == HttpCases(200, 599) \cup TagCases({"uri", "json"}, 1..3) \cup GrpcCases \cup GrpcBad \cup GrpcFail \cup Invalid
              \cup HttpScnCases(2) \cup GrpcScnCases(2)
SpaceBig   == HttpCases(200, 599) \cup TagCases({"uri", "json", "raw", "uripost"}, 1..5) \cup GrpcCases \cup GrpcBad \cup GrpcFail \cup Invalid
              \cup HttpScnCases(3) \cup GrpcScnCases(3)

\* the catalogue of the state machine: one or two of each kind that Expected() covers
Small == {[kind |-> "http", out |-> Out("status", 200)], [kind |-> "http", out |-> Out("reset", 0)],
          [kind |-> "http", out |-> Out("truncated", 503)],
          [kind |-> "grpc", status |-> 13],
          [kind |-> "tag", fmt |-> "uri", tag |-> "", at |-> [enabled |-> TRUE, depth |-> 1, notagonly |-> TRUE],
           elems |-> <<"s1", "s2">>, query |-> "", uri |-> "/s1/s2"],
          [kind |-> "httpscn", name |-> "scn", steps |-> <<[name |-> "s1", out |-> Out("status", 404)],
                                                           [name |-> "s2", out |-> Out("reset", 0)],
                                                           [name |-> "s3", out |-> Out("status", 200)]>>],
          [kind |-> "grpcscn", name |-> "gscn", steps |-> <<[tag |-> "s1", status |-> 5], [tag |-> "s2", status |-> 0]>>]}
=============================================================================
