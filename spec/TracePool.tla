------------------------------ MODULE TracePool ------------------------------
(***************************************************************************)
(* C03 / C12 trace specification (M1, code -> spec).                       *)
(*                                                                         *)
(* The driver `vdrive pool` ran the REAL engine.Engine with logging mocks  *)
(* and real schedules; every recorded entry must be the corresponding      *)
(* action of Pool.tla (same guards, same effects), and every invariant of  *)
(* Pool.tla is evaluated on every state of the recorded execution.         *)
(*                                                                         *)
(* One entry = one step.  The instance loop is completely logged (Left,    *)
(* Acquire, Next, Shoot begin/end, discarded report, Release, gun Close),  *)
(* in an order that extends happens-before, and the values that depend on  *)
(* shared state were logged inside the critical section that produced them *)
(* (provider mutex, schedule-wrapper mutex), so Pool's guards apply as     *)
(* they are.  What is NOT observable from outside - the await goroutine,   *)
(* the instant at which a context cancellation becomes visible to the      *)
(* starter - is left unconstrained: the starter's entries are checked      *)
(* against the startup tokens only (a started instance needs its token,    *)
(* and is never created before the token's instant), the await variables   *)
(* do not move.  The end entry carries the engine's Metrics and the result *)
(* of Engine.Run; it makes the run `Done`, which arms Pool's end-of-run    *)
(* invariants.                                                             *)
(***************************************************************************)
EXTENDS Pool, StartupMath, Json, IOUtils

VARIABLES l,        \* next line of the trace
          tokT,     \* instants of the startup tokens drawn so far (ns since the run's base, BigNat)
          tokR,     \* the same, relative to the startup schedule's start (explicit start only)
          sparts,   \* the startup profile as a succession of simple ProfileMath parts (StartupMath!DescParts
                    \* of the logged CONFIGURATION: the number and the instants of the startup tokens are the
                    \* specification's, never the implementation's own account of itself)
          nlo,      \* fewest startup tokens the configured profile may hand out (N = Len(cfg.startup) is the most)
          explicit, \* the startup schedule's start instant is known
          sidOf,    \* which schedule object each instance uses (-1 = not yet seen)
          bad       \* violated predicates that are not Pool invariants

tvars == <<l, tokT, tokR, sparts, nlo, explicit, sidOf, bad>>

Trace == ndJsonDeserialize(IOEnv.VERIF_TRACE)
Sd    == atoi(IOEnv.VERIF_SEED)
Ev    == Trace[l]
I     == Ev.inst + 1                \* Pool's instance ids are pandora's + 1
IsInst == I \in Inst

Flag(cond, name) == IF cond THEN {} ELSE {name}

TInit == /\ l = 1 /\ tokT = <<>> /\ tokR = <<>> /\ sparts = <<>> /\ nlo = 0 /\ explicit = FALSE
         /\ sidOf = [i \in Inst |-> -1] /\ bad = {}
         /\ InitFor([startup |-> <<>>, t |-> 0, tmin |-> 0, a |-> 0, per |-> FALSE, discard |-> FALSE])

\* a new run: Pool's Init for the logged configuration
T_Conf ==
  /\ Ev.ev = "conf"
  /\ CountHi(Ev.sdesc) <= MaxInst
  /\ cfg' = [startup |-> [k \in 1..CountHi(Ev.sdesc) |-> 0], t |-> Ev.t, tmin |-> Ev.tmin, a |-> Ev.a, per |-> Ev.per, discard |-> Ev.discard]
  /\ now' = 0
  /\ given' = 0 /\ rel' = <<>> /\ prov' = "run" /\ agg' = "run"
  /\ drawn' = [s \in 0..MaxInst |-> 0] /\ closed' = [s \in 0..MaxInst |-> FALSE]
  /\ spc' = "draw" /\ sk' = 0 /\ created' = 0 /\ ids' = <<>>
  /\ startCancelled' = FALSE /\ runCancelled' = FALSE
  /\ ipc' = [i \in Inst |-> "none"] /\ held' = [i \in Inst |-> 0] /\ tok' = [i \in Inst |-> FALSE]
  /\ why' = [i \in Inst |-> ""]
  /\ request' = 0 /\ response' = 0 /\ instStart' = 0 /\ instFinish' = 0 /\ fired' = 0 /\ discarded' = 0
  /\ runRes' = {} /\ provCh' = "empty" /\ aggCh' = "empty" /\ startCh' = "empty"
  /\ aw' = [toWait |-> 4, started |-> -1, awaited |-> 0, closed |-> FALSE]
  /\ poolRet' = "none"
  /\ badUse' = FALSE /\ ooaSeen' = FALSE /\ finSeen' = FALSE
  /\ tokT' = <<>> /\ tokR' = <<>> /\ sparts' = DescParts(Ev.sdesc, 1) /\ nlo' = CountLo(Ev.sdesc)
  /\ explicit' = Ev.explicit
  /\ sidOf' = [i \in Inst |-> -1]
  \* what the real schedules report before their start is what the configured profiles denote
  /\ bad' = bad \cup Flag(Ev.n_impl >= CountLo(Ev.sdesc) /\ Ev.n_impl <= CountHi(Ev.sdesc), "StartupLeftIsNotTheProfilesCount")
                \cup Flag(IF HasUnknown(Ev.rdesc)
                          THEN Ev.t = -1 /\ Ev.tmin >= CountLo(Ev.rdesc) /\ Ev.tmin <= CountHi(Ev.rdesc)
                          ELSE Ev.t >= CountLo(Ev.rdesc) /\ Ev.t <= CountHi(Ev.rdesc), "RpsLeftIsNotTheProfilesCount")

Running == poolRet = "none"

\* the starter's Waiter called Next() on the startup schedule
T_SNext ==
  /\ Ev.ev = "snext" /\ Running /\ spc = "draw"
  /\ IF Ev.ok
     THEN /\ sk < N                          \* S_Draw: a token is left
          /\ sk' = sk + 1 /\ spc' = spc /\ cfg' = cfg
          /\ tokT' = Append(tokT, Ev.t) /\ tokR' = Append(tokR, Ev.rt)
          /\ bad' = bad \cup Flag(tokT = <<>> \/ Leq(tokT[Len(tokT)], Ev.t), "StartupTokensMonotone")
                        \cup Flag(Ev.n = 0, "StartupTokenBeforeStart")
     ELSE /\ sk >= nlo /\ sk <= N              \* S_Draw: the profile is exhausted, the starter returns;
          /\ sk' = sk /\ spc' = "done"          \* the count is one the profile admits (nlo..N, see StartupMath)
          /\ cfg' = [cfg EXCEPT !.startup = [k \in 1..sk |-> 0]]
          /\ UNCHANGED <<tokT, tokR>>
          \* the tokens handed out are the startup profile's (ProfileMath, shared with C01)
          /\ bad' = bad \cup Flag(~explicit \/ PartsOK(sparts, 1, tokR, 1, <<>>, Sd), "StartupProfileInstants")
  /\ UNCHANGED <<now, provVars, schedVars, created, ids, ctxVars, instVars, cntVars, awVars, ghostVars,
                 sparts, nlo, explicit, sidOf>>

\* gun factory + Bind: instance Ev.inst exists from now on (S_Create and I_New of Pool; the `go`
\* statement itself is not observable, so the entries of different instances may be in any order)
T_Bind ==
  /\ Ev.ev = "bind" /\ Running /\ IsInst
  /\ ipc[I] = "none"                                    \* CreateEffect: the id is fresh
  /\ ipc' = [ipc EXCEPT ![I] = "check"]                 \* ... and I_New: bound, about to run
  /\ created' = created + 1
  /\ ids' = Append(ids, I)
  /\ instStart' = instStart + 1
  /\ bad' = bad \cup Flag(I <= sk, "CreatedWithoutToken")            \* id k is made from token k
                \cup Flag(I > Len(tokT) \/ Geq(Ev.t, tokT[I]), "CreatedBeforeTokenInstant")
  /\ UNCHANGED <<cfg, now, provVars, schedVars, spc, sk, ctxVars, held, tok, why,
                 request, response, instFinish, fired, discarded, awVars, ghostVars,
                 tokT, tokR, sparts, nlo, explicit, sidOf>>

SidOK == /\ IF cfg.per THEN Ev.sid >= 1 ELSE Ev.sid = 0
         /\ sidOf[I] \in {-1, Ev.sid}
         /\ \A j \in Inst : j # I /\ cfg.per => sidOf[j] # Ev.sid
SidSet == sidOf' = [sidOf EXCEPT ![I] = Ev.sid]

T_Left == /\ Ev.ev = "left" /\ Running /\ IsInst
          /\ I_CheckZ(I, Ev.n = 0)
          /\ Unknown \/ Ev.n = LeftOf(Sid(I))       \* known length: the exact number of tokens left
          /\ SidOK /\ SidSet
          /\ UNCHANGED <<tokT, tokR, sparts, nlo, explicit, bad>>

T_Acq == /\ Ev.ev = "acq" /\ Running /\ IsInst
         /\ I_Acquire(I)
         /\ held'[I] = Ev.item
         /\ UNCHANGED <<tokT, tokR, sparts, nlo, explicit, sidOf, bad>>

T_Next == /\ Ev.ev = "next" /\ Running /\ IsInst
          /\ I_WaitOk(I, Ev.ok)
          /\ SidOK /\ SidSet
          /\ UNCHANGED <<tokT, tokR, sparts, nlo, explicit, bad>>

T_ShootB == /\ Ev.ev = "shoot_b" /\ Running /\ IsInst
            /\ I_Fire(I)
            /\ held[I] = Ev.item /\ Ev.k = Ev.inst
            /\ UNCHANGED <<tokT, tokR, sparts, nlo, explicit, sidOf, bad>>

T_ShootE == /\ Ev.ev = "shoot_e" /\ Running /\ IsInst
            /\ I_ShootEnd(I)
            /\ held[I] = Ev.item /\ Ev.k = Ev.inst
            /\ UNCHANGED <<tokT, tokR, sparts, nlo, explicit, sidOf, bad>>

\* the aggregator received a sample tagged "discarded": it is the discard branch of the loop
T_Discard == /\ Ev.ev = "discard" /\ Running /\ IsInst
             /\ I_Discard(I)
             /\ bad' = bad \cup Flag(Ev.n = 777, "DiscardedSampleNetCode")
             /\ UNCHANGED <<tokT, tokR, sparts, nlo, explicit, sidOf>>

\* an ordinary sample: reported by the gun during its shot
T_Rep == /\ Ev.ev = "rep" /\ Running /\ IsInst
         /\ ipc[I] = "shooting"
         /\ UNCHANGED <<vars, tokT, tokR, sparts, nlo, explicit, sidOf, bad>>

T_Rel == /\ Ev.ev = "rel" /\ Running /\ IsInst
         /\ I_Release(I)
         /\ held[I] = Ev.item
         /\ UNCHANGED <<tokT, tokR, sparts, nlo, explicit, sidOf, bad>>

\* the gun is closed after instance.Run returned, on the instance's goroutine
T_Close == /\ Ev.ev = "close" /\ Running /\ IsInst
           /\ I_Exit(I)
           /\ Ev.k = Ev.inst
           /\ UNCHANGED <<tokT, tokR, sparts, nlo, explicit, sidOf, bad>>

\* Engine.Run and Engine.Wait returned; Metrics read
T_End ==
  /\ Ev.ev = "end" /\ Running
  /\ poolRet' = "nil"
  /\ bad' = bad \cup Flag(Ev.err = "", "RunReturnedError")
                \* (the engine's counters are engine-wide: a second pool of the engine, when the run has one, adds its
                \* own shots and instances, recorded by its own mocks)
                \cup Flag(Ev.request = request + Ev.twin_shots /\ Ev.response = response + Ev.twin_shots, "MetricsRequestResponse")
                \cup Flag(Ev.inst_start = instStart + Len(Ev.twin_ids) /\ Ev.inst_finish = instFinish + Len(Ev.twin_ids), "MetricsInstances")
                \* ids are numbered PER POOL: the other pool's instances are 0 .. its count - 1 as well (this pool's own
                \* ids: T_Bind, IdsAtEnd)
                \cup Flag({Ev.twin_ids[k] : k \in 1..Len(Ev.twin_ids)} = 0..(Len(Ev.twin_ids) - 1), "OtherPoolIdsFromZero")
                \* the result file of the real phout behind the recording aggregator: one line per fired shot and per
                \* discarded token, the discarded ones (and only they) tagged `discarded` with net code 777
                \cup Flag(~Ev.phout \/ (Ev.ph_lines = fired + discarded /\ Ev.ph_disc = discarded), "PhoutLinesAreShotsAndDiscards")
  /\ UNCHANGED <<cfg, now, provVars, schedVars, startVars, ctxVars, instVars, cntVars,
                 runRes, provCh, aggCh, startCh, aw, ghostVars, tokT, tokR, sparts, nlo, explicit, sidOf>>

\* A high-contention run (driver: plRunHot): 8 instances race through one shared finite profile whose tokens are all
\* due at once, with mocks that do nothing on the hot path.  Only the totals are recorded; they are a complete run of
\* its own and answer to Pool's end-of-run statements for the configuration [once(n), t tokens shared, unbounded ammo,
\* no discard]: Accounting, ReleasedAll, UnfiredBound, CountersEnd.
T_Hot ==
  /\ Ev.ev = "hot" /\ (~Running \/ l = 1)
  /\ LET expected == IF Ev.created = 0 THEN 0 ELSE Ev.t          \* Tokens / ExpectedShots of Pool.tla, a = -1
         unfired  == Ev.acquired - Ev.fired IN
     bad' = bad \cup Flag(Ev.err = "", "RunReturnedError")
                \cup Flag(Ev.fired = expected, "HotAccounting")
                \cup Flag(Ev.request = Ev.fired /\ Ev.response = Ev.fired, "MetricsRequestResponse")
                \cup Flag(Ev.released = Ev.acquired, "HotReleasedAll")
                \cup Flag(unfired >= 0 /\ unfired <= Max(Ev.created - 1, 0), "HotUnfiredBound")
                \cup Flag(Ev.inst_start = Ev.created /\ Ev.inst_finish = Ev.created /\ Ev.created <= Ev.n, "MetricsInstances")
  /\ UNCHANGED <<vars, tokT, tokR, sparts, nlo, explicit, sidOf>>

TNext == /\ l <= Len(Trace)
         /\ l' = l + 1
         /\ \/ T_Conf
            \/ T_SNext
            \/ T_Bind
            \/ T_Left \/ T_Acq \/ T_Next \/ T_ShootB \/ T_ShootE \/ T_Discard \/ T_Rep \/ T_Rel \/ T_Close
            \/ T_End \/ T_Hot

\* every recorded entry is a step of the specification
Accepted    == l <= Len(Trace) => ENABLED TNext
NoViolation == bad = {}
\* the ids handed out are exactly 0 .. created-1 (distinctness holds at every step: CreateEffect)
IdsAtEnd    == Done => {ids[k] : k \in 1..Len(ids)} = 1..created /\ Len(ids) = created
=============================================================================
