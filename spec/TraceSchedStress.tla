-------------------------- MODULE TraceSchedStress --------------------------
(***************************************************************************)
(* C02 trace specification, M1 direction: histories of concurrent          *)
(* Next()/Left() calls recorded from REAL schedule trees (free-running     *)
(* goroutines, global sequence numbers) are checked against the sequential *)
(* token contract.  A call takes effect at some instant between its "call" *)
(* and its "ret" event (linearisation interval); nothing else is assumed   *)
(* about the order of concurrent calls.                                    *)
(*                                                                         *)
(* Per run the driver logs the flattened leaf list of the tree: timed      *)
(* leaves with their token offsets and duration (what a single profile     *)
(* hands out is C01's subject) and unlimited leaves with their duration.   *)
(* Chained starts give leaf j the start S[j] = sum of earlier durations.   *)
(***************************************************************************)
EXTENDS BigNat, FiniteSets, Json, IOUtils, TLC

VARIABLES l, leaves, S, total, exp, expSet, inflight, okRet, loAt, wallAt, lastT, fin, obag, pend, fired,
          endSeen, bad,
          pastUnl,   \* some Next() has already RETURNED a result that lies behind the last unlimited part
          pastAt     \* [g -> value of pastUnl when g's Left() call began]

vars == <<l, leaves, S, total, exp, expSet, inflight, okRet, loAt, wallAt, lastT, fin, obag, pend, fired, endSeen, bad, pastUnl, pastAt>>

Trace == ndJsonDeserialize(IOEnv.VERIF_TRACE)
Ev == Trace[l]
G == 0..15

RECURSIVE Starts(_, _, _)
Starts(lv, j, acc) == IF j > Len(lv) THEN <<>> ELSE <<acc>> \o Starts(lv, j + 1, Add(acc, lv[j].dur))
RECURSIVE SumDur(_, _)
SumDur(lv, j) == IF j > Len(lv) THEN <<>> ELSE Add(lv[j].dur, SumDur(lv, j + 1))
RECURSIVE AbsToks(_, _, _)
AbsToks(lv, st, j) == IF j > Len(lv) THEN <<>>
                      ELSE [i \in 1..Len(lv[j].toks) |-> Add(st[j], lv[j].toks[i])] \o AbsToks(lv, st, j + 1)

InUnlWindow(t) == \E j \in 1..Len(leaves) :
                     leaves[j].kind = "unl" /\ Leq(S[j], t) /\ Lt(t, Add(S[j], leaves[j].dur))
HasUnl == \E j \in 1..Len(leaves) : leaves[j].kind = "unl"
\* finish instant of the last unlimited leaf
LastUnlEnd == LET js == {j \in 1..Len(leaves) : leaves[j].kind = "unl"}
                  m  == CHOOSE j \in js : \A k \in js : k <= j
              IN  Add(S[m], leaves[m].dur)

CntE(t) == Cardinality({i \in 1..Len(exp) : exp[i] = t})
CntO(t) == IF t \in DOMAIN obag THEN obag[t] ELSE 0

Flag(cond, name) == IF cond THEN {} ELSE {name}

Init == /\ l = 1 /\ leaves = <<>> /\ S = <<>> /\ total = <<>> /\ exp = <<>> /\ expSet = {}
        /\ inflight = 0 /\ okRet = 0 /\ loAt = [g \in G |-> 0] /\ wallAt = [g \in G |-> <<>>]
        /\ lastT = [g \in G |-> <<>>] /\ fin = [g \in G |-> FALSE] /\ obag = <<>> /\ pend = {}
        /\ fired = FALSE /\ endSeen = FALSE /\ bad = {}
        /\ pastUnl = FALSE /\ pastAt = [g \in G |-> FALSE]

Tree == /\ Ev.ev = "tree"
        /\ leaves' = Ev.leaves
        /\ S' = Starts(Ev.leaves, 1, <<>>)
        /\ total' = SumDur(Ev.leaves, 1)
        /\ exp' = AbsToks(Ev.leaves, S', 1)
        /\ expSet' = {exp'[i] : i \in 1..Len(exp')}
        /\ inflight' = 0 /\ okRet' = 0 /\ loAt' = [g \in G |-> 0] /\ wallAt' = [g \in G |-> <<>>]
        /\ lastT' = [g \in G |-> <<>>] /\ fin' = [g \in G |-> FALSE] /\ obag' = <<>> /\ pend' = {}
        /\ fired' = FALSE /\ endSeen' = FALSE
        /\ pastUnl' = FALSE /\ pastAt' = [g \in G |-> FALSE]
        /\ UNCHANGED bad

CallN == /\ Ev.ev = "call" /\ Ev.op = "N"
         /\ inflight' = inflight + 1
         /\ UNCHANGED <<leaves, S, total, exp, expSet, okRet, loAt, wallAt, lastT, fin, obag, pend, fired, endSeen, bad, pastUnl, pastAt>>

RetNok == /\ Ev.ev = "ret" /\ Ev.op = "N" /\ Ev.ok
          /\ inflight' = inflight - 1
          /\ okRet' = okRet + 1
          /\ lastT' = [lastT EXCEPT ![Ev.g] = Ev.t]
          /\ obag' = IF Ev.t \in expSet
                     THEN (IF Ev.t \in DOMAIN obag THEN [obag EXCEPT ![Ev.t] = @ + 1] ELSE obag @@ (Ev.t :> 1))
                     ELSE obag
          /\ bad' = bad \cup Flag(~Ev.neg, "TokenBeforeStart")
                        \cup Flag(Leq(lastT[Ev.g], Ev.t), "CallerMonotone")
                        \cup Flag(~fin[Ev.g], "TokenAfterFinish")
                        \cup Flag(Leq(Ev.t, total), "TokenAfterEnd")
                        \cup Flag(Ev.t \in expSet \/ InUnlWindow(Ev.t), "UnexpectedToken")
          /\ pastUnl' = (pastUnl \/ (HasUnl /\ Leq(LastUnlEnd, Ev.t)))     \* a token of a part behind the last unlimited one
          /\ UNCHANGED <<leaves, S, total, exp, expSet, loAt, wallAt, fin, pend, fired, endSeen, pastAt>>

RetNend == /\ Ev.ev = "ret" /\ Ev.op = "N" /\ ~Ev.ok
           /\ inflight' = inflight - 1
           /\ lastT' = [lastT EXCEPT ![Ev.g] = Ev.t]
           /\ fin' = [fin EXCEPT ![Ev.g] = TRUE]
           /\ endSeen' = TRUE
           /\ bad' = bad \cup Flag(~Ev.neg /\ Ev.t = total, "FinishTime")
                         \cup Flag(Leq(lastT[Ev.g], Ev.t), "CallerMonotone")
                         \cup Flag(fired, "OnFinishBeforeEndObserved")
           /\ pastUnl' = TRUE
           /\ UNCHANGED <<leaves, S, total, exp, expSet, okRet, loAt, wallAt, obag, pend, fired, pastAt>>

CallL == /\ Ev.ev = "call" /\ Ev.op = "L"
         /\ loAt' = [loAt EXCEPT ![Ev.g] = okRet]
         /\ wallAt' = [wallAt EXCEPT ![Ev.g] = Ev.wall]
         /\ pastAt' = [pastAt EXCEPT ![Ev.g] = pastUnl]
         /\ UNCHANGED <<leaves, S, total, exp, expSet, inflight, okRet, lastT, fin, obag, pend, fired, endSeen, bad, pastUnl>>

RetL == /\ Ev.ev = "ret" /\ Ev.op = "L"
        /\ pend' = IF Ev.left >= 0 THEN pend \cup {[r |-> Ev.left, lo |-> loAt[Ev.g], hi |-> okRet + inflight, at |-> l]}
                   ELSE pend
        /\ endSeen' = (endSeen \/ Ev.left = 0)
        /\ bad' = bad \cup Flag(Ev.left # 0 \/ fired, "OnFinishBeforeEndObserved")
                      \* negative only while the total is genuinely unknown: the schedule has an unlimited part and,
                      \* when the call began, the composite had not yet been seen behind the last one.  (The nominal
                      \* end instant of an unlimited part says nothing: callers that lag behind real time reach the part
                      \* after its window, and until it is reached and found finished its length IS unknown to the object
                      \* - Schedule.tla: LeafLeft(unl) = -1 while ~startd.)  Once a result from behind the last unlimited
                      \* part has been returned every remaining part is of known length.
                      \cup Flag(Ev.left >= 0 \/ (HasUnl /\ ~pastAt[Ev.g]), "LeftNegativeOnlyIfUnknown")
        /\ UNCHANGED pastUnl
        /\ UNCHANGED <<leaves, S, total, exp, expSet, inflight, okRet, loAt, wallAt, lastT, fin, obag, fired, pastAt>>

OnFinish == /\ Ev.ev = "onfinish"
            /\ fired' = TRUE
            /\ bad' = bad \cup Flag(~fired, "OnFinishOnce")
            /\ UNCHANGED <<leaves, S, total, exp, expSet, inflight, okRet, loAt, wallAt, lastT, fin, obag, pend, endSeen, pastUnl, pastAt>>

\* end of a run: the schedule was drained, so the total number of tokens is known
End == /\ Ev.ev = "end"
       /\ bad' = bad \cup Flag(inflight = 0, "Inflight")
                     \cup Flag(\A p \in pend : okRet - p.hi <= p.r /\ p.r <= okRet - p.lo, "LeftExact")
                     \cup Flag(\A t \in expSet : CntO(t) >= CntE(t), "TokenLost")
                     \cup Flag(\A t \in expSet : CntO(t) > CntE(t) => InUnlWindow(t), "TokenDuplicated")
                     \cup Flag(fired = endSeen, "OnFinishOnce")
       /\ UNCHANGED <<leaves, S, total, exp, expSet, inflight, okRet, loAt, wallAt, lastT, fin, obag, pend, fired, endSeen, pastUnl, pastAt>>

Next == /\ l <= Len(Trace)
        /\ l' = l + 1
        /\ (Tree \/ CallN \/ RetNok \/ RetNend \/ CallL \/ RetL \/ OnFinish \/ End)

Accepted == l <= Len(Trace) => ENABLED Next
NoViolation == bad = {}
=============================================================================
