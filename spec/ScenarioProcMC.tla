--------------------------- MODULE ScenarioProcMC ---------------------------
(* The finite case space of ScenarioProc (response letters x processor chains, variable functions), design-level  *)
(* invariants over it (independent readings of the documentation) and the export of the cases for the M2 replay *)
(* through the real provider + gun.                                                                             *)
EXTENDS ScenarioProc, Json, IOUtils

VARIABLE cs

-----------------------------------------------------------------------------
(* var/header: modifier chains, on every header letter on which the chain stays inside its pinned range *)
ModChains == {
    <<>>, <<MLower>>, <<MUpper>>,
    <<MSub1(2)>>, <<MSub1(-3)>>, <<MSub1(0)>>, <<MSub2(1, 3)>>, <<MSub2(0, 16)>>, <<MSub2(-4, -1)>>, <<MSub2(3, 3)>>, <<MSub2(5, 2)>>,
    <<MSub2(2, 0)>>, <<MSub2(-2, 9)>>,
    <<MRepl(<<"-">>, <<"/">>)>>, <<MRepl(<<"b">>, <<>>)>>, <<MRepl(<<"C", "-">>, <<"x", "y", "z">>)>>, <<MRepl(<<"q">>, <<"w">>)>>,
    <<MLower, MSub2(1, 3)>>, <<MUpper, MSub1(2)>>, <<MLower, MUpper>>, <<MUpper, MLower>>,
    <<MLower, MRepl(<<"b">>, <<>>), MSub2(0, 4)>>,
    <<MSub2(0, 5), MUpper, MSub1(-2)>>,
    <<MUpper, MLower, MSub2(2, 6), MRepl(<<"-">>, <<>>)>>,
    <<MRepl(<<"E">>, <<"e", "e">>), MLower, MSub1(6)>>,
    <<MSub1(1), MSub1(1), MSub2(0, -1)>>,
    <<MRepl(<<"x">>, <<"A", "b">>), MUpper>> }
HdrNames == {"X-Tok", "x-tok"}
HeaderCase(h, st, nm, mods) == [kind |-> "post", resp |-> Resp(st, h, "obj"), chain |-> <<PHeader("v1", nm, mods)>>]
HeaderInit == \E h \in Hdrs, nm \in HdrNames, mods \in ModChains :
                 /\ (h # "absent" => ModsPinned(mods, HdrVal(h)))
                 /\ \E st \in (IF mods = <<>> THEN {200, 404} ELSE {200}) : cs = HeaderCase(h, st, nm, mods)

(* var/jsonpath: paths that exist (every kind of value), that do not, on every body letter *)
JPaths == { <<PKey(cTok)>>, <<PKey(cNum)>>, <<PKey(cBig)>>, <<PKey(cNeg)>>, <<PKey(cFlt)>>, <<PKey(cOk)>>, <<PKey(cNil)>>,
            <<PKey(cObj), PKey(cIn)>>, <<PKey(cObj)>>, <<PKey(cList), PIdx(0)>>, <<PKey(cList), PIdx(2)>>, <<PKey(cList)>>,
            <<PKey(cList), PIdx(5)>>, <<PKey(cZz)>>, <<PKey(cObj), PKey(cZz)>>, <<PIdx(0)>>, <<PIdx(1), PKey(cTok)>>, <<PIdx(7)>> }
JsonCase(b, st, path) == [kind |-> "post", resp |-> Resp(st, "long", b), chain |-> <<PJson("v1", path)>>]
JsonInit == \E b \in Bodies, path \in JPaths : \E st \in (IF Len(path) = 1 THEN {200, 404} ELSE {200}) : cs = JsonCase(b, st, path)

(* var/xpath *)
XQs == {XQ("id", cTok), XQ("class", cC), XQ("id", cZz), XQ("p", <<>>), XQ("count", <<>>)}
XpathCase(b, q) == [kind |-> "post", resp |-> Resp(200, "short", b), chain |-> <<PXpath("v2", q)>>]
XpathInit == \E b \in Bodies, q \in XQs : cs = XpathCase(b, q)

(* assert/response: every predicate alone, the size predicate with and without body patterns, combinations *)
SizeOps == {"eq", "lt", "gt", "=", "<", ">"}
HPats == {<<"b", "C", "-">>, <<"x", "Y">>, cZz, <<"1", "2">>}
BPats == {<<cTok>>, <<cTok, cJ7>>, <<cZz>>, <<cJ7, cZz>>}
AssertCase(r, as) == [kind |-> "post", resp |-> r, chain |-> <<PJson("v1", <<>>), as>>]
\* (the assertion comes alone: a chain of one)
Assert1(r, as) == [kind |-> "post", resp |-> r, chain |-> <<as>>]
SizeOK(b, delta) == ~(b = "empty" /\ delta < 0)          \* a negative val is rejected by the configuration
AssertInit ==
    \/ \E h \in Hdrs, pat \in HPats : cs = Assert1(Resp(200, h, "obj"), PAssert(TRUE, pat, <<>>, 0, FALSE, 0, ""))
    \/ \E b \in Bodies, bp \in BPats : cs = Assert1(Resp(200, "long", b), PAssert(FALSE, <<>>, bp, 0, FALSE, 0, ""))
    \/ \E st \in {200, 404}, want \in {200, 404} : cs = Assert1(Resp(st, "long", "obj"), PAssert(FALSE, <<>>, <<>>, want, FALSE, 0, ""))
    \/ \E b \in Bodies, op \in SizeOps, delta \in {-1, 0, 1}, bp \in {<<>>, <<cTok>>} :
          SizeOK(b, delta) /\ cs = Assert1(Resp(200, "long", b), PAssert(FALSE, <<>>, bp, 0, TRUE, delta, op))
    \/ \E r \in Responses, delta \in {-1, 1} :
          SizeOK(r.body, delta) /\ cs = Assert1(r, PAssert(TRUE, <<"b", "C", "-">>, <<cTok>>, 200, TRUE, delta, ">"))

(* chains of several processors, in different orders, on every response letter *)
Chains == {
    <<PJson("v1", <<PKey(cTok)>>), PHeader("v2", "X-Tok", <<MLower, MSub2(0, 3)>>), PXpath("v3", XQ("id", cTok))>>,
    <<PHeader("v1", "X-Tok", <<MUpper>>), PAssert(FALSE, <<>>, <<>>, 200, FALSE, 0, ""), PJson("v2", <<PKey(cNum)>>)>>,
    <<PAssert(TRUE, <<"b", "C">>, <<>>, 0, FALSE, 0, ""), PHeader("v3", "x-tok", <<MSub1(0)>>)>>,
    <<PXpath("v1", XQ("class", cC)), PXpath("v1", XQ("id", cTok)), PHeader("v2", "X-Tok", <<>>)>>,       \* a later capture overwrites
    <<PHeader("v1", "X-Tok", <<>>), PHeader("v2", "X-Tok", <<MLower>>), PHeader("v3", "X-Tok", <<MUpper>>)>>,
    <<PJson("v3", <<PKey(cList), PIdx(1)>>), PAssert(FALSE, <<>>, <<cM1>>, 0, TRUE, 1, "lt")>>,
    <<PXpath("v2", XQ("id", cZz)), PAssert(FALSE, <<>>, <<cX5>>, 0, FALSE, 0, "")>>,
    <<PAssert(FALSE, <<>>, <<>>, 0, TRUE, 0, "eq"), PAssert(FALSE, <<>>, <<>>, 0, TRUE, -1, "gt"), PHeader("v1", "X-Tok", <<MSub1(0)>>)>> }
ChainInit == \E r \in Responses, ch \in Chains :
                /\ \A i \in 1..Len(ch) : (ch[i].kind = "assert" /\ ch[i].as.son) => SizeOK(r.body, ch[i].as.delta)
                /\ \A i \in 1..Len(ch) : (ch[i].kind = "header" /\ r.hdr # "absent") => ModsPinned(ch[i].mods, HdrVal(r.hdr))
                /\ cs = [kind |-> "post", resp |-> r, chain |-> ch]

(* variable functions: in a preprocessor mapping, in a template, in a `variables` source *)
Fns == { Fn("randInt", 0, 0, 0, <<>>), Fn("randInt", 1, 7, 0, <<>>), Fn("randInt", 1, 1, 0, <<>>), Fn("randInt", 2, 100, 103, <<>>),
         Fn("randInt", 2, 20, 10, <<>>), Fn("randInt", 2, -5, -2, <<>>), Fn("randInt", 2, 1000000000, 1000000009, <<>>),
         Fn("randString", 0, 0, 0, <<>>), Fn("randString", 1, 12, 0, <<>>), Fn("randString", 2, 6, 0, <<"a", "b", "c">>),
         Fn("randString", 2, 30, 0, <<"Z">>), Fn("randString", 1, 1, 0, <<>>),
         Fn("uuid", 0, 0, 0, <<>>) }
FnInit == \E fn \in Fns, where \in {"pre", "tmpl", "src"} : cs = [kind |-> "fn", where |-> where, fn |-> fn]

Init == HeaderInit \/ JsonInit \/ XpathInit \/ AssertInit \/ ChainInit \/ FnInit
Next == UNCHANGED cs

-----------------------------------------------------------------------------
(* design-level invariants (independent readings) *)
NominalLen(b) == IF b = "empty" THEN 0 ELSE 40
Post == cs.kind = "post"
E == Expected(cs, NominalLen(cs.resp.body))

\* a failed step has no variables; a step that does not fail gives every variable a text
Total == Post => /\ E.fail \in BOOLEAN
                 /\ \A v \in Vars : IF E.fail THEN E.vals[v] = <<>> ELSE Len(E.vals[v]) \in 0..64
\* the size predicate is about the body that was received: the verdict of an assertion does not change when a body
\* pattern that DOES occur in the body is added to it
SizeSeesBody == Post => \A i \in 1..Len(cs.chain) :
    LET p == cs.chain[i] IN
    (p.kind = "assert" /\ p.as.son) =>
        \A t \in BodyTokens(cs.resp.body) :
            AssertHolds(p.as, cs.resp, NominalLen(cs.resp.body))
              = AssertHolds([p.as EXCEPT !.body = Append(@, t)], cs.resp, NominalLen(cs.resp.body))
\* a body of exactly val bytes: eq holds, lt and gt do not
Boundary == Post => \A i \in 1..Len(cs.chain) :
    LET p == cs.chain[i] IN
    (p.kind = "assert" /\ p.as.son /\ p.as.delta = 0 /\ p.as.body # <<>>) =>
        (SizeHolds(p.as.op, 0) <=> p.as.op \in {"eq", "="})
\* adding a predicate never turns a failing assertion into a passing one (checked against the status predicate)
Monotone == Post => \A i \in 1..Len(cs.chain) :
    LET p == cs.chain[i] IN
    (p.kind = "assert" /\ p.as.status = 0 /\ ~AssertHolds(p.as, cs.resp, NominalLen(cs.resp.body))) =>
        ~AssertHolds([p.as EXCEPT !.status = cs.resp.status], cs.resp, NominalLen(cs.resp.body))
\* modifiers never lengthen a value beyond what replace can add, lower / upper keep the length, substr yields a part
ModsSane == (Post /\ cs.resp.hdr # "absent") => \A i \in 1..Len(cs.chain) :
    LET p == cs.chain[i] IN
    (p.kind = "header" /\ \A j \in 1..Len(p.mods) : p.mods[j].m # "replace") =>
        LET out == ApplyMods(p.mods, HdrVal(cs.resp.hdr))
        IN /\ Len(out) <= Len(HdrVal(cs.resp.hdr))
           /\ (\A j \in 1..Len(p.mods) : p.mods[j].m # "substr") => Len(out) = Len(HdrVal(cs.resp.hdr))
           /\ Contains(LowerS(HdrVal(cs.resp.hdr)), LowerS(out))

\* the documents the cases refer to, exported once (the driver renders them to JSON / HTML text)
ASSUME PrintT(<<"VERIFDOC", ToJson([obj |-> ObjDoc, arr |-> ArrDoc, html |-> HtmlDivs, notjson |-> <<cTok, cJ7>>,
                                    long |-> HLong, short |-> HShort])>>)
Export == PrintT(<<"VERIF", ToJson(cs)>>)
=============================================================================
