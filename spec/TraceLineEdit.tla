--------------------------- MODULE TraceLineEdit ---------------------------
(***************************************************************************)
(* C13 line-edit trace specification.  One NDJSON line per case TLC         *)
(* enumerated from LineEdit and the driver applied to the lines of a valid  *)
(* file: {k:"ledit", lc:<case>, obs:{res, delivered, same, invalid_at}}.    *)
(* The expectation is RE-COMPUTED here from the echoed case by the abstract *)
(* reader of the module.                                                    *)
(***************************************************************************)
EXTENDS LineEdit, Json, IOUtils

VARIABLE l

Trace == ndJsonDeserialize(IOEnv.VERIF_TRACE)
Chunk == 16

TInit == l = 0 /\ cs = [format |-> "-"] /\ phase = "trace"
TNext == /\ \/ l = 0 /\ l' \in {j \in 1..Len(Trace) : j % Chunk = 1}
            \/ l > 0 /\ l % Chunk # 0 /\ l < Len(Trace) /\ l' = l + 1
         /\ UNCHANGED <<cs, phase>>

R == Trace[IF l = 0 THEN 1 ELSE l]
C == [format |-> R.lc.format, mode |-> R.lc.mode, n |-> R.lc.n, e |-> [op |-> R.lc.e.op, i |-> R.lc.e.i, w |-> R.lc.e.w]]
X == Expect(C)

\* the line is a case of the module
KnownLineEdit == l > 0 => IsCase(C)
\* outcome alphabet: no panic, no crash, no hang - Run returned
LineOutcome   == l > 0 => R.obs.res \in {"ok", "error"}
\* the entries wholly in front of the edited line are delivered first and unchanged
LinePrefix    == l > 0 => R.obs.same >= Intact(C)
\* the expectation of the abstract reader, where it has one
LineVerdict ==
    (l > 0 /\ X.res # "unknown") =>
        /\ R.obs.res = X.res
        /\ R.obs.delivered = X.delivered
        /\ R.obs.invalid_at = X.inv
        /\ (X.exact => R.obs.same = X.same)
=============================================================================
