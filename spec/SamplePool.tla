----------------------------- MODULE SamplePool ------------------------------
(***************************************************************************)
(* C10 - life-cycle of the pooled netsample.Sample objects.                *)
(*                                                                         *)
(* Samples are recycled through a process-wide pool                        *)
(* (core/aggregator/netsample/sample.go: Acquire / releaseSample):         *)
(*                                                                         *)
(*   Acquire(tag)      a gun (ammo.Request) takes ANY pooled object, or a  *)
(*                     brand-new one, and re-initialises it                *)
(*   fill              the gun writes into it FIELD BY FIELD: SetID, tags, *)
(*                     SetProtoCode when a status arrived, SetErr (net     *)
(*                     code) when the exchange failed, request / response  *)
(*                     sizes and phase timings when httptrace is on; a     *)
(*                     field the shot has no reason to write is left as    *)
(*                     Acquire made it                                     *)
(*   Report            the object goes into the aggregator's queue         *)
(*   discard           the engine reports a sample of its own making for a *)
(*                     shot it discarded (discard_overflow): tag           *)
(*                     "discarded", net 777 - NOT taken from the pool      *)
(*   aggregator        (phout) takes the next queued object, writes its    *)
(*                     line and only then puts the object into the pool -  *)
(*                     with everything the shot wrote still in it          *)
(*                                                                         *)
(* Property: a sample handed out by Acquire carries no residue of its      *)
(* previous use in any field that reaches the output (NoResidue), hence    *)
(* every written line codes the shot it belongs to and nothing else        *)
(* (LinesFaithful: proto, net zero / non-zero, tags, id, sizes) - whatever *)
(* object the pool hands out, whatever that object was used for before,    *)
(* and however shooting instances and the aggregator interleave.           *)
(*                                                                         *)
(* Variant (negative controls): "pool_keeps_net" (Acquire re-initialises   *)
(* field by field and forgets the net code), "pool_keeps_sizes" (forgets   *)
(* the size / timing columns), "release_early" (the aggregator puts the    *)
(* object back before it has written the line).  Releases = FALSE models   *)
(* an aggregator that keeps the samples (test mocks): with it even         *)
(* "pool_keeps_net" is invisible - which is why only runs through a        *)
(* releasing aggregator bind this part of the model to the code.           *)
(*                                                                         *)
(* The coding of one shot (HttpSample, __EMPTY__) is SampleCoding's; its   *)
(* state variables are not used here and stay as Init made them.           *)
(***************************************************************************)
EXTENDS SampleCoding

CONSTANTS Objs,        \* sample objects that may ever exist
          PInst,       \* shooting instances
          PoolShots,   \* shots + discards in one behaviour
          PoolKinds,   \* what a shot may be: [kind |-> "http", out, dump] | [kind |-> "discard"]
          Releases     \* the aggregator returns samples to the pool

None == "none"

\* ---- the content of a sample object, as far as it reaches the output ----
\*   tags (sequence), id, proto, net, sz (request/response sizes and phase timings: 0 = not set)
BlankSample == [tags |-> <<>>, id |-> 0, proto |-> 0, net |-> 0, sz |-> 0]

\* Acquire re-initialises the object it got (old = what the previous user left in it)
Reinit(old) == CASE Variant = "pool_keeps_net"   -> [BlankSample EXCEPT !.net = old.net]
                 [] Variant = "pool_keeps_sizes" -> [BlankSample EXCEPT !.sz = old.sz]
                 [] OTHER                        -> BlankSample

IsDiscard(c) == c.kind = "discard"
Dumps(c) == "dump" \in DOMAIN c /\ c.dump
\* errno-style code the gun derives from a failed exchange (the statement only says non-zero)
ErrnoOf(o) == IF o.kind = "refused" THEN 111 ELSE IF o.kind = "timeout" THEN 110 ELSE 999

\* what the http gun writes into the sample s it acquired, for a shot of kind c with ammo id `id`: only the fields it
\* has a reason to write
FillOn(s, c, id) ==
    LET h == HttpSample(c.out)
    IN  [s EXCEPT !.id    = id,
                  !.tags  = IF @ = <<>> THEN <<"__EMPTY__">> ELSE @,
                  !.proto = IF c.out.kind \in {"status", "truncated", "resetbody"} THEN h.proto ELSE @,
                  !.net   = IF h.netzero THEN @ ELSE ErrnoOf(c.out),
                  !.sz    = IF Dumps(c) THEN 1 ELSE @]
\* the engine's sample for a discarded shot
DiscardSample == [tags |-> <<"discarded">>, id |-> 0, proto |-> 0, net |-> 777, sz |-> 0]

\* ---- what a written line must look like for the shot it belongs to ----
\* (sz: a gun without httptrace leaves the columns at 0; with it they are whatever was measured.  A discarded shot was
\* never fired: the statement says nothing about its line beyond that it is the engine's own, so only its tag is fixed.)
LineOK(c, id, line) ==
    IF IsDiscard(c) THEN line.tags = <<"discarded">>
    ELSE LET e == Expected([kind |-> "http", out |-> c.out])[1]
         IN  /\ line.tags = e.tags
             /\ line.proto = e.proto
             /\ (line.net = 0) = (e.net = "zero")
             /\ line.id = id
             /\ (Dumps(c) \/ line.sz = 0)

-----------------------------------------------------------------------------
VARIABLES pobj,    \* object -> [st: "new" | "held" | "queued" | "pooled" | "written", v: content, uses: times handed out]
          pheld,   \* instance -> the object it holds, or None
          pshot,   \* instance -> [c, id] of its current shot
          pph,     \* instance -> "idle" | "acquired" | "filled"
          pq,      \* the aggregator's queue (objects, FIFO)
          pw,      \* release_early only: the object whose line is still to be written, or None
          pwc,     \* ... and the shot it was reported for
          pqc,     \* the shots the queued objects were reported for (same order as pq)
          pfile,   \* the written lines: <<[line, c, id]>>
          pn       \* shots started so far (= last ammo id)
pvars == <<pobj, pheld, pshot, pph, pq, pw, pwc, pqc, pfile, pn>>

PInit == /\ Init
         /\ pobj = [o \in Objs |-> [st |-> "new", v |-> BlankSample, uses |-> 0]]
         /\ pheld = [i \in PInst |-> None] /\ pshot = [i \in PInst |-> [c |-> [kind |-> "none"], id |-> 0]]
         /\ pph = [i \in PInst |-> "idle"]
         /\ pq = <<>> /\ pqc = <<>> /\ pw = None /\ pwc = [c |-> [kind |-> "none"], id |-> 0] /\ pfile = <<>> /\ pn = 0

\* the pool hands out any pooled object, or makes a new one
PAcquire(i) == /\ pph[i] = "idle" /\ pn < PoolShots
               /\ \E c \in {k \in PoolKinds : ~IsDiscard(k)} : \E o \in {x \in Objs : pobj[x].st \in {"new", "pooled"}} :
                     /\ pobj' = [pobj EXCEPT ![o] = [st |-> "held", v |-> Reinit(@.v), uses |-> @.uses + 1]]
                     /\ pheld' = [pheld EXCEPT ![i] = o]
                     /\ pshot' = [pshot EXCEPT ![i] = [c |-> c, id |-> pn + 1]]
               /\ pn' = pn + 1
               /\ pph' = [pph EXCEPT ![i] = "acquired"]
               /\ UNCHANGED <<pq, pqc, pw, pwc, pfile>>

PFill(i) == /\ pph[i] = "acquired"
            /\ pobj' = [pobj EXCEPT ![pheld[i]].v = FillOn(@, pshot[i].c, pshot[i].id)]
            /\ pph' = [pph EXCEPT ![i] = "filled"]
            /\ UNCHANGED <<pheld, pshot, pq, pqc, pw, pwc, pfile, pn>>

PReport(i) == /\ pph[i] = "filled"
              /\ pobj' = [pobj EXCEPT ![pheld[i]].st = "queued"]
              /\ pq' = Append(pq, pheld[i]) /\ pqc' = Append(pqc, pshot[i])
              /\ pheld' = [pheld EXCEPT ![i] = None]
              /\ pph' = [pph EXCEPT ![i] = "idle"]
              /\ UNCHANGED <<pshot, pw, pwc, pfile, pn>>

\* the engine discards a shot: a sample of its own making (a fresh object, not from the pool) is reported
PDiscard(i) == /\ pph[i] = "idle" /\ pn < PoolShots /\ [kind |-> "discard"] \in PoolKinds
               /\ \E o \in {x \in Objs : pobj[x].st = "new"} :
                     /\ pobj' = [pobj EXCEPT ![o] = [st |-> "queued", v |-> DiscardSample, uses |-> 1]]
                     /\ pq' = Append(pq, o) /\ pqc' = Append(pqc, [c |-> [kind |-> "discard"], id |-> 0])
               /\ pn' = pn + 1
               /\ UNCHANGED <<pheld, pshot, pph, pw, pwc, pfile>>

WriteLine(o, sc) == pfile' = Append(pfile, [line |-> pobj[o].v, c |-> sc.c, id |-> sc.id])
\* the aggregator handles the next queued sample: writes its line, then gives the object back
AggHandle == /\ Variant # "release_early" /\ pq # <<>>
             /\ WriteLine(Head(pq), Head(pqc))
             /\ pobj' = [pobj EXCEPT ![Head(pq)].st = IF Releases THEN "pooled" ELSE "written"]
             /\ pq' = Tail(pq) /\ pqc' = Tail(pqc)
             /\ UNCHANGED <<pheld, pshot, pph, pw, pwc, pn>>
\* negative control: the object is given back first and its line written afterwards
AggTakeEarly == /\ Variant = "release_early" /\ pq # <<>> /\ pw = None
                /\ pw' = Head(pq) /\ pwc' = Head(pqc)
                /\ pobj' = [pobj EXCEPT ![Head(pq)].st = "pooled"]
                /\ pq' = Tail(pq) /\ pqc' = Tail(pqc)
                /\ UNCHANGED <<pheld, pshot, pph, pfile, pn>>
AggWriteLate == /\ Variant = "release_early" /\ pw # None
                /\ WriteLine(pw, pwc)
                /\ pw' = None
                /\ UNCHANGED <<pobj, pheld, pshot, pph, pq, pqc, pwc, pn>>

PNext == /\ \/ \E i \in PInst : PAcquire(i) \/ PFill(i) \/ PReport(i) \/ PDiscard(i)
            \/ AggHandle \/ AggTakeEarly \/ AggWriteLate
         /\ UNCHANGED vars

-----------------------------------------------------------------------------
\* a sample handed out by Acquire carries nothing of its previous use
NoResidue == \A i \in PInst : pph[i] = "acquired" => pobj[pheld[i]].v = BlankSample
\* every written line codes the shot it was reported for
LinesFaithful == \A k \in DOMAIN pfile : LineOK(pfile[k].c, pfile[k].id, pfile[k].line)
\* an object is in one place at a time: held by at most one instance, never held while queued / pooled
Exclusive == /\ \A i, j \in PInst : (i # j /\ pheld[i] # None) => pheld[i] # pheld[j]
             /\ \A i \in PInst : pheld[i] # None => pobj[pheld[i]].st = "held"
             /\ \A k \in DOMAIN pq : pobj[pq[k]].st = "queued"
             /\ \A k1, k2 \in DOMAIN pq : k1 # k2 => pq[k1] # pq[k2]
\* nothing is lost: once everybody is idle and the queue is drained, the file has one line per shot, in report order
AllWritten == (pq = <<>> /\ pw = None /\ \A i \in PInst : pph[i] = "idle") => Len(pfile) = pn
\* the pool does recycle (otherwise the rest would be vacuous): NeverRecycled must FAIL (SamplePool_neg_recycles.cfg)
NeverRecycled == \A o \in Objs : pobj[o].uses <= 1
=============================================================================
