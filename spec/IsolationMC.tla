----------------------------- MODULE IsolationMC -----------------------------
EXTENDS Isolation, Json, SequencesExt, IOUtils

CONSTANTS InstChoices, ShotsPerRun
I2 == {0, 1}
I3 == {0, 1, 2}
G3 == {1, 2, 3}
G4 == {1, 2, 3, 4}
T3 == {"t1", "t2", "t3"}
T4 == {"t1", "t2", "t3", "t4"}
T2 == {"t1", "t2"}
G2 == {1, 2}
NoSamples == {}
S2 == {"s1", "s2"}
S3 == {"s1", "s2", "s3"}
N8 == {8}
NMany == {2, 8, 16}

(* the run matrix of the conformance runs: every supported pool kind, shared-client on/off where
   the gun has the option (the gRPC scenario gun has none), the instance counts *)
Kinds == {"grpc", "grpc/scenario", "http", "http/scenario"}
HasSharedClient(k) == k # "grpc/scenario"
RunMatrix == {[kind |-> k, shared |-> s, inst |-> n, shots |-> ShotsPerRun + 8 * (atoi(IOEnv.VERIF_SEED) % 4)] :
                 k \in Kinds, s \in BOOLEAN, n \in InstChoices}
Runs == SetToSeq({r \in RunMatrix : r.shared => HasSharedClient(r.kind)})
GenInit == Init /\ PrintT(<<"VERIF", ToJson([runs |-> Runs])>>)
GenNext == UNCHANGED vars
=============================================================================
