----------------------------- MODULE IsolationMC -----------------------------
EXTENDS Isolation, Json, SequencesExt, IOUtils

CONSTANTS InstChoices, ShotsPerRun
I2 == {0, 1}
I3 == {0, 1, 2}
G3 == {1, 2, 3}
G4 == {1, 2, 3, 4}
T3 == {"t1", "t2", "t3"}
T4 == {"t1", "t2", "t3", "t4"}
T2 == {"t1", "t2"}
G2 == {1, 2}
NoSamples == {}
NoScheds == {}
NoAmmos == {}
A2 == {"a1", "a2"}
Sch2 == {1, 2}
Sch3 == {1, 2, 3}
S2 == {"s1", "s2"}
S3 == {"s1", "s2", "s3"}
N8 == {8}
NMany == {2, 8, 16}

(* the run matrix of the conformance runs: every supported pool kind, shared-client on/off where
   the gun has the option (the gRPC scenario gun has none), the instance counts *)
Kinds == {"grpc", "grpc/scenario", "http", "http/scenario"}
HasSharedClient(k) == k # "grpc/scenario"
RunMatrix == {[kind |-> k, shared |-> s, inst |-> n, shots |-> ShotsPerRun + 8 * (atoi(IOEnv.VERIF_SEED) % 4)] :
                 k \in Kinds, s \in BOOLEAN, n \in InstChoices}
(* rps-per-instance runs: `rps` is a LIST of parts (a composite schedule whose nested parts are created by the
   config decode of every product of the NewRPSSchedule factory), `startup` a list too.  Every instance
   must shoot the FULL profile: klo..khi tokens, computed from the configuration by StartupMath. *)
SM == INSTANCE StartupMath
Ms(n) == SM!FromInt(n * 1000000)                   \* milliseconds -> ns limbs
OnceI(n) == [ctor |-> "once", times |-> n, ops |-> 0, dur_ms |-> 0, from_m |-> 0, dur |-> <<>>]
ConstI(ops, ms) == [ctor |-> "const", times |-> 0, ops |-> ops, dur_ms |-> ms, from_m |-> ops * 1000, dur |-> Ms(ms)]
Profiles == <<  <<OnceI(3), ConstI(20, 220)>>,  <<OnceI(2), ConstI(30, 150), OnceI(2)>>  >>
Cfg(p) == [i \in 1..Len(p) |-> [ctor |-> p[i].ctor, times |-> p[i].times, ops |-> p[i].ops, dur_ms |-> p[i].dur_ms]]
PerInst(k, n, p) == [kind |-> k, shared |-> FALSE, inst |-> n, perinst |-> TRUE, rps |-> Cfg(p),
                     klo |-> SM!CountLo(p), khi |-> SM!CountHi(p),
                     startup |-> <<2, n - 2>>, shots |-> n * SM!CountHi(p) + n]
PerInstRuns == <<PerInst("http", 3, Profiles[1]), PerInst("http", 8, Profiles[2]), PerInst("grpc", 5, Profiles[1])>>
NoDiscard == [discard |-> FALSE, delay_ms |-> 0, queue |-> 0, dns |-> FALSE, reps |-> 1]
Plain(r) == r @@ [perinst |-> FALSE, rps |-> <<>>, klo |-> 0, khi |-> 0, startup |-> <<r.inst>>] @@ NoDiscard
SharedRuns == SetToSeq({r \in RunMatrix : r.shared => HasSharedClient(r.kind)})
(* discard runs: discard_overflow: true, a SHARED rps list [once, const] and guns whose first shot takes 2.2 s, so
   that every instance is >= 2 s behind the schedule when it comes back: the rest of the `once` tokens and the
   first `const` tokens are DISCARDED (the engine gives the acquired ammo back without shooting), later tokens are
   shot.  Providers that recycle ammo objects through a pool: grpc/json and the generic json provider
   (small ammo queue, so that objects really are recycled).  Only lower bounds on lateness are used. *)
DiscardRun(k, n, q) == [kind |-> k, shared |-> FALSE, inst |-> n, perinst |-> FALSE,
                        rps |-> <<[ctor |-> "once", times |-> 40, ops |-> 0, dur_ms |-> 0],
                                  [ctor |-> "const", times |-> 0, ops |-> 200, dur_ms |-> 2600]>>, klo |-> 0, khi |-> 0, startup |-> <<n>>,
                        shots |-> 700, discard |-> TRUE, delay_ms |-> 2200, queue |-> q, dns |-> FALSE, reps |-> 1]
DiscardRuns == <<DiscardRun("grpc", 6, 0), DiscardRun("json", 4, 16)>>
(* dns runs: the HTTP-family guns share ONE process-wide DNS cache that is only in use when the target is a host name that
   could not be resolved / reached while the guns were constructed: nothing listens during the config decode, the target
   is up when the instances start and all of them dial by name at once.  The cache is filled once per process, so the
   race-monitor mode repeats the run (a fresh process each time). *)
DnsRun(k, s, n, reps) == [Plain([kind |-> k, shared |-> s, inst |-> n, shots |-> 4 * n]) EXCEPT !.dns = TRUE, !.reps = reps]
DnsReps == IF 16 \in InstChoices THEN 8 ELSE 3
DnsRuns == <<DnsRun("http", FALSE, 8, DnsReps), DnsRun("http/scenario", FALSE, 8, DnsReps)>>
Runs == [i \in 1..Len(SharedRuns) |-> Plain(SharedRuns[i])]
        \o [i \in 1..Len(PerInstRuns) |-> PerInstRuns[i] @@ NoDiscard] \o DiscardRuns \o DnsRuns
GenInit == Init /\ PrintT(<<"VERIF", ToJson([runs |-> Runs])>>)
GenNext == UNCHANGED vars
=============================================================================
