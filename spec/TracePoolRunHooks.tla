-------------------------- MODULE TracePoolRunHooks --------------------------
(***************************************************************************)
(* C05, binding to pandora's OWN tests: every engine / pool run made by    *)
(* the repository's test binaries (`go test -tags verif ./core/engine/...  *)
(* ./tests/acceptance/...`, recorded by the file sink of core/engine's     *)
(* verif hooks) must be a behaviour of PoolRun.tla.                        *)
(*                                                                         *)
(* Only the HOOK events exist here (the tests use their own mocks, real    *)
(* providers, guns and aggregators):                                       *)
(*   await goroutine   AwaitProvider/Aggregator/Start/Instance,            *)
(*                     ErrForwarded, ErrSuppressed, AllInstancesFinished   *)
(*   other goroutines  PoolReturn, WaitDone, EngineReturn                  *)
(* They are bound to the SAME actions of PoolRun.tla as in                 *)
(* TracePoolRun.tla (the engine's code: Engine.Run, instancePool.Run, the  *)
(* await loop, onErrAwaited, checkAllInstancesAreFinished, the contexts).  *)
(* What the tests' components do is not scripted by a fault plan: the      *)
(* ENVIRONMENT is the most general one.  A provider / aggregator Run may   *)
(* return any value at any time, the startup schedule may hand out any     *)
(* number of tokens (<= MaxN), an instance creation may fail, an instance  *)
(* may end with any result (the context error only when its run context is *)
(* done), a shared schedule may finish once an instance exists, warm-up /  *)
(* schedule creation may fail, the caller may cancel (only if the run      *)
(* header says that the test can: flag).  These G* actions write the same  *)
(* variables as the scripted component actions of PoolRun.tla and are      *)
(* supersets of them, so a test that deliberately fails a component is a   *)
(* legal behaviour.  An environment step is taken just in time (when the   *)
(* line that reports its result is the next line): it commutes with every  *)
(* step in between, so no behaviour is lost and TLC has fewer orders to    *)
(* try.                                                                    *)
(*                                                                         *)
(* A run is ACCEPTED when all its lines are consumed (safety, prefix       *)
(* closed: a test process may end before its background goroutines do).    *)
(* Trace file: "Run" line {run, n = pools, flag = caller may cancel},      *)
(* n "Pool" lines {p, flag = an onWaitDone callback exists}, hook lines.   *)
(***************************************************************************)
EXTENDS PoolRunMC, IOUtils

CONSTANTS Diag

VARIABLES l, run, last, retLogged, fwdLogged, wdLogged, wdHooked, engLogged

aux == <<retLogged, fwdLogged, wdLogged, wdHooked, engLogged>>
pos == <<run, last>>
tvars == <<vars, l, pos, aux>>

Trace == ndJsonDeserialize(IOEnv.VERIF_TRACE)
Ev == Trace[l]

GenPool == [n |-> MaxN, closable |-> FALSE, fault |-> "generic", shape |-> "generic"] @@ Base
GenPlan(np, mayCancel) == [id |-> 0, cancel |-> mayCancel, pools |-> [p \in 1..np |-> GenPool]]

\* index of the last line of the run that starts at s
LastOf(s) == LET later == {j \in (s + 1)..Len(Trace) : Trace[j].ev = "Run"}
             IN IF later = {} THEN Len(Trace) ELSE (CHOOSE j \in later : \A k \in later : j <= k) - 1

TInit ==
  \E s \in {i \in 1..Len(Trace) : Trace[i].ev = "Run"} :
    /\ l = s + 1 + Trace[s].n /\ run = Trace[s].run /\ last = LastOf(s)
    /\ InitFor(GenPlan(Trace[s].n, Trace[s].flag))
    /\ retLogged = [p \in 1..Trace[s].n |-> FALSE]
    /\ fwdLogged = [p \in 1..Trace[s].n |-> FALSE]
    /\ wdLogged = [p \in 1..Trace[s].n |-> 0]
    /\ wdHooked = [p \in 1..Trace[s].n |-> Trace[s + p].flag]
    /\ engLogged = FALSE

Have(e) == l <= last /\ Ev.ev = e
HaveP(e, p) == l <= last /\ Ev.ev = e /\ Ev.p = p
Consume == l' = l + 1 /\ UNCHANGED pos /\ (Diag => PrintT(<<"VERIF-HW", run, l>>))

\* lines of this run still to come
Later(p, e) == {j \in l..last : Trace[j].ev = e /\ Trace[j].p = p}
First(S) == CHOOSE j \in S : \A k \in S : j <= k

PRet(e) == IF e.cls = "err" THEN Ret("err", e.c) ELSE Ret(e.cls, "")

(* ======================================================================= *)
(* hook lines: the engine's own steps (as in TracePoolRun.tla)             *)
(* ======================================================================= *)
\* written by Run's deferred function: after the loop decided the result (a silent EngRecv / EngCancel; only a run
\* that has an EngineReturn line is an Engine.Run call), before the deferred cancel()
TEngineReturn ==
  /\ Have("EngineReturn") /\ engRet.k # "none" /\ ~engLogged
  /\ engLogged' = TRUE
  /\ Consume /\ UNCHANGED <<vars, retLogged, fwdLogged, wdLogged, wdHooked>>

TPoolReturn ==
  /\ Have("PoolReturn") /\ ~retLogged[Ev.p]
  /\ retLogged' = [retLogged EXCEPT ![Ev.p] = TRUE]
  /\ \/ /\ poolPc[Ev.p] \in {"ret", "report", "done"} /\ poolRet[Ev.p] = PRet(Ev)
        /\ UNCHANGED vars
     \/ \* Run received the error and logged its return before the await goroutine logged ErrForwarded
        /\ poolPc[Ev.p] = "select" /\ aw[Ev.p].pc = "onerr" /\ Ev.cls = "err" /\ aw[Ev.p].pend = Ev.c
        /\ ForwardErr(Ev.p)
  /\ Consume /\ UNCHANGED <<fwdLogged, wdLogged, wdHooked, engLogged>>

TWaitDone ==
  /\ Have("WaitDone") /\ wdHooked[Ev.p] /\ wdLogged[Ev.p] < wdCount[Ev.p]
  /\ wdLogged' = [wdLogged EXCEPT ![Ev.p] = @ + 1]
  /\ Consume /\ UNCHANGED <<vars, retLogged, fwdLogged, wdHooked, engLogged>>

TAwaitProvider == Have("AwaitProvider") /\ provCh[Ev.p] = Ev.cls /\ AwaitProvider(Ev.p) /\ Consume /\ UNCHANGED aux
TAwaitAggregator == Have("AwaitAggregator") /\ aggCh[Ev.p] = Ev.cls /\ AwaitAggregator(Ev.p) /\ Consume /\ UNCHANGED aux
TAwaitStart == /\ Have("AwaitStart") /\ startCh[Ev.p].n = Ev.n /\ startCh[Ev.p].c = Ev.cls
               /\ AwaitStart(Ev.p) /\ Consume /\ UNCHANGED aux
TAwaitInstance == Have("AwaitInstance") /\ AwaitInstance(Ev.p, [id |-> Ev.n, c |-> Ev.cls]) /\ Consume /\ UNCHANGED aux
TAllFinished == Have("AllInstancesFinished") /\ aw[Ev.p].awaited = Ev.n /\ CheckAllFin(Ev.p) /\ Consume /\ UNCHANGED aux

TErrForwarded ==
  /\ Have("ErrForwarded") /\ ~fwdLogged[Ev.p]
  /\ fwdLogged' = [fwdLogged EXCEPT ![Ev.p] = TRUE]
  /\ \/ fwd[Ev.p] = "none" /\ aw[Ev.p].pend = Ev.cls /\ ForwardErr(Ev.p)
     \/ fwd[Ev.p] = Ev.cls /\ UNCHANGED vars
  /\ Consume /\ UNCHANGED <<retLogged, wdLogged, wdHooked, engLogged>>

TErrSuppressed == Have("ErrSuppressed") /\ aw[Ev.p].pend = Ev.cls /\ SuppressErr(Ev.p) /\ Consume /\ UNCHANGED aux

(* ======================================================================= *)
(* the most general environment (silent; each step just in time)           *)
(* ======================================================================= *)
AddFailed(p, c) == failed' = [failed EXCEPT ![p] = IF NotCtxValue(c) /\ c # "ooa" THEN @ \cup {c} ELSE @]

\* warmUpGun / runAsync succeed: the component goroutines and the await goroutine exist
GPoolStart(p) ==
  /\ poolPc[p] = "init"
  /\ poolPc' = [poolPc EXCEPT ![p] = "select"]
  /\ gunCalls' = [gunCalls EXCEPT ![p] = 1]
  /\ prov' = [prov EXCEPT ![p] = "run"]
  /\ agg' = [agg EXCEPT ![p] = "run"]
  /\ st' = [st EXCEPT ![p].pc = "first"]
  /\ aw' = [aw EXCEPT ![p].pc = "loop"]
  /\ UNCHANGED <<plan, engVars, poolRet, wdCount, ctxVars, provCh, ammoLeft, qClosed, aggCh, startCh, schedCalls, instVars, fwd, supp, failed>>

\* warm-up (gun factory, WarmUp) or the shared schedule factory fails: onWaitDone, the error is returned whatever the ctx
GPoolSyncFail(p) ==
  /\ poolPc[p] = "init" /\ Later(p, "PoolReturn") # {}
  /\ LET e == Trace[First(Later(p, "PoolReturn"))] IN e.cls = "err" /\ PoolFailSync(p, e.c, FixWaitDone)
  /\ gunCalls' = [gunCalls EXCEPT ![p] = 1]
  /\ UNCHANGED <<plan, engVars, ctxVars, provVars, aggVars, stVars, schedCalls, instVars, awVars>>

\* provider.Run / aggregator.Run return (any value, any time)
GProvEnd(p) ==
  /\ prov[p] = "run" /\ HaveP("AwaitProvider", p)
  /\ prov' = [prov EXCEPT ![p] = "done"]
  /\ provCh' = [provCh EXCEPT ![p] = Ev.cls]
  /\ qClosed' = [qClosed EXCEPT ![p] = TRUE]
  /\ AddFailed(p, Ev.cls)
  /\ UNCHANGED <<plan, engVars, poolVars, ctxVars, ammoLeft, aggVars, stVars, facVars, instVars, awVars>>

GAggEnd(p) ==
  /\ agg[p] = "run" /\ HaveP("AwaitAggregator", p)
  /\ agg' = [agg EXCEPT ![p] = "done"]
  /\ aggCh' = [aggCh EXCEPT ![p] = Ev.cls]
  /\ AddFailed(p, Ev.cls)
  /\ UNCHANGED <<plan, engVars, poolVars, ctxVars, provVars, stVars, facVars, instVars, awVars>>

\* startInstances: an instance is needed by the line at hand
NeedsInstance(p) == \/ HaveP("AwaitStart", p) /\ st[p].started < Ev.n
                    \/ HaveP("AwaitInstance", p) /\ Ev.n \in Insts /\ ipc[p][Ev.n] = "none" /\ st[p].started <= Ev.n

\* waiter.Wait(startCtx) fails before the first instance (no startup token, or start ctx done)
GStartNone(p) ==
  /\ st[p].pc = "first" /\ HaveP("AwaitStart", p) /\ Ev.n = 0
  /\ st' = [st EXCEPT ![p].pc = "ret"]
  /\ UNCHANGED <<plan, engVars, poolVars, ctxVars, provVars, aggVars, startCh, facVars, instVars, awVars, failed>>

\* the first instance is created synchronously ...
GStartFirstOk(p) ==
  /\ st[p].pc = "first" /\ ~StartDone(p) /\ NeedsInstance(p)
  /\ st' = [st EXCEPT ![p].pc = "loop", ![p].started = 1]
  /\ ipc' = [ipc EXCEPT ![p][0] = "check"]
  /\ gun' = [gun EXCEPT ![p][0] = "bound"]
  /\ UNCHANGED <<plan, engVars, poolVars, ctxVars, provVars, aggVars, startCh, facVars, itok, ishots, icls, closes, resBag, stok, awVars, failed>>

\* ... or its creation fails (schedule factory, gun factory, Bind): that is the start result
GStartFirstFail(p) ==
  /\ st[p].pc = "first" /\ ~StartDone(p) /\ HaveP("AwaitStart", p) /\ Ev.n = 0 /\ Ev.cls # "nil"
  /\ StartSend(p, 0, Ev.cls)
  /\ AddFailed(p, Ev.cls)
  /\ UNCHANGED <<plan, engVars, poolVars, ctxVars, provVars, aggVars, facVars, instVars, awVars>>

\* for ; waiter.Wait(startCtx); started++ { go runNewInstance }: one more token
GStartLoopNew(p) ==
  /\ st[p].pc = "loop" /\ ~StartDone(p) /\ st[p].started < MaxN /\ NeedsInstance(p)
  /\ ipc' = [ipc EXCEPT ![p][st[p].started] = "check"]
  /\ gun' = [gun EXCEPT ![p][st[p].started] = "bound"]
  /\ st' = [st EXCEPT ![p].started = @ + 1]
  /\ UNCHANGED <<plan, engVars, poolVars, ctxVars, provVars, aggVars, startCh, facVars, itok, ishots, icls, closes, resBag, stok, awVars, failed>>

\* ... or Wait fails (no more tokens, or start ctx done); then StartRet (PoolRun.tla) sends startCtx.Err()
GStartLoopEnd(p) ==
  /\ st[p].pc = "loop" /\ HaveP("AwaitStart", p) /\ Ev.n = st[p].started
  /\ st' = [st EXCEPT ![p].pc = "ret"]
  /\ UNCHANGED <<plan, engVars, poolVars, ctxVars, provVars, aggVars, startCh, facVars, instVars, awVars, failed>>

\* (taken only when it produces the logged value: whether the start ctx is seen done is decided by CtxProp before)
GStartRet(p) == HaveP("AwaitStart", p) /\ Ev.cls = (IF StartDone(p) THEN "ctx" ELSE "nil") /\ StartRet(p)

\* an instance ends: schedule finished (nil), out of ammo, a panic in Shoot, a failed asynchronous creation (any
\* error); the context error only when its run context is done
GInstEnd(p, i) ==
  /\ ipc[p][i] = "check" /\ HaveP("AwaitInstance", p) /\ Ev.n = i
  /\ Ev.cls = "ctx" => RunDone(p)
  /\ ipc' = [ipc EXCEPT ![p][i] = "done"]
  /\ resBag' = [resBag EXCEPT ![p] = @ \cup {[id |-> i, c |-> Ev.cls]}]
  /\ AddFailed(p, Ev.cls)
  /\ UNCHANGED <<plan, engVars, poolVars, ctxVars, provVars, aggVars, stVars, facVars, itok, ishots, icls, gun, closes, stok, awVars>>

\* the shared RPS schedule finished: the first instance to notice cancels the instance start
\* (it only matters for a start result that is the start context's error)
GSchedEnd(p) ==
  /\ st[p].started >= 1 /\ ~startCancelled[p] /\ HaveP("AwaitStart", p) /\ Ev.cls = "ctx"
  /\ startCancelled' = [startCancelled EXCEPT ![p] = TRUE]
  /\ UNCHANGED <<plan, engVars, poolVars, runCancelled, runClosed, startClosed, provVars, aggVars, stVars, facVars, instVars, awVars, failed>>

\* the propagation of a cancellation matters only for a line that reports a context error
GCtxProp(p) ==
  /\ l <= last /\ Ev.p = p /\ Ev.cls = "ctx" /\ Ev.ev \in {"AwaitProvider", "AwaitAggregator", "AwaitInstance", "AwaitStart"}
  /\ CtxProp(p)

\* the final select of instancePool.Run: its outcome is logged by PoolReturn right away
GPoolSelect(p) ==
  /\ HaveP("PoolReturn", p)
  /\ \/ Ev.cls = "ctx" /\ PoolSelectCancel(p)
     \/ Ev.cls = "nil" /\ PoolSelectClosed(p)

(* ---- silent steps ---- *)
\* Steps that disable no other step and whose effect does not depend on what other goroutines do in the meantime
\* (local bookkeeping of the await goroutine, instancePool.Run's deferred cancel, environment steps pinned to the
\* line at hand) are taken first: every behaviour that takes them later has a twin that takes them at once.
Urgent ==
  \E p \in Pools :
     \/ CheckAllNot(p) \/ AwaitExit(p) \/ PoolDefer(p)
     \/ GPoolStart(p) \/ GPoolSyncFail(p) \/ GProvEnd(p) \/ GAggEnd(p)
     \/ GStartNone(p) \/ GStartFirstOk(p) \/ GStartFirstFail(p) \/ GStartLoopNew(p) \/ GStartLoopEnd(p) \/ GStartRet(p)
     \/ \E i \in Insts : GInstEnd(p, i)

Relaxed ==
  \/ EngRecv /\ (engRet'.k = "none" \/ Later(0, "EngineReturn") # {})
  \/ EngCancel /\ Later(0, "EngineReturn") # {}
  \/ (engLogged /\ EngDefer) \/ UserCancel \/ UserCancelDo
  \/ \E p \in Pools : GPoolSelect(p) \/ PoolReportSend(p) \/ PoolReportSuppress(p) \/ GCtxProp(p) \/ GSchedEnd(p)

TSilent ==
  /\ l <= last
  /\ IF ENABLED Urgent THEN Urgent ELSE Relaxed
  /\ UNCHANGED <<l, pos, aux>>

TAccept ==
  /\ l = last + 1
  /\ PrintT(<<"VERIF-ACC", run>>)
  /\ l' = l + 1 /\ UNCHANGED <<vars, pos, aux>>

Logged ==
  \/ TEngineReturn \/ TPoolReturn \/ TWaitDone
  \/ TAwaitProvider \/ TAwaitAggregator \/ TAwaitStart \/ TAwaitInstance \/ TAllFinished
  \/ TErrForwarded \/ TErrSuppressed

TNext == (~ENABLED Urgent /\ Logged) \/ TSilent \/ TAccept
=============================================================================
