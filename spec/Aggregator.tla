----------------------------- MODULE Aggregator -----------------------------
(***************************************************************************)
(* C06, design level: reporters -> bounded queue -> Run loop -> buffered   *)
(* writer -> sink.  Implementation-shaped after                            *)
(*   core/aggregator/netsample/phout.go  (Mode = "block":                  *)
(*        Report = `a.sink <- s` on a buffered channel)                    *)
(*   core/aggregator/log.go  (Mode = "block" too: same loop, Q = 128, each *)
(*        sample is written through - Dequeue directly followed by Spill)  *)
(*   core/aggregator/discard.go (Mode = "discard": Report throws away,     *)
(*        Run just waits for ctx.Done())                                   *)
(*   core/aggregator/test.go (Mode = "memory": Report appends to a slice   *)
(*        under a lock - the slice is the "sink"; Run waits for ctx.Done())*)
(*   core/aggregator/reporter.go + encoder.go (Mode = "drop":              *)
(*        Report = select { case Incomming <- s: default: dropped++ })     *)
(* One action per select case / statement of Run:                          *)
(*   loop:  case s := <-queue   -> encode into the buffer        (Dequeue) *)
(*          case <-tick         -> Flush                         (Tick)    *)
(*          case <-ctx.Done()   -> go to the drain loop          (SeeDone) *)
(*   drain: case s := <-queue   -> encode                        (DrainOne)*)
(*          default             -> leave                         (DrainEnd)*)
(*   deferred: final Flush (FinalFlush), sink Close (Close),               *)
(*          return errutil.Join(err, DroppedErr())               (Return)  *)
(* A bufio.Writer spills its prefix to the sink whenever it is full: Spill *)
(* may happen at any time while the aggregator runs.                       *)
(*                                                                         *)
(* Samples are <<g, i>> (i-th report of goroutine g).  Formatting of a     *)
(* line is Phout!PhoutLine and is orthogonal to the queueing.              *)
(*                                                                         *)
(* A sink may FAIL (SinkFaults = TRUE: at most one injected failure - a    *)
(* write error, a partial write, a short count, a failing Close; the       *)
(* bufio.Writer keeps its first error, so every later write fails too:     *)
(* `werr`).  Which statements look at the error is the code's choice:      *)
(*   spill inside Encode (bufio.Write)  -> `return err`        (reported)  *)
(*   tick flush     phout `_ = a.writer.Flush()`   (ignored, but sticky)   *)
(*                  encoder.go `err = encoder.Flush(); return` (reported)  *)
(*   final flush, Close                 -> joined into Run's result        *)
(* ErrIgnored \subseteq {"tick","final","close"} names the statements that  *)
(* MAY drop the error on the floor.  As found: phout ignored all three,    *)
(* jsonlines ignored bufio's Flush error inside jsonEncoder.Flush (tick    *)
(* and final) - Aggregator_neg_swallow*.cfg; as fixed: phout {"tick"},     *)
(* encoder aggregators {}.  NoSilentLoss: a run whose sink failed returns  *)
(* an error; a run that returns without one is complete.                   *)
(*                                                                         *)
(* Bug (negative controls):  "nodrain"  - leave at ctx.Done without the    *)
(*   drain loop; "noflush" - no final flush; "nocount" - drop without      *)
(*   counting; "late" - drop the engine's guarantee that the aggregator is *)
(*   cancelled only after the last report (Pool.tla: AggCancel =>          *)
(*   AllInstanceResultsAwaited): shows the guarantee is necessary;         *)
(*   "tickresets" - the flush tick consumes the drop counter.              *)
(***************************************************************************)
EXTENDS Phout

CONSTANTS K,        \* reporter goroutines 1..K
          M,        \* reports per goroutine
          Q,        \* queue capacity (>= 1)
          Mode,     \* "block" (phout, log) | "drop" (encoder aggregators) | "discard" (aggregator.NewDiscard)
          Bug,      \* "none" | "nodrain" | "noflush" | "nocount" | "late" | "tickresets"
          SinkFaults, \* TRUE: the sink may fail once (and, being a full disk, keeps failing)
          ErrIgnored  \* statements of Run that may ignore a sink error: subset of {"tick", "final", "close"}

VARIABLES made,      \* made[g]: number of Report calls of g that returned
          queue,     \* the channel
          buf,       \* encoded, in the bufio buffer, not yet in the sink
          disk,      \* written to the sink
          dropped,   \* Reporter.samplesDropped
          lost,      \* history: the samples that were dropped
          cancelled, \* ctx.Done() closed
          apc,       \* Run: "loop" | "drain" | "flush" | "close" | "ret" | "done"
          closed,    \* sink.Close() happened
          result,    \* N of the "N samples were dropped" error Run returned (0: nil), -1: not returned
          werr,      \* the buffered writer holds an error (sticky: nothing reaches the sink any more)
          sinkfail,  \* history: the sink has failed (write, short count or close)
          runerr     \* Run's result carries a sink error

vars == <<made, queue, buf, disk, dropped, lost, cancelled, apc, closed, result, werr, sinkfail, runerr>>
errV == <<werr, sinkfail, runerr>>

G == 1..K
Reported == {<<g, i>> : g \in G, i \in 1..M} \cap {s \in (G \X (1..M)) : s[2] <= made[s[1]]}
AllReported == \A g \in G : made[g] = M

Init == /\ made = [g \in G |-> 0]
        /\ queue = <<>> /\ buf = <<>> /\ disk = <<>>
        /\ dropped = 0 /\ lost = {}
        /\ cancelled = FALSE /\ apc = "loop" /\ closed = FALSE /\ result = -1
        /\ werr = FALSE /\ sinkfail = FALSE /\ runerr = FALSE

(* ---------------------------------------------------------------- reporters *)
\* Report() of goroutine g.  Blocking mode: enabled only when there is room (the goroutine
\* is parked in the channel send otherwise).  With the engine's guarantee no report happens
\* after the cancel.
Report(g) ==
    /\ made[g] < M
    /\ Bug = "late" \/ ~cancelled
    /\ LET s == <<g, made[g] + 1>> IN
       \/ /\ Mode = "discard"                               \* thrown away: no queue, no counter, never blocks
          /\ made' = [made EXCEPT ![g] = @ + 1]
          /\ lost' = lost \cup {s}
          /\ UNCHANGED <<queue, dropped, disk, buf>>
       \/ /\ Mode = "memory"                                \* kept at once, never blocks, never drops
          /\ made' = [made EXCEPT ![g] = @ + 1]
          /\ disk' = Append(disk, s)
          /\ UNCHANGED <<queue, dropped, lost, buf>>
       \/ /\ Mode \notin {"discard", "memory"} /\ Len(queue) < Q
          /\ queue' = Append(queue, s)
          /\ made' = [made EXCEPT ![g] = @ + 1]
          /\ UNCHANGED <<dropped, lost, disk, buf>>
       \/ /\ Mode = "drop" /\ Len(queue) >= Q
          /\ made' = [made EXCEPT ![g] = @ + 1]
          /\ dropped' = IF Bug = "nocount" THEN dropped ELSE dropped + 1
          /\ lost' = lost \cup {s}
          /\ UNCHANGED <<queue, disk, buf>>
    /\ UNCHANGED <<cancelled, apc, closed, result, errV>>

\* the engine cancels the aggregator's context (checkAllInstancesAreFinished -> runCancel)
Cancel == /\ ~cancelled
          /\ Bug = "late" \/ AllReported
          /\ cancelled' = TRUE
          /\ UNCHANGED <<made, queue, buf, disk, dropped, lost, apc, closed, result, errV>>

(* ---------------------------------------------------------------- Run *)
Encode == /\ queue # <<>>
          /\ buf' = Append(buf, Head(queue))
          /\ queue' = Tail(queue)

\* an attempt to hand `n` leading items of the buffer to the sink.  ok: all of them arrive.  Otherwise the sink
\* fails now (allowed once) or the writer already holds its sticky error: a prefix (possibly empty; a torn
\* last line is not modelled, lines are atomic here) arrives, the rest stays in the buffer for good.
MayFailNow == SinkFaults /\ ~sinkfail
WriteOK(n) == /\ ~werr
              /\ disk' = disk \o SubSeq(buf, 1, n) /\ buf' = SubSeq(buf, n + 1, Len(buf))
              /\ UNCHANGED <<werr, sinkfail>>
WriteFails(n) == /\ werr \/ MayFailNow
                 /\ IF werr THEN UNCHANGED <<disk, buf>>
                            ELSE \E k \in 0..(n - 1) : /\ disk' = disk \o SubSeq(buf, 1, k)
                                                      /\ buf' = SubSeq(buf, k + 1, Len(buf))
                 /\ werr' = TRUE /\ sinkfail' = TRUE
\* the statement either looks at the error (Run returns it: straight to the deferred flush / close) or not
Looks(stmt)   == stmt \notin ErrIgnored
MayIgnore(stmt) == stmt \in ErrIgnored

\* with the sticky error in the writer the next bufio.Write fails: phout returns it at once; the jsonlines
\* stream keeps encoding into its own slice until the next flush (both are allowed here)
Dequeue  == /\ apc = "loop" /\ Encode
            /\ \/ UNCHANGED <<apc, runerr>>
               \/ werr /\ apc' = "flush" /\ runerr' = TRUE
            /\ UNCHANGED <<made, disk, dropped, lost, cancelled, closed, result, werr, sinkfail>>
Tick     == /\ apc = "loop" /\ (buf # <<>> \/ werr)
            /\ \/ WriteOK(Len(buf)) /\ UNCHANGED <<apc, runerr>>
               \/ /\ WriteFails(Len(buf))
                  /\ \/ MayIgnore("tick") /\ UNCHANGED <<apc, runerr>>          \* `_ = a.writer.Flush()`
                     \/ Looks("tick") /\ apc' = "flush" /\ runerr' = TRUE      \* `err = encoder.Flush(); if err != nil { return }`
            \* Bug "tickresets": something on the flush tick reads the drop counter destructively (seed C06-9: DroppedErr
            \* with Swap(0) + a periodic overflow warning)
            /\ dropped' = IF Bug = "tickresets" THEN 0 ELSE dropped
            /\ UNCHANGED <<made, queue, lost, cancelled, closed, result>>
\* bufio spills a prefix when the buffer is full (inside Write: its error is always returned by handle)
Spill    == /\ apc \in {"loop", "drain"} /\ buf # <<>>
            /\ \/ WriteOK(1) /\ UNCHANGED <<apc, runerr>>
               \/ WriteFails(1) /\ apc' = "flush" /\ runerr' = TRUE
            /\ UNCHANGED <<made, queue, dropped, lost, cancelled, closed, result>>
SeeDone  == /\ apc = "loop" /\ cancelled
            /\ apc' = IF Bug = "nodrain" THEN "flush" ELSE "drain"
            /\ UNCHANGED <<made, queue, buf, disk, dropped, lost, cancelled, closed, result, errV>>
DrainOne == /\ apc = "drain" /\ Encode
            /\ \/ UNCHANGED <<apc, runerr>>
               \/ werr /\ apc' = "flush" /\ runerr' = TRUE
            /\ UNCHANGED <<made, disk, dropped, lost, cancelled, closed, result, werr, sinkfail>>
DrainEnd == /\ apc = "drain" /\ queue = <<>>
            /\ apc' = "flush"
            /\ UNCHANGED <<made, queue, buf, disk, dropped, lost, cancelled, closed, result, errV>>
\* deferred: runs on every way out of Run
FinalFlush == /\ apc = "flush"
              /\ \/ Bug = "noflush" /\ UNCHANGED <<disk, buf, errV>>
                 \/ Bug # "noflush" /\ WriteOK(Len(buf)) /\ UNCHANGED runerr
                 \/ /\ Bug # "noflush" /\ WriteFails(Len(buf))
                    /\ \/ MayIgnore("final") /\ UNCHANGED runerr
                       \/ Looks("final") /\ runerr' = TRUE
              /\ apc' = "close"
              /\ UNCHANGED <<made, queue, dropped, lost, cancelled, closed, result>>
Close    == /\ apc = "close"
            /\ closed' = TRUE /\ apc' = "ret"
            /\ \/ UNCHANGED errV
               \/ /\ MayFailNow /\ sinkfail' = TRUE /\ UNCHANGED werr       \* Close itself fails
                  /\ \/ MayIgnore("close") /\ UNCHANGED runerr
                     \/ Looks("close") /\ runerr' = TRUE
            /\ UNCHANGED <<made, queue, buf, disk, dropped, lost, cancelled, result>>
Return   == /\ apc = "ret"
            /\ result' = dropped /\ apc' = "done"
            /\ UNCHANGED <<made, queue, buf, disk, dropped, lost, cancelled, closed, errV>>

AggStep == Dequeue \/ Tick \/ Spill \/ SeeDone \/ DrainOne \/ DrainEnd \/ FinalFlush \/ Close \/ Return

Next == (\E g \in G : Report(g)) \/ Cancel \/ AggStep

Spec == Init /\ [][Next]_vars /\ WF_vars(AggStep) /\ WF_vars(Cancel) /\ \A g \in G : WF_vars(Report(g))

(* ---------------------------------------------------------------- properties *)
Rng(s) == {s[i] : i \in DOMAIN s}
NoDup(s) == \A i, j \in DOMAIN s : i # j => s[i] # s[j]

TypeOK == /\ made \in [G -> 0..M] /\ Len(queue) <= Q /\ dropped \in 0..(K * M)
          /\ apc \in {"loop", "drain", "flush", "close", "ret", "done"}
          /\ result \in -1..(K * M)
          /\ werr \in BOOLEAN /\ sinkfail \in BOOLEAN /\ runerr \in BOOLEAN /\ (werr => sinkfail)

\* every reported sample is in exactly one place (exactly once, nothing invented)
Conservation ==
    /\ NoDup(queue \o buf \o disk)
    /\ Rng(queue \o buf \o disk) \cap lost = {}
    /\ (Bug # "late" \/ apc # "done") => Rng(queue \o buf \o disk) \cup lost = Reported

\* THE property, at Run return (of a run whose sink worked)
CompleteAtReturn ==
    (apc = "done" /\ Mode # "discard" /\ ~sinkfail) =>
        /\ AllReported
        /\ PermutationUpToDrops(disk, SeqOfSet(Reported), result)     \* permutation of the non-dropped reports
        /\ Rng(disk) = Reported \ lost
        /\ CompleteCounts(Len(disk), result, Cardinality(Reported))      \* |written| + dropped = |reported|
        /\ buf = <<>> /\ queue = <<>>                                    \* flushed
        /\ closed                                                        \* and closed
\* a failing sink: the run FAILS (its result carries the error) - it never loses lines silently; and a
\* result without a sink error means the sink has everything; an error is never made up
NoSilentLoss ==
    /\ (apc = "done" /\ sinkfail) => runerr
    /\ (apc = "done" /\ ~runerr /\ Mode # "discard") => (buf = <<>> /\ queue = <<>> /\ Rng(disk) = Reported \ lost)
    /\ runerr => sinkfail
    /\ apc = "done" => closed          \* also a failed run closes its sink
\* whatever fails, nothing is invented or written twice (Conservation); the drop count of a run that returned
\* without a sink error is exact, a failed run (it returned early: later reports find a dead queue) never
\* counts more drops than happened
FailedRunStillCounts ==
    (apc = "done" /\ Mode # "discard") =>
        IF runerr THEN result <= Cardinality(lost) ELSE result = Cardinality(lost)
\* the discard aggregator writes nothing, counts nothing, and its Report is always possible
DiscardIsInert == Mode = "discard" => /\ queue = <<>> /\ buf = <<>> /\ disk = <<>> /\ dropped = 0
                                      /\ \A g \in G : (made[g] < M /\ ~cancelled) => ENABLED Report(g)
                                      /\ (apc = "done" => result = 0 /\ AllReported)
\* blocking mode never drops
BlockNeverDrops == Mode \in {"block", "memory"} => dropped = 0 /\ lost = {}
\* the in-memory aggregator holds every report the moment its Report returns (GetSamples at any time)
MemoryKeepsAll == Mode = "memory" => /\ queue = <<>> /\ buf = <<>> /\ Rng(disk) = Reported /\ NoDup(disk)
                                     /\ \A g \in G : (made[g] < M /\ ~cancelled) => ENABLED Report(g)
\* (negative control: a finished in-memory run that holds all K*M reports is reachable)
MemoryRunReachable == ~(Mode = "memory" /\ apc = "done" /\ Len(disk) = K * M)
\* nothing reaches the sink after Close
ClosedIsFinal == [][(closed /\ Mode # "memory") => disk' = disk]_vars
\* every run ends once it is cancelled
Terminates == cancelled ~> apc = "done"
=============================================================================
