----------------------------- MODULE Aggregator -----------------------------
(***************************************************************************)
(* C06, design level: reporters -> bounded queue -> Run loop -> buffered   *)
(* writer -> sink.  Implementation-shaped after                            *)
(*   core/aggregator/netsample/phout.go  (Mode = "block":                  *)
(*        Report = `a.sink <- s` on a buffered channel)                    *)
(*   core/aggregator/log.go  (Mode = "block" too: same loop, Q = 128, each *)
(*        sample is written through - Dequeue directly followed by Spill)  *)
(*   core/aggregator/discard.go (Mode = "discard": Report throws away,     *)
(*        Run just waits for ctx.Done())                                   *)
(*   core/aggregator/reporter.go + encoder.go (Mode = "drop":              *)
(*        Report = select { case Incomming <- s: default: dropped++ })     *)
(* One action per select case / statement of Run:                          *)
(*   loop:  case s := <-queue   -> encode into the buffer        (Dequeue) *)
(*          case <-tick         -> Flush                         (Tick)    *)
(*          case <-ctx.Done()   -> go to the drain loop          (SeeDone) *)
(*   drain: case s := <-queue   -> encode                        (DrainOne)*)
(*          default             -> leave                         (DrainEnd)*)
(*   deferred: final Flush (FinalFlush), sink Close (Close),               *)
(*          return errutil.Join(err, DroppedErr())               (Return)  *)
(* A bufio.Writer spills its prefix to the sink whenever it is full: Spill *)
(* may happen at any time while the aggregator runs.                       *)
(*                                                                         *)
(* Samples are <<g, i>> (i-th report of goroutine g).  Formatting of a     *)
(* line is Phout!PhoutLine and is orthogonal to the queueing.              *)
(*                                                                         *)
(* Bug (negative controls):  "nodrain"  - leave at ctx.Done without the    *)
(*   drain loop; "noflush" - no final flush; "nocount" - drop without      *)
(*   counting; "late" - drop the engine's guarantee that the aggregator is *)
(*   cancelled only after the last report (Pool.tla: AggCancel =>          *)
(*   AllInstanceResultsAwaited): shows the guarantee is necessary.         *)
(***************************************************************************)
EXTENDS Phout

CONSTANTS K,        \* reporter goroutines 1..K
          M,        \* reports per goroutine
          Q,        \* queue capacity (>= 1)
          Mode,     \* "block" (phout, log) | "drop" (encoder aggregators) | "discard" (aggregator.NewDiscard)
          Bug       \* "none" | "nodrain" | "noflush" | "nocount" | "late"

VARIABLES made,      \* made[g]: number of Report calls of g that returned
          queue,     \* the channel
          buf,       \* encoded, in the bufio buffer, not yet in the sink
          disk,      \* written to the sink
          dropped,   \* Reporter.samplesDropped
          lost,      \* history: the samples that were dropped
          cancelled, \* ctx.Done() closed
          apc,       \* Run: "loop" | "drain" | "flush" | "close" | "ret" | "done"
          closed,    \* sink.Close() happened
          result     \* N of the "N samples were dropped" error Run returned (0: nil), -1: not returned

vars == <<made, queue, buf, disk, dropped, lost, cancelled, apc, closed, result>>

G == 1..K
Reported == {<<g, i>> : g \in G, i \in 1..M} \cap {s \in (G \X (1..M)) : s[2] <= made[s[1]]}
AllReported == \A g \in G : made[g] = M

Init == /\ made = [g \in G |-> 0]
        /\ queue = <<>> /\ buf = <<>> /\ disk = <<>>
        /\ dropped = 0 /\ lost = {}
        /\ cancelled = FALSE /\ apc = "loop" /\ closed = FALSE /\ result = -1

(* ---------------------------------------------------------------- reporters *)
\* Report() of goroutine g.  Blocking mode: enabled only when there is room (the goroutine
\* is parked in the channel send otherwise).  With the engine's guarantee no report happens
\* after the cancel.
Report(g) ==
    /\ made[g] < M
    /\ Bug = "late" \/ ~cancelled
    /\ LET s == <<g, made[g] + 1>> IN
       \/ /\ Mode = "discard"                               \* thrown away: no queue, no counter, never blocks
          /\ made' = [made EXCEPT ![g] = @ + 1]
          /\ lost' = lost \cup {s}
          /\ UNCHANGED <<queue, dropped>>
       \/ /\ Mode # "discard" /\ Len(queue) < Q
          /\ queue' = Append(queue, s)
          /\ made' = [made EXCEPT ![g] = @ + 1]
          /\ UNCHANGED <<dropped, lost>>
       \/ /\ Mode = "drop" /\ Len(queue) >= Q
          /\ made' = [made EXCEPT ![g] = @ + 1]
          /\ dropped' = IF Bug = "nocount" THEN dropped ELSE dropped + 1
          /\ lost' = lost \cup {s}
          /\ UNCHANGED queue
    /\ UNCHANGED <<buf, disk, cancelled, apc, closed, result>>

\* the engine cancels the aggregator's context (checkAllInstancesAreFinished -> runCancel)
Cancel == /\ ~cancelled
          /\ Bug = "late" \/ AllReported
          /\ cancelled' = TRUE
          /\ UNCHANGED <<made, queue, buf, disk, dropped, lost, apc, closed, result>>

(* ---------------------------------------------------------------- Run *)
Encode == /\ queue # <<>>
          /\ buf' = Append(buf, Head(queue))
          /\ queue' = Tail(queue)

Dequeue  == /\ apc = "loop" /\ Encode
            /\ UNCHANGED <<made, disk, dropped, lost, cancelled, apc, closed, result>>
Tick     == /\ apc = "loop" /\ buf # <<>>
            /\ disk' = disk \o buf /\ buf' = <<>>
            /\ UNCHANGED <<made, queue, dropped, lost, cancelled, apc, closed, result>>
\* bufio spills a prefix when the buffer is full
Spill    == /\ apc \in {"loop", "drain"} /\ buf # <<>>
            /\ disk' = Append(disk, Head(buf)) /\ buf' = Tail(buf)
            /\ UNCHANGED <<made, queue, dropped, lost, cancelled, apc, closed, result>>
SeeDone  == /\ apc = "loop" /\ cancelled
            /\ apc' = IF Bug = "nodrain" THEN "flush" ELSE "drain"
            /\ UNCHANGED <<made, queue, buf, disk, dropped, lost, cancelled, closed, result>>
DrainOne == /\ apc = "drain" /\ Encode
            /\ UNCHANGED <<made, disk, dropped, lost, cancelled, apc, closed, result>>
DrainEnd == /\ apc = "drain" /\ queue = <<>>
            /\ apc' = "flush"
            /\ UNCHANGED <<made, queue, buf, disk, dropped, lost, cancelled, closed, result>>
FinalFlush == /\ apc = "flush"
              /\ IF Bug = "noflush" THEN UNCHANGED <<disk, buf>> ELSE disk' = disk \o buf /\ buf' = <<>>
              /\ apc' = "close"
              /\ UNCHANGED <<made, queue, dropped, lost, cancelled, closed, result>>
Close    == /\ apc = "close"
            /\ closed' = TRUE /\ apc' = "ret"
            /\ UNCHANGED <<made, queue, buf, disk, dropped, lost, cancelled, result>>
Return   == /\ apc = "ret"
            /\ result' = dropped /\ apc' = "done"
            /\ UNCHANGED <<made, queue, buf, disk, dropped, lost, cancelled, closed>>

AggStep == Dequeue \/ Tick \/ Spill \/ SeeDone \/ DrainOne \/ DrainEnd \/ FinalFlush \/ Close \/ Return

Next == (\E g \in G : Report(g)) \/ Cancel \/ AggStep

Spec == Init /\ [][Next]_vars /\ WF_vars(AggStep) /\ WF_vars(Cancel) /\ \A g \in G : WF_vars(Report(g))

(* ---------------------------------------------------------------- properties *)
Rng(s) == {s[i] : i \in DOMAIN s}
NoDup(s) == \A i, j \in DOMAIN s : i # j => s[i] # s[j]

TypeOK == /\ made \in [G -> 0..M] /\ Len(queue) <= Q /\ dropped \in 0..(K * M)
          /\ apc \in {"loop", "drain", "flush", "close", "ret", "done"}
          /\ result \in -1..(K * M)

\* every reported sample is in exactly one place (exactly once, nothing invented)
Conservation ==
    /\ NoDup(queue \o buf \o disk)
    /\ Rng(queue \o buf \o disk) \cap lost = {}
    /\ (Bug # "late" \/ apc # "done") => Rng(queue \o buf \o disk) \cup lost = Reported

\* THE property, at Run return
CompleteAtReturn ==
    (apc = "done" /\ Mode # "discard") =>
        /\ AllReported
        /\ PermutationUpToDrops(disk, SeqOfSet(Reported), result)     \* permutation of the non-dropped reports
        /\ Rng(disk) = Reported \ lost
        /\ CompleteCounts(Len(disk), result, Cardinality(Reported))      \* |written| + dropped = |reported|
        /\ buf = <<>> /\ queue = <<>>                                    \* flushed
        /\ closed                                                        \* and closed
\* the discard aggregator writes nothing, counts nothing, and its Report is always possible
DiscardIsInert == Mode = "discard" => /\ queue = <<>> /\ buf = <<>> /\ disk = <<>> /\ dropped = 0
                                      /\ \A g \in G : (made[g] < M /\ ~cancelled) => ENABLED Report(g)
                                      /\ (apc = "done" => result = 0 /\ AllReported)
\* blocking mode never drops
BlockNeverDrops == Mode = "block" => dropped = 0 /\ lost = {}
\* nothing reaches the sink after Close
ClosedIsFinal == [][closed => disk' = disk]_vars
\* every run ends once it is cancelled
Terminates == cancelled ~> apc = "done"
=============================================================================
