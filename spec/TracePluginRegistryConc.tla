----------------------- MODULE TracePluginRegistryConc -----------------------
(* Trace validation of overlapping factory calls (`vdrive plugreg -mode conc`, built with the race detector).        *)
(* One line per case: c (the abstract case of PluginRegistry), calls = [g, dec, got] for every call of every         *)
(* goroutine (dec: stamp of the decode that ran inside this call; got: stamp found in the config the product holds),  *)
(* bad = number of calls that failed.  One line kind = "race": data races the race detector reported in the run.     *)
EXTENDS Integers, Sequences, FiniteSets, TLC, Json, IOUtils

VARIABLE l
Trace == ndJsonDeserialize(IOEnv.VERIF_TRACE)
Row == Trace[IF l = 0 THEN 1 ELSE l]
Init == l = 0
Next == l < Len(Trace) /\ l' = l + 1

IsCalls == l > 0 /\ Row.kind = "calls"
CallSet == {Row.calls[i] : i \in 1..Len(Row.calls)}
\* the invariants of PluginRegistryConc on the recorded calls (creation stamp travels in Row.created)
OwnConfig == IsCalls /\ (Row.c.ret = "comp" \/ Row.c.form = "New") => /\ \A i \in 1..Len(Row.calls) : Row.calls[i].got = Row.calls[i].dec
                                              /\ Cardinality({Row.calls[i].got : i \in 1..Len(Row.calls)}) = Len(Row.calls)
OneConfig == IsCalls /\ Row.c.ret = "fact" /\ Row.c.form # "New" => \A i \in 1..Len(Row.calls) : Row.calls[i].got = Row.created
NoFailure == IsCalls => Row.bad = 0
\* no unsynchronised sharing between overlapping calls at all
NoRace == l > 0 /\ Row.kind = "race" => Row.n = 0
=============================================================================
