------------------------------ MODULE TraceSink ------------------------------
(***************************************************************************)
(* Trace specification of Sink.tla: what `vdrive aggsink` recorded about   *)
(* REAL engine runs whose pools write phout / jsonlines results into real  *)
(* files through a recording afero.Fs.                                     *)
(*   Open  ~ Sink!Open: O_CREATE and O_TRUNC, never O_APPEND, one handle   *)
(*           per pool;  Write ~ Sink!Write: only on an open handle;        *)
(*   Close ~ Sink!Close: exactly once per handle, before the engine ends;  *)
(*   File  ~ the final content: Sink!NoStale, and - own files -            *)
(*           Sink!ResultFiles: whole well-formed lines, as many as the     *)
(*           pool's guns reported (the line contents are TraceAggregator's *)
(*           subject).                                                     *)
(* Two pools configured with the SAME file name: Sink_neg_samefile         *)
(* predicts torn and lost lines; the flags SameFile* name exactly that     *)
(* outcome.                                                                *)
(***************************************************************************)
EXTENDS Integers, Sequences, FiniteSets, TLC, Json, IOUtils

VARIABLES l, same, pools, open, closed, rep, done, bad
vars == <<l, same, pools, open, closed, rep, done, bad>>

Trace == ndJsonDeserialize(IOEnv.VERIF_TRACE)
Ev == Trace[l]
Flag(cond, name) == IF cond THEN {} ELSE {name}
RECURSIVE SumF(_, _)
SumF(f, S) == IF S = {} THEN 0 ELSE LET x == CHOOSE y \in S : TRUE IN f[x] + SumF(f, S \ {x})

Init == l = 1 /\ same = FALSE /\ pools = 0 /\ open = {} /\ closed = {} /\ rep = <<>> /\ done = TRUE /\ bad = {}

SinkRun == /\ Ev.ev = "SinkRun"
           /\ same' = Ev.same /\ pools' = Ev.pools /\ open' = {} /\ closed' = {} /\ rep' = <<>> /\ done' = FALSE
           /\ bad' = {}           \* flags are per run (the check runs TLC with -continue and reads them per run)
Open == /\ Ev.ev = "Open"
        /\ open' = open \cup {Ev.h}
        /\ bad' = bad \cup Flag(Ev.create /\ Ev.trunc /\ Ev.wronly, "NotCreatedOrNotTruncated")
                      \cup Flag(~Ev.append, "OpenedForAppend")
                      \cup Flag(~done, "OpenAfterEngineEnd")
        /\ UNCHANGED <<same, pools, closed, rep, done>>
Write == /\ Ev.ev = "Write"
         /\ bad' = bad \cup Flag(Ev.h \in open, "WriteOnUnknownHandle")
                       \cup Flag(Ev.h \notin closed, "WriteAfterClose")
                       \cup Flag(Ev.err = "<nil>", "WriteError")
         /\ UNCHANGED <<same, pools, open, closed, rep, done>>
Close == /\ Ev.ev = "Close"
         /\ closed' = closed \cup {Ev.h}
         /\ bad' = bad \cup Flag(Ev.h \in open, "CloseOnUnknownHandle")
                       \cup Flag(Ev.h \notin closed, "ClosedTwice")
                       \cup Flag(~done, "CloseAfterEngineEnd")
         /\ UNCHANGED <<same, pools, open, rep, done>>
Reported == /\ Ev.ev = "Reported"
            /\ rep' = (Ev.pool :> Ev.n) @@ rep
            /\ UNCHANGED <<same, pools, open, closed, done, bad>>
EngineEnd == /\ Ev.ev = "EngineEnd"
             /\ done' = TRUE
             /\ bad' = bad \cup Flag(Ev.err = "<nil>", "EngineRunFailed")
                           \cup Flag(open = closed, "HandleLeftOpen")             \* closed before Engine.Wait returns
                           \cup Flag(Cardinality(open) = pools, "NotOneHandlePerPool")
             /\ UNCHANGED <<same, pools, open, closed, rep>>
File == /\ Ev.ev = "File"
        /\ bad' = bad \cup Flag(~Ev.stale_left, "StaleContentLeft")
                      \cup (IF same
                            THEN Flag(Ev.malformed = 0 /\ Ev.partial = 0, "SameFileMalformedLine")
                                 \cup Flag(Ev.lines = SumF(rep, DOMAIN rep), "SameFileLinesLost")
                            ELSE Flag(Ev.malformed = 0 /\ Ev.partial = 0, "MalformedLine")
                                 \cup Flag(Ev.pool \in DOMAIN rep /\ Ev.lines = rep[Ev.pool], "LinesAreNotReports"))
        /\ UNCHANGED <<same, pools, open, closed, rep, done>>

Next == /\ l <= Len(Trace)
        /\ l' = l + 1
        /\ (SinkRun \/ Open \/ Write \/ Close \/ Reported \/ EngineEnd \/ File)
Accepted == l <= Len(Trace) => ENABLED Next
NoViolation == bad = {}
=============================================================================
