----------------------------- MODULE ScheduleMC -----------------------------
(* Model-checking instance of Schedule: the tree catalogue and small constants. *)
EXTENDS Schedule, Json

\* helpers to write trees: node 1 is the root; kids index nodes
Once(n)      == [k |-> "doat", toks |-> [i \in 1..n |-> 0], dur |-> 0]
ConstP(n, d) == [k |-> "doat", toks |-> [i \in 1..n |-> i - 1], dur |-> d]     \* n tokens at 0,1,..; duration d
Unl(d)       == [k |-> "unl", toks |-> <<>>, dur |-> d]
C(kids)      == [k |-> "comp", toks |-> <<>>, dur |-> 0, kids |-> kids]

MkTree(nodes) == [kind |-> [i \in 1..Len(nodes) |-> nodes[i].k],
                  kids |-> [i \in 1..Len(nodes) |-> IF nodes[i].k = "comp" THEN nodes[i].kids ELSE <<>>],
                  toks |-> [i \in 1..Len(nodes) |-> nodes[i].toks],
                  dur  |-> [i \in 1..Len(nodes) |-> nodes[i].dur]]

\* flat composites
F1 == MkTree(<<C(<<2, 3, 4>>), Once(1), Unl(2), Once(1)>>)            \* unknown part in the middle
F2 == MkTree(<<C(<<2, 3, 4>>), Once(2), ConstP(0, 1), Once(1)>>)      \* instance_step(2, 3, 1, 1)
F3 == MkTree(<<C(<<2, 3>>), Once(0), Once(2)>>)                       \* zero-token first part
F4 == MkTree(<<C(<<2, 3>>), ConstP(2, 2), Unl(1)>>)                   \* unknown part last
F5 == MkTree(<<C(<<2, 3>>), Unl(1), Once(2)>>)                        \* unknown part first
F6 == MkTree(<<C(<<2, 3, 4, 5>>), Once(1), Once(0), Once(0), Once(1)>>) \* empty parts in a row (retry paths)
F7 == MkTree(<<C(<<2, 3>>), Once(3), Unl(1)>>)                        \* DESIGN probe: Left() must be -1, not 2
\* nested composites
N1 == MkTree(<<C(<<2, 5>>), C(<<3, 4>>), Once(1), Once(1), Once(1)>>)
N2 == MkTree(<<C(<<2, 3>>), Once(1), C(<<4, 5>>), Unl(1), Once(1)>>)
N3 == MkTree(<<C(<<2, 5>>), C(<<3, 4>>), Once(1), ConstP(1, 1), C(<<6, 7>>), Once(0), Once(1)>>)

F8 == MkTree(<<C(<<2, 3, 4>>), Once(0), Unl(1), Once(1)>>)            \* empty first part, then unknown: Left() before start
\* a nested composite that begins with an empty part followed by an unknown part (NewComposite's Left() probe)
N4 == MkTree(<<C(<<2, 3>>), Once(1), C(<<4, 5>>), Once(0), Unl(1)>>)
N5 == MkTree(<<C(<<2, 5>>), C(<<3, 4>>), Once(0), Unl(1), Once(1)>>)  \* ... as the FIRST part (on the explicit-start chain)
N6 == MkTree(<<C(<<2, 3>>), Once(1), C(<<4, 7>>), C(<<5, 6>>), Once(0), Unl(1), Once(1)>>)  \* two levels deep

FlatTrees   == {F1, F2, F3, F4, F5, F6, F7, F8}
NestedTrees == {N1, N2, N3, N4, N5, N6}
ProbeTrees  == {N4, N5, N6}
QuickTrees  == {F1, F2, F6}      \* (F8 and the other flat trees: Schedule_exh_flat, thorough tier)
AllTrees    == FlatTrees \cup NestedTrees
OneTree     == {F1}
SmallTrees  == {F1, F3, F7}
LeftBugTrees == {F7}

\* behaviour export (M2): at the end of a walk print the whole history for the replayer
Export == Done => PrintT(<<"VERIF", ToJson([tree |-> tree, hist |-> hist, left_after_root |-> [k \in 1..Len(tree.kids[1]) |-> LAfter(tree, 1, k)]])>>)

\* The same step relation with one NAMED disjunct per action, so that `-coverage 1` reports how often each action of
\* Schedule.tla was taken (Step hides them behind a CASE); used by the exhaustive configurations of the thorough tier.
A_CallNext == \E c \in Callers : CallNext(c) /\ Lab(c, "CallNext")
A_CallLeft == \E c \in Callers : CallLeft(c) /\ Lab(c, "CallLeft")
A_NRLock == \E c \in Callers : NRLock(c) /\ Lab(c, "NRLock")
A_NChild == \E c \in Callers : NChild(c) /\ Lab(c, "NChild")
A_NGot == \E c \in Callers : NGot(c) /\ Lab(c, "NGot")
A_NLock == \E c \in Callers : NLock(c) /\ Lab(c, "NLock")
A_NWGot1 == \E c \in Callers : NWGot1(c) /\ Lab(c, "NWGot1")
A_NWGot2 == \E c \in Callers : NWGot2(c) /\ Lab(c, "NWGot2")
A_LRLock == \E c \in Callers : LRLock(c) /\ Lab(c, "LRLock")
A_LChild == \E c \in Callers : LChild(c) /\ Lab(c, "LChild")
A_LGot == \E c \in Callers : LGot(c) /\ Lab(c, "LGot")
A_LLock == \E c \in Callers : LLock(c) /\ Lab(c, "LLock")
A_LWGot == \E c \in Callers : LWGot(c) /\ Lab(c, "LWGot")
A_LUnlock == \E c \in Callers : LUnlock(c) /\ Lab(c, "LUnlock")
NextCov == Tick \/ CtorProbe \/ A_CallNext \/ A_CallLeft \/ A_NRLock \/ A_NChild \/ A_NGot \/ A_NLock \/ A_NWGot1 \/ A_NWGot2 \/ A_LRLock \/ A_LChild \/ A_LGot \/ A_LLock \/ A_LWGot \/ A_LUnlock
SpecCov == Init /\ [][NextCov]_vars

\* callers are interchangeable (model values in the exhaustive configurations): the only place that singles one out is
\* CtorProbe's CHOOSE, taken while every caller is idle, so the successor relation is closed under permutation
Perms == Permutations(Callers)

NL == {"N", "L"}
OnlyN == {"N"}
Lazy == {"lazy"}
BothModes == {"lazy", "explicit"}
=============================================================================
