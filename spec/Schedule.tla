------------------------------ MODULE Schedule ------------------------------
(***************************************************************************)
(* C02: the schedule token contract under concurrent callers.              *)
(*                                                                         *)
(* Implementation-shaped model of core/schedule: doAtSchedule (atomic      *)
(* fetch-and-increment counter that may overshoot n, lazy start, sync.Once *)
(* start), unlimitedSchedule (tokens = now while now < finish),            *)
(* compositeSchedule (RW lock; Next: RLock / nested Next / RUnlock /       *)
(* Lock / re-check "somebody started next before us" / startNext / retry;  *)
(* Left: RLock / load / RUnlock / Lock / shift / retry) with arbitrary     *)
(* nesting (a per-caller stack of frames, one frame per composite node on  *)
(* the call path), and coreutil's callbackOnFinish wrapper at the root.    *)
(* One action per critical section / statement that other goroutines can   *)
(* interleave with.  `now` advances by Tick at any moment.                 *)
(*                                                                         *)
(* Code variants (CONSTANTS) select the repaired code (the specification)  *)
(* or a deliberately wrong variant used as a negative control.             *)
(***************************************************************************)
EXTENDS Integers, Sequences, FiniteSets, TLC

CONSTANTS Callers,      \* set of caller (goroutine) ids
          MaxCalls,     \* root-level calls per caller
          MaxNow,       \* clock bound
          Trees,        \* catalogue of schedule trees (see ScheduleMC)
          FixLeft,      \* TRUE: Left() = -1 when the tail is unknown (repaired); FALSE: left + leftAfter as shipped
          Recheck,      \* TRUE: re-check "somebody started next before us" after Lock (as coded)
          UnlClamp,     \* TRUE: an unlimited part never hands out an instant before its own start (repaired)
          FixNoShift,   \* TRUE: Left() of a composite that was never started does not shift (repaired); FALSE: as shipped,
                        \*       NewComposite's own Left() probe of a nested composite could start its parts
          Ops,          \* subset of {"N","L"}: which root operations callers may issue
          StartModes    \* subset of {"lazy","explicit"}

VARIABLES tree,     \* the tree under test (chosen in Init, never changes)
          L,        \* leaf state: [node -> [cnt, startd, st, fin]]
          head,     \* composite state: [node -> index of scheds[0] in the original child list]
          readers,  \* [node -> set of callers holding the read lock]
          writer,   \* [node -> caller holding the write lock, or "none"]
          now,
          stack,    \* [caller -> sequence of frames]
          ncalls,   \* [caller -> root calls issued]
          lastT,    \* ghost: [caller -> last instant returned by a root Next]
          finT,     \* ghost: [caller -> instant of the caller's first !ok, or -1]
          snap,     \* ghost: [caller -> remaining-token snapshot taken at the last leaf Left() read]
          fired,    \* callbackOnFinish fired
          observedEnd, \* ghost: some caller saw Next !ok or Left = 0 at the root
          viol,     \* ghost: set of violated property names
          lastRet,  \* ghost: [caller -> last root-level result, <<"N", tx, ok>> or <<"L", r>>]
          hist,     \* history of steps (export only; hidden by VIEW)
          cst,      \* composite state: [node -> BOOLEAN] Start() or Next() has been called on it (compositeSchedule.started)
          probes,   \* construction phase: nested composites whose Left() NewComposite still has to call (in its order)
          probing   \* construction phase: a probe is in flight

vars == <<tree, L, head, readers, writer, now, stack, ncalls, lastT, finT, snap, fired, observedEnd, viol, lastRet, hist, cst, probes, probing>>
view == <<tree, L, head, readers, writer, now, stack, ncalls, lastT, finT, snap, fired, observedEnd, viol, cst, probes, probing>>

Nodes    == 1..Len(tree.kind)
Kind(n)  == tree.kind[n]
Kids(n)  == tree.kids[n]
Toks(n)  == tree.toks[n]
Dur(n)   == tree.dur[n]
Root     == 1
IsLeaf(n) == Kind(n) # "comp"
Leaves   == {n \in Nodes : IsLeaf(n)}
Comps    == {n \in Nodes : ~IsLeaf(n)}

Max(a, b) == IF a >= b THEN a ELSE b

-----------------------------------------------------------------------------
(* construction-time leftAfter (NewComposite), a static function of the tree *)

RECURSIVE CLeft(_, _), LAfter(_, _, _)
\* Left() of node n at construction time (nothing started)
CLeft(t, n) ==
    IF t.kind[n] = "doat" THEN Len(t.toks[n])
    ELSE IF t.kind[n] = "unl" THEN -1
    ELSE LET left == CLeft(t, t.kids[n][1])
             la   == LAfter(t, n, 1)
         IN  IF left = 0 THEN la      \* (la < 0: -1; the repaired Left() does not shift a composite that was never started)
             ELSE IF left < 0 THEN -1
             ELSE IF la < 0 THEN (IF FixLeft THEN -1 ELSE left + la)
             ELSE left + la
\* leftAfter[k] of composite n
LAfter(t, n, k) ==
    IF k = Len(t.kids[n]) THEN 0
    ELSE LET nxt  == CLeft(t, t.kids[n][k+1])
             rest == LAfter(t, n, k+1)
         IN  IF nxt < 0 \/ rest < 0 THEN -1 ELSE nxt + rest

-----------------------------------------------------------------------------
(* leaves *)

LeafLazy(n) == IF L[n].startd THEN L[n]
               ELSE [L[n] EXCEPT !.startd = TRUE, !.st = now, !.fin = now + Dur(n)]

\* result of Next() on leaf n: <<new leaf state, tx, ok>>
LeafNext(n) ==
    LET l1 == LeafLazy(n)
    IN  IF Kind(n) = "doat"
        THEN LET i == l1.cnt
             IN  IF i >= Len(Toks(n))
                 THEN <<[l1 EXCEPT !.cnt = i + 1], l1.st + Dur(n), FALSE>>
                 ELSE <<[l1 EXCEPT !.cnt = i + 1], l1.st + Toks(n)[i + 1], TRUE>>
        ELSE IF now < l1.fin THEN <<[l1 EXCEPT !.cnt = @ + 1], (IF UnlClamp THEN Max(now, l1.st) ELSE now), TRUE>>
                             ELSE <<l1, l1.fin, FALSE>>

LeafLeft(n) ==
    IF Kind(n) = "doat" THEN Max(Len(Toks(n)) - L[n].cnt, 0)
    ELSE IF ~L[n].startd \/ now < L[n].fin THEN -1 ELSE 0

RECURSIVE FirstLeaf(_)
FirstLeaf(n) == IF IsLeaf(n) THEN n ELSE FirstLeaf(Kids(n)[head[n]])

\* remaining tokens of the whole tree, or -1 while genuinely unknown
UnlUnfinished == \E n \in Leaves : Kind(n) = "unl" /\ (~L[n].startd \/ now < L[n].fin)
RECURSIVE SumLeft(_)
SumLeft(S) == IF S = {} THEN 0
              ELSE LET n == CHOOSE x \in S : TRUE IN Max(Len(Toks(n)) - L[n].cnt, 0) + SumLeft(S \ {n})
Remaining == IF UnlUnfinished THEN -1 ELSE SumLeft({n \in Leaves : Kind(n) = "doat"})

-----------------------------------------------------------------------------
(* frames *)

Frame(n, op, pc) == [node |-> n, op |-> op, pc |-> pc, sl |-> 0, sln |-> 0, tx |-> 0, ok |-> FALSE, left |-> 0, la |-> 0]
Top(c)  == stack[c][Len(stack[c])]
Rest(c) == SubSeq(stack[c], 1, Len(stack[c]) - 1)
SetTop(c, f) == [stack EXCEPT ![c] = Append(Rest(c), f)]

SchedsLeft(n) == Len(Kids(n)) - head[n] + 1
Cur(n) == Kids(n)[head[n]]

\* construction phase (NewComposite probes Left() of every part; only composite parts can have side effects)
InCtor == probes # <<>> \/ probing
RECURSIVE ProbeSeq(_, _)
ProbeSeq(t, n) ==
    IF t.kind[n] # "comp" THEN <<>>
    ELSE LET ks == t.kids[n]
             RECURSIVE Build(_), Rev(_)
             Build(k) == IF k > Len(ks) THEN <<>> ELSE ProbeSeq(t, ks[k]) \o Build(k + 1)     \* parts are built first, in order
             Rev(k)   == IF k < 1 THEN <<>>                                                  \* then probed last to first
                         ELSE (IF t.kind[ks[k]] = "comp" THEN <<ks[k]>> ELSE <<>>) \o Rev(k - 1)
         IN  Build(1) \o Rev(Len(ks))
\* composites whose Start() runs when Start() is called on node m (a composite starts its current first part)
RECURSIVE StartChain(_, _)
StartChain(m, hd) == IF IsLeaf(m) THEN {} ELSE {m} \cup StartChain(Kids(m)[hd[m]], hd)


\* root-level completion of a call: ghosts for the contract
RootNextDone(c, tx, ok, Lnew) ==
    /\ lastT' = [lastT EXCEPT ![c] = tx]
    /\ finT' = [finT EXCEPT ![c] = IF ~ok /\ finT[c] < 0 THEN tx ELSE @]
    /\ fired' = (fired \/ ~ok)
    /\ observedEnd' = (observedEnd \/ ~ok)
    /\ viol' = viol \cup (IF tx < lastT[c] THEN {"CallerMonotone"} ELSE {})
                    \cup (IF finT[c] >= 0 /\ (ok \/ tx # finT[c]) THEN {"StableFinish"} ELSE {})
                    \cup (IF ~ok /\ \E n \in Leaves : Kind(n) = "doat" /\ Lnew[n].cnt < Len(Toks(n))
                          THEN {"AllDrawnWhenFinished"} ELSE {})
    /\ lastRet' = [lastRet EXCEPT ![c] = <<"N", tx, ok>>]
    /\ UNCHANGED snap

RootLeftDone(c, r, sn) ==
    /\ fired' = (fired \/ r = 0)
    /\ observedEnd' = (observedEnd \/ r = 0)
    /\ viol' = viol \cup (IF r >= 0 /\ r # sn THEN {"LeftExact"} ELSE {})
                    \cup (IF r < 0 /\ sn >= 0 THEN {"LeftNegativeOnlyIfUnknown"} ELSE {})
    /\ lastRet' = [lastRet EXCEPT ![c] = <<"L", r>>]
    /\ UNCHANGED <<lastT, finT>>

\* pop the top frame of c returning a Next result / a Left result to the frame below (or to the root)
RetNext(c, tx, ok) ==
    IF Len(stack[c]) = 1
    THEN /\ stack' = [stack EXCEPT ![c] = <<>>]
         /\ RootNextDone(c, tx, ok, L)
    ELSE /\ stack' = [stack EXCEPT ![c] = LET r == Rest(c) IN
                         [r EXCEPT ![Len(r)] = [@ EXCEPT !.tx = tx, !.ok = ok]]]
         /\ UNCHANGED <<lastT, finT, snap, fired, observedEnd, viol, lastRet>>

RetLeft(c, r) ==
    IF Len(stack[c]) = 1 /\ probing
    THEN \* the constructor's probe returns: the value only feeds leftAfter (static, see LAfter)
         /\ stack' = [stack EXCEPT ![c] = <<>>]
         /\ probing' = FALSE
         /\ UNCHANGED <<lastT, finT, snap, fired, observedEnd, viol, lastRet>>
    ELSE IF Len(stack[c]) = 1
    THEN /\ stack' = [stack EXCEPT ![c] = <<>>]
         /\ RootLeftDone(c, r, snap[c])
         /\ UNCHANGED <<snap, probing>>
    ELSE /\ UNCHANGED probing
         /\ stack' = [stack EXCEPT ![c] = LET s == Rest(c) IN
                         [s EXCEPT ![Len(s)] = [@ EXCEPT !.left = r]]]
         /\ UNCHANGED <<lastT, finT, snap, fired, observedEnd, viol, lastRet>>

-----------------------------------------------------------------------------
(* root-level calls *)

Idle(c) == stack[c] = <<>>

CallNext(c) ==
    /\ "N" \in Ops /\ Idle(c) /\ ncalls[c] < MaxCalls /\ ~InCtor
    /\ cst' = IF IsLeaf(Root) THEN cst ELSE [cst EXCEPT ![Root] = TRUE]      \* s.started.Store(true)
    /\ ncalls' = [ncalls EXCEPT ![c] = @ + 1]
    /\ IF IsLeaf(Root)
       THEN LET r == LeafNext(Root) IN
            /\ L' = [L EXCEPT ![Root] = r[1]]
            /\ RootNextDone(c, r[2], r[3], [L EXCEPT ![Root] = r[1]])
            /\ UNCHANGED stack
       ELSE /\ stack' = [stack EXCEPT ![c] = <<Frame(Root, "N", "rlock")>>]
            /\ UNCHANGED <<L, lastT, finT, snap, fired, observedEnd, viol, lastRet>>
    /\ UNCHANGED <<tree, head, readers, writer, now>>
    /\ UNCHANGED <<probes, probing>>

CallLeft(c) ==
    /\ "L" \in Ops /\ Idle(c) /\ ncalls[c] < MaxCalls /\ ~InCtor
    /\ ncalls' = [ncalls EXCEPT ![c] = @ + 1]
    /\ IF IsLeaf(Root)
       THEN /\ RootLeftDone(c, LeafLeft(Root), Remaining)
            /\ UNCHANGED <<stack, snap>>
       ELSE /\ stack' = [stack EXCEPT ![c] = <<Frame(Root, "L", "l_rlock")>>]
            /\ UNCHANGED <<lastT, finT, snap, fired, observedEnd, viol, lastRet>>
    /\ UNCHANGED <<tree, L, head, readers, writer, now>>
    /\ UNCHANGED <<cst, probes, probing>>

-----------------------------------------------------------------------------
(* compositeSchedule.Next *)

\* s.rwMu.RLock()
NRLock(c) ==
    /\ ~Idle(c) /\ Top(c).pc = "rlock"
    /\ LET n == Top(c).node IN
       /\ writer[n] = "none"
       /\ readers' = [readers EXCEPT ![n] = @ \cup {c}]
       /\ stack' = SetTop(c, [Top(c) EXCEPT !.pc = "child"])
    /\ UNCHANGED <<tree, L, head, writer, now, ncalls, lastT, finT, snap, fired, observedEnd, viol, lastRet>>
    /\ UNCHANGED <<cst, probes, probing>>

\* tx, ok = s.scheds[0].Next()   (three call sites: under RLock, and twice under Lock)
ChildNextPc == {"child", "wchild1", "wchild2", "l_wchild"}
ContPc(pc) == CASE pc = "child" -> "got" [] pc = "wchild1" -> "wgot1" [] pc = "wchild2" -> "wgot2" [] pc = "l_wchild" -> "l_wgot"

NChild(c) ==
    /\ ~Idle(c) /\ Top(c).pc \in ChildNextPc
    /\ LET f == Top(c)
           ch == Cur(f.node)
       IN IF IsLeaf(ch)
          THEN LET r == LeafNext(ch) IN
               /\ L' = [L EXCEPT ![ch] = r[1]]
               /\ stack' = SetTop(c, [f EXCEPT !.pc = ContPc(f.pc), !.tx = r[2], !.ok = r[3]])
               /\ UNCHANGED cst
          ELSE /\ stack' = [stack EXCEPT ![c] = Append(Append(Rest(c), [f EXCEPT !.pc = ContPc(f.pc)]),
                                                        Frame(ch, "N", "rlock"))]
               /\ cst' = [cst EXCEPT ![ch] = TRUE]                            \* s.started.Store(true) on entry
               /\ UNCHANGED L
    /\ UNCHANGED <<tree, head, readers, writer, now, ncalls, lastT, finT, snap, fired, observedEnd, viol, lastRet>>
    /\ UNCHANGED <<probes, probing>>

\* after the child's Next under the read lock: RUnlock, then return or go for the write lock
NGot(c) ==
    /\ ~Idle(c) /\ Top(c).pc = "got"
    /\ LET f == Top(c)
           n == f.node
           sl == SchedsLeft(n)
       IN /\ readers' = [readers EXCEPT ![n] = @ \ {c}]
          /\ IF f.ok \/ sl = 1
             THEN RetNext(c, f.tx, f.ok)
             ELSE /\ stack' = SetTop(c, [f EXCEPT !.pc = "lock", !.sl = sl])
                  /\ UNCHANGED <<lastT, finT, snap, fired, observedEnd, viol, lastRet>>
    /\ UNCHANGED <<tree, L, head, writer, now, ncalls>>
    /\ UNCHANGED <<cst, probes, probing>>

\* startNext(t): shift and Start the new current schedule at t (Start on a composite starts its first leaf)
StartNextEffect(n, t) ==
    LET h2   == [head EXCEPT ![n] = @ + 1]
        ch   == Kids(n)[head[n] + 1]
        RECURSIVE FL(_)
        FL(m) == IF IsLeaf(m) THEN m ELSE FL(Kids(m)[h2[m]])
        lf   == FL(ch)
    IN  /\ head' = h2
        /\ cst' = [m \in DOMAIN cst |-> cst[m] \/ m \in StartChain(ch, h2)]
        /\ L' = [L EXCEPT ![lf] = [@ EXCEPT !.startd = TRUE, !.st = t, !.fin = t + Dur(lf)]]
        /\ viol' = viol \cup (IF L[lf].startd THEN {"DoubleStartPanic"} ELSE {})

\* s.rwMu.Lock(); schedsLeftNow := len(s.scheds); somebodyStartedNextBeforeUs?
NLock(c) ==
    /\ ~Idle(c) /\ Top(c).pc = "lock"
    /\ LET f == Top(c)
           n == f.node
           sln == SchedsLeft(n)
       IN /\ readers[n] = {} /\ writer[n] = "none"
          /\ writer' = [writer EXCEPT ![n] = c]
          /\ IF Recheck /\ sln < f.sl
             THEN /\ stack' = SetTop(c, [f EXCEPT !.pc = "wchild1", !.sln = sln])
                  /\ UNCHANGED <<L, head, viol, cst>>
             ELSE IF sln = 1
                  THEN \* only reachable without the re-check: startNext would index past the end
                       /\ viol' = viol \cup {"StartNextPastEnd"}
                       /\ stack' = SetTop(c, [f EXCEPT !.pc = "wgot1", !.sln = 1, !.ok = FALSE])
                       /\ UNCHANGED <<L, head, cst>>
                  ELSE /\ StartNextEffect(n, f.tx)
                       /\ stack' = SetTop(c, [f EXCEPT !.pc = "wchild2", !.sln = sln])
    /\ UNCHANGED <<tree, readers, now, ncalls, lastT, finT, snap, fired, observedEnd, lastRet>>
    /\ UNCHANGED <<probes, probing>>

\* Unlock after the "somebody started next" branch
NWGot1(c) ==
    /\ ~Idle(c) /\ Top(c).pc = "wgot1"
    /\ LET f == Top(c)
           n == f.node
       IN /\ writer' = [writer EXCEPT ![n] = "none"]
          /\ IF f.ok \/ f.sln = 1
             THEN RetNext(c, f.tx, f.ok)
             ELSE /\ stack' = SetTop(c, [f EXCEPT !.pc = "rlock"])      \* return s.Next()
                  /\ UNCHANGED <<lastT, finT, snap, fired, observedEnd, viol, lastRet>>
    /\ UNCHANGED <<tree, L, head, readers, now, ncalls>>
    /\ UNCHANGED <<cst, probes, probing>>

\* Unlock after startNext + Next
NWGot2(c) ==
    /\ ~Idle(c) /\ Top(c).pc = "wgot2"
    /\ LET f == Top(c)
           n == f.node
       IN /\ writer' = [writer EXCEPT ![n] = "none"]
          /\ IF ~f.ok /\ f.sln > 1
             THEN /\ stack' = SetTop(c, [f EXCEPT !.pc = "rlock"])      \* schedule without tokens: retry
                  /\ UNCHANGED <<lastT, finT, snap, fired, observedEnd, viol, lastRet>>
             ELSE RetNext(c, f.tx, f.ok)
    /\ UNCHANGED <<tree, L, head, readers, now, ncalls>>
    /\ UNCHANGED <<cst, probes, probing>>

-----------------------------------------------------------------------------
(* compositeSchedule.Left *)

LRLock(c) ==
    /\ ~Idle(c) /\ Top(c).pc = "l_rlock"
    /\ LET n == Top(c).node IN
       /\ writer[n] = "none"
       /\ readers' = [readers EXCEPT ![n] = @ \cup {c}]
       /\ stack' = SetTop(c, [Top(c) EXCEPT !.pc = "l_child"])
    /\ UNCHANGED <<tree, L, head, writer, now, ncalls, lastT, finT, snap, fired, observedEnd, viol, lastRet>>
    /\ UNCHANGED <<cst, probes, probing>>

\* schedsLeft, leftAfter[0], left = s.scheds[0].Left()  (under the read lock)
LChild(c) ==
    /\ ~Idle(c) /\ Top(c).pc = "l_child"
    /\ LET f == Top(c)
           n == f.node
           ch == Cur(n)
           g == [f EXCEPT !.pc = "l_got", !.sl = SchedsLeft(n), !.la = LAfter(tree, n, head[n])]
       IN IF IsLeaf(ch)
          THEN /\ stack' = SetTop(c, [g EXCEPT !.left = LeafLeft(ch)])
               /\ snap' = [snap EXCEPT ![c] = Remaining]       \* linearisation point of Left()
          ELSE /\ stack' = [stack EXCEPT ![c] = Append(Append(Rest(c), g), Frame(ch, "L", "l_rlock"))]
               /\ UNCHANGED snap
    /\ UNCHANGED <<tree, L, head, readers, writer, now, ncalls, lastT, finT, fired, observedEnd, viol, lastRet>>
    /\ UNCHANGED <<cst, probes, probing>>

LGot(c) ==
    /\ ~Idle(c) /\ Top(c).pc = "l_got"
    /\ LET f == Top(c)
           n == f.node
       IN /\ readers' = [readers EXCEPT ![n] = @ \ {c}]
          /\ IF f.sl = 1 THEN RetLeft(c, f.left)
             ELSE IF f.left = 0
                  THEN IF f.la >= 0 THEN RetLeft(c, f.la)
                       ELSE IF FixNoShift /\ ~cst[n] THEN RetLeft(c, -1)     \* never started: nothing can be finished
                       ELSE /\ stack' = SetTop(c, [f EXCEPT !.pc = "l_lock"])
                            /\ UNCHANGED <<lastT, finT, snap, fired, observedEnd, viol, lastRet, probing>>
             ELSE IF f.left < 0 THEN RetLeft(c, -1)
             ELSE IF f.la < 0 /\ FixLeft THEN RetLeft(c, -1)
             ELSE RetLeft(c, f.left + f.la)
    /\ UNCHANGED <<tree, L, head, writer, now, ncalls>>
    /\ UNCHANGED <<cst, probes>>

\* s.rwMu.Lock(); if nobody shifted meanwhile: Next() on the finished current, startNext
LLock(c) ==
    /\ ~Idle(c) /\ Top(c).pc = "l_lock"
    /\ LET f == Top(c)
           n == f.node
       IN /\ readers[n] = {} /\ writer[n] = "none"
          /\ writer' = [writer EXCEPT ![n] = c]
          /\ stack' = SetTop(c, [f EXCEPT !.pc = IF SchedsLeft(n) = f.sl THEN "l_wchild" ELSE "l_unlock"])
    /\ UNCHANGED <<tree, L, head, readers, now, ncalls, lastT, finT, snap, fired, observedEnd, viol, lastRet>>
    /\ UNCHANGED <<cst, probes, probing>>

LWGot(c) ==
    /\ ~Idle(c) /\ Top(c).pc = "l_wgot"
    /\ LET f == Top(c)
           n == f.node
       IN IF f.ok
          THEN /\ viol' = viol \cup {"LeftShiftPanic"}       \* panic("current schedule is not finished")
               /\ stack' = SetTop(c, [f EXCEPT !.pc = "l_unlock"])
               /\ UNCHANGED <<L, head, cst>>
          ELSE /\ StartNextEffect(n, f.tx)
               /\ stack' = SetTop(c, [f EXCEPT !.pc = "l_unlock"])
    /\ UNCHANGED <<tree, readers, writer, now, ncalls, lastT, finT, snap, fired, observedEnd, lastRet>>
    /\ UNCHANGED <<probes, probing>>

LUnlock(c) ==
    /\ ~Idle(c) /\ Top(c).pc = "l_unlock"
    /\ LET f == Top(c) IN
       /\ writer' = [writer EXCEPT ![f.node] = "none"]
       /\ stack' = SetTop(c, [f EXCEPT !.pc = "l_rlock"])             \* return s.Left()
    /\ UNCHANGED <<tree, L, head, readers, now, ncalls, lastT, finT, snap, fired, observedEnd, viol, lastRet>>
    /\ UNCHANGED <<cst, probes, probing>>

-----------------------------------------------------------------------------

\* Only an unlimited part reads the clock after its start (tokens = now while now < finish); a timed part hands out
\* start + offset, and the only clock reading of a tree without unlimited parts is its lazy start.  For such a tree the
\* clock values 0 and 1 ("started at once" / "started later") are all that can be told apart.
ClockNeed == IF \E m \in 1..Len(tree.kind) : tree.kind[m] = "unl" THEN MaxNow ELSE 1
Tick == /\ now < MaxNow /\ now < ClockNeed /\ ~InCtor
        /\ now' = now + 1
        /\ hist' = Append(hist, [c |-> "clock", a |-> "Tick", node |-> 0, pc |-> "", depth |-> 0, ret |-> <<>>])
        /\ UNCHANGED <<tree, L, head, readers, writer, stack, ncalls, lastT, finT, snap, fired, observedEnd, viol, lastRet, cst, probes, probing>>

\* NewComposite calls Left() on the next nested composite (sequentially, before anybody else can use the tree)
\* The last entry, 0, is the explicit root.Start(t0 = 0) of start mode "explicit" (after construction, before any call).
CtorProbe ==
    /\ probes # <<>> /\ ~probing
    /\ probes' = Tail(probes)
    /\ IF Head(probes) = 0
       THEN LET RECURSIVE FL0(_)
                FL0(m) == IF IsLeaf(m) THEN m ELSE FL0(Kids(m)[head[m]])
                lf == FL0(Root)
            IN  /\ L' = [L EXCEPT ![lf] = [@ EXCEPT !.startd = TRUE, !.st = 0, !.fin = Dur(lf)]]
                /\ cst' = [m \in DOMAIN cst |-> cst[m] \/ m \in StartChain(Root, head)]
                /\ viol' = viol \cup (IF L[lf].startd THEN {"DoubleStartPanic"} ELSE {})
                /\ UNCHANGED <<stack, probing>>
       ELSE /\ LET c == CHOOSE x \in Callers : TRUE IN
               stack' = [stack EXCEPT ![c] = <<Frame(Head(probes), "L", "l_rlock")>>]
            /\ probing' = TRUE
            /\ UNCHANGED <<L, cst, viol>>
    /\ UNCHANGED <<tree, head, readers, writer, now, ncalls, lastT, finT, snap, fired, observedEnd, lastRet, hist>>

\* the unlabelled step relation (hist is assigned by the labelled wrapper below)
Acts == <<"CallNext", "CallLeft", "NRLock", "NChild", "NGot", "NLock", "NWGot1", "NWGot2",
          "LRLock", "LChild", "LGot", "LLock", "LWGot", "LUnlock">>
Act(c, a) == CASE a = "CallNext" -> CallNext(c) [] a = "CallLeft" -> CallLeft(c)
               [] a = "NRLock" -> NRLock(c) [] a = "NChild" -> NChild(c) [] a = "NGot" -> NGot(c)
               [] a = "NLock" -> NLock(c) [] a = "NWGot1" -> NWGot1(c) [] a = "NWGot2" -> NWGot2(c)
               [] a = "LRLock" -> LRLock(c) [] a = "LChild" -> LChild(c) [] a = "LGot" -> LGot(c)
               [] a = "LLock" -> LLock(c) [] a = "LWGot" -> LWGot(c) [] a = "LUnlock" -> LUnlock(c)

\* history entry: who, which action, on which node / at which pc it started, and the root-level result if
\* this step completed a root call
Lab(c, a) ==
    hist' = IF InCtor THEN hist ELSE
            Append(hist, [c |-> c, a |-> a,
                          node |-> IF Idle(c) THEN 0 ELSE Top(c).node,
                          pc |-> IF Idle(c) THEN "idle" ELSE Top(c).pc,
                          depth |-> Len(stack[c]),
                          ret |-> IF stack'[c] = <<>> THEN lastRet'[c] ELSE <<>>])

Step(c) == \E i \in 1..Len(Acts) : Act(c, Acts[i]) /\ Lab(c, Acts[i])
StepNoHist(c) == \E i \in 1..Len(Acts) : Act(c, Acts[i])

Next == Tick \/ CtorProbe \/ \E c \in Callers : Step(c)

\* explicit Start(t0) on the root reaches every composite on the way to the first leaf
InitStartChain(t) ==
    LET RECURSIVE SC0(_)
        SC0(m) == IF t.kind[m] # "comp" THEN {} ELSE {m} \cup SC0(t.kids[m][1])
    IN  SC0(1)

InitLeaf(t, n, mode) ==
    \* explicit Start(t0 = 0) reaches the first leaf only; the others start when their turn comes
    LET RECURSIVE FL0(_)
        FL0(m) == IF t.kind[m] # "comp" THEN m ELSE FL0(t.kids[m][1])
    IN  IF mode = "explicit" /\ n = FL0(1)
        THEN [cnt |-> 0, startd |-> TRUE, st |-> 0, fin |-> t.dur[n]]
        ELSE [cnt |-> 0, startd |-> FALSE, st |-> 0, fin |-> 0]

Init == /\ \E t \in Trees, m \in StartModes :
             tree = [kind |-> t.kind, kids |-> t.kids, toks |-> t.toks, dur |-> t.dur, mode |-> m]
        /\ L = [n \in {m \in 1..Len(tree.kind) : tree.kind[m] # "comp"} |-> InitLeaf(tree, n, "lazy")]
        /\ head = [n \in {m \in 1..Len(tree.kind) : tree.kind[m] = "comp"} |-> 1]
        /\ readers = [n \in {m \in 1..Len(tree.kind) : tree.kind[m] = "comp"} |-> {}]
        /\ writer = [n \in {m \in 1..Len(tree.kind) : tree.kind[m] = "comp"} |-> "none"]
        /\ now = 0
        /\ stack = [c \in Callers |-> <<>>]
        /\ ncalls = [c \in Callers |-> 0]
        /\ lastT = [c \in Callers |-> 0]
        /\ finT = [c \in Callers |-> -1]
        /\ snap = [c \in Callers |-> 0]
        /\ fired = FALSE
        /\ observedEnd = FALSE
        /\ viol = {}
        /\ lastRet = [c \in Callers |-> <<>>]
        /\ hist = <<>>
        /\ cst = [n \in {m \in 1..Len(tree.kind) : tree.kind[m] = "comp"} |-> FALSE]
        /\ probes = ProbeSeq(tree, 1) \o (IF tree.mode = "explicit" THEN <<0>> ELSE <<>>)
        /\ probing = FALSE

Spec == Init /\ [][Next]_vars

-----------------------------------------------------------------------------
(* properties *)

TypeOK == /\ \A n \in Comps : head[n] \in 1..Len(Kids(n))
          /\ \A n \in Comps : writer[n] # "none" => readers[n] = {}

NoViolation          == viol = {}
CallerMonotone       == "CallerMonotone" \notin viol
StableFinish         == "StableFinish" \notin viol
AllDrawnWhenFinished == "AllDrawnWhenFinished" \notin viol
LeftExact            == "LeftExact" \notin viol /\ "LeftNegativeOnlyIfUnknown" \notin viol
NoPanic              == viol \cap {"DoubleStartPanic", "LeftShiftPanic", "StartNextPastEnd"} = {}
OnFinishOnce         == fired = observedEnd

\* each nested part starts exactly at the finish time of the part before it (DFS order of leaves)
RECURSIVE LeafSeq(_)
LeafSeq(n) == IF IsLeaf(n) THEN <<n>>
              ELSE LET RECURSIVE Cat(_)
                       Cat(k) == IF k > Len(Kids(n)) THEN <<>> ELSE LeafSeq(Kids(n)[k]) \o Cat(k + 1)
                   IN  Cat(1)
ChainedStart == LET ls == LeafSeq(Root) IN
                \A k \in 2..Len(ls) : L[ls[k]].startd =>
                    /\ L[ls[k-1]].startd
                    /\ L[ls[k]].st = L[ls[k-1]].st + Dur(ls[k-1])

\* nobody is stuck: whenever somebody is inside a call, some step is enabled (no lock deadlock)
Done == \A c \in Callers : Idle(c) /\ ncalls[c] = MaxCalls

NoStuck == (\E c \in Callers : ~Idle(c)) => ENABLED (\E c \in Callers : StepNoHist(c))

=============================================================================
