---------------------------- MODULE SamplePoolMC -----------------------------
(* Constants for TLC: the sample life-cycle machine and the plans of the pool runs. *)
EXTENDS SamplePool, TLC

PO3 == {"o1", "o2", "o3"}
PI2 == {"i1", "i2"}
PI1 == {"i1"}
NoInst == {}

POut(k, st) == [kind |-> k, status |-> st]
PShot(o, d) == [kind |-> "http", out |-> o, dump |-> d]
PDisc == [kind |-> "discard"]
\* design level: a success, two failures (one with a status), a dumping success, a discard
KindsSmall == {PShot(POut("status", 200), FALSE), PShot(POut("refused", 0), FALSE), PShot(POut("truncated", 503), FALSE),
               PShot(POut("status", 200), TRUE), PDisc}
\* pool runs: what a shot of a plan may be
KindsRun == {PShot(POut("status", 200), FALSE), PShot(POut("status", 404), FALSE), PShot(POut("refused", 0), FALSE),
             PShot(POut("reset", 0), FALSE), PShot(POut("truncated", 503), FALSE), PShot(POut("resetbody", 200), FALSE),
             PShot(POut("status", 200), TRUE), PShot(POut("status", 503), TRUE), PDisc}
NoCases == {}
ObjSym == Permutations(Objs)
=============================================================================
