---------------------------- MODULE AmmoProvider ----------------------------
(***************************************************************************)
(* C08 - limit/passes semantics and clean end-of-ammo on every provider.   *)
(*                                                                         *)
(* One state machine per provider kind, at the grain of the loops of the   *)
(* Go code (one action per loop iteration / decision / channel operation): *)
(*                                                                         *)
(*  uri, uris, raw, uripost, jsonline, jsonarray  (x stream | preload)     *)
(*      components/providers/http/provider/provider.go  Run, runFullScan,  *)
(*      loadAmmo, runPreloaded;  http/decoders/{uri,raw,uripost,jsonline}  *)
(*      Scan / scanAmmos / protoDecoder.LoadAmmo.  Unbuffered sink.        *)
(*  httpscn, grpcscn   components/providers/scenario/provider.go Run over  *)
(*      the weighted ring built by decodeAmmo/SpreadNames. Buffered sink.  *)
(*  grpcjson           components/providers/grpc/grpcjson/provider.go start*)
(*      + grpc/provider.go Run.  Buffered sink.                            *)
(*  json               core/provider/decoder.go DecodeProvider.Run over    *)
(*      lib/ioutil2 MultiPassReader.  Buffered queue.                      *)
(*                                                                         *)
(* A cell of the matrix is chosen in Init; consumers are anonymous         *)
(* (counted), a cancel may arrive at any time (AnyCancel) and is forced    *)
(* when the consumers have taken Stop(c) items (the driver's cut).         *)
(* Bugs is a set of names switching single decisions back to the pre-fix   *)
(* / mutated behaviour: the negative controls.                             *)
(***************************************************************************)
EXTENDS Integers, Sequences, FiniteSets, TLC

CONSTANTS KindModes,   \* set of <<kind, preload>>
          Limits, PassesSet, WeightSets, Consumers, Cuts,   \* the matrix
          SinkCap,     \* abstraction of the buffered sinks (100 / 128 / 8192 in the code)
          MaxSkip,     \* a Go select with ctx.Done() ready may still pick the send at most MaxSkip times in a row
          AnyCancel,   \* cancel at any time (besides the cut)
          SpinSlack, CancelSlack,   \* NoSpin: idle <= entries + SpinSlack; Prompt: aftc <= 2 * entries + CancelSlack
          Bugs

HttpKinds == {"uri", "uris", "raw", "uripost", "jsonline", "jsonarray"}
ScnKinds  == {"httpscn", "grpcscn"}
AllKinds  == HttpKinds \cup ScnKinds \cup {"grpcjson", "json"}

----------------------------------------------------------------------------
(* The weighted ring of the scenario providers (config.SpreadNames + decodeAmmo) *)
RECURSIVE GCD(_, _)
GCD(a, b) == IF b = 0 THEN a ELSE GCD(b, a % b)
RECURSIVE GCDSeq(_)
GCDSeq(w) == IF Len(w) = 1 THEN w[1] ELSE GCD(w[1], GCDSeq(Tail(w)))
RECURSIVE Rep(_, _)
Rep(x, n) == IF n = 0 THEN <<>> ELSE <<x>> \o Rep(x, n - 1)
RECURSIVE Cat(_, _)
Cat(f, n) == IF n = 0 THEN <<>> ELSE Cat(f, n - 1) \o f[n]

RECURSIVE SumTo(_, _)
SumTo(f, j) == IF j = 0 THEN 0 ELSE f[j] + SumTo(f, j - 1)
\* entry j of the file is handed out Copies(k, w)[j] times per pass, copies adjacent, file order
Copies(k, w) == IF k \in ScnKinds /\ Len(w) > 1
                THEN LET g == GCDSeq(w) IN [j \in 1..Len(w) |-> w[j] \div g]
                ELSE [j \in 1..Len(w) |-> 1]
Ring(k, w)   == Cat([j \in 1..Len(w) |-> Rep(j, Copies(k, w)[j])], Len(w))
RingLen(k, w) == LET cp == Copies(k, w) IN SumTo(cp, Len(w))

----------------------------------------------------------------------------
(* The property as a function of the cell *)
Min(S) == CHOOSE x \in S : \A y \in S : x <= y
Entries(c)  == RingLen(c.kind, c.w)
BoundSet(c) == {b \in {c.limit, c.passes * Entries(c)} : b # 0}
Bounded(c)  == BoundSet(c) # {}
Expected(c) == IF Bounded(c) THEN Min(BoundSet(c)) ELSE -1
\* over-delivery guard of a bounded cell / cut of an unbounded one / number of RPS tokens of the engine run
Cap(c)      == (IF Bounded(c) THEN Expected(c) ELSE 0) + 2 * Entries(c) + 3
\* consumers stop taking and the run is cancelled when Stop(c) items were taken
\* (cut = -1: the context is cancelled before Run starts - nothing is taken)
Stop(c)     == IF c.cut > 0 THEN c.cut ELSE IF c.cut < 0 THEN 0 ELSE Cap(c)
\* how many times entry j is among the first n deliveries (cyclic file / ring order): every full round hands out
\* Copies[j]; in the last, partial round entry j occupies ring positions Before(j)+1 .. Before(j)+Copies[j]
RECURSIVE Prefix(_, _)      \* <<0, f[1], f[1]+f[2], ...>>, length j + 1
Prefix(f, j) == IF j = 0 THEN <<0>> ELSE LET p == Prefix(f, j - 1) IN Append(p, p[j] + f[j])
Hist(c, n)  == LET cp  == Copies(c.kind, c.w)
                   N   == Len(c.w)
                   pre == Prefix(cp, N)          \* pre[j] = ring positions before entry j
                   L   == pre[N + 1]
                   rem == n % L
                   part(j) == IF rem <= pre[j] THEN 0 ELSE IF rem - pre[j] >= cp[j] THEN cp[j] ELSE rem - pre[j]
               IN [j \in 1..N |-> (n \div L) * cp[j] + part(j)]
\* (the same, by counting over the explicit ring: used to cross-check Hist on the small matrix)
HistByRing(c, n) == LET r == Ring(c.kind, c.w) IN
               [j \in 1..Len(c.w) |-> Cardinality({i \in 0..(n - 1) : r[(i % Len(r)) + 1] = j})]

CellOK(c) == /\ c.cut > 0 => (Bounded(c) => c.cut < Expected(c))   \* an early cut is a cut
             /\ c.kind \notin ScnKinds => \A j \in 1..Len(c.w) : c.w[j] = 1   \* weights only matter for scenarios
CellsOf(KM, Ls, Ps, Ws, Cs, Cu) ==
    {c \in UNION {[kind : {km[1]}, preload : {km[2]}, limit : Ls, passes : Ps, w : Ws, nc : Cs, cut : Cu] : km \in KM} :
        CellOK(c)}
Cells == CellsOf(KindModes, Limits, PassesSet, WeightSets, Consumers, Cuts)

----------------------------------------------------------------------------
VARIABLES c,          \* the cell
          pc, pos, ammoNum, passNum, nload, inner,   \* provider goroutine
          sink, sinkClosed, res,                     \* channel, Run's result ("none" while running)
          cancelled, ucancel,
          delivered, drained, nrun, neof,            \* consumers
          idle, aftc, skips                          \* ghost: steps since last send, steps after cancel, select unfairness
vars == <<c, pc, pos, ammoNum, passNum, nload, inner, sink, sinkClosed, res, cancelled, ucancel,
          delivered, drained, nrun, neof, idle, aftc, skips>>

K == c.kind
E == Entries(c)
Buffered == K \notin HttpKinds
CapOfSink == IF Buffered THEN SinkCap ELSE 0

InitPc(cc) == IF cc.kind \in HttpKinds THEN (IF cc.preload THEN "load" ELSE "fs_ctx")
              ELSE IF cc.kind \in ScnKinds THEN "pre_iter"
              ELSE IF cc.kind = "grpcjson" THEN "g_pass" ELSE "j_limit"

InitWith(S) ==
        /\ c \in S
        /\ pc = InitPc(c)
        /\ pos = 0 /\ ammoNum = 0 /\ passNum = 0 /\ nload = 0 /\ inner = 0
        /\ sink = 0 /\ sinkClosed = FALSE /\ res = "none"
        /\ cancelled = FALSE /\ ucancel = FALSE
        /\ delivered = 0 /\ drained = 0 /\ nrun = c.nc /\ neof = 0
        /\ idle = 0 /\ aftc = 0 /\ skips = 0
Init == InitWith(Cells)

----------------------------------------------------------------------------
(* decisions that the fixes / mutants touch *)
LimitHit(n)      == c.limit # 0 /\ (IF "limit_gt" \in Bugs THEN n > c.limit ELSE n >= c.limit)
PassHit(p)       == c.passes # 0 /\ (IF "pass_off_by_one" \in Bugs THEN p > c.passes ELSE p >= c.passes)
\* what Run returns when a bound is reached
BoundResult      == IF \/ ("preload_err" \in Bugs /\ K \in HttpKinds /\ c.preload)
                       \/ ("scn_err" \in Bugs /\ K \in ScnKinds)
                       \/ ("limit_err" \in Bugs /\ K \in HttpKinds /\ ~c.preload)
                    THEN "err" ELSE "nil"
ClosesSink(r)    == ~ \/ ("scn_noclose" \in Bugs /\ K \in ScnKinds)
                      \/ ("noclose_on_limit" \in Bugs /\ K \in HttpKinds /\ r # "ctx")

\* ghost bookkeeping of an internal step (neither a send nor a return)
Tick == /\ idle' = idle + 1
        /\ aftc' = IF cancelled THEN aftc + 1 ELSE aftc
        /\ UNCHANGED <<sink, sinkClosed, res, cancelled, ucancel, delivered, drained, nrun, neof, skips, c>>

Return(r) == /\ res' = r /\ pc' = "done"
             /\ sinkClosed' = ClosesSink(r)      \* deferred close(Sink) / close(OutQueue)
             /\ idle' = 0
             /\ UNCHANGED <<pos, ammoNum, passNum, nload, inner, sink, cancelled, ucancel, delivered, drained,
                            nrun, neof, aftc, skips, c>>

----------------------------------------------------------------------------
(* HTTP provider, streaming: runFullScan + Decoder.Scan *)
FsCtx ==      \* provider.go runFullScan: `if err := ctx.Err(); err != nil { return err }`
  /\ pc = "fs_ctx"
  /\ IF cancelled THEN Return("ctx")
     ELSE pc' = "scan_limit" /\ Tick /\ UNCHANGED <<pos, ammoNum, passNum, nload, inner>>

ScanLimit ==  \* decoders/*.go Scan: `if d.config.Limit != 0 && d.ammoNum >= d.config.Limit { return nil, ErrAmmoLimit }`
  /\ pc = "scan_limit"
  /\ IF LimitHit(ammoNum) THEN Return(BoundResult)
     ELSE /\ pc' = IF K = "jsonarray" THEN "scan_arr" ELSE "scan"
          /\ inner' = 0 /\ Tick /\ UNCHANGED <<pos, ammoNum, passNum, nload>>

HasCtxCheck == K \in {"uri", "uris", "raw", "uripost"} /\ "noctx_scan" \notin Bugs

\* jsonline looks at the pass bound at the TOP of its loop, i.e. after it has rewound the file; uri / raw / uripost look
\* at it BEFORE the Seek (negative control "rewind_first": they rewind first too - harmless on a regular file, an
\* error on a source that cannot seek although nothing more was wanted from it)
RewindsFirst == K = "jsonline" \/ ("rewind_first" \in Bugs /\ K \in {"uri", "uris", "raw", "uripost"})

ScanLine ==   \* one iteration of the read loop of uri / raw / uripost / jsonline Scan
  /\ pc = "scan"
  /\ IF HasCtxCheck /\ cancelled THEN Return("ctx")
     ELSE IF RewindsFirst /\ PassHit(passNum) THEN Return(BoundResult)    \* top of jsonline's loop
     ELSE IF pos < E
          THEN /\ pos' = pos + 1 /\ ammoNum' = ammoNum + 1 /\ pc' = "send"
               /\ Tick /\ UNCHANGED <<passNum, nload, inner>>
          ELSE \* EOF: next pass
               IF ~RewindsFirst /\ PassHit(passNum + 1) THEN Return(BoundResult)
               ELSE IF ammoNum = 0 THEN Return("err")                      \* ErrNoAmmo
               ELSE IF K = "uripost" /\ inner + 1 >= 2 THEN Return("err")  \* "unexpected behavior"
               ELSE /\ passNum' = passNum + 1 /\ pos' = 0 /\ inner' = inner + 1 /\ pc' = "scan"
                    /\ Tick /\ UNCHANGED <<ammoNum, nload>>

ArrStep(next) ==    \* jsonline.go scanAmmos
  LET i == ammoNum % E IN
  /\ passNum' = IF i = E - 1 /\ ("array_single" \in Bugs => ammoNum > 0) THEN passNum + 1 ELSE passNum
  /\ ammoNum' = ammoNum + 1
  /\ pc' = next

ScanArr ==
  /\ pc = "scan_arr"
  /\ IF PassHit(passNum) THEN Return(BoundResult)
     ELSE ArrStep("send") /\ Tick /\ UNCHANGED <<pos, nload, inner>>

(* HTTP provider, preload: protoDecoder.LoadAmmo (passes forced to 1, limit to 0) then runPreloaded *)
Load ==
  /\ pc = "load"
  /\ IF K = "jsonarray"
     THEN IF passNum >= 1
          THEN pc' = "pre_iter" /\ ammoNum' = 0 /\ passNum' = 0 /\ Tick /\ UNCHANGED <<pos, nload, inner>>
          ELSE ArrStep("load") /\ nload' = nload + 1 /\ Tick /\ UNCHANGED <<pos, inner>>
     ELSE IF HasCtxCheck /\ cancelled THEN Return("ctx")       \* "cant LoadAmmo, err: context canceled"
     ELSE IF pos < E
          THEN pos' = pos + 1 /\ nload' = nload + 1 /\ Tick /\ UNCHANGED <<pc, ammoNum, passNum, inner>>
          ELSE pc' = "pre_iter" /\ ammoNum' = 0 /\ passNum' = 0 /\ Tick /\ UNCHANGED <<pos, nload, inner>>

(* runPreloaded and scenario.Provider.Run: one loop iteration up to the select *)
PreIter ==
  LET L == IF K \in ScnKinds THEN E ELSE nload IN
  /\ pc = "pre_iter"
  /\ IF L = 0 THEN Return("err")
     ELSE IF cancelled THEN Return("ctx")
     ELSE IF PassHit(ammoNum \div L) THEN Return(BoundResult)
     ELSE IF LimitHit(ammoNum) THEN Return(BoundResult)
     ELSE ammoNum' = ammoNum + 1 /\ pc' = "send" /\ Tick /\ UNCHANGED <<pos, passNum, nload, inner>>

(* grpc/json: grpcjson/provider.go start *)
GPass ==
  /\ pc = "g_pass"
  /\ passNum' = passNum + 1 /\ pc' = "g_scan" /\ Tick /\ UNCHANGED <<pos, ammoNum, nload, inner>>
GScan ==      \* `scanner.Scan() && (p.Limit == 0 || ammoNum < p.Limit)` - the line is read before the limit is looked at
  /\ pc = "g_scan"
  /\ IF pos < E
     THEN /\ pos' = pos + 1
          /\ IF c.limit = 0 \/ ammoNum < c.limit
             THEN ammoNum' = ammoNum + 1 /\ pc' = "send"
             ELSE ammoNum' = ammoNum /\ pc' = "g_after"
     ELSE pos' = pos /\ ammoNum' = ammoNum /\ pc' = "g_after"
  /\ Tick /\ UNCHANGED <<passNum, nload, inner>>
GAfter ==
  /\ pc = "g_after"
  /\ IF PassHit(passNum) THEN Return("nil")
     ELSE IF "grpc_spin" \notin Bugs /\ c.limit # 0 /\ ammoNum >= c.limit THEN Return("nil")
     ELSE IF "grpc_spin" \notin Bugs /\ ammoNum = 0 THEN Return("err")
     ELSE pos' = 0 /\ pc' = "g_pass" /\ Tick /\ UNCHANGED <<ammoNum, passNum, nload, inner>>

(* generic json: DecodeProvider.Run + MultiPassReader.Read (passNum plays passesCount) *)
JLimit ==
  /\ pc = "j_limit"
  /\ IF c.limit > 0 /\ ammoNum >= c.limit THEN Return("nil")
     ELSE pc' = "j_decode" /\ Tick /\ UNCHANGED <<pos, ammoNum, passNum, nload, inner>>
JDecode ==
  /\ pc = "j_decode"
  /\ IF pos < E
     THEN pos' = pos + 1 /\ pc' = "send" /\ Tick /\ UNCHANGED <<ammoNum, passNum, nload, inner>>
     ELSE IF c.passes <= 0 \/ passNum + 1 < c.passes     \* passes = 1: the plain source, EOF ends the run
          THEN passNum' = passNum + 1 /\ pos' = 0 /\ Tick /\ UNCHANGED <<pc, ammoNum, nload, inner>>
          ELSE Return("nil")

----------------------------------------------------------------------------
(* the send: `select { case <-ctx.Done(): ...; case sink <- ammo: }` *)
Willing == nrun > 0 /\ (delivered < Stop(c) \/ res # "none")
Take == IF delivered < Stop(c) THEN delivered' = delivered + 1 /\ drained' = drained
                               ELSE drained' = drained + 1 /\ delivered' = delivered
AfterSend == IF K \in HttpKinds THEN (IF c.preload THEN "pre_iter" ELSE "fs_ctx")
             ELSE IF K \in ScnKinds THEN "pre_iter"
             ELSE IF K = "grpcjson" THEN "g_scan" ELSE "j_limit"
HasDoneCase == "nodone_select" \notin Bugs \/ ~(K \in HttpKinds /\ c.preload)

SendOK ==
  /\ pc = "send"
  /\ (cancelled /\ HasDoneCase) => skips < MaxSkip
  /\ IF Buffered THEN sink < CapOfSink /\ sink' = sink + 1 /\ UNCHANGED <<delivered, drained>>
                 ELSE Willing /\ Take /\ sink' = sink          \* rendezvous with a consumer in Acquire
  /\ skips' = IF cancelled THEN skips + 1 ELSE 0
  /\ pc' = AfterSend
  /\ ammoNum' = IF K = "json" THEN ammoNum + 1 ELSE ammoNum
  /\ idle' = 0 /\ aftc' = IF cancelled THEN aftc + 1 ELSE aftc
  /\ UNCHANGED <<pos, passNum, nload, inner, sinkClosed, res, cancelled, ucancel, nrun, neof, c>>

SendDone ==
  /\ pc = "send" /\ cancelled /\ HasDoneCase
  /\ Return(IF K \in {"grpcjson", "json"} THEN "nil" ELSE "ctx")

ProvNext == FsCtx \/ ScanLimit \/ ScanLine \/ ScanArr \/ Load \/ PreIter \/ GPass \/ GScan \/ GAfter
            \/ JLimit \/ JDecode \/ SendOK \/ SendDone

----------------------------------------------------------------------------
(* consumers: Acquire in a loop *)
Recv == /\ Buffered /\ Willing /\ sink > 0
        /\ sink' = sink - 1 /\ Take
        /\ UNCHANGED <<c, pc, pos, ammoNum, passNum, nload, inner, sinkClosed, res, cancelled, ucancel, nrun, neof,
                       idle, aftc, skips>>
Eof ==  /\ nrun > 0 /\ sink = 0 /\ sinkClosed
        /\ nrun' = nrun - 1 /\ neof' = neof + 1
        /\ UNCHANGED <<c, pc, pos, ammoNum, passNum, nload, inner, sink, sinkClosed, res, cancelled, ucancel,
                       delivered, drained, idle, aftc, skips>>
ConsNext == Recv \/ Eof

CutCancel ==  /\ delivered = Stop(c) /\ ~cancelled /\ res = "none"
              /\ cancelled' = TRUE
              /\ UNCHANGED <<c, pc, pos, ammoNum, passNum, nload, inner, sink, sinkClosed, res, ucancel,
                             delivered, drained, nrun, neof, idle, aftc, skips>>
UserCancel == /\ AnyCancel /\ ~cancelled /\ res = "none"
              /\ cancelled' = TRUE /\ ucancel' = TRUE
              /\ UNCHANGED <<c, pc, pos, ammoNum, passNum, nload, inner, sink, sinkClosed, res,
                             delivered, drained, nrun, neof, idle, aftc, skips>>

Fair == ProvNext \/ ConsNext \/ CutCancel
Next == Fair \/ UserCancel
Spec == Init /\ [][Next]_vars /\ WF_vars(ProvNext) /\ WF_vars(ConsNext) /\ WF_vars(CutCancel)

----------------------------------------------------------------------------
(* Properties *)
TypeOK == /\ res \in {"none", "nil", "ctx", "err"}
          /\ sink \in 0..SinkCap /\ nrun + neof = c.nc
          /\ delivered \in 0..Stop(c)

\* limit and passes are never exceeded, whatever the interleaving and wherever a cancel falls
NeverMore   == Bounded(c) => delivered + drained + sink <= Expected(c)
\* reaching a bound or being cancelled is not an error; "ctx" only after a cancel
NoError     == res \in {"none", "nil", "ctx"} /\ (res = "ctx" => cancelled)
CloseAtExit == sinkClosed => res # "none"
\* no spinning: never more than SpinBound internal steps without a send or a return
NoSpin      == idle <= Entries(c) + SpinSlack
\* after a cancel the provider returns within CancelBound of its own steps
Prompt      == aftc <= 2 * Entries(c) + CancelSlack

\* REWINDS.  In this model every Seek(0, start) of a streaming file-backed provider is the step that starts the next
\* pass: for uri / raw / uripost / jsonline passNum counts exactly those steps, grpc/json counts the pass it is in.
\* The kinds that do not peek into the file (everything but http/json) never rewind unless an entry of a further pass
\* is still wanted: with bounds that lie inside the first pass the file is read front to back once and never
\* repositioned - so such a run needs nothing from its source but Read (a FIFO, a pipe).  TraceAmmoProvider binds this
\* with a source whose Seek always fails (NoSeekOK).
NoPeekKinds == {"uri", "raw", "uripost", "grpcjson"}
Rewinds     == IF K \in {"uri", "raw", "uripost", "jsonline"} /\ ~c.preload THEN passNum
               ELSE IF K = "grpcjson" /\ passNum > 0 THEN passNum - 1 ELSE 0
NoNeedlessRewind == (K \in NoPeekKinds /\ Bounded(c)) => Rewinds * E < Expected(c)

\* Every behaviour is finite (NoSpin + bounded deliveries), so what liveness demands is exactly that every
\* state in which nothing fair can happen any more is a good final state:
Quiescent   == ~ENABLED Fair
GoodEnd     == /\ res # "none" /\ sinkClosed /\ nrun = 0 /\ sink = 0       \* returned, closed, everyone saw ok=false
               /\ ~cancelled => (/\ res = "nil" /\ delivered + drained = Expected(c)
                                 /\ delivered = Min({Stop(c), Expected(c)}))
               /\ (cancelled /\ ~ucancel) => delivered = Stop(c)
QuiescentOK == Quiescent => GoodEnd

Terminates  == <>(res # "none" /\ sinkClosed /\ nrun = 0)
=============================================================================
