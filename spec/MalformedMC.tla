---------------------------- MODULE MalformedMC ----------------------------
(* Model-checking instance of Malformed: exhaustive over the case space; at every terminal state the   *)
(* case and the outcome the specification allows are printed - the case list the driver renders (M2).  *)
EXTENDS Malformed, Json

Export == Done => PrintT(<<"VERIF", ToJson([c |-> cs, res |-> st.res, out |-> st.out])>>)
=============================================================================
