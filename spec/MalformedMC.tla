---------------------------- MODULE MalformedMC ----------------------------
(* Model-checking instance of Malformed: exhaustive over the case space; at every terminal state the   *)
(* case and the outcome the specification allows are printed - the case list the driver renders (M2).  *)
EXTENDS Malformed, Json

\* request-list alphabets: quick tier (the tokens that distinguish "what is in front of a sleep"), negative controls
QuickReqTokens == {"R1", "R0", "Rneg", "S", "S0", "Sneg", "Sbad"}
NegReqTokens   == {"R1", "R0", "S"}

NegLongArgs    == { <<12, 5, 2>> }      \* the negative controls need no 400-line file

Export == Done => PrintT(<<"VERIF", ToJson([c |-> cs, res |-> st.res, out |-> st.out])>>)
=============================================================================
