------------------------- MODULE TraceScenarioProc -------------------------
(* C15, processors: one NDJSON line per case that `vdrive scenproc` ran through the REAL http/scenario provider,  *)
(* gun and engine (one scenario per case: step a with the case's processors against the case's response letter,   *)
(* step b rendering every captured variable into a header of its own).  The observation must be Expected(case)    *)
(* as ScenarioProc computes it - the texts included.                                                              *)
EXTENDS ScenarioProc, Json, IOUtils

VARIABLE l

Trace == ndJsonDeserialize(IOEnv.VERIF_TRACE)
Chunk == 16

TInit == l = 0
TNext == \/ l = 0 /\ l' \in {j \in 1..Len(Trace) : j % Chunk = 1}
         \/ l > 0 /\ l % Chunk # 0 /\ l < Len(Trace) /\ l' = l + 1

R == Trace[IF l = 0 THEN 1 ELSE l]
C == R.case
O == R.obs
Post == l > 0 /\ C.kind = "post"
IsFn == l > 0 /\ C.kind = "fn"

\* the real provider and gun could be built from the rendered description and the engine run returned nil
Built == l = 0 \/ (O.build_err = "" /\ O.run_err = "")

\* step a: one sample with the received status; failed exactly when the specification says so
StepAOK == Post => LET e == Expected(C, O.blen) IN
    /\ O.a.n = 1 /\ O.areqs = 1
    /\ O.a.proto = e.status
    /\ O.a.err = e.fail /\ O.a.empty = e.fail
\* step b: not executed after a failed a; otherwise sent once, and its headers carry the captured texts
StepBOK == Post => LET e == Expected(C, O.blen) IN
    IF e.fail THEN O.b.n = 0 /\ O.breqs = 0
    ELSE /\ O.b.n = 1 /\ O.breqs = 1 /\ O.b.proto = 200 /\ ~O.b.err
         /\ \A v \in Vars : O.vals[v] = e.vals[v]

\* variable functions: the step is executed, the rendered value has the promised shape and range
FnOK == IsFn => /\ O.a.n = 1 /\ O.areqs = 1 /\ O.a.proto = 200 /\ ~O.a.err
                /\ FnShapeOK(C.fn, O.pval)
=============================================================================
