------------------------------- MODULE PoolRun -------------------------------
(***************************************************************************)
(* C05: run outcome and termination at every finish, failure and cancel    *)
(* point.  Implementation-shaped model of core/engine/engine.go (and the   *)
(* instance life cycle of instance.go as far as the outcome depends on it):*)
(*                                                                         *)
(*   Engine.Run        one goroutine per pool (pool.Run, then a two-way    *)
(*                     select "send poolRunResult / ctx.Done"), the main   *)
(*                     loop over the 1-buffered runRes channel, deferred   *)
(*                     cancel; Engine.Wait on the WaitGroup                *)
(*   instancePool.Run  warmUpGun, runAsync (shared schedule creation, the  *)
(*                     three component goroutines), awaitRunAsync, final   *)
(*                     select "ctx.Done / awaitErr"; deferred cancel       *)
(*   awaitRun          four result sources, ANY ready select case may be   *)
(*                     taken; onErrAwaited (two-way select); instance      *)
(*                     start cancel on out-of-ammo;                        *)
(*                     checkAllInstancesAreFinished (close + runCancel)    *)
(*   startInstances    first instance created synchronously, later ones in *)
(*                     their own goroutines                                *)
(*   instance.Run      IsFinished / Acquire / Wait / Shoot loop, panic in  *)
(*                     Shoot recovered into an error, gun Close            *)
(*                                                                         *)
(* Contexts: engine ctx (user cancel, or Engine.Run returned), pool ctx    *)
(* (+ pool.Run returned), run ctx (+ runCancel by                          *)
(* checkAllInstancesAreFinished), start ctx (+ instanceStartCancel on      *)
(* out-of-ammo / shared RPS schedule finished).                            *)
(*                                                                         *)
(* The component behaviour (which component fails and where) is a fault    *)
(* plan chosen from the CONSTANT Plans in Init.  The specification         *)
(* describes the REPAIRED code; the CONSTANTS Fix* = FALSE select the      *)
(* shipped / mutated variants used as negative controls.                   *)
(***************************************************************************)
EXTENDS Integers, Sequences, FiniteSets, TLC

CONSTANTS Plans,        \* set of fault plans (see PoolRunMC)
          MaxN,         \* instance ids are 0..MaxN-1
          FixWaitDone,  \* TRUE: runAsync failure calls onWaitDone (repaired); FALSE: as shipped
          FixSuppress,  \* TRUE: onErrAwaited gives up on the POOL ctx (repaired); FALSE: on the run ctx
          FixClose,     \* FALSE: instance does not close its gun (negative control)
          FixPanic,     \* FALSE: a recovered shot panic is returned as nil (negative control)
          ErrKinds,     \* which VALUE a failing component returns (plan field ek), see Cls below
          FixEngCancel, \* FALSE: the pools run on the CALLER's ctx, Engine.Run's deferred cancel() does not reach them (negative control)
          FixEngSelect, \* FALSE: Engine.Run's loop has no `case <-ctx.Done()`: a cancel is noticed only when a pool result arrives (negative control)
          FixIsCtx      \* FALSE: IsCtxError accepts any context-kind cause once ctx is done (negative control)

VARIABLES
  plan,            \* the fault plan of this behaviour (never changes)
  cancelReq,       \* the caller decided to cancel the ctx given to Engine.Run (logged) ...
  userCancel,      \* ... and cancel() took effect
  engDefer,        \* Engine.Run's deferred cancel() took effect
  cancelAtRet,     \* ghost: userCancel when Engine.Run returned
  engI,            \* Engine.Run: number of pool results awaited
  engRet,          \* Engine.Run's result [k |-> none|nil|ctx|err, p, c]
  engCh,           \* Engine.Run's runRes channel (capacity 1): sequence of [p, ret]
  waitRet,         \* Engine.Wait returned
  poolPc,          \* [pool -> init|async|select|ret|report|done]  the pool goroutine started by Engine.Run
  poolRet,         \* [pool -> [k, c]]  what instancePool.Run returned
  wdCount,         \* [pool -> number of onWaitDone calls]
  runCancelled,    \* [pool -> BOOLEAN]  runCancel() called by checkAllInstancesAreFinished
  startCancelled,  \* [pool -> BOOLEAN]  instanceStartCancel()
  runClosed,       \* [pool -> BOOLEAN]  runCtx.Done() is closed (observable)
  startClosed,     \* [pool -> BOOLEAN]  instanceStartCtx.Done() is closed (observable)
  prov, provCh,    \* provider goroutine idle|run|done; its 1-buffered result channel empty|<class>
  ammoLeft, qClosed,
  agg, aggCh,
  st,              \* startInstances: [pc |-> idle|first|create|loop|ret|done, started]
  startCh,         \* [k |-> empty|full, n, c]
  gunCalls, schedCalls,   \* calls of the gun / schedule factory so far
  stok,            \* tokens left on the shared RPS schedule
  ipc,             \* [pool -> [inst -> none|create|bind|check|acq|wait|shoot|exit|fin|done]]
  itok, ishots, icls,
  gun,             \* [pool -> [inst -> none|bound|closed]]
  closes,          \* [pool -> [inst -> number of Close calls]]
  resBag,          \* [pool -> set of [id, c]]   instance results sent and not yet received
  aw,              \* the await goroutine [pc |-> idle|loop|check|onerr|done, toWait, started, awaited,
                   \*                      provSeen, aggSeen, startSeen, resOpen, pend, after]
  failed,          \* ghost: [pool -> set of causes: non-context component errors / panics that happened]
  fwd,             \* ghost: [pool -> cause forwarded through awaitErr, or "none"]
  supp             \* ghost: [pool -> set of causes suppressed by onErrAwaited]

engVars  == <<cancelReq, userCancel, engDefer, cancelAtRet, engI, engRet, engCh, waitRet>>
poolVars == <<poolPc, poolRet, wdCount>>
ctxVars  == <<runCancelled, startCancelled, runClosed, startClosed>>
provVars == <<prov, provCh, ammoLeft, qClosed>>
aggVars  == <<agg, aggCh>>
stVars   == <<st, startCh>>
facVars  == <<gunCalls, schedCalls>>
instVars == <<ipc, itok, ishots, icls, gun, closes, resBag, stok>>
awVars   == <<aw, fwd, supp>>
vars == <<plan, engVars, poolVars, ctxVars, provVars, aggVars, stVars, facVars, instVars, awVars, failed>>

NP     == Len(plan.pools)
Pools  == 1..NP
PP(p)  == plan.pools[p]
Insts  == 0..(MaxN - 1)

Ret(k, c)      == [k |-> k, c |-> c]
ERet(k, p, c)  == [k |-> k, p |-> p, c |-> c]

(* ---- contexts ---------------------------------------------------------- *)
\* A cancel takes effect one step AFTER the step that decides it (the hook / log line of the deciding
\* step is written before cancel() is called, and another goroutine may read the context in between).
EngineCtxDone == userCancel \/ engDefer                        \* deferred cancel() of Engine.Run
\* the ctx handed to pool.Run: Engine.Run's own derived ctx, so that its deferred cancel() stops EVERY pool,
\* whatever made Run return (the first failed pool, the caller's cancel, or success)
PoolParentDone == userCancel \/ (FixEngCancel /\ engDefer)
PoolDone(p)   == PoolParentDone \/ poolPc[p] \in {"report", "done"}   \* deferred cancel() of instancePool.Run
\* cancel() closes the context's own Done channel first and its children afterwards, one by one: a reader of the
\* run / start context can still see it open although the parent (or the cancel decision) is already visible to
\* others.  CtxProp is that propagation.  (Pool and engine ctx are only ever read as "done", so no lag is modelled.)
RunDone(p)    == runClosed[p]
StartDone(p)  == startClosed[p]

(* ---- error values ------------------------------------------------------ *)
\* A component result is abstracted to the VALUE of its cause (pkg/errors.Cause), because that is all
\* errutil.IsCtxError looks at:
\*   "nil"       no error
\*   "ctx"       the sentinel context.Canceled.  It is ONE value for all contexts: the run context's own
\*               error returned late ("runctx") and the Canceled of a component's private context
\*               ("canceled") cannot be told apart by the engine
\*   "deadline"  the sentinel context.DeadlineExceeded of a component's OWN deadline.  The engine's contexts
\*               are only ever cancelled (the caller's ctx has no deadline here), so this is never the
\*               engine's own cancellation and must be reported, however late it arrives
\*   anything else ("prov", "agg", "newgun", "bind", "sched", "warmup", "panic", "ooa")  ordinary errors,
\*               plain or wrapped (a fmt.Errorf("%w") wrapper is its own cause, even around Canceled)
\* The plan's error kind ek \in ErrKinds decides which value the plan's failing component returns at
\* position pos:
ASSUME ErrKinds \subseteq {"plain", "wrapped", "deadline", "canceled", "runctx"}
Cls(p, pos) == CASE PP(p).ek \in {"plain", "wrapped"} -> pos
                 [] PP(p).ek = "deadline" -> "deadline"
                 [] PP(p).ek \in {"canceled", "runctx"} -> "ctx"

\* errutil.IsCtxError(ctx, err): err == nil, or ctx.Err() == Cause(err): identity with the error of THAT
\* ctx, which is nil while it is open and context.Canceled once it is cancelled.  What counts as a component
\* failure is therefore: every non-nil result that is not "ctx", and "ctx" when the checked context is still
\* open at classification time.  A "ctx" result classified after the checked context is done is indistinguishable
\* from the engine's own cancellation and is legitimately ignored.
IsCtx(done, e) == \/ e = "nil"
                  \/ e = "ctx" /\ done
                  \/ ~FixIsCtx /\ done /\ e = "deadline"      \* negative control only
NotCtxValue(c) == c \notin {"nil", "ctx"}

(* ---- component calls that do not return -------------------------------- *)
\* Plan field block: ONE component call of the pool that is context-unaware and slow: it returns only after
\* Engine.Run has returned (the driver's mock blocks on a channel that is released after Run returned).  Positions:
\*   "newgun-warmup", "warmup"   gun factory call 0 / WarmUp inside warmUpGun         (synchronous part of pool.Run)
\*   "sched-shared"              the shared schedule factory inside runAsync           (synchronous part of pool.Run)
\*   "newgun-first", "bind-first" creation of the first instance (start goroutine)
\*   "shoot"                     the first shot of instance 0
\* A run with such a pool can only end through the caller's cancel, and "a cancelled Run returns promptly" then
\* means: without waiting for that call (CancelPrompt, CancelPromptLive).
Released == engRet.k # "none"
Unblocked(p, positions) == PP(p).block \in positions => Released

(* ---- initial state ----------------------------------------------------- *)
InitFor(pl) ==
  /\ plan = pl
  /\ cancelReq = FALSE /\ userCancel = FALSE /\ engDefer = FALSE /\ cancelAtRet = FALSE
  /\ engI = 0 /\ engRet = ERet("none", 0, "") /\ engCh = <<>> /\ waitRet = FALSE
  /\ poolPc = [p \in 1..Len(pl.pools) |-> "init"]
  /\ poolRet = [p \in 1..Len(pl.pools) |-> Ret("none", "")]
  /\ wdCount = [p \in 1..Len(pl.pools) |-> 0]
  /\ runCancelled = [p \in 1..Len(pl.pools) |-> FALSE]
  /\ startCancelled = [p \in 1..Len(pl.pools) |-> FALSE]
  /\ runClosed = [p \in 1..Len(pl.pools) |-> FALSE]
  /\ startClosed = [p \in 1..Len(pl.pools) |-> FALSE]
  /\ prov = [p \in 1..Len(pl.pools) |-> "idle"]
  /\ provCh = [p \in 1..Len(pl.pools) |-> "empty"]
  /\ ammoLeft = [p \in 1..Len(pl.pools) |-> pl.pools[p].ammo]
  /\ qClosed = [p \in 1..Len(pl.pools) |-> FALSE]
  /\ agg = [p \in 1..Len(pl.pools) |-> "idle"]
  /\ aggCh = [p \in 1..Len(pl.pools) |-> "empty"]
  /\ st = [p \in 1..Len(pl.pools) |-> [pc |-> "idle", started |-> 0]]
  /\ startCh = [p \in 1..Len(pl.pools) |-> [k |-> "empty", n |-> 0, c |-> ""]]
  /\ gunCalls = [p \in 1..Len(pl.pools) |-> 0]
  /\ schedCalls = [p \in 1..Len(pl.pools) |-> 0]
  /\ stok = [p \in 1..Len(pl.pools) |-> pl.pools[p].t]
  /\ ipc = [p \in 1..Len(pl.pools) |-> [i \in Insts |-> "none"]]
  /\ itok = [p \in 1..Len(pl.pools) |-> [i \in Insts |-> pl.pools[p].t]]
  /\ ishots = [p \in 1..Len(pl.pools) |-> [i \in Insts |-> 0]]
  /\ icls = [p \in 1..Len(pl.pools) |-> [i \in Insts |-> ""]]
  /\ gun = [p \in 1..Len(pl.pools) |-> [i \in Insts |-> "none"]]
  /\ closes = [p \in 1..Len(pl.pools) |-> [i \in Insts |-> 0]]
  /\ resBag = [p \in 1..Len(pl.pools) |-> {}]
  /\ aw = [p \in 1..Len(pl.pools) |-> [pc |-> "idle", toWait |-> 4, started |-> -1, awaited |-> 0,
                                     provSeen |-> FALSE, aggSeen |-> FALSE, startSeen |-> FALSE,
                                     resOpen |-> TRUE, pend |-> "", after |-> ""]]
  /\ failed = [p \in 1..Len(pl.pools) |-> {}]
  /\ fwd = [p \in 1..Len(pl.pools) |-> "none"]
  /\ supp = [p \in 1..Len(pl.pools) |-> {}]

Init == \E pl \in Plans : InitFor(pl)

(* ======================================================================= *)
(* Engine.Run / Engine.Wait / the caller                                   *)
(* ======================================================================= *)

\* for i < len(pools) { select { case res := <-runRes: ... } } ; return nil
EngRecv ==
  /\ engRet.k = "none" /\ Len(engCh) > 0
  /\ LET r == Head(engCh) IN
       /\ engCh' = Tail(engCh)
       /\ IF r.ret.k # "nil"
          THEN \* if res.Err != nil { select { case <-ctx.Done(): return ctx.Err(); default: }; return wrapped }
               /\ engRet' = IF userCancel THEN ERet("ctx", 0, "") ELSE ERet("err", r.p, r.ret.c)
               /\ engI' = engI
          ELSE /\ engI' = engI + 1
               /\ engRet' = IF engI + 1 = NP THEN ERet("nil", 0, "") ELSE engRet
  /\ cancelAtRet' = IF engRet'.k # "none" THEN userCancel ELSE cancelAtRet
  /\ UNCHANGED <<plan, cancelReq, userCancel, engDefer, waitRet, poolVars, ctxVars, provVars, aggVars, stVars, facVars, instVars, awVars, failed>>

\* case <-ctx.Done(): return ctx.Err()
EngCancel ==
  /\ FixEngSelect
  /\ engRet.k = "none" /\ userCancel
  /\ engRet' = ERet("ctx", 0, "") /\ cancelAtRet' = TRUE
  /\ UNCHANGED <<plan, cancelReq, userCancel, engDefer, engI, engCh, waitRet, poolVars, ctxVars, provVars, aggVars, stVars, facVars, instVars, awVars, failed>>

\* defer cancel() of Engine.Run
EngDefer ==
  /\ engRet.k # "none" /\ ~engDefer
  /\ engDefer' = TRUE
  /\ UNCHANGED <<plan, cancelReq, userCancel, cancelAtRet, engI, engRet, engCh, waitRet, poolVars, ctxVars, provVars, aggVars, stVars, facVars, instVars, awVars, failed>>

EngStep == EngRecv \/ EngCancel \/ EngDefer

\* the caller cancels the context while Run is in progress
UserCancel ==
  /\ plan.cancel /\ ~cancelReq /\ engRet.k = "none"
  /\ cancelReq' = TRUE
  /\ UNCHANGED <<plan, userCancel, engDefer, cancelAtRet, engI, engRet, engCh, waitRet, poolVars, ctxVars, provVars, aggVars, stVars, facVars, instVars, awVars, failed>>

UserCancelDo ==
  /\ cancelReq /\ ~userCancel
  /\ userCancel' = TRUE
  /\ UNCHANGED <<plan, cancelReq, engDefer, cancelAtRet, engI, engRet, engCh, waitRet, poolVars, ctxVars, provVars, aggVars, stVars, facVars, instVars, awVars, failed>>

\* Engine.Wait (called after Run returned)
WaitReturn ==
  /\ engRet.k # "none" /\ ~waitRet
  /\ \A p \in Pools : wdCount[p] > 0
  /\ waitRet' = TRUE
  /\ UNCHANGED <<plan, cancelReq, userCancel, engDefer, cancelAtRet, engI, engRet, engCh, poolVars, ctxVars, provVars, aggVars, stVars, facVars, instVars, awVars, failed>>

(* ======================================================================= *)
(* instancePool.Run and the pool goroutine of Engine.Run                   *)
(* ======================================================================= *)

\* a synchronous failure of instancePool.Run (before the await goroutine exists)
PoolFailSync(p, c, callWaitDone) ==
  /\ poolRet' = [poolRet EXCEPT ![p] = Ret("err", c)]
  /\ poolPc' = [poolPc EXCEPT ![p] = "ret"]
  /\ wdCount' = [wdCount EXCEPT ![p] = IF callWaitDone THEN @ + 1 ELSE @]
  /\ failed' = [failed EXCEPT ![p] = @ \cup {c}]

\* warmUpGun: NewGun() (factory call 0), WarmUp() for a warmup.WarmedUp gun
PoolWarm(p) ==
  /\ poolPc[p] = "init" /\ Unblocked(p, {"newgun-warmup", "warmup"})
  /\ gunCalls' = [gunCalls EXCEPT ![p] = 1]
  /\ IF PP(p).gunFail = 0 THEN PoolFailSync(p, Cls(p, "newgun"), TRUE)
     ELSE IF PP(p).warm = "fail" THEN PoolFailSync(p, Cls(p, "warmup"), TRUE)
     ELSE /\ poolPc' = [poolPc EXCEPT ![p] = "async"]
          /\ UNCHANGED <<poolRet, wdCount, failed>>
  /\ UNCHANGED <<plan, engVars, ctxVars, provVars, aggVars, stVars, schedCalls, instVars, awVars>>

\* runAsync + awaitRunAsync: shared schedule creation, start of the component goroutines
PoolAsync(p) ==
  /\ poolPc[p] = "async" /\ Unblocked(p, {"sched-shared"})
  /\ IF PP(p).shared /\ PP(p).schedFail = 0
     THEN /\ PoolFailSync(p, Cls(p, "sched"), FixWaitDone)
          /\ schedCalls' = [schedCalls EXCEPT ![p] = 1]
          /\ UNCHANGED <<prov, agg, st, aw>>
     ELSE /\ poolPc' = [poolPc EXCEPT ![p] = "select"]
          /\ schedCalls' = [schedCalls EXCEPT ![p] = IF PP(p).shared THEN 1 ELSE 0]
          /\ prov' = [prov EXCEPT ![p] = "run"]
          /\ agg' = [agg EXCEPT ![p] = "run"]
          /\ st' = [st EXCEPT ![p].pc = "first"]
          /\ aw' = [aw EXCEPT ![p].pc = "loop"]
          /\ UNCHANGED <<poolRet, wdCount, failed>>
  /\ UNCHANGED <<plan, engVars, ctxVars, provCh, ammoLeft, qClosed, aggCh, startCh, gunCalls, instVars, fwd, supp>>

\* final select of instancePool.Run: case <-ctx.Done(): return ctx.Err()
PoolSelectCancel(p) ==
  /\ poolPc[p] = "select" /\ PoolParentDone
  /\ poolRet' = [poolRet EXCEPT ![p] = Ret("ctx", "")]
  /\ poolPc' = [poolPc EXCEPT ![p] = "ret"]
  /\ UNCHANGED <<plan, engVars, wdCount, ctxVars, provVars, aggVars, stVars, facVars, instVars, awVars, failed>>

\* case err, ok := <-awaitErr with ok = false (closed): return nil
PoolSelectClosed(p) ==
  /\ poolPc[p] = "select" /\ aw[p].pc = "done"
  /\ poolRet' = [poolRet EXCEPT ![p] = Ret("nil", "")]
  /\ poolPc' = [poolPc EXCEPT ![p] = "ret"]
  /\ UNCHANGED <<plan, engVars, wdCount, ctxVars, provVars, aggVars, stVars, facVars, instVars, awVars, failed>>

\* defer cancel() of instancePool.Run
PoolDefer(p) ==
  /\ poolPc[p] = "ret"
  /\ poolPc' = [poolPc EXCEPT ![p] = "report"]
  /\ UNCHANGED <<plan, engVars, poolRet, wdCount, ctxVars, provVars, aggVars, stVars, facVars, instVars, awVars, failed>>

\* Engine.Run's pool goroutine: select { case runRes <- res: ; case <-ctx.Done(): }
PoolReportSend(p) ==
  /\ poolPc[p] = "report" /\ Len(engCh) < 1
  /\ engCh' = Append(engCh, [p |-> p, ret |-> poolRet[p]])
  /\ poolPc' = [poolPc EXCEPT ![p] = "done"]
  /\ UNCHANGED <<plan, cancelReq, userCancel, engDefer, cancelAtRet, engI, engRet, waitRet, poolRet, wdCount, ctxVars, provVars, aggVars, stVars, facVars, instVars, awVars, failed>>

PoolReportSuppress(p) ==
  /\ poolPc[p] = "report" /\ EngineCtxDone
  /\ poolPc' = [poolPc EXCEPT ![p] = "done"]
  /\ UNCHANGED <<plan, engVars, poolRet, wdCount, ctxVars, provVars, aggVars, stVars, facVars, instVars, awVars, failed>>

PoolStep(p) == PoolWarm(p) \/ PoolAsync(p) \/ PoolSelectCancel(p) \/ PoolSelectClosed(p) \/ PoolDefer(p)
               \/ PoolReportSend(p) \/ PoolReportSuppress(p)

(* ======================================================================= *)
(* provider and aggregator (scripted by the plan)                          *)
(* ======================================================================= *)

\* which result the provider's Run may return now
ProvMay(p, c) ==
  \/ c = "nil"  /\ PP(p).provider = "ok"   /\ ammoLeft[p] = 0
  \/ c = Cls(p, "prov") /\ PP(p).provider = "fail" /\ ammoLeft[p] = 0    \* fails before the first ammo (ammo = 0) / mid-run
  \/ c = "ctx"  /\ PP(p).provider \in {"ok", "fail"} /\ RunDone(p)
  \/ c = Cls(p, "prov") /\ PP(p).provider = "end"  /\ RunDone(p)         \* fails at the very end: error on cancel

ProvEnd(p, c) ==
  /\ prov[p] = "run" /\ ProvMay(p, c)
  /\ prov' = [prov EXCEPT ![p] = "done"]
  /\ provCh' = [provCh EXCEPT ![p] = c]
  /\ qClosed' = [qClosed EXCEPT ![p] = TRUE]
  /\ failed' = [failed EXCEPT ![p] = IF NotCtxValue(c) THEN @ \cup {c} ELSE @]
  /\ UNCHANGED <<plan, engVars, poolVars, ctxVars, ammoLeft, aggVars, stVars, facVars, instVars, awVars>>

\* a provider that fails at the very end closes its queue when it runs dry but keeps running
ProvCloseQ(p) ==
  /\ prov[p] = "run" /\ PP(p).provider = "end" /\ ammoLeft[p] = 0 /\ ~qClosed[p]
  /\ qClosed' = [qClosed EXCEPT ![p] = TRUE]
  /\ UNCHANGED <<plan, engVars, poolVars, ctxVars, prov, provCh, ammoLeft, aggVars, stVars, facVars, instVars, awVars, failed>>

ProvStep(p) == (\E c \in {"nil", "ctx", "prov", "deadline"} : ProvEnd(p, c)) \/ ProvCloseQ(p)

AggMay(p, c) ==
  \/ c = Cls(p, "agg") /\ PP(p).aggregator = "now"                   \* fails at once
  \/ c = "nil" /\ PP(p).aggregator = "ok"   /\ RunDone(p)
  \/ c = Cls(p, "agg") /\ PP(p).aggregator = "drop" /\ RunDone(p)    \* "N samples were dropped" / flush error when cancelled

AggEnd(p, c) ==
  /\ agg[p] = "run" /\ AggMay(p, c)
  /\ agg' = [agg EXCEPT ![p] = "done"]
  /\ aggCh' = [aggCh EXCEPT ![p] = c]
  /\ failed' = [failed EXCEPT ![p] = IF NotCtxValue(c) THEN @ \cup {c} ELSE @]
  /\ UNCHANGED <<plan, engVars, poolVars, ctxVars, provVars, stVars, facVars, instVars, awVars>>

AggStep(p) == \E c \in {"nil", "ctx", "agg", "deadline"} : AggEnd(p, c)

(* ======================================================================= *)
(* startInstances and instance creation                                    *)
(* ======================================================================= *)

\* newInstance: newSchedule(), newGun(), gun.Bind() - the outcome is decided by the plan
CreateOutcome(p, i) ==
  IF ~PP(p).shared /\ PP(p).schedFail = schedCalls[p] THEN "sched"
  ELSE IF PP(p).gunFail = gunCalls[p] THEN "newgun"
  ELSE IF PP(p).bindFail = i THEN "bind"
  ELSE "ok"

CreateCounters(p, i) ==
  /\ schedCalls' = [schedCalls EXCEPT ![p] = IF PP(p).shared THEN @ ELSE @ + 1]
  /\ gunCalls' = [gunCalls EXCEPT ![p] = IF CreateOutcome(p, i) = "sched" THEN @ ELSE @ + 1]

StartSend(p, n, c) ==
  /\ startCh' = [startCh EXCEPT ![p] = [k |-> "full", n |-> n, c |-> c]]
  /\ st' = [st EXCEPT ![p].pc = "done"]

\* waiter.Wait(startCtx) failed before the first instance
StartFirstNone(p) ==
  /\ st[p].pc = "first" /\ (StartDone(p) \/ PP(p).n = 0)
  /\ st' = [st EXCEPT ![p].pc = "ret"]
  /\ UNCHANGED <<plan, engVars, poolVars, ctxVars, provVars, aggVars, startCh, facVars, instVars, awVars, failed>>

\* waiter.Wait(startCtx) succeeded: go on to create the first instance
StartFirstGo(p) ==
  /\ st[p].pc = "first" /\ ~StartDone(p) /\ PP(p).n > 0
  /\ st' = [st EXCEPT ![p].pc = "create"]
  /\ UNCHANGED <<plan, engVars, poolVars, ctxVars, provVars, aggVars, startCh, facVars, instVars, awVars, failed>>

\* first instance is created synchronously; a failure is the start result
StartFirstCreate(p, o) ==
  /\ st[p].pc = "create" /\ Unblocked(p, {"newgun-first", "bind-first"})
  /\ o = CreateOutcome(p, 0)
  /\ CreateCounters(p, 0)
  /\ IF o = "ok"
     THEN /\ st' = [st EXCEPT ![p].pc = "loop", ![p].started = 1]
          /\ ipc' = [ipc EXCEPT ![p][0] = "check"]
          /\ gun' = [gun EXCEPT ![p][0] = "bound"]
          /\ UNCHANGED <<startCh, failed>>
     ELSE /\ StartSend(p, 0, Cls(p, o))
          /\ failed' = [failed EXCEPT ![p] = IF NotCtxValue(Cls(p, o)) THEN @ \cup {Cls(p, o)} ELSE @]
          /\ UNCHANGED <<ipc, gun>>
  /\ UNCHANGED <<plan, engVars, poolVars, ctxVars, provVars, aggVars, itok, ishots, icls, closes, resBag, stok, awVars>>

\* for ; waiter.Wait(startCtx); started++ { go runNewInstance }
StartLoop(p) ==
  /\ st[p].pc = "loop"
  /\ IF StartDone(p) \/ st[p].started >= PP(p).n
     THEN st' = [st EXCEPT ![p].pc = "ret"] /\ UNCHANGED ipc
     ELSE /\ ipc' = [ipc EXCEPT ![p][st[p].started] = "create"]
          /\ st' = [st EXCEPT ![p].started = @ + 1]
  /\ UNCHANGED <<plan, engVars, poolVars, ctxVars, provVars, aggVars, startCh, facVars, itok, ishots, icls, gun, closes, resBag, stok, awVars, failed>>

\* err = startCtx.Err(); return
StartRet(p) ==
  /\ st[p].pc = "ret"
  /\ StartSend(p, st[p].started, IF StartDone(p) THEN "ctx" ELSE "nil")
  /\ UNCHANGED <<plan, engVars, poolVars, ctxVars, provVars, aggVars, facVars, instVars, awVars, failed>>

StartStep(p) == StartFirstNone(p) \/ StartFirstGo(p) \/ (\E o \in {"ok", "sched", "newgun", "bind"} : StartFirstCreate(p, o))
                \/ StartLoop(p) \/ StartRet(p)

\* runNewInstance in its own goroutine: a creation failure is that instance's run result
\* With one asynchronous instance (MaxN = 2) the factory calls and Bind of a creation are one step.  With two or
\* more (MaxN >= 3) their creations race: instance 1 may take gun-factory call 2 and instance 2 call 3, yet instance 2
\* binds first - so the factory calls (GunCall, which fixes the call index) and the Bind (InstBind) are separate steps.
SplitCreate == MaxN >= 3

InstCreate(p, i, o) ==
  /\ ~SplitCreate
  /\ ipc[p][i] = "create"
  /\ o = CreateOutcome(p, i)
  /\ CreateCounters(p, i)
  /\ IF o = "ok"
     THEN /\ ipc' = [ipc EXCEPT ![p][i] = "check"]
          /\ gun' = [gun EXCEPT ![p][i] = "bound"]
          /\ UNCHANGED <<resBag, failed>>
     ELSE /\ ipc' = [ipc EXCEPT ![p][i] = "done"]
          /\ resBag' = [resBag EXCEPT ![p] = @ \cup {[id |-> i, c |-> Cls(p, o)]}]
          /\ failed' = [failed EXCEPT ![p] = IF NotCtxValue(Cls(p, o)) THEN @ \cup {Cls(p, o)} ELSE @]
          /\ UNCHANGED gun
  /\ UNCHANGED <<plan, engVars, poolVars, ctxVars, provVars, aggVars, stVars, itok, ishots, icls, closes, stok, awVars>>

\* newSchedule() and newGun() of an asynchronous instance
GunCall(p, i) ==
  /\ SplitCreate /\ ipc[p][i] = "create"
  /\ CreateCounters(p, i)
  /\ IF CreateOutcome(p, i) \in {"sched", "newgun"}
     THEN /\ ipc' = [ipc EXCEPT ![p][i] = "done"]
          /\ resBag' = [resBag EXCEPT ![p] = @ \cup {[id |-> i, c |-> Cls(p, CreateOutcome(p, i))]}]
          /\ failed' = [failed EXCEPT ![p] = IF NotCtxValue(Cls(p, CreateOutcome(p, i))) THEN @ \cup {Cls(p, CreateOutcome(p, i))} ELSE @]
     ELSE ipc' = [ipc EXCEPT ![p][i] = "bind"] /\ UNCHANGED <<resBag, failed>>
  /\ UNCHANGED <<plan, engVars, poolVars, ctxVars, provVars, aggVars, stVars, itok, ishots, icls, gun, closes, stok, awVars>>

\* gun.Bind() of an asynchronous instance
InstBind(p, i, o) ==
  /\ SplitCreate /\ ipc[p][i] = "bind"
  /\ o = IF PP(p).bindFail = i THEN "bind" ELSE "ok"
  /\ IF o = "ok"
     THEN /\ ipc' = [ipc EXCEPT ![p][i] = "check"]
          /\ gun' = [gun EXCEPT ![p][i] = "bound"]
          /\ UNCHANGED <<resBag, failed>>
     ELSE /\ ipc' = [ipc EXCEPT ![p][i] = "done"]
          /\ resBag' = [resBag EXCEPT ![p] = @ \cup {[id |-> i, c |-> Cls(p, o)]}]
          /\ failed' = [failed EXCEPT ![p] = IF NotCtxValue(Cls(p, o)) THEN @ \cup {Cls(p, o)} ELSE @]
          /\ UNCHANGED gun
  /\ UNCHANGED <<plan, engVars, poolVars, ctxVars, provVars, aggVars, stVars, facVars, itok, ishots, icls, closes, stok, awVars>>

(* ======================================================================= *)
(* instance.Run                                                            *)
(* ======================================================================= *)

\* a "long" pool (plan field long) has a schedule and ammo that do not run out within the run: it stops only
\* when its context is done
Tok(p, i) == IF PP(p).long THEN 1 ELSE IF PP(p).shared THEN stok[p] ELSE itok[p][i]

\* coreutil.callbackOnFinishSchedule around the shared schedule: the first observer of the end
\* cancels the instance start (unless the start ctx is already done)
SchedEndSeen(p) ==
  startCancelled' = [startCancelled EXCEPT ![p] = IF PP(p).shared THEN TRUE ELSE @]

Decide(p, i, c) ==
  /\ ipc' = [ipc EXCEPT ![p][i] = "fin"]
  /\ icls' = [icls EXCEPT ![p][i] = c]

\* for !waiter.IsFinished(ctx): ctx done? else schedule.Left() == 0 ?
InstCheck(p, i) ==
  /\ ipc[p][i] = "check"
  /\ IF RunDone(p) THEN Decide(p, i, "ctx") /\ UNCHANGED startCancelled
     ELSE IF Tok(p, i) = 0
          THEN ipc' = [ipc EXCEPT ![p][i] = "exit"] /\ SchedEndSeen(p) /\ UNCHANGED icls
          ELSE ipc' = [ipc EXCEPT ![p][i] = "acq"] /\ UNCHANGED <<startCancelled, icls>>
  /\ UNCHANGED <<plan, engVars, poolVars, runCancelled, runClosed, startClosed, provVars, aggVars, stVars, facVars, itok, ishots, gun, closes, resBag, stok, awVars, failed>>

\* return ctx.Err() after the loop
InstExit(p, i) ==
  /\ ipc[p][i] = "exit"
  /\ Decide(p, i, IF RunDone(p) THEN "ctx" ELSE "nil")
  /\ UNCHANGED <<plan, engVars, poolVars, ctxVars, provVars, aggVars, stVars, facVars, itok, ishots, gun, closes, resBag, stok, awVars, failed>>

\* provider.Acquire(): blocks until an ammo is handed over or the queue is closed
InstAcquire(p, i) ==
  /\ ipc[p][i] = "acq"
  /\ IF qClosed[p] THEN Decide(p, i, "ooa") /\ UNCHANGED ammoLeft
     ELSE /\ prov[p] = "run" /\ ammoLeft[p] > 0
          /\ ammoLeft' = [ammoLeft EXCEPT ![p] = IF PP(p).long THEN @ ELSE @ - 1]
          /\ ipc' = [ipc EXCEPT ![p][i] = "wait"] /\ UNCHANGED icls
  /\ UNCHANGED <<plan, engVars, poolVars, ctxVars, prov, provCh, qClosed, aggVars, stVars, facVars, itok, ishots, gun, closes, resBag, stok, awVars, failed>>

\* waiter.Wait(ctx): ctx done? else schedule.Next()
InstWait(p, i) ==
  /\ ipc[p][i] = "wait"
  /\ IF RunDone(p) THEN ipc' = [ipc EXCEPT ![p][i] = "check"] /\ UNCHANGED <<startCancelled, itok, stok>>
     ELSE IF Tok(p, i) = 0
          THEN ipc' = [ipc EXCEPT ![p][i] = "check"] /\ SchedEndSeen(p) /\ UNCHANGED <<itok, stok>>
          ELSE /\ ipc' = [ipc EXCEPT ![p][i] = "shoot"]
               /\ IF PP(p).long THEN UNCHANGED <<itok, stok>>
                  ELSE IF PP(p).shared THEN stok' = [stok EXCEPT ![p] = @ - 1] /\ UNCHANGED itok
                  ELSE itok' = [itok EXCEPT ![p][i] = @ - 1] /\ UNCHANGED stok
               /\ UNCHANGED startCancelled
  /\ UNCHANGED <<plan, engVars, poolVars, runCancelled, runClosed, startClosed, provVars, aggVars, stVars, facVars, ishots, icls, gun, closes, resBag, awVars, failed>>

\* gun.Shoot(ammo): may panic (plan); the deferred recover() turns it into an error
Panics(p, i) == PP(p).panicInst = i /\ PP(p).panicShot = ishots[p][i] + 1

InstShoot(p, i) ==
  /\ ipc[p][i] = "shoot" /\ (i = 0 /\ ishots[p][0] = 0 => Unblocked(p, {"shoot"}))
  /\ ishots' = [ishots EXCEPT ![p][i] = IF PP(p).long THEN @ ELSE @ + 1]
  /\ IF Panics(p, i)
     THEN /\ Decide(p, i, IF FixPanic THEN "panic" ELSE "nil")
          /\ failed' = [failed EXCEPT ![p] = @ \cup {"panic"}]
     ELSE ipc' = [ipc EXCEPT ![p][i] = "check"] /\ UNCHANGED <<icls, failed>>
  /\ UNCHANGED <<plan, engVars, poolVars, ctxVars, provVars, aggVars, stVars, facVars, itok, gun, closes, resBag, stok, awVars>>

\* instance.Run returned: deferred Close of a closable gun, then the result is sent (cap 64: never blocks)
InstFinish(p, i) ==
  /\ ipc[p][i] = "fin"
  /\ ipc' = [ipc EXCEPT ![p][i] = "done"]
  /\ IF PP(p).closable /\ FixClose
     THEN gun' = [gun EXCEPT ![p][i] = "closed"] /\ closes' = [closes EXCEPT ![p][i] = @ + 1]
     ELSE UNCHANGED <<gun, closes>>
  /\ resBag' = [resBag EXCEPT ![p] = @ \cup {[id |-> i, c |-> icls[p][i]]}]
  /\ UNCHANGED <<plan, engVars, poolVars, ctxVars, provVars, aggVars, stVars, facVars, itok, ishots, icls, stok, awVars, failed>>

InstSilent(p, i) == InstCheck(p, i) \/ InstExit(p, i) \/ InstAcquire(p, i) \/ InstWait(p, i)
InstStep(p, i) == (\E o \in {"ok", "sched", "newgun", "bind"} : InstCreate(p, i, o))
                  \/ GunCall(p, i) \/ (\E o \in {"ok", "bind"} : InstBind(p, i, o))
                  \/ InstSilent(p, i) \/ InstShoot(p, i) \/ InstFinish(p, i)

(* ======================================================================= *)
(* the await goroutine: awaitRun, onErrAwaited, checkAllInstancesAreFinished*)
(* ======================================================================= *)

AwLoop(p) == aw[p].pc = "loop" /\ aw[p].toWait > 0

\* case err := <-ah.providerErr
AwaitProvider(p) ==
  /\ AwLoop(p) /\ ~aw[p].provSeen /\ provCh[p] # "empty"
  /\ aw' = [aw EXCEPT ![p].provSeen = TRUE, ![p].toWait = @ - 1,
                      ![p].pc = IF IsCtx(RunDone(p), provCh[p]) THEN "loop" ELSE "onerr",
                      ![p].pend = IF IsCtx(RunDone(p), provCh[p]) THEN "" ELSE provCh[p],
                      ![p].after = IF IsCtx(RunDone(p), provCh[p]) THEN "" ELSE "loop"]
  /\ failed' = [failed EXCEPT ![p] = IF IsCtx(RunDone(p), provCh[p]) THEN @ ELSE @ \cup {provCh[p]}]
  /\ UNCHANGED <<plan, engVars, poolVars, ctxVars, provVars, aggVars, stVars, facVars, instVars, fwd, supp>>

\* case err := <-ah.aggregatorErr
AwaitAggregator(p) ==
  /\ AwLoop(p) /\ ~aw[p].aggSeen /\ aggCh[p] # "empty"
  /\ aw' = [aw EXCEPT ![p].aggSeen = TRUE, ![p].toWait = @ - 1,
                      ![p].pc = IF IsCtx(RunDone(p), aggCh[p]) THEN "loop" ELSE "onerr",
                      ![p].pend = IF IsCtx(RunDone(p), aggCh[p]) THEN "" ELSE aggCh[p],
                      ![p].after = IF IsCtx(RunDone(p), aggCh[p]) THEN "" ELSE "loop"]
  /\ failed' = [failed EXCEPT ![p] = IF IsCtx(RunDone(p), aggCh[p]) THEN @ ELSE @ \cup {aggCh[p]}]
  /\ UNCHANGED <<plan, engVars, poolVars, ctxVars, provVars, aggVars, stVars, facVars, instVars, fwd, supp>>

\* case res := <-ah.startRes
AwaitStart(p) ==
  /\ AwLoop(p) /\ ~aw[p].startSeen /\ startCh[p].k = "full"
  /\ aw' = [aw EXCEPT ![p].startSeen = TRUE, ![p].toWait = @ - 1, ![p].started = startCh[p].n,
                      ![p].pc = IF IsCtx(StartDone(p), startCh[p].c) THEN "check" ELSE "onerr",
                      ![p].pend = IF IsCtx(StartDone(p), startCh[p].c) THEN "" ELSE startCh[p].c,
                      ![p].after = IF IsCtx(StartDone(p), startCh[p].c) THEN "" ELSE "check"]
  /\ failed' = [failed EXCEPT ![p] = IF IsCtx(StartDone(p), startCh[p].c) THEN @ ELSE @ \cup {startCh[p].c}]
  /\ UNCHANGED <<plan, engVars, poolVars, ctxVars, provVars, aggVars, stVars, facVars, instVars, fwd, supp>>

\* case res := <-ah.runRes
AwaitInstance(p, r) ==
  /\ AwLoop(p) /\ aw[p].resOpen /\ r \in resBag[p]
  /\ resBag' = [resBag EXCEPT ![p] = @ \ {r}]
  /\ IF r.c = "ooa"
     THEN /\ aw' = [aw EXCEPT ![p].awaited = @ + 1, ![p].pc = "check"]
          \* out of ammo before the start result: ah.instanceStartCancel() (takes effect through CtxProp)
          /\ startCancelled' = [startCancelled EXCEPT ![p] = IF aw[p].startSeen THEN @ ELSE TRUE]
     ELSE /\ UNCHANGED startCancelled
          /\ aw' = [aw EXCEPT ![p].awaited = @ + 1,
                              ![p].pc = IF IsCtx(RunDone(p), r.c) THEN "check" ELSE "onerr",
                              ![p].pend = IF IsCtx(RunDone(p), r.c) THEN "" ELSE r.c,
                              ![p].after = IF IsCtx(RunDone(p), r.c) THEN "" ELSE "check"]
  /\ failed' = [failed EXCEPT ![p] = IF r.c = "ooa" \/ IsCtx(RunDone(p), r.c) THEN @ ELSE @ \cup {r.c}]
  /\ UNCHANGED <<plan, engVars, poolVars, runCancelled, runClosed, startClosed, provVars, aggVars, stVars, facVars, ipc, itok, ishots, icls, gun, closes, stok, fwd, supp>>

\* onErrAwaited, case ah.awaitErr <- err: unbuffered, needs instancePool.Run parked in its final select
\* (the two goroutines take this step together: Run receives the error and returns it)
ForwardErr(p) ==
  /\ aw[p].pc = "onerr" /\ poolPc[p] = "select"
  /\ poolRet' = [poolRet EXCEPT ![p] = Ret("err", aw[p].pend)]
  /\ poolPc' = [poolPc EXCEPT ![p] = "ret"]
  /\ fwd' = [fwd EXCEPT ![p] = aw[p].pend]
  /\ aw' = [aw EXCEPT ![p].pc = aw[p].after, ![p].pend = "", ![p].after = ""]
  /\ UNCHANGED <<plan, engVars, wdCount, ctxVars, provVars, aggVars, stVars, facVars, instVars, supp, failed>>

\* onErrAwaited, the other case: repaired code gives up only when nobody listens any more (pool ctx
\* done); the shipped code gave up on the run ctx, which the pool cancels ITSELF when all instances
\* have finished
SuppressErr(p) ==
  /\ aw[p].pc = "onerr"
  /\ IF FixSuppress THEN PoolDone(p) ELSE RunDone(p)
  /\ supp' = [supp EXCEPT ![p] = @ \cup {aw[p].pend}]
  /\ aw' = [aw EXCEPT ![p].pc = aw[p].after, ![p].pend = "", ![p].after = ""]
  /\ UNCHANGED <<plan, engVars, poolVars, ctxVars, provVars, aggVars, stVars, facVars, instVars, fwd, failed>>

\* checkAllInstancesAreFinished: close(runRes) (asserting it is empty), toWait--, runCancel()
AllAwaited(p) == aw[p].startSeen /\ aw[p].awaited >= aw[p].started

CheckAllFin(p) ==
  /\ aw[p].pc = "check" /\ AllAwaited(p)
  /\ Assert(resBag[p] = {}, "Unexpected run result")
  /\ aw' = [aw EXCEPT ![p].pc = "loop", ![p].resOpen = FALSE, ![p].toWait = @ - 1]
  \* ah.runCancel(): signal to provider and aggregator that the pool run is finished (takes effect through CtxProp)
  /\ runCancelled' = [runCancelled EXCEPT ![p] = TRUE]
  /\ UNCHANGED <<plan, engVars, poolVars, startCancelled, runClosed, startClosed, provVars, aggVars, stVars, facVars, instVars, fwd, supp, failed>>

\* propagation of a cancellation to the run context and on to the instance start context
CtxProp(p) ==
  /\ \/ /\ ~runClosed[p] /\ (runCancelled[p] \/ PoolDone(p))
        /\ runClosed' = [runClosed EXCEPT ![p] = TRUE] /\ UNCHANGED startClosed
     \/ /\ ~startClosed[p] /\ (startCancelled[p] \/ runClosed[p])
        /\ startClosed' = [startClosed EXCEPT ![p] = TRUE] /\ UNCHANGED runClosed
  /\ UNCHANGED <<plan, engVars, poolVars, runCancelled, startCancelled, provVars, aggVars, stVars, facVars, instVars, awVars, failed>>

CheckAllNot(p) ==
  /\ aw[p].pc = "check" /\ ~AllAwaited(p)
  /\ aw' = [aw EXCEPT ![p].pc = "loop"]
  /\ UNCHANGED <<plan, engVars, poolVars, ctxVars, provVars, aggVars, stVars, facVars, instVars, fwd, supp, failed>>

CheckAll(p) == CheckAllFin(p) \/ CheckAllNot(p)

\* loop left: close(awaitErr); onWaitDone()
AwaitExit(p) ==
  /\ aw[p].pc = "loop" /\ aw[p].toWait = 0
  /\ aw' = [aw EXCEPT ![p].pc = "done"]
  /\ wdCount' = [wdCount EXCEPT ![p] = @ + 1]
  /\ UNCHANGED <<plan, engVars, poolPc, poolRet, ctxVars, provVars, aggVars, stVars, facVars, instVars, fwd, supp, failed>>

AwaitStep(p) == AwaitProvider(p) \/ AwaitAggregator(p) \/ AwaitStart(p) \/ (\E r \in resBag[p] : AwaitInstance(p, r))
                \/ ForwardErr(p) \/ SuppressErr(p) \/ CheckAll(p) \/ AwaitExit(p)

(* ======================================================================= *)

AllStopped ==
  \A p \in Pools :
    /\ prov[p] \in {"idle", "done"} /\ agg[p] \in {"idle", "done"}
    /\ st[p].pc \in {"idle", "done"}
    /\ \A i \in Insts : ipc[p][i] \in {"none", "done"}
    /\ aw[p].pc \in {"idle", "done"}
    /\ poolPc[p] = "done"

Terminated == engRet.k # "none" /\ engDefer /\ (cancelReq => userCancel) /\ waitRet /\ AllStopped
Done == Terminated /\ UNCHANGED vars          \* keeps TLC's deadlock check meaningful: any other deadlock is a hang

Next ==
  \/ EngStep \/ UserCancel \/ UserCancelDo \/ WaitReturn
  \/ \E p \in Pools : CtxProp(p) \/ PoolStep(p) \/ ProvStep(p) \/ AggStep(p) \/ StartStep(p) \/ AwaitStep(p)
                      \/ \E i \in Insts : InstStep(p, i)
  \/ Done

Spec == Init /\ [][Next]_vars

\* every goroutine is scheduled fairly; the caller's cancel is not
Fairness ==
  /\ WF_vars(EngStep) /\ WF_vars(WaitReturn) /\ WF_vars(UserCancelDo)
  /\ \A p \in UNION {1..Len(pl.pools) : pl \in Plans} :
       /\ WF_vars(p \in Pools /\ PoolStep(p)) /\ WF_vars(p \in Pools /\ ProvStep(p))
       /\ WF_vars(p \in Pools /\ AggStep(p)) /\ WF_vars(p \in Pools /\ StartStep(p))
       /\ WF_vars(p \in Pools /\ AwaitStep(p)) /\ WF_vars(p \in Pools /\ CtxProp(p))
       /\ \A i \in Insts : WF_vars(p \in Pools /\ InstStep(p, i))
FairSpec == Spec /\ Fairness
\* only Engine.Run's own goroutine is scheduled: promptness of a cancelled Run must not depend on anyone else
EngFairSpec == Spec /\ WF_vars(EngStep)

(* ---- properties --------------------------------------------------------- *)

AnyFailed == \E p \in Pools : failed[p] # {}

\* Run returns nil => nothing was forwarded, and (unless the caller's own cancel raced with the end of
\* the run) no component returned a non-context error and no shot panicked
Outcome ==
  engRet.k = "nil" => /\ \A p \in Pools : fwd[p] = "none" /\ poolRet[p].k = "nil"
                      /\ (AnyFailed => cancelAtRet)

\* a returned error carries a cause that really happened in that pool: the first (only) forwarded one,
\* or the synchronous failure of warm-up / shared schedule creation
Cause ==
  engRet.k = "err" => /\ engRet.c \in failed[engRet.p]
                      /\ poolRet[engRet.p] = Ret("err", engRet.c)
                      /\ (fwd[engRet.p] # "none" => fwd[engRet.p] = engRet.c)
                      /\ ~cancelAtRet
CtxOnlyIfCancelled == engRet.k = "ctx" => cancelAtRet
\* an error is swallowed only when nobody listens any more
SuppressedOnlyWhenDone == \A p \in Pools : supp[p] # {} => PoolDone(p)
\* a cancelled Run is never blocked: its own next step returns
CancelPrompt == (userCancel /\ engRet.k = "none") => ENABLED EngStep
\* Once Run has returned - for ANY reason: a failed pool, the caller's cancel, success - and its deferred cancel()
\* has run, the context of EVERY pool is done: nothing of any pool can keep running on its own (with Termination:
\* all instances, providers and aggregators of all pools stop and Wait returns, also when the caller never cancels)
StopAfterReturn == engDefer => \A p \in Pools : PoolDone(p)
WaitDoneOnce == \A p \in Pools : wdCount[p] <= 1
WaitOnlyAfterAll == waitRet => \A p \in Pools : wdCount[p] = 1 /\ aw[p].pc \in {"idle", "done"}
                                               /\ prov[p] \in {"idle", "done"} /\ agg[p] \in {"idle", "done"}
                                               /\ st[p].pc \in {"idle", "done"}
                                               /\ \A i \in Insts : ipc[p][i] \in {"none", "done"}
GunsClosed ==
  \A p \in Pools : \A i \in Insts :
    /\ closes[p][i] <= 1
    /\ closes[p][i] = 1 => ipc[p][i] = "done"
    /\ (ipc[p][i] = "done" /\ gun[p][i] # "none" /\ PP(p).closable) => closes[p][i] = 1
RunCancelOnlyWhenAllAwaited ==
  \A p \in Pools : runCancelled[p] => \A i \in Insts : ipc[p][i] \in {"none", "done"}

\* liveness (FairSpec)
RunReturns == <>(engRet.k # "none")
Termination == (engRet.k # "none") ~> Terminated
\* liveness (EngFairSpec)
CancelPromptLive == userCancel ~> (engRet.k # "none")
=============================================================================
