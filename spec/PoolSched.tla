----------------------------- MODULE PoolSched -----------------------------
(***************************************************************************)
(* Composition of Pool.tla (C03: engine shot accounting) with the grain of *)
(* Schedule.tla (C02) and Timing.tla (C04), DESIGN section 9 item 1.       *)
(*                                                                         *)
(* Pool.tla draws a token in ONE step and reads Left() in ONE step (its    *)
(* justification is C02's linearisability result).  Here the shared RPS    *)
(* schedule is a real two-part compositeSchedule and the instance loop     *)
(* goes through it step by step:                                           *)
(*                                                                         *)
(*   waiter.IsFinished -> composite.Left():  RLock; read len(scheds),      *)
(*        leftAfter[0], child.Left(); RUnlock; decide; (left = 0 with an   *)
(*        unknown tail: Lock; child.Next() must be !ok; startNext; Unlock; *)
(*        retry)                                                           *)
(*   waiter.Wait -> composite.Next(): RLock; child.Next(); RUnlock; (child *)
(*        exhausted and parts left: Lock; re-check len(scheds); either     *)
(*        take a token from the part somebody else started, or startNext   *)
(*        and take one; Unlock; retry on an empty part)                    *)
(*   then the Waiter: token already due -> return at once / else sleep     *)
(*        until the token's instant                                        *)
(*   then Shoot | discarded report, deferred Release, back to IsFinished.  *)
(*                                                                         *)
(* This is a TRANSCRIPTION of core/schedule/composite.go reduced to two    *)
(* parts (Schedule.tla is PlusCal with recursive procedures and call       *)
(* stacks for arbitrary trees; INSTANCE-ing it would drag its callers,     *)
(* clock and history variables along; the two-part reduction keeps every   *)
(* path of the code: the shift in Next, the "somebody started next before  *)
(* us" re-check, the retry on an empty part, the shift in Left, the        *)
(* not-started guard).  The write-locked section is one step: nobody can   *)
(* observe its inside (Schedule.tla argues the same).                      *)
(*                                                                         *)
(* Parts: [kind |-> "doat", n |-> k]  k tokens, fetch-and-increment        *)
(*        counter that may overshoot (doAtSchedule);                       *)
(*        [kind |-> "unl", n |-> 0]   unlimited: a token whenever asked    *)
(*        until its finish instant passes (action TimePasses, any moment   *)
(*        after its start), Left() = -1 until then; at most UnlCap tokens  *)
(*        for TLC.                                                         *)
(***************************************************************************)
EXTENDS Integers, Sequences, FiniteSets, TLC

CONSTANTS NInst,        \* instances (all started; the starter is Pool.tla's subject)
          Trees,        \* set of two-part composites <<part1, part2>>
          Ammo,         \* set of ammo bounds
          Discard,      \* discard_overflow
          UnlCap,       \* tokens an unlimited part hands out at most (bound for TLC)
          FixLeft       \* TRUE: composite.Left() as repaired (-1 when a later part is unknown)
                        \* FALSE: pre-fix `left + leftAfter` with leftAfter = -1 (negative control)

VARIABLES
  tree, a,
  \* ---- compositeSchedule
  head,        \* index of scheds[0] in the original list (1 or 2)
  cnt,         \* doAt counters i (may overshoot n)
  unlStarted, unlDone, unlDrawn,
  cstarted,    \* composite.started (set by Next)
  readers,     \* goroutines holding the read lock
  \* ---- provider
  given, rel,
  \* ---- instances
  pc, held, seen, lft, laf, ok, why,
  \* ---- counters / ghosts
  fired, discarded, drawn, panicked, zeroBad

vars == <<tree, a, head, cnt, unlStarted, unlDone, unlDrawn, cstarted, readers, given, rel,
          pc, held, seen, lft, laf, ok, why, fired, discarded, drawn, panicked, zeroBad>>
schedVars == <<head, cnt, unlStarted, unlDone, unlDrawn, cstarted, readers>>
callVars  == <<seen, lft, laf, ok>>
ghosts    == <<drawn, panicked, zeroBad>>

Inst == 1..NInst
Min(x, y) == IF x <= y THEN x ELSE y
Max(x, y) == IF x >= y THEN x ELSE y

Kind(k) == tree[k].kind
Len0    == 3 - head                           \* len(s.scheds)
\* leftAfter as NewComposite computes it (index relative to the original list)
LeftAfter(k) == IF k = 2 THEN 0 ELSE IF Kind(2) = "unl" THEN -1 ELSE tree[2].n
HasUnl  == Kind(1) = "unl" \/ Kind(2) = "unl"
Finite  == ~HasUnl
Total   == (IF Kind(1) = "doat" THEN tree[1].n ELSE 0) + (IF Kind(2) = "doat" THEN tree[2].n ELSE 0)
\* tokens of known parts not yet handed out
RemainingKnown == (IF Kind(1) = "doat" /\ head = 1 THEN Max(tree[1].n - cnt[1], 0) ELSE 0)
                  + (IF Kind(2) = "doat" THEN Max(tree[2].n - cnt[2], 0) ELSE 0)
UnlOpen(k) == Kind(k) = "unl" /\ head <= k /\ ~unlDone

Init == /\ tree \in Trees /\ a \in Ammo
        /\ head = 1 /\ cnt = [k \in 1..2 |-> 0]
        /\ unlStarted = FALSE /\ unlDone = FALSE /\ unlDrawn = 0 /\ cstarted = FALSE /\ readers = {}
        /\ given = 0 /\ rel = <<>>
        /\ pc = [i \in Inst |-> "check"] /\ held = [i \in Inst |-> 0]
        /\ seen = [i \in Inst |-> 0] /\ lft = [i \in Inst |-> 0] /\ laf = [i \in Inst |-> 0]
        /\ ok = [i \in Inst |-> FALSE] /\ why = [i \in Inst |-> ""]
        /\ fired = 0 /\ discarded = 0 /\ drawn = 0 /\ panicked = FALSE /\ zeroBad = FALSE

----------------------------------------------------------------------------
(* child schedules *)

\* child.Left() of part k
ChildLeft(k) == IF Kind(k) = "doat" THEN Max(tree[k].n - cnt[k], 0)
                ELSE IF ~unlStarted \/ ~unlDone THEN -1 ELSE 0

\* child.Next() of part k: result in okv, effect on the children's state; startUnl: the same step also
\* starts the unlimited second part (startNext -> scheds[0].Start(finish time of the previous part))
ChildNext(k, okv, startUnl) ==
  /\ IF Kind(k) = "doat"
     THEN /\ okv = (cnt[k] < tree[k].n)
          /\ cnt' = [cnt EXCEPT ![k] = @ + 1]
          /\ unlDrawn' = unlDrawn
     ELSE /\ okv = ~unlDone
          /\ okv => unlDrawn < UnlCap          \* otherwise the caller's step waits for TimePasses
          /\ unlDrawn' = IF okv THEN unlDrawn + 1 ELSE unlDrawn
          /\ cnt' = cnt
  /\ unlStarted' = (unlStarted \/ Kind(k) = "unl" \/ startUnl)      \* lazy start / Start()

\* the finish instant of a started unlimited part passes
TimePasses == /\ HasUnl /\ unlStarted /\ ~unlDone
              /\ unlDone' = TRUE
              /\ UNCHANGED <<tree, a, head, cnt, unlStarted, unlDrawn, cstarted, readers, given, rel,
                             pc, held, callVars, why, fired, discarded, ghosts>>

Goto(i, l) == pc' = [pc EXCEPT ![i] = l]

----------------------------------------------------------------------------
(* composite.Left(), called from waiter.IsFinished *)

L_RLock(i) == /\ pc[i] = "check"
              /\ readers' = readers \cup {i}
              /\ Goto(i, "l_child")
              /\ UNCHANGED <<tree, a, head, cnt, unlStarted, unlDone, unlDrawn, cstarted, given, rel,
                             held, callVars, why, fired, discarded, ghosts>>

L_Child(i) == /\ pc[i] = "l_child"
              /\ seen' = [seen EXCEPT ![i] = Len0]
              /\ laf'  = [laf EXCEPT ![i] = LeftAfter(head)]
              /\ lft'  = [lft EXCEPT ![i] = ChildLeft(head)]
              /\ Goto(i, "l_ret")
              /\ UNCHANGED <<tree, a, schedVars, given, rel, held, ok, why, fired, discarded, ghosts>>

\* what Left() returns, or "shift" when it has to start the next part first
LeftAnswer(i) ==
  IF seen[i] = 1 THEN lft[i]
  ELSE IF lft[i] = 0
       THEN IF laf[i] >= 0 THEN laf[i] ELSE IF ~cstarted THEN -1 ELSE -2      \* -2: shift and retry
       ELSE IF FixLeft THEN (IF lft[i] < 0 \/ laf[i] < 0 THEN -1 ELSE lft[i] + laf[i])
            ELSE (IF lft[i] < 0 THEN -1 ELSE lft[i] + laf[i])                  \* pre-fix code

\* RUnlock and the decision; Left() = 0 ends the instance loop (IsFinished)
L_Ret(i) ==
  /\ pc[i] = "l_ret"
  /\ readers' = readers \ {i}
  /\ LET r == LeftAnswer(i) IN
       /\ IF r = -2 THEN Goto(i, "l_lock") /\ UNCHANGED why
          ELSE IF r = 0 THEN Goto(i, "ended") /\ why' = [why EXCEPT ![i] = "sched"]
          ELSE Goto(i, "acquire") /\ UNCHANGED why
       \* ghost: a zero answer while a token can still be handed out
       /\ zeroBad' = (zeroBad \/ (r = 0 /\ (RemainingKnown > 0 \/ UnlOpen(1) \/ UnlOpen(2))))
  /\ UNCHANGED <<tree, a, head, cnt, unlStarted, unlDone, unlDrawn, cstarted, given, rel,
                 held, callVars, fired, discarded, drawn, panicked>>

\* Lock; if nobody shifted meanwhile: child.Next() must be !ok, startNext; Unlock; retry Left()
L_Lock(i) ==
  /\ pc[i] = "l_lock" /\ readers = {}
  /\ IF Len0 = seen[i]
     THEN \E okv \in BOOLEAN :
            /\ ChildNext(head, okv, Kind(2) = "unl")
            /\ panicked' = (panicked \/ okv)              \* panic("current schedule is not finished")
            /\ head' = 2
     ELSE UNCHANGED <<head, cnt, unlStarted, unlDrawn, panicked>>
  /\ Goto(i, "check")
  /\ UNCHANGED <<tree, a, unlDone, cstarted, readers, given, rel, held, callVars, why, fired, discarded, drawn, zeroBad>>

----------------------------------------------------------------------------
(* provider *)

Acquire(i) ==
  /\ pc[i] = "acquire"
  /\ IF given < a
     THEN /\ given' = given + 1 /\ rel' = Append(rel, 0)
          /\ held' = [held EXCEPT ![i] = given + 1]
          /\ Goto(i, "wait") /\ UNCHANGED why
     ELSE /\ Goto(i, "ended") /\ why' = [why EXCEPT ![i] = "ammo"]
          /\ UNCHANGED <<given, rel, held>>
  /\ UNCHANGED <<tree, a, schedVars, callVars, fired, discarded, ghosts>>

----------------------------------------------------------------------------
(* composite.Next(), called from waiter.Wait *)

N_RLock(i) == /\ pc[i] = "wait"
              /\ readers' = readers \cup {i}
              /\ cstarted' = TRUE
              /\ Goto(i, "n_child")
              /\ UNCHANGED <<tree, a, head, cnt, unlStarted, unlDone, unlDrawn, given, rel,
                             held, callVars, why, fired, discarded, ghosts>>

N_Child(i) == /\ pc[i] = "n_child"
              /\ \E okv \in BOOLEAN :
                   /\ ChildNext(head, okv, FALSE)
                   /\ ok' = [ok EXCEPT ![i] = okv]
              /\ seen' = [seen EXCEPT ![i] = Len0]
              /\ Goto(i, "n_ret")
              /\ UNCHANGED <<tree, a, head, unlDone, cstarted, readers, given, rel, held, lft, laf, why,
                             fired, discarded, ghosts>>

\* the call returned a token / the end
Got(i)  == Goto(i, "w_cmp") /\ drawn' = drawn + 1
Miss(i) == Goto(i, "release") /\ drawn' = drawn

N_Ret(i) ==
  /\ pc[i] = "n_ret"
  /\ readers' = readers \ {i}
  /\ IF ok[i] THEN Got(i)
     ELSE IF seen[i] = 1 THEN Miss(i)
     ELSE Goto(i, "n_lock") /\ drawn' = drawn
  /\ UNCHANGED <<tree, a, head, cnt, unlStarted, unlDone, unlDrawn, cstarted, given, rel,
                 held, callVars, why, fired, discarded, panicked, zeroBad>>

\* the write-locked section of Next()
N_Lock(i) ==
  /\ pc[i] = "n_lock" /\ readers = {}
  /\ \E okv \in BOOLEAN :
       IF Len0 < seen[i]
       THEN \* somebody started the next part before us: just take a token
            /\ ChildNext(head, okv, FALSE) /\ head' = head /\ unlDone' = unlDone
            /\ IF okv THEN Got(i) ELSE IF Len0 = 1 THEN Miss(i) ELSE Goto(i, "wait") /\ drawn' = drawn
       ELSE \* startNext, then take a token from the new current part; `if !ok && schedsLeftNow > 1`
            \* (the length BEFORE the shift, 2 here) `return s.Next()`: an empty new part means a retry
            /\ head' = 2
            /\ IF Kind(2) = "unl" /\ ~unlStarted
               THEN \* Start(finish instant of part 1): that instant may lie so far in the past that the
                    \* unlimited part is over the moment it is started
                    /\ unlStarted' = TRUE /\ unlDone' = ~okv /\ cnt' = cnt
                    /\ okv => unlDrawn < UnlCap
                    /\ unlDrawn' = IF okv THEN unlDrawn + 1 ELSE unlDrawn
               ELSE ChildNext(2, okv, FALSE) /\ unlDone' = unlDone
            /\ IF okv THEN Got(i) ELSE Goto(i, "wait") /\ drawn' = drawn
  /\ UNCHANGED <<tree, a, cstarted, readers, given, rel, held, callVars, why, fired, discarded,
                 panicked, zeroBad>>

----------------------------------------------------------------------------
(* Waiter after the draw (Timing.tla's grain): due at once, or sleep until the instant *)

W_Due(i)   == /\ pc[i] = "w_cmp" /\ Goto(i, "decide")
              /\ UNCHANGED <<tree, a, schedVars, given, rel, held, callVars, why, fired, discarded, ghosts>>
W_Sleep(i) == /\ pc[i] = "w_cmp" /\ Goto(i, "sleep")
              /\ UNCHANGED <<tree, a, schedVars, given, rel, held, callVars, why, fired, discarded, ghosts>>
W_Wake(i)  == /\ pc[i] = "sleep" /\ Goto(i, "decide")
              /\ UNCHANGED <<tree, a, schedVars, given, rel, held, callVars, why, fired, discarded, ghosts>>

----------------------------------------------------------------------------
(* shot / discard / release *)

Fire(i) == /\ pc[i] = "decide" /\ Goto(i, "shooting")
           /\ UNCHANGED <<tree, a, schedVars, given, rel, held, callVars, why, fired, discarded, ghosts>>
DiscardShot(i) == /\ pc[i] = "decide" /\ Discard
                  /\ discarded' = discarded + 1 /\ Goto(i, "release")
                  /\ UNCHANGED <<tree, a, schedVars, given, rel, held, callVars, why, fired, ghosts>>
ShootEnd(i) == /\ pc[i] = "shooting"
               /\ fired' = fired + 1 /\ Goto(i, "release")
               /\ UNCHANGED <<tree, a, schedVars, given, rel, held, callVars, why, discarded, ghosts>>
Release(i) == /\ pc[i] = "release"
              /\ rel' = [rel EXCEPT ![held[i]] = @ + 1]
              /\ held' = [held EXCEPT ![i] = 0]
              /\ Goto(i, "check")
              /\ UNCHANGED <<tree, a, schedVars, given, callVars, why, fired, discarded, ghosts>>

Done == \A i \in Inst : pc[i] = "ended"
Terminated == Done /\ UNCHANGED vars

Next == \/ TimePasses
        \/ \E i \in Inst : \/ L_RLock(i) \/ L_Child(i) \/ L_Ret(i) \/ L_Lock(i)
                           \/ Acquire(i)
                           \/ N_RLock(i) \/ N_Child(i) \/ N_Ret(i) \/ N_Lock(i)
                           \/ W_Due(i) \/ W_Sleep(i) \/ W_Wake(i)
                           \/ Fire(i) \/ DiscardShot(i) \/ ShootEnd(i) \/ Release(i)
        \/ Terminated

Spec == Init /\ [][Next]_vars

----------------------------------------------------------------------------
(* C03's accounting, end to end through the real schedule grain *)

InFlight == Cardinality({i \in Inst : pc[i] \in {"w_cmp", "sleep", "decide", "shooting"}})
TokenConservation == fired + discarded + InFlight = drawn
NoPanic == ~panicked
\* Left() = 0 only when no token can be handed out any more (what IsFinished relies on)
ZeroMeansFinished == ~zeroBad
ItemDiscipline == /\ \A x \in 1..given : rel[x] <= 1
                  /\ \A i, j \in Inst : i # j /\ held[i] # 0 => held[i] # held[j]
                  /\ \A i \in Inst : held[i] # 0 => rel[held[i]] = 0
                  /\ \A i \in Inst : pc[i] \in {"w_cmp", "sleep", "decide", "shooting", "release"} => held[i] # 0
\* fired + discarded = min(tokens, ammo): the profile's tokens when it is finite; with an unlimited part at
\* least the tokens of the known parts (it cannot end before they are handed out)
Accounting == Done => /\ fired + discarded = drawn
                      /\ IF Finite THEN drawn = Min(Total, a) ELSE drawn >= Min(Total, a)
ReleasedAll == Done => (\A x \in 1..given : rel[x] = 1) /\ (\A i \in Inst : held[i] = 0)
Unfired == given - fired - discarded
UnfiredBound == Done => Unfired >= 0 /\ Unfired <= (IF Finite THEN NInst - 1 ELSE NInst)
Reasons == \A i \in Inst : pc[i] = "ended" => why[i] \in {"sched", "ammo"}
=============================================================================
