--------------------------- MODULE TraceByteEdit ---------------------------
(***************************************************************************)
(* C13 byte-edit trace specification.  One NDJSON line per case that TLC   *)
(* sampled from ByteEdit (-simulate) and the driver applied to the bytes   *)
(* of a valid file: {k:"edit", ec:<case + n = entries of the file>, obs:{res, delivered, same,       *)
(* invalid_at}}.  The expectation is RE-COMPUTED here from the case.       *)
(***************************************************************************)
EXTENDS ByteEdit, Json, IOUtils

VARIABLE l

Trace == ndJsonDeserialize(IOEnv.VERIF_TRACE)
Chunk == 16

TInit == l = 0 /\ cs = [format |-> "-"] /\ phase = "trace"
TNext == /\ \/ l = 0 /\ l' \in {j \in 1..Len(Trace) : j % Chunk = 1}
            \/ l > 0 /\ l % Chunk # 0 /\ l < Len(Trace) /\ l' = l + 1
         /\ UNCHANGED <<cs, phase>>

R == Trace[IF l = 0 THEN 1 ELSE l]
E(e) == [k |-> e.k, kind |-> e.kind, op |-> e.op]
C == [format |-> R.ec.format, mode |-> R.ec.mode, e1 |-> E(R.ec.e1), e2 |-> E(R.ec.e2)]
X == Expect(C)

\* the line is a case of the module
KnownEdit   == l > 0 => (IsCase(C) /\ R.ec.n \in 1..NEntries /\ C.e1.k <= R.ec.n /\ C.e2.k <= R.ec.n)
\* outcome alphabet: no panic, no crash, no hang - Run returned
EditOutcome == l > 0 => R.obs.res \in {"ok", "error"}
\* the entries in front of the first edit are delivered first and unchanged
EditPrefix  == l > 0 => R.obs.same >= IntactPrefix(C)
\* the verdict class, where the module computes one
EditVerdict ==
    l > 0 =>
        CASE X.kind = "error"   -> R.obs.res = "error" /\ R.obs.delivered = X.at[1] - 1
          [] X.kind = "ok"      -> R.obs.res = "ok" /\ R.obs.delivered = R.ec.n /\ R.obs.invalid_at = <<>>
          [] X.kind = "skipped" -> R.obs.res = "ok" /\ R.obs.delivered = R.ec.n /\ R.obs.invalid_at = X.at
          [] OTHER              -> TRUE
=============================================================================
