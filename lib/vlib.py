"""Shared machinery of /verif/bin/check (python3 stdlib only).

Everything a check needs that is not specific to one property:
  * scratch directories (mkdtemp outside /repo and /verif, removed at exit),
  * running TLC on a module/config in a scratch copy of /verif/spec (tools litter),
  * building the Go harness from /repo's *current working tree* with -tags verif,
  * evidence writer, known-findings matcher, verdict / exit code policy.

Verdict policy (DESIGN.md §2): a VIOLATION is printed only for behaviour of the real
code (a recorded trace that a trace specification rejects, an invariant that fails on a
recorded trace, a TLC-generated case whose replay diverges).  Machinery failure is exit 2.
"""
import atexit
import json
import os
import re
import shutil
import subprocess
import sys
import tempfile
import time

VERIF = os.path.dirname(os.path.dirname(os.path.abspath(__file__)))
REPO = os.environ.get("VERIF_REPO", "/repo")
SPEC = os.path.join(VERIF, "spec")
HARNESS = os.path.join(VERIF, "harness")
TLA_CP = "/opt/veriftools/tla/tla2tools.jar:/opt/veriftools/tla/CommunityModules-deps.jar"
NCPU = os.cpu_count() or 4

GOENV = {
    "GOFLAGS": "-mod=mod",
    "GOPROXY": "off",
    "GOSUMDB": "off",
    "GOTOOLCHAIN": "local",
}


class MachineryError(Exception):
    """The checking machinery itself failed (exit 2, never a violation)."""


_scratch_dirs = []


def scratch(prefix="verif-"):
    d = tempfile.mkdtemp(prefix=prefix)
    _scratch_dirs.append(d)
    return d


def _cleanup():
    if os.environ.get("VERIF_KEEP"):
        return
    for d in _scratch_dirs:
        shutil.rmtree(d, ignore_errors=True)


atexit.register(_cleanup)


def seed():
    try:
        return int(os.environ.get("VERIF_SEED", "1"))
    except ValueError:
        return 1


def log(*a):
    print("[check]", *a, file=sys.stderr, flush=True)


# --------------------------------------------------------------------------- TLC

class TLCResult:
    def __init__(self):
        self.rc = None
        self.out = ""
        self.generated = 0
        self.distinct = 0
        self.violation = False      # invariant / property / assumption violated
        self.kind = ""              # "invariant", "temporal", "deadlock", "assume", "postcondition", ...
        self.what = ""              # name of violated invariant if parsed
        self.error = False          # TLC itself failed (parse error, exception, timeout)
        self.wall = 0.0
        self.trace_state = {}       # variables of the last state of a counterexample (text)
        self.prints = []            # values printed with PrintT / Print (raw strings)
        self.all_violations = []    # with -continue: [(invariant, {var: text})]


_spec_copy = None
_cfg_seq = 0
import threading
_cfg_lock = threading.Lock()


def spec_copy():
    """One scratch copy of /verif/spec per process (TLC writes states/ etc. next to the spec)."""
    global _spec_copy
    if _spec_copy is None:
        d = scratch("verif-spec-")
        dst = os.path.join(d, "spec")
        shutil.copytree(SPEC, dst)
        _spec_copy = dst
    return _spec_copy


def tlc(module, cfg, env=None, workers=None, timeout=600, simulate=None, depth=None,
        extra=None, deadlock=True, dfs=False, heap=None, coverage=False, seed_=None,
        liveness=False, cont=False):
    """Run TLC on spec/<module>.tla with spec/cfg/<cfg>.  Returns TLCResult."""
    sc = spec_copy()
    meta = tempfile.mkdtemp(prefix="meta-", dir=os.path.dirname(sc))
    cfgpath = os.path.join(sc, "cfg", cfg)
    # TLC resolves the config relative to the spec; copy next to it under a unique name
    global _cfg_seq
    with _cfg_lock:
        _cfg_seq += 1
        seq = _cfg_seq
    # unique per call: checks run several TLC instances of one module/config concurrently (threads)
    local_cfg = os.path.join(sc, "_%s_%d_%d_%s" % (module, os.getpid(), seq, os.path.basename(cfg)))
    shutil.copyfile(cfgpath, local_cfg)
    jopts = ["-XX:+UseParallelGC", "-Xss64m"]
    if heap:
        jopts.append("-Xmx%s" % heap)
    if dfs:
        jopts.append("-Dtlc2.tool.queue.IStateQueue=StateDeque")
    cmd = ["java"] + jopts + ["-cp", TLA_CP, "tlc2.TLC", "-metadir", meta,
                              "-config", os.path.basename(local_cfg), "-noGenerateSpecTE"]
    if workers is None:
        workers = NCPU
    cmd += ["-workers", str(workers)]
    if not deadlock:
        cmd += ["-deadlock"]
    if simulate:
        cmd += ["-simulate", simulate]
    if depth:
        cmd += ["-depth", str(depth)]
    if seed_ is not None:
        cmd += ["-seed", str(seed_)]
    if coverage:
        cmd += ["-coverage", "1"]
    if liveness:
        cmd += ["-lncheck", "final"]
    if cont:
        cmd += ["-continue"]
    if extra:
        cmd += list(extra)
    cmd += [module]
    e = dict(os.environ)
    e.pop("JAVA_TOOL_OPTIONS", None)
    if env:
        e.update({k: str(v) for k, v in env.items()})
    r = TLCResult()
    t0 = time.time()
    try:
        p = subprocess.run(cmd, cwd=sc, env=e, stdout=subprocess.PIPE, stderr=subprocess.STDOUT,
                           timeout=timeout, text=True, errors="replace")
        r.rc = p.returncode
        r.out = p.stdout
    except subprocess.TimeoutExpired as ex:
        r.rc = -9
        r.out = (ex.stdout or b"").decode("utf-8", "replace") if isinstance(ex.stdout, bytes) else (ex.stdout or "")
        r.error = True
        r.kind = "timeout"
    finally:
        r.wall = time.time() - t0
        shutil.rmtree(meta, ignore_errors=True)
        try:
            os.unlink(local_cfg)
        except OSError:
            pass
    _parse_tlc(r)
    return r


_re_states = re.compile(r"(\d+) states generated, (\d+) distinct states found")
_re_inv = re.compile(r"Invariant (\S+) is violated")
_re_prop = re.compile(r"Temporal properties were violated|Action property (\S+) is violated")


def _parse_tlc(r):
    out = r.out
    for m in _re_states.finditer(out):
        r.generated, r.distinct = int(m.group(1)), int(m.group(2))
    m = _re_inv.search(out)
    if m:
        r.violation, r.kind, r.what = True, "invariant", m.group(1)
    elif _re_prop.search(out):
        m = _re_prop.search(out)
        r.violation, r.kind, r.what = True, "temporal", (m.group(1) or "temporal")
    elif "Deadlock reached" in out:
        r.violation, r.kind = True, "deadlock"
    elif re.search(r"Assumption .* is false", out):
        r.violation, r.kind = True, "assume"
    elif "The postcondition" in out and "false" in out.split("The postcondition", 1)[1][:300]:
        r.violation, r.kind = True, "postcondition"
    elif r.rc not in (0,) and not r.error:
        # evaluation error inside an invariant on a state is reported as error; we keep it
        # separate: the caller decides (a trace line the spec cannot evaluate is machinery).
        r.error = True
        r.kind = r.kind or "tlc-error"
    if r.violation:
        # last state of the counterexample
        states = re.split(r"\nState \d+:[^\n]*\n", out)
        if len(states) > 1:
            last = states[-1]
            for m in re.finditer(r"^/\\ (\w+) = (.*?)(?=^/\\ |\Z|^\n)", last, re.S | re.M):
                r.trace_state[m.group(1)] = m.group(2).strip()
    # every violation (TLC run with -continue prints one block per violated invariant/state)
    marks = [m for m in re.finditer(r"Error: Invariant (\S+) is violated", out)]
    for i, m in enumerate(marks):
        seg = out[m.end():(marks[i + 1].start() if i + 1 < len(marks) else len(out))]
        blocks = re.split(r"\nState \d+:[^\n]*\n", seg)
        vars_ = {}
        if len(blocks) > 1:
            last = blocks[-1].split("\n\n")[0]
            for mm in re.finditer(r"^(?:/\\ )?(\w+) = (.*?)(?=^/\\ |\Z)", last, re.S | re.M):
                vars_[mm.group(1)] = mm.group(2).strip()
        r.all_violations.append((m.group(1), vars_))
    # PrintT output lines
    r.prints = [ln for ln in out.splitlines() if ln.startswith("<<\"VERIF\"") or ln.startswith("\"VERIF")]


def tlc_must_pass(r, what):
    if r.error:
        raise MachineryError("TLC failed on %s (%s rc=%s)\n%s" % (what, r.kind, r.rc, r.out[-3000:]))
    if r.violation:
        raise MachineryError("design-level TLC check %s reports %s %s: the model is wrong or the "
                             "design is; not a verdict about the code\n%s" % (what, r.kind, r.what, r.out[-4000:]))


def tlc_must_fail(r, what):
    """Negative control: the deliberately wrong variant MUST produce a counterexample."""
    if r.error:
        raise MachineryError("TLC failed on negative control %s (%s)\n%s" % (what, r.kind, r.out[-3000:]))
    if not r.violation:
        raise MachineryError("negative control %s found no counterexample: invariant is vacuous" % what)


def sany(module):
    sc = spec_copy()
    p = subprocess.run(["java", "-cp", TLA_CP, "tla2sany.SANY", module + ".tla"], cwd=sc,
                       stdout=subprocess.PIPE, stderr=subprocess.STDOUT, text=True, timeout=120)
    ok = p.returncode == 0 and "Semantic errors" not in p.stdout and "*** Errors" not in p.stdout \
        and "Parse Error" not in p.stdout and "Fatal errors" not in p.stdout
    return ok, p.stdout


# --------------------------------------------------------------------------- Go harness

_built = {}


def go_env():
    e = dict(os.environ)
    e.update(GOENV)
    return e


def harness_build(race=False, tags="verif"):
    """Build cmd/vdrive from a scratch copy of /verif/harness against REPO's working tree."""
    key = (race, tags)
    if key in _built:
        return _built[key]
    d = scratch("verif-h-")
    src = os.path.join(d, "harness")
    shutil.copytree(HARNESS, src, ignore=shutil.ignore_patterns("go.mod", "go.sum"))
    gen_gomod(src)
    out = os.path.join(d, "vdrive-race" if race else "vdrive")
    cmd = ["go", "build", "-tags", tags, "-o", out]
    if race:
        cmd.append("-race")
    cmd.append("./cmd/vdrive")
    t0 = time.time()
    p = subprocess.run(cmd, cwd=src, env=go_env(), stdout=subprocess.PIPE, stderr=subprocess.STDOUT, text=True,
                       timeout=1200)
    if p.returncode != 0:
        raise MachineryError("harness build failed (does /repo compile with -tags %s?)\n%s" % (tags, p.stdout[-6000:]))
    log("harness built in %.1fs%s" % (time.time() - t0, " (race)" if race else ""))
    _built[key] = out
    return out


def gen_gomod(dst):
    """go.mod of the harness mirrors REPO/go.mod (requires) + replace => REPO; go.sum copied."""
    with open(os.path.join(REPO, "go.mod")) as f:
        txt = f.read()
    txt = re.sub(r"^module .*$", "module verifharness", txt, count=1, flags=re.M)
    txt += "\nrequire github.com/yandex/pandora v0.0.0\n\nreplace github.com/yandex/pandora => %s\n" % REPO
    extra = os.path.join(HARNESS, "go.mod.extra")
    if os.path.exists(extra):
        txt += open(extra).read()
    with open(os.path.join(dst, "go.mod"), "w") as f:
        f.write(txt)
    shutil.copyfile(os.path.join(REPO, "go.sum"), os.path.join(dst, "go.sum"))
    sx = os.path.join(HARNESS, "go.sum.extra")
    if os.path.exists(sx):
        with open(os.path.join(dst, "go.sum"), "a") as f:
            f.write(open(sx).read())


def run_driver(binary, args, timeout=600, env=None, stdin=None, ok_codes=(0,)):
    e = go_env()
    e["VERIF_SEED"] = str(seed())
    if env:
        e.update({k: str(v) for k, v in env.items()})
    t0 = time.time()
    try:
        p = subprocess.run([binary] + list(args), env=e, stdout=subprocess.PIPE, stderr=subprocess.PIPE,
                           timeout=timeout, text=True, errors="replace", input=stdin)
    except subprocess.TimeoutExpired:
        raise MachineryError("driver %s timed out after %ss" % (" ".join(args[:2]), timeout))
    if p.returncode not in ok_codes:
        raise MachineryError("driver %s failed rc=%s\n%s\n%s" % (" ".join(args[:3]), p.returncode,
                                                               p.stdout[-2000:], p.stderr[-4000:]))
    log("driver %s: %.1fs" % (" ".join(args[:2]), time.time() - t0))
    return p


# --------------------------------------------------------------------------- NDJSON helpers

def read_ndjson(path):
    out = []
    with open(path) as f:
        for ln in f:
            ln = ln.strip()
            if ln:
                out.append(json.loads(ln))
    return out


def write_ndjson(path, rows):
    with open(path, "w") as f:
        for r in rows:
            f.write(json.dumps(r, separators=(",", ":"), sort_keys=True) + "\n")


# --------------------------------------------------------------------------- findings / verdicts

def known_findings():
    out = []
    p = os.path.join(VERIF, "KNOWN_FINDINGS.json")
    if os.path.exists(p):
        out += json.load(open(p)).get("findings", [])
    # fragments written by work in progress on one property (merged into KNOWN_FINDINGS.json on integration)
    import glob
    for f in sorted(glob.glob(os.path.join(VERIF, "findings", "*.json"))):
        out += json.load(open(f)).get("findings", [])
    return out


class Verdict:
    """Collects violations of one property; matches them against KNOWN_FINDINGS.json."""

    def __init__(self, pid):
        self.pid = pid
        self.violations = []   # (signature, what, replay_path)
        self.known_hits = {}

    def violation(self, signature, what, replay_obj=None, replay_name=None):
        """signature: stable string naming the failing input class / call site / history."""
        for kf in known_findings():
            if kf.get("property") == self.pid and kf.get("status") == "known" and \
                    re.fullmatch(kf["signature"], signature):
                self.known_hits.setdefault(kf["signature"], kf)
                return
        path = None
        if replay_obj is not None:
            d = os.path.join(os.environ.get("VERIF_EVIDENCE_DIR") or VERIF, "replays", self.pid)
            os.makedirs(d, exist_ok=True)
            name = replay_name or ("v%d.json" % (len(self.violations) + 1))
            path = os.path.join(d, name)
            with open(path, "w") as f:
                json.dump(replay_obj, f, indent=1, sort_keys=True, default=str)
        self.violations.append((signature, what, path))

    def finish(self):
        for sig, kf in self.known_hits.items():
            print("KNOWN-FINDING: property=%s %s" % (self.pid, kf.get("what", sig)))
        for sig, what, path in self.violations[:20]:
            print("VIOLATION property=%s replay=%s" % (self.pid, path or "-"))
            print("  signature: %s" % sig)
            print("  %s" % what)
        sys.stdout.flush()
        return 1 if self.violations else 0


def write_evidence(pid, tier, level, coverage, wall, violations=0, assumptions=None):
    ev = {
        "property_id": pid,
        "tier": tier,
        "seed": seed(),
        "level": level,
        "coverage": coverage,
        "assumptions": assumptions or [],
        "wall_s": round(wall, 2),
        "violations": violations,
    }
    evdir = os.environ.get("VERIF_EVIDENCE_DIR") or os.path.join(VERIF, "evidence")
    os.makedirs(evdir, exist_ok=True)
    p = os.path.join(evdir, pid + ".json")
    tmp = p + ".tmp"
    with open(tmp, "w") as f:
        json.dump(ev, f, indent=1, sort_keys=True, default=str)
        f.write("\n")
    os.replace(tmp, p)
    return p
