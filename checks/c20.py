"""C20 — gRPC wire fidelity: method, message and metadata reach the server as written.

TLC design level : GrpcWire.tla (gun ownership, shoot steps, send/sample per step, template store),
                   exhaustive over files of entry classes x kinds x instances x interleavings,
                   + three negative controls (in-place metadata rendering, a bad entry stopping the
                   instance, a dropped metadata key) that must produce counterexamples.
M2 (spec->code)  : TLC generates the complete abstract case space (GrpcWireMC!CaseDoc: the example
                   service's methods x field subsets x metadata subsets, bad entries woven in; runs =
                   grpc/json | grpc/scenario x shared-client x 1..3 instances x file order);
                   `vdrive grpcwire` renders it into ammo files and runs every run on the real engine
                   with the providers and guns from the registered factories against a recording
                   TargetService with reflection.
Connections       : GrpcConn.tla (warm-up / shared client pool / unreachable target / outage and recovery / late
                   answers) + TraceGrpcConn.tla over the target's stats.Handler log (`vdrive grpcconn`).
M1 (code->spec)  : TraceGrpcWire.tla follows every recorded line with the actions of GrpcWire
                   (a received call must Fit the current step of a gun in Shoot, one sample per step,
                   failed iff never sent, every grpc/json entry shot exactly once).
"""
import json
import os
import re
import threading
import time
import vlib

PID = "C20"
DESIGN_INV = "TypeOK Ownership Fidelity BadNeverSent SharedUnaltered SamplesExact NeighboursUnaffected ReceivedOnce"


MANIFEST = dict(
    category="model_checking",
    technique="implementation-shaped TLA+ spec of the gRPC guns' shoot path (GrpcWire) model-checked exhaustively with negative controls; TLC "
              "generates the complete abstract ammo case space, the harness renders it and runs it through the real engine, providers and guns "
              "against a recording TargetService with reflection; TLC validates the recorded traces against the spec's actions (TraceGrpcWire)",
    design_ref="DESIGN.md §4 C20",
    text=("GrpcWire.tla models a pool of gRPC guns shooting a file of entries: gun factory and Bind, ShootBegin, the call reaching the server (SendAct), "
          "the one sample of every step, ShootEnd; for scenarios the shared template store with each gun's parsed view. TLC checks for all files of "
          "entry classes (good, unknown method, ill-typed payload; plain and scenario), 1..3 instances and all interleavings that what the server "
          "receives Fits the entry (method, message = payload, metadata attached), a bad step is never sent and yields exactly one failed sample, "
          "every other entry is still shot exactly once, shared definitions are never altered; three negative controls must fail. The binding is "
          "complete case enumeration: TLC emits every (method x field subset x metadata subset) entry of the example service plus bad entries "
          "woven in, and the run matrix (grpc/json | grpc/scenario, shared-client, 1..3 instances, three file orders); the driver builds providers "
          "and guns through the registered factories, runs the real engine, and TLC accepts the recorded NewGun/Bind/ShootBegin/Recv/Sample/ShootEnd "
          "lines only if they are a behaviour of GrpcWire. Right level: the statement quantifies over all entries and configurations and over "
          "interleaved good/bad neighbours; the acceptance test fires one payload and compares counters."),
    note=("Also decided here: the metadata key rule (wire key = lower case, several entries under one wire key all arrive, -bin values, entries that "
          "cannot be attached are never sent), error answers of the target (every status: received exactly once, the sample carries the answer), the "
          "JSON->protobuf mapping as a TLA+ function (GrpcJson.tla) over 363 generated payload cases shot as grpc/json and as scenario calls at a "
          "reflection-only service with nested / repeated / map / enum / bytes / oneof / well-known-type fields, TLS on/off and reflect_metadata / "
          "authority in the connection part, LONG entries (a field / metadata value of more than 4 KiB in every file, a field of more than 64 KiB in "
          "the files read with maxammosize raised; compared whole through a length + SHA-256 projection). Values are compared as (prefix, token) pairs; only non-default values (proto3 cannot tell a default from an absent field). Received metadata "
          "is checked to contain the entry's metadata (transport entries removed). 'Within the configured timeout' is decided as 'per call' by one "
          "run with a 1 s timeout and 1.2 s of think time between three fast calls (exit 2 if the machine was too slow to judge); all other runs use 120 s. "
          "reflect_port runs serve reflection from a second server that also implements the service: calls must arrive at the target only. A scenario stops at its first failed step, as the gun does. Trusted: renderers/projections in "
          "the harness, TLC."),
)


def tlc_parallel(jobs):
    """jobs: [(module, cfg, kwargs)] -> results in order (threads; every TLC has its own metadir)."""
    vlib.spec_copy()
    res = [None] * len(jobs)

    def work(i, j):
        res[i] = vlib.tlc(j[0], j[1], **j[2])
    th = [threading.Thread(target=work, args=(i, j)) for i, j in enumerate(jobs)]
    for t in th:
        t.start()
    for t in th:
        t.join()
    return res


def gen_cases(full):
    cfg = "GrpcWire_genfull.cfg" if full else "GrpcWire_gen.cfg"
    r = vlib.tlc("GrpcWireMC", cfg, workers=1, deadlock=False, timeout=600, env={"VERIF_SEED": vlib.seed()})
    if r.error or r.violation:
        raise vlib.MachineryError("case generation failed: %s %s\n%s" % (r.kind, r.what, r.out[-3000:]))
    for ln in r.out.splitlines():
        if ln.startswith('<<"VERIF", "'):
            return json.loads(json.loads(ln[len('<<"VERIF", '):-2]))
    raise vlib.MachineryError("generator printed no case document\n" + r.out[-2000:])


def hwm(r):
    m = None
    for m in re.finditer(r'<<"VERIF-HWM", (\d+)>>', r.out):
        pass
    return int(m.group(1)) if m else None


_uniq_lock = threading.Lock()
_uniq = [0]


def trace_check(module, cfg, rows, d, tag="t", timeout=900):
    """Returns (accepted, failing_line_index_or_None, invariant_or_None, states, TLCResult)."""
    import shutil
    with _uniq_lock:
        _uniq[0] += 1
        n = _uniq[0]
    p = os.path.join(d, "%s_%d.ndjson" % (tag, n))
    vlib.write_ndjson(p, rows)
    # vlib.tlc stages the config under a name derived from (module, pid, config name) and removes it afterwards:
    # parallel calls with the same config would delete each other's copy -> every call gets its own config name
    sc = vlib.spec_copy()
    own = "%s.%d.cfg" % (cfg[:-4], n)
    shutil.copyfile(os.path.join(sc, "cfg", cfg), os.path.join(sc, "cfg", own))
    r = vlib.tlc(module, own, env={"VERIF_TRACE": p}, workers=1, dfs=True, deadlock=False, timeout=timeout, heap="6g")
    h = hwm(r)
    if r.violation and r.kind == "invariant":
        ln = int(r.trace_state.get("l", "0")) - 1      # the state AFTER consuming line l-1 violates it
        return False, max(ln, 1), r.what, r.distinct, r
    if "Postcondition Accepted" in r.out and "is false" in r.out and h is not None:
        return False, h, None, r.distinct, r
    if r.rc == 0 and h == len(rows) + 1:
        return True, None, None, r.distinct, r
    raise vlib.MachineryError("%s failed: rc=%s kind=%s hwm=%s lines=%d\n%s" % (module, r.rc, r.kind, h, len(rows), r.out[-3000:]))


def split_runs(rows):
    runs, cur = [], None
    for r_ in rows:
        if r_["ev"] == "Run":
            cur = []
            runs.append(cur)
        if cur is None:
            cur = []
            runs.append(cur)
        cur.append(r_)
    return runs


def brief(row):
    b = {k: v for k, v in row.items() if k not in ("entries",)}
    return b


def describe(run_rows, i, inv):
    head = run_rows[0]
    row = run_rows[min(i, len(run_rows) - 1)]
    ev = row.get("ev")
    what = ev
    if ev == "Recv" and row.get("srv") not in (None, "target"):
        what = "Recv:at-%s-endpoint" % row.get("srv")
    elif ev == "Recv":
        what = "Recv:%s" % row.get("method", "").split(".")[-1]
    elif ev == "Sample":
        what = "Sample:code=%s" % ("200" if row.get("code") == 200 else ("504" if row.get("code") == 504 else "not200"))
    elif ev == "RunEnd":
        what = "RunEnd:%s" % ("err" if row.get("err") else "incomplete")
    elif ev == "Crash":
        what = "Crash:%s" % row.get("what")
    sig = "kind=%s shared=%s%s%s inst=%s at=%s%s" % (head.get("kind"), head.get("shared"), " refl=separate" if head.get("refl") else "",
                                                    " timeout=%sms" % head["timeout"] if head.get("timeout") else "", head.get("inst"), what,
                                                (" inv=" + inv) if inv else "")
    return sig, row


def slow_machine_guard(run, head):
    """A run with a small per-call timeout T is only meaningful if the machine let a loopback call finish well within T.
    Think time is a LOWER bound; if a whole shot took longer than its think time + T/2, single calls may have been slow
    for reasons outside pandora: machinery failure (exit 2), never a verdict."""
    T = head.get("timeout") or 0
    if not T:
        return
    think = sum(head.get("sleeps") or [])
    begin = {}
    for r_ in run:
        if r_["ev"] == "ShootBegin":
            begin[r_["gun"]] = r_.get("ms", 0)
        elif r_["ev"] == "ShootEnd" and r_["gun"] in begin:
            took = r_.get("ms", 0) - begin.pop(r_["gun"])
            if took > think + T // 2:
                raise vlib.MachineryError("run %s (timeout %d ms): a shot with %d ms of think time took %d ms -- the machine is too slow "
                                          "to judge a %d ms per-call timeout" % (head.get("run"), T, think, took, T))
    if begin:   # a shot that never returned
        raise vlib.MachineryError("run %s (timeout %d ms): a shot did not return" % (head.get("run"), T))


def validate(v, rows, d, doc, groups=3):
    """Runs are independent traces: validated in `groups` parallel TLC processes."""
    runs = split_runs(rows)
    groups = max(1, min(groups, len(runs)))
    parts = [runs[i::groups] for i in range(groups)]
    out = [None] * groups
    errs = []
    vlib.spec_copy()

    def work(i):
        try:
            out[i] = validate_group(v, parts[i], d, doc, "g%d" % i)
        except Exception as ex:      # re-raised in the main thread
            errs.append(ex)
    th = [threading.Thread(target=work, args=(i,)) for i in range(groups)]
    for t in th:
        t.start()
    for t in th:
        t.join()
    if errs:
        raise errs[0]
    return sum(o[0] for o in out), sum(o[1] for o in out), sum(o[2] for o in out)


def validate_group(v, runs, d, doc, tag):
    """TLC over the runs of one group; a rejected run is reported, dropped, and the rest is validated again."""
    validated, states, rejected = 0, 0, 0
    for attempt in range(8):
        if not runs:
            break
        flat = [r_ for run in runs for r_ in run]
        ok, ln, inv, st, _ = trace_check("TraceGrpcWire", "TraceGrpcWire.cfg", flat, d, tag=tag)
        states += st
        if ok:
            validated += len(runs)
            break
        # locate the run containing line ln (1-based)
        n = 0
        for k, run in enumerate(runs):
            if ln <= n + len(run):
                i = ln - n - 1
                sig, row = describe(run, i, inv)
                head = run[0]
                slow_machine_guard(run, head)
                ctx = [brief(x) for x in run[max(1, i - 12):i + 1]]
                v.violation(sig, "run %s (%s, shared-client=%s, %s instances): line %s of the recorded trace is not a step "
                            "of GrpcWire%s: %s" % (head.get("run"), head.get("kind"), head.get("shared"), head.get("inst"),
                                                   row.get("seq"), (" (invariant %s)" % inv) if inv else "", json.dumps(brief(row))[:400]),
                            replay_obj={"kind": "grpcwire", "run": doc["runs"][head["run"] - 1] if head.get("run") else None,
                                        "entries": doc["entries"], "tail": doc["tail"], "context": ctx, "rejected": brief(row)},
                            replay_name="run%s.json" % head.get("run"))
                validated += k
                rejected += 1
                runs = runs[k + 1:]
                break
            n += len(run)
        else:
            raise vlib.MachineryError("failing line %s outside the trace" % ln)
    return validated, states, rejected


def corruption_selftest(runs, d, module, cfg, corruptions):
    """Binding self-test: a recorded (accepted) run with one field corrupted / one event dropped MUST be rejected
    by the trace specification, otherwise the trace check has no teeth (machinery failure, not a verdict)."""
    import copy
    jobs = []
    for name, pick, mutate in corruptions:
        run = next((r_ for r_ in runs if pick(r_)), None)
        if run is None:
            continue
        rows = copy.deepcopy(run)
        if mutate(rows):
            jobs.append((name, rows))
    res, errs = [None] * len(jobs), []
    vlib.spec_copy()

    def work(i):
        try:
            res[i] = trace_check(module, cfg, jobs[i][1], d, tag="corrupt%d" % i)[0]
        except Exception as ex:
            errs.append(ex)
    th = [threading.Thread(target=work, args=(i,)) for i in range(len(jobs))]
    for t in th:
        t.start()
    for t in th:
        t.join()
    if errs:
        raise errs[0]
    for (name, _), ok in zip(jobs, res):
        if ok:
            raise vlib.MachineryError("binding self-test: corrupted trace (%s) was accepted by %s" % (name, module))
    return len(jobs)


def _drop_first(rows, pred):
    for i, r_ in enumerate(rows):
        if pred(r_):
            del rows[i]
            return True
    return False


def _alter_first(rows, pred, f):
    for r_ in rows:
        if pred(r_):
            f(r_)
            return True
    return False


C20_CORRUPTIONS = [
    ("metadata token of one received scenario call altered",
     lambda run: run[0].get("kind") == "scn",
     # (a call with a single templated value carries no second token to disagree with: needs >= 2)
     lambda rows: _alter_first(rows, lambda r_: r_["ev"] == "Recv" and len(r_["md"]) >= 2, lambda r_: r_["md"][0].__setitem__("tok", "x" + r_["md"][0]["tok"]))),
    ("one received payload field dropped",
     lambda run: run[0].get("kind") == "json",
     lambda rows: _alter_first(rows, lambda r_: r_["ev"] == "Recv" and len(r_["fields"]) > 1, lambda r_: r_["fields"].pop())),
    ("sample of a bad entry dropped",
     lambda run: run[0].get("kind") == "json",
     lambda rows: _drop_first(rows, lambda r_: r_["ev"] == "Sample" and r_["code"] != 200)),
    ("a bad entry's sample reported as 200",
     lambda run: run[0].get("kind") == "json",
     lambda rows: _alter_first(rows, lambda r_: r_["ev"] == "Sample" and r_["code"] != 200, lambda r_: r_.__setitem__("code", 200))),
    ("a call received by the reflection endpoint",
     lambda run: run[0].get("refl"),
     lambda rows: _alter_first(rows, lambda r_: r_["ev"] == "Recv", lambda r_: r_.__setitem__("srv", "reflect"))),
    ("a good step of the think-time scenario fails with 504 without being sent",
     lambda run: run[0].get("timeout"),
     lambda rows: _timeout_step(rows)),
    ("an undecodable line is sent",
     lambda run: run[0].get("kind") == "json",
     lambda rows: _send_invalid(rows)),
    ("a call arrives with a metadata entry of an earlier step",
     lambda run: run[0].get("kind") == "scn",
     lambda rows: _leak_md(rows)),
    ("a long value arrives with a piece missing",
     lambda run: run[0].get("kind") == "json",
     lambda rows: _alter_first(rows, lambda r_: r_["ev"] == "Recv" and any("#len=" in f["pre"] for f in r_["fields"]),
                               lambda r_: [f.__setitem__("pre", f["pre"].replace("#len=", "#len=1")) for f in r_["fields"] if "#len=" in f["pre"]])),
    ("one entry never shot",
     lambda run: run[0].get("kind") == "json" and run[0].get("inst") == 1,
     lambda rows: _drop_entry(rows)),
]


def _timeout_step(rows):
    # the LAST received call of the run disappears and its sample turns into a client-side 504
    for i in range(len(rows) - 1, -1, -1):
        if rows[i]["ev"] == "Recv":
            j = next(k for k in range(i, len(rows)) if rows[k]["ev"] == "Sample")
            rows[j]["code"] = 504
            del rows[i]
            return True
    return False


def _send_invalid(rows):
    # an undecodable line's Shoot is followed by a received call (a copy of the first one in the run)
    first = next((r_ for r_ in rows if r_["ev"] == "Recv"), None)
    for i, r_ in enumerate(rows):
        if r_["ev"] == "ShootBegin" and r_.get("ammo") == "!invalid" and first is not None:
            rows.insert(i + 1, dict(first))
            return True
    return False


def _leak_md(rows):
    # a received call without metadata additionally carries the metadata of the previous received call that had some
    prev = None
    for r_ in rows:
        if r_["ev"] != "Recv":
            continue
        if r_["md"]:
            prev = r_["md"]
        elif prev:
            r_["md"] = [dict(m) for m in prev]
            return True
    return False


def _drop_entry(rows):
    # remove ShootBegin..ShootEnd of the first good entry of a 1-instance run (its neighbours stay)
    for i, r_ in enumerate(rows):
        if r_["ev"] == "ShootBegin":
            j = next(k for k in range(i, len(rows)) if rows[k]["ev"] == "ShootEnd" and rows[k]["gun"] == r_["gun"])
            if any(x["ev"] == "Recv" for x in rows[i:j]):
                del rows[i:j + 1]
                return True
    return False


def drive(b, doc, d, name="cases"):
    cases = os.path.join(d, name + ".json")
    json.dump(doc, open(cases, "w"))
    trace = os.path.join(d, name + ".ndjson")
    amdir = os.path.join(d, name + "-ammo")
    os.makedirs(amdir, exist_ok=True)
    p = vlib.run_driver(b, ["grpcwire", "-cases", cases, "-dir", amdir, "-out", trace], timeout=900, ok_codes=(0, 2))
    rows = vlib.read_ndjson(trace)
    if p.returncode != 0:
        m = re.search(r"fatal error: (concurrent map[^\n]*)", p.stderr)
        if not m:
            raise vlib.MachineryError("driver grpcwire failed rc=%s\n%s" % (p.returncode, p.stderr[-3000:]))
        # the process died of a runtime fault of the code under test: an event GrpcWire has no action for
        rows.append({"ev": "Crash", "what": m.group(1).strip().replace(" ", "-"), "seq": len(rows) + 1})
    return rows


# ---------------------------------------------------------------------------------- connection / life-cycle part

WIRE_NEG = ["inplace", "abortonbad", "dropmd", "shareddialsreflect", "scenariodeadline", "dirtyafterfail", "leakmd", "keepdefaults", "lastwins",
            "retryunavailable", "choplong"]
CONN_NEG = ["dialpershot", "poolignored", "ignorewarmfail", "dieonfailure", "plainalways", "reflmddropped"]


def conn_design_jobs(thorough):
    kw = dict(workers=2, deadlock=False, timeout=900, heap="2g")
    return [("GrpcConnMC", "GrpcConn_exh3.cfg" if thorough else "GrpcConn_exh.cfg", dict(kw, workers=4))] + \
           [("GrpcConnMC", "GrpcConn_neg_%s.cfg" % n, kw) for n in CONN_NEG]


def conn_describe(run, i, inv):
    head, row = run[0], run[min(i, len(run) - 1)]
    ev = row.get("ev")
    what = ev
    if ev == "Sample":
        what = "Sample:code=%s" % row.get("code")
    elif ev == "RunEnd":
        what = "RunEnd:class=%s" % row.get("class")
    elif ev == "Recovered":
        what = "Recovered:%s" % row.get("ok")
    extra = "".join(" %s=%s" % (k_, head.get(k_)) for k_ in ("kind", "tls", "ttls", "needmd", "rmd", "notimeout")
                    if head.get(k_) not in (None, False, "", "grpc"))
    return "conn mode=%s shared=%s clients=%s inst=%s%s at=%s%s" % (head.get("mode"), head.get("shared"), head.get("clients"),
                                                                    head.get("inst"), extra, what, (" inv=" + inv) if inv else ""), row


def conn_slow_guard(run, head):
    """timeout runs: a FAST call is expected to be answered within the per-call timeout T; if any shot of a fast entry took
    more than T/2 the machine is too slow to judge (exit 2), never a verdict."""
    T = head.get("timeout") or 0
    if not T:
        return
    slow = set(head.get("slow_ammo") or head.get("slow") or [])
    wait = head.get("delayed_ms") or 0      # entries named wait<k> are answered after that long, WITHIN the timeout
    begin = {}
    for r_ in run:
        if r_["ev"] == "ShootBegin":
            begin[r_["gun"]] = (r_.get("ms", 0), r_.get("ammo"))
        elif r_["ev"] == "ShootEnd" and r_["gun"] in begin:
            t0, ammo = begin.pop(r_["gun"])
            extra = wait if str(ammo).startswith("wait") else 0
            if ammo not in slow and r_.get("ms", 0) - t0 > extra + T // 4 + (T // 4 if not extra else 0):
                raise vlib.MachineryError("conn run %s (timeout %d ms): a fast call took %d ms -- machine too slow to judge" % (
                    head.get("run"), T, r_.get("ms", 0) - t0))


def conn_validate(v, rows, d):
    runs = split_runs(rows)
    validated, states, rejected = 0, 0, 0
    for attempt in range(10):
        if not runs:
            break
        flat = [r_ for run in runs for r_ in run]
        ok, ln, inv, st, _ = trace_check("GrpcConnTraceMC", "TraceGrpcConn.cfg", flat, d, tag="conn")
        states += st
        if ok:
            validated += len(runs)
            break
        n = 0
        for k, run in enumerate(runs):
            if ln <= n + len(run):
                i = ln - n - 1
                sig, row = conn_describe(run, i, inv)
                head = run[0]
                conn_slow_guard(run, head)
                v.violation(sig, "connection run %s (%s, shared-client=%s/%s, %s instances): line %s is not a step of GrpcConn%s: %s" % (
                    head.get("run"), head.get("mode"), head.get("shared"), head.get("clients"), head.get("inst"), row.get("seq"),
                    (" (invariant %s)" % inv) if inv else "", json.dumps(brief(row))[:400]),
                    replay_obj={"kind": "grpcconn", "run": {k_: head.get(k_) for k_ in ("mode", "shared", "clients", "inst", "entries", "timeout", "kind", "tls",
                                                                          "ttls", "needmd", "rmd", "authority", "notimeout")},
                                "rejected": brief(row), "context": [brief(x) for x in run[max(1, i - 12):i + 1]]},
                    replay_name="conn%s.json" % head.get("run"))
                validated += k
                rejected += 1
                runs = runs[k + 1:]
                break
            n += len(run)
        else:
            raise vlib.MachineryError("failing line %s outside the connection trace" % ln)
    return validated, states, rejected


def _swap_conn(rows):
    # a call of one gun arrives on the connection another gun uses
    seen = {}
    for r_ in rows:
        if r_["ev"] == "Recv":
            other = [c for c in seen.values() if c != r_["conn"]]
            if other:
                r_["conn"] = other[0]
                return True
            seen[r_["conn"]] = r_["conn"]
    return False


CONN_CORRUPTIONS = [
    ("a call arrives on another gun's connection (no shared-client)",
     lambda run: run[0].get("mode") == "conns" and not run[0].get("shared") and run[0].get("inst", 0) > 1, _swap_conn),
    ("a call of a reachable target fails",
     lambda run: run[0].get("mode") == "conns",
     lambda rows: _alter_first(rows, lambda r_: r_["ev"] == "Sample", lambda r_: r_.__setitem__("code", 503))),
    ("an instance is started although reflection failed",
     lambda run: run[0].get("mode") == "dead",
     lambda rows: rows.insert(2, {"ev": "Bind", "gun": 2, "inst": 0, "ok": True, "gid": 1, "seq": 0}) or True),
    ("a call the target answers too late is reported as 200",
     lambda run: run[0].get("mode") == "timeout",
     lambda rows: _alter_first(rows, lambda r_: r_["ev"] == "Sample" and r_["code"] == 504, lambda r_: r_.__setitem__("code", 200))),
    ("a load call carries the reflection credentials",
     lambda run: run[0].get("rmd") and run[0].get("mode") == "conns" and not run[0].get("needmd") or (run[0].get("rmd") and run[0].get("needmd")),
     lambda rows: _alter_first(rows, lambda r_: r_["ev"] == "Recv", lambda r_: r_.__setitem__("reflmd", True))),
    ("the reflection stream of a run with reflect_metadata comes without it",
     lambda run: run[0].get("rmd"),
     lambda rows: _alter_first(rows, lambda r_: r_["ev"] == "ReflCall", lambda r_: r_.__setitem__("reflmd", ""))),
    ("a run whose gun speaks plaintext to a TLS target starts",
     lambda run: run[0].get("ttls") and not run[0].get("tls"),
     lambda rows: rows.insert(2, {"ev": "Bind", "gun": 2, "inst": 0, "ok": True, "gid": 1, "seq": 0}) or True),
    ("no successful call after the target came back",
     lambda run: run[0].get("mode") == "updown",
     lambda rows: _after_up_all_fail(rows)),
]


def _after_up_all_fail(rows):
    up = next((i for i, r_ in enumerate(rows) if r_["ev"] == "TargetUp"), None)
    if up is None:
        return False
    rows[:] = rows[:up + 1] + [r_ for r_ in rows[up + 1:] if r_["ev"] not in ("Recv", "ConnBegin", "ConnEnd")]
    for r_ in rows[up + 1:]:
        if r_["ev"] == "Sample":
            r_["code"] = 503
    return True


def conn_part(v, b, d, thorough):
    r = vlib.tlc("GrpcConnMC", "GrpcConn_genfull.cfg" if thorough else "GrpcConn_gen.cfg", workers=1, deadlock=False, timeout=300)
    doc = None
    for ln in r.out.splitlines():
        if ln.startswith('<<"VERIF", "'):
            doc = json.loads(json.loads(ln[len('<<"VERIF", '):-2]))
    if doc is None:
        raise vlib.MachineryError("GrpcConnMC generated no runs\n" + r.out[-2000:])
    runs_file = os.path.join(d, "connruns.json")
    json.dump(doc, open(runs_file, "w"))
    trace = os.path.join(d, "conn.ndjson")
    wd = os.path.join(d, "conn-work")
    os.makedirs(wd, exist_ok=True)
    vlib.run_driver(b, ["grpcconn", "-runs", runs_file, "-dir", wd, "-out", trace], timeout=900)
    rows = vlib.read_ndjson(trace)
    t0 = time.time()
    validated, states, rejected = conn_validate(v, rows, d)
    corrupted = corruption_selftest(split_runs(rows), d, "GrpcConnTraceMC", "TraceGrpcConn.cfg", CONN_CORRUPTIONS) if rejected == 0 else 0
    vlib.log("connection part: %d runs, %d lines, trace validation + self-test %.1fs" % (len(doc["runs"]), len(rows), time.time() - t0))
    heads = [r_ for r_ in rows if r_["ev"] == "Run"]
    return {"conn_runs": len(heads), "conn_runs_validated": validated, "conn_runs_rejected": rejected, "conn_trace_lines": len(rows),
            "conn_trace_spec_states": states, "conn_corrupted_traces_rejected": corrupted,
            "conn_modes": sorted({h["mode"] for h in heads}),
            "conn_samples": [brief(r_) for r_ in rows if r_["ev"] in ("ConnBegin", "Recv", "TargetDown", "Recovered")][:4]}


# ---------------------------------------------------------------------------------- JSON -> protobuf mapping part

JSON_NEG = ["viafloat", "keepdefaults"]


def json_design_jobs():
    kw = dict(workers=1, deadlock=False, timeout=600, heap="2g")
    return [("GrpcJsonMC", "GrpcJson_exh.cfg", kw)] + [("GrpcJsonMC", "GrpcJson_neg_%s.cfg" % n, kw) for n in JSON_NEG]


def json_mismatches(rows, d, tag):
    """One TLC pass over the Case lines: TraceGrpcJson evaluates GrpcJson!Expect on every recorded case and prints the
    line number of every case that disagrees.  Returns (list of 0-based row indices, TLC states)."""
    ok, ln, inv, st, r = trace_check("TraceGrpcJson", "TraceGrpcJson.cfg", rows, d, tag=tag)
    if not ok:
        raise vlib.MachineryError("TraceGrpcJson stopped at line %s of %d: %s" % (ln, len(rows), json.dumps(brief(rows[min(ln, len(rows)) - 1]))[:600]))
    return sorted({int(m.group(1)) - 1 for m in re.finditer(r'<<"VERIF-MISMATCH", (\d+)>>', r.out)}), st


def _first_case(rows, pred, f):
    for r_ in rows:
        if r_["ev"] == "Case" and not r_.get("corrupted") and pred(r_):   # every corruption gets a case of its own
            f(r_)
            r_["corrupted"] = True
            return True
    return False


JSON_CORRUPTIONS = [
    ("a decoded leaf carries another value",
     lambda rows: _first_case(rows, lambda r_: r_["recv"] == 1 and r_["leaves"], lambda r_: r_["leaves"][0].__setitem__("v", "i57"))),
    ("a field the payload sets is missing from the decoded message",
     lambda rows: _first_case(rows, lambda r_: r_["recv"] == 1 and len(r_["leaves"]) > 1, lambda r_: r_["leaves"].pop())),
    ("a payload that does not fit is sent",
     lambda rows: _first_case(rows, lambda r_: r_["recv"] == 0 and r_["fail"] == 1, lambda r_: r_.update(recv=1, ok=1, fail=0))),
    ("a payload that fits is answered with a failed sample and never sent",
     lambda rows: _first_case(rows, lambda r_: r_["recv"] == 1 and r_["ok"] == 1, lambda r_: r_.update(recv=0, ok=0, fail=1, leaves=[]))),
    ("a default-valued plain scalar arrives as set",
     lambda rows: _first_case(rows, lambda r_: r_["recv"] == 1 and not r_["leaves"] and r_["json"] == '{"i64": 0}',
                              lambda r_: r_.__setitem__("leaves", [{"p": "i64", "v": "i0"}]))),
]


def json_part(v, b, d, thorough, r):
    """r: the TLC run of GrpcJson_exh.cfg -- it checked the properties of the interpretation AND printed the case space."""
    import copy
    doc = None
    for ln in r.out.splitlines():
        if ln.startswith('<<"VERIF", "'):
            doc = json.loads(json.loads(ln[len('<<"VERIF", '):-2]))
    if doc is None or r.error:
        raise vlib.MachineryError("GrpcJsonMC generated no cases\n" + r.out[-2000:])
    cases = os.path.join(d, "jsoncases.json")
    json.dump(doc, open(cases, "w"))
    trace = os.path.join(d, "jsonmap.ndjson")
    wd = os.path.join(d, "jsonmap-work")
    os.makedirs(wd, exist_ok=True)
    vlib.run_driver(b, ["grpcjson", "-cases", cases, "-dir", wd, "-out", trace, "-inst", "3" if thorough else "2"], timeout=600)
    rows = vlib.read_ndjson(trace)
    t0 = time.time()
    for e in (r_ for r_ in rows if r_["ev"] == "RunEnd" and r_["err"]):
        v.violation("jsonmap run=%s at=RunEnd:err" % e["run"], "JSON mapping run %s ended with %s" % (e["run"], e["err"][:300]))
        e["err"] = ""
    bad, states = json_mismatches(rows, d, "jsonmap")
    for i in bad:
        row = rows[i]
        sig = "jsonmap kind=%s msg=%s payload=%s at=Case:recv=%s,ok=%s,fail=%s" % (row["kind"], row["msg"], row["json"], row["recv"], row["ok"], row["fail"])
        v.violation(sig, "%s entry with call %s and payload %s: the server %s; samples ok=%s failed=%s (codes %s) -- not what the payload "
                    "interpreted against %s (GrpcJson!Expect) says" % (
                        "grpc/json" if row["kind"] == "json" else "gRPC scenario", row["method"], row["json"],
                        ("decoded %s" % row["canon"]) if row["recv"] else "received nothing", row["ok"], row["fail"], row.get("codes"), row["msg"]),
                    replay_obj={"kind": "grpcjson", "case": {k: row[k] for k in ("id", "msg", "method", "w")}, "observed": brief(row)},
                    replay_name="jsonmap-%s-%s.json" % (row["kind"], row["id"]))
    corrupted = 0
    if not bad:
        # binding self-test, one TLC pass: every corruption hits another case of a copy of the trace; each must be reported
        rows2 = copy.deepcopy(rows)
        before = copy.deepcopy(rows)
        applied = [name for name, mutate in JSON_CORRUPTIONS if mutate(rows2)]
        touched = [i for i in range(len(rows)) if rows2[i] != before[i]]
        got, _ = json_mismatches(rows2, d, "jsoncorrupt")
        if len(touched) != len(applied) or sorted(got) != touched:
            raise vlib.MachineryError("binding self-test: of %d corrupted JSON-mapping cases (lines %s) TraceGrpcJson reported %s" % (
                len(applied), touched, got))
        corrupted = len(applied)
    vlib.log("JSON mapping part: %d cases x %d kinds, %d disagree, validation + self-test %.1fs" % (
        doc["n"], sum(1 for r_ in rows if r_["ev"] == "Run"), len(bad), time.time() - t0))
    caserows = [r_ for r_ in rows if r_["ev"] == "Case"]
    return {"jsonmap_cases": doc["n"], "jsonmap_cases_expected_sent": doc["sent"], "jsonmap_evaluations": len(caserows),
            "jsonmap_disagreeing": len(bad), "jsonmap_trace_spec_states": states, "jsonmap_corrupted_traces_rejected": corrupted,
            "jsonmap_message_types": sorted({r_["msg"] for r_ in caserows}), "jsonmap_negative_controls": JSON_NEG,
            "jsonmap_samples": [{k: r_[k] for k in ("kind", "msg", "json", "recv", "canon", "ok", "fail")} for r_ in caserows[11:300:97]]}


def run(tier, v):
    thorough = tier == "thorough"
    # 1. design level + negative controls
    kw = dict(workers=4, deadlock=False, timeout=1800, heap="4g")
    main = ("GrpcWireMC", "GrpcWire_exh3.cfg" if thorough else "GrpcWire_exh.cfg", dict(kw, workers=8, heap="8g"))
    # further exhaustive configs (must pass): the metadata-key catalogue; thorough: files of 3 entries (2 instances)
    more_pass = [("GrpcWireMC", "GrpcWire_exh_md.cfg", kw)]
    if thorough:
        more_pass.append(("GrpcWireMC", "GrpcWire_exh_file3.cfg", dict(kw, workers=8, heap="8g")))
    neg = [("GrpcWireMC", "GrpcWire_neg_%s.cfg" % n, dict(kw, workers=2, heap="2g")) for n in WIRE_NEG]   # 1-5 s each: JVM start dominates
    jobs = [main] + more_pass + neg
    t0 = time.time()
    cjobs = conn_design_jobs(thorough)
    jjobs = json_design_jobs()
    allres = tlc_parallel(jobs + cjobs + jjobs)
    res, cres, jres = allres[:len(jobs)], allres[len(jobs):len(jobs) + len(cjobs)], allres[len(jobs) + len(cjobs):]
    vlib.tlc_must_pass(cres[0], cjobs[0][1])
    for j, r in zip(cjobs[1:], cres[1:]):
        vlib.tlc_must_fail(r, j[1])
    vlib.tlc_must_pass(jres[0], jjobs[0][1])
    for j, r in zip(jjobs[1:], jres[1:]):
        vlib.tlc_must_fail(r, j[1])
    vlib.log("design TLC + negative controls: %.1fs (%d + %d states)" % (time.time() - t0, res[0].distinct, cres[0].distinct))
    states, trans = 0, 0
    for j, r in zip(jobs[:1 + len(more_pass)], res[:1 + len(more_pass)]):
        vlib.tlc_must_pass(r, j[1])
        states += r.distinct
        trans += r.generated
    for j, r in zip(jobs[1 + len(more_pass):], res[1 + len(more_pass):]):
        vlib.tlc_must_fail(r, j[1])
    # 2. M2: the case space
    doc = gen_cases(thorough)
    b = vlib.harness_build()
    d = vlib.scratch()
    rows = drive(b, doc, d)
    t0 = time.time()
    validated, tstates, rejected = validate(v, rows, d, doc)
    vlib.log("trace validation: %.1fs (%d lines, %d states)" % (time.time() - t0, len(rows), tstates))
    corrupted = corruption_selftest(split_runs(rows), d, "TraceGrpcWire", "TraceGrpcWire.cfg", C20_CORRUPTIONS) if rejected == 0 else 0
    conn = conn_part(v, b, d, thorough)
    jm = json_part(v, b, d, thorough, jres[0])
    states += cres[0].distinct
    trans += cres[0].generated
    validated += conn["conn_runs_validated"]
    shots = sum(1 for r_ in rows if r_["ev"] == "ShootBegin")
    recvs = sum(1 for r_ in rows if r_["ev"] == "Recv")
    shot_names = {(r_.get("ammo", "")[:1], r_.get("ammo")) for r_ in rows if r_["ev"] == "ShootBegin"}
    ents = doc["entries"]
    cov = {
        "states": states, "transitions": trans, "conn_design_states": cres[0].distinct, "conn_negative_controls": CONN_NEG,
        "traces_validated_against_impl": validated,
        "samples": [{k: e[k] for k in ("id", "call", "fields", "md", "bad", "style", "num", "expect")} for e in ents[3::41]][:5]
                   + [brief(r_) for r_ in rows if r_["ev"] == "Recv"][5:7],
        "exhaustive": True,
        "evaluations": shots,
        "distinct_nontrivial": len(shot_names),
        "rule": "abstract entries = methods of examples/grpc/server x subsets of the input type's fields x subsets of {a,b,auth} "
                "(+ unknown-method and ill-typed entries woven in, JSON name style / number form %s); every entry is rendered "
                "as a grpc/json line and as a gRPC scenario (entry + tail call) and shot in every run; distinct = distinct "
                "(kind, entry) pairs actually handed to Gun.Shoot" % ("as full cross product" if thorough else "rotating"),
        "abstract_entries": len(ents), "bad_entries": sum(1 for e in ents if e["bad"] != "none"),
        "runs": len(doc["runs"]), "runs_rejected": rejected,
        "calls_received": recvs, "trace_lines": len(rows), "trace_spec_states": tstates,
        "negative_controls": WIRE_NEG, "corrupted_traces_rejected": corrupted, "design_configs": [j[1] for j in jobs[:1 + len(more_pass)]],
    }
    cov.update(conn)
    cov.update(jm)
    cov["evaluations"] += jm["jsonmap_evaluations"]
    return "model_checking", cov, [
        "connection part (GrpcConn.tla): client identities are not observable, connections are (grpc stats.Handler of the in-process target); "
        "after an outage every client may reconnect once; 'the target comes back' is judged by calls arriving again within 60 s",
        "exhaustive TLC bounds: files of <= 2 entries over 4 grpc/json and 3 scenario classes, <= %d instances%s" % (
            3 if thorough else 2, "; files of <= 3 entries with <= 2 instances" if thorough else ""),
        "values are compared as (constant prefix, token) pairs split at '~' by the recording target; a field written with its default value "
        "(\"\" / 0) must arrive as absent (proto3: the message equals the payload when exactly the non-default fields arrive)",
        "'within the configured timeout' is decided as 'per call': one run with timeout 1 s and 0.6 s + 0.6 s of think time between three fast "
        "calls (every step must reach the target and be 200); if a shot of that run took longer than think time + T/2 the machine is "
        "declared too slow (exit 2). Real-time length of the timeout itself is not measured",
        "reflect_port runs: reflection is served by a second server that also implements the service; a call it receives has no action",
        "a scenario stops at its first failed step (what the gun does; the statement only asks that OTHER entries are undisturbed)",
        "metadata: received = written on every key pandora controls; grpc's own entries (:authority, content-type, user-agent, grpc-*) are "
        "removed by the recording target",
        "trusted: renderers/projections in harness/cmd/vdrive/grpcwire.go and harness/internal/grpctarget"]


def replay(path, v):
    obj = json.load(open(path))
    b = vlib.harness_build()
    d = vlib.scratch()
    doc = {"entries": obj["entries"], "tail": obj["tail"], "runs": [obj["run"]]}
    rows = drive(b, doc, d, "replay")
    validate(v, rows, d, doc)
    return None
