"""C05 - run outcome and termination at every finish, failure and cancel point.

TLC design level : PoolRun.tla - implementation-shaped model of core/engine (Engine.Run's pool loop and runRes
                   channel, instancePool.Run, runAsync, startInstances, awaitRun with its four result sources,
                   onErrAwaited, checkAllInstancesAreFinished, onWaitDone / Engine.Wait, the four contexts, the
                   instance life cycle incl. recovered shot panic and gun Close) under a catalogue of fault plans
                   (CONSTANT of the spec).  Exhaustive safety (Outcome, Cause, GunsClosed, ... and TLC's deadlock
                   check = "nothing hangs"), liveness under fairness (Termination) and with only Engine.Run
                   scheduled (CancelPromptLive), + negative controls that must produce counterexamples (the two
                   shipped defects and two mutants).
M1 (code->spec)  : the fault-plan catalogue is printed by TLC; `vdrive poolrun` runs the REAL engine for every plan
                   R times with scripted mocks and seeded schedule jitter, recording mock events and the `verif`
                   hook events of core/engine; TracePoolRun.tla accepts a run only if it is a behaviour of
                   PoolRun.tla ending in "Run returned what the spec says, Wait returned, nothing still active".
                   A hang (watchdog 10 s >= 1000x the normal run time, confirmed twice) is the observation "never returned".
"""
import json
import os
import re
import time
from concurrent.futures import ThreadPoolExecutor

import vlib

PID = "C05"

MANIFEST = dict(
    category="model_checking",
    technique="TLA+ spec PoolRun (engine/pool/await-loop/instance state machine under a fault-plan catalogue) model-checked with TLC "
              "(safety exhaustively, liveness under fairness, negative controls) + TLC trace validation of real engine runs recorded "
              "through scripted mocks and verif hooks for every fault plan TLC prints, and of the engine runs made by pandora's own "
              "test binaries (hook file sink, most general environment)",
    design_ref="DESIGN.md §4 C05",
    text=("PoolRun.tla is an implementation-shaped model of core/engine/engine.go: Engine.Run's pool goroutines and 1-buffered runRes "
          "channel, instancePool.Run (warm-up, runAsync, final select, deferred cancel), startInstances (first instance synchronous, later "
          "ones asynchronous), awaitRun (four result sources, any ready case), onErrAwaited (two-way select), "
          "checkAllInstancesAreFinished, onWaitDone/Engine.Wait, the four nested contexts (every cancel a separate step), instance.Run incl. "
          "recovered shot panic and gun Close. Which component fails where is a fault plan from a catalogue that is a CONSTANT of the spec "
          "(provider before first ammo/mid-run/at the very end, aggregator at once/drop error on cancel, warm-up, gun factory call j, Bind of "
          "instance j, schedule factory (per instance / shared), shot panic, user cancel at any step, 1 or 2 pools; and which error VALUE the "
          "failing component returns: plain, wrapped, DeadlineExceeded / Canceled of its own context, the run ctx's own error late; a component call "
          "that does not return before Run has returned - gun factory / WarmUp / schedule factory / Bind / a shot - with the caller's cancel issued "
          "while the mock is inside). TLC checks Outcome, Cause, "
          "GunsClosed, WaitDoneOnce, no deadlock (= nothing hangs), Termination and CancelPrompt (liveness), and must find counterexamples in "
          "the variants that model the two shipped defects and two mutants. The same catalogue, printed by TLC, drives the REAL engine with "
          "scripted mocks and seeded schedule jitter; TracePoolRun.tla accepts a recorded run only if it is a behaviour of PoolRun.tla that "
          "ends with the observed Run result, Wait returned, no mock Run/Shoot active and no goroutine left. The engine runs of the repository's "
          "own tests (go test -tags verif ./core/engine, thorough: ./tests/acceptance; every leaf test in its own process, seeded jitter) are "
          "recorded by a tag-only file sink and validated by TracePoolRunHooks.tla, which re-uses the same engine actions with the most general "
          "environment in place of the scripted components. Engine.tla (2-3 pools by contract) also has plans whose pools SHARE an id "
          "(copy-pasted id / explicit id equal to a generated default): Run must still wait for every pool; the id-keyed hook lines of "
          "those runs are attributed existentially by TraceEngine.tla, negative control: a pending SET of ids. This is the right level: the "
          "property quantifies over fault positions and over the orders in which the await loop sees its results, which is what a model "
          "checker enumerates and what hand-ordered unit tests cannot."),
    note=("Bounds: <= 2 instances (3 in the thorough tier and for repository-test traces), <= 2 tokens, <= 3 ammo, one fault per pool + one cancel, "
          "<= 2 pools (3 in Engine.tla); repository-test traces: hook events only, prefix-closed safety; quick tier explores the no-cancel "
          "plans exhaustively, thorough adds cancel-at-any-step plans and two pools; liveness on representative plan subsets. Real-run "
          "termination is observed with a watchdog (10 s, confirmed twice). Not decided: a user cancel racing with the very end of a run "
          "may still hide a late component error (stated exemption cancelAtRet); providers that never honour cancel. Trusted: mocks/recorder, "
          "hook placement (each cancelling step logged before cancel()), TLC."),
)

NEGATIVE = [  # (cfg, expected kind, expected name)
    ("PoolRun_neg_nowaitdone.cfg", "deadlock", ""),            # shipped: runAsync failure without onWaitDone => Wait hangs
    ("PoolRun_neg_nowaitdone_live.cfg", "temporal", ""),       # the same as a liveness counterexample
    ("PoolRun_neg_suppress.cfg", "invariant", "Outcome"),      # shipped: onErrAwaited gives up on the run ctx
    ("PoolRun_neg_noclose.cfg", "invariant", "GunsClosed"),
    ("PoolRun_neg_panicnil.cfg", "invariant", "Outcome"),
    ("PoolRun_neg_isctx.cfg", "invariant", "Outcome"),
    ("PoolRun_neg_callerctx.cfg", "invariant", "StopAfterReturn"),  # pools run on the caller's ctx: Run's deferred cancel misses them
    ("PoolRun_neg_callerctx_live.cfg", "temporal", ""),             # ... and a healthy long pool never stops, Wait never returns
    ("PoolRun_neg_noengselect.cfg", "invariant", "CancelPrompt"),   # Engine.Run without its own `case <-ctx.Done()`: stuck behind a blocked warm-up (seeded C05-7)
    ("PoolRun_neg_noengselect_live.cfg", "temporal", ""),           # ... as a liveness counterexample (only Engine.Run fair)
]


def fix_temporal(r):
    """vlib's parser knows 'Temporal properties were violated'; this TLC prints 'Temporal property X was violated'
    (additive helper kept here because lib/vlib.py is shared)."""
    m = re.search(r"Temporal property (\S+) was violated", r.out)
    if m and r.kind in ("tlc-error", ""):
        r.error, r.violation, r.kind, r.what = False, True, "temporal", m.group(1)
    vlib.log("tlc %s: %d states, %.0fs" % (r.cfg if hasattr(r, "cfg") else "", r.distinct, r.wall))
    return r


def parse_plans(r):
    out = []
    for ln in r.out.splitlines():
        if ln.startswith('<<"VERIF", "'):
            out.append(json.loads(json.loads(ln[len('<<"VERIF", '):-2])))
    out.sort(key=lambda p: p["id"])
    return out


def plan_sig(pl):
    return "fault=%s errvalue=%s shape=%s pools=%d cancel=%s" % ("/".join(p["fault"] for p in pl["pools"]),
                                                                 "/".join(p.get("ek", "plain") for p in pl["pools"]),
                                                     "/".join(p["shape"] for p in pl["pools"]),
                                                     len(pl["pools"]), str(pl["cancel"]).lower()) + (
        " poolids=%s" % pl["dupid"] if pl.get("dupid", "none") != "none" else "")


def compact(ev):
    d = {"ev": ev["ev"]}
    for k in ("p", "n", "cls", "c", "flag", "ms", "seq"):
        if ev.get(k) not in ("", 0, False, None):
            d[k] = ev[k]
    return d


def validate(v, rows, plans, d, workers=None, report=True, module="TracePoolRun", cfg=None):
    """TLC decides which recorded runs are behaviours of PoolRun.tla. Returns (#accepted, #runs, states, rejected)."""
    byrun = {}
    for r_ in rows:
        byrun.setdefault(r_["run"], []).append(r_)
    path = os.path.join(d, "%s_%d.ndjson" % (module, len(rows)))
    # the lines of a run are contiguous for the trace spec (a run abandoned after a confirmed hang may still write lines later)
    vlib.write_ndjson(path, [e for k in sorted(byrun) for e in byrun[k]])
    tr = vlib.tlc(module, (cfg or module) + ".cfg", env={"VERIF_TRACE": path}, workers=workers, deadlock=False,
                  timeout=2400, heap="8g")
    if tr.error:
        raise vlib.MachineryError("%s failed: %s\n%s" % (module, tr.kind, tr.out[-3000:]))
    if tr.violation:
        # an invariant of the design module failing on a state reached by following a recorded run
        raise vlib.MachineryError("TracePoolRun: %s %s on a trace state (the design run should have found it)\n%s"
                                  % (tr.kind, tr.what, tr.out[-3000:]))
    acc = {int(m.group(1)) for m in re.finditer(r'<<"VERIF-ACC", (\d+)>>', tr.out)}
    rejected = sorted(k for k in byrun if k not in acc)
    if rejected and report:
        diagnose(v, rejected, byrun, plans, d, module, cfg)
    return len(byrun) - len(rejected), len(byrun), tr.distinct, rejected


def diagnose(v, rejected, byrun, plans, d, module="TracePoolRun", cfg=None):
    """Where does the specification stop following each rejected run?  (single worker, progress printed)"""
    pl_by_id = {p["id"]: p for p in plans}
    # one representative per plan, at most 12 diagnosed in detail
    seen, pick = set(), []
    for k in rejected:
        pid_ = byrun[k][0]["plan"]
        if pid_ not in seen:
            seen.add(pid_)
            pick.append(k)
    pick = pick[:12]
    rows = [e for k in pick for e in byrun[k]]
    path = os.path.join(d, module + "_diag.ndjson")
    vlib.write_ndjson(path, rows)
    tr = vlib.tlc(module, (cfg or module) + "_diag.cfg", env={"VERIF_TRACE": path}, workers=1, deadlock=False,
                  timeout=1200, heap="4g")
    if tr.error:
        raise vlib.MachineryError("TracePoolRun (diagnosis) failed: %s\n%s" % (tr.kind, tr.out[-3000:]))
    hw = {}
    for m in re.finditer(r'<<"VERIF-HW", (\d+), (\d+)>>', tr.out):
        hw[int(m.group(1))] = max(hw.get(int(m.group(1)), 0), int(m.group(2)))
    first = {}
    for i, e in enumerate(rows):
        first.setdefault(e["run"], i + 1)          # 1-based line of the run's Plan line
    nrej = {}
    for k in rejected:
        nrej[byrun[k][0]["plan"]] = nrej.get(byrun[k][0]["plan"], 0) + 1
    for k in pick:
        evs = byrun[k]
        pl = pl_by_id[evs[0]["plan"]]
        last_ok = hw.get(k, first[k])              # last consumed line (global index in diag file)
        idx = last_ok - first[k] + 1               # index in evs of the first line the spec cannot take
        stuck = evs[idx] if idx < len(evs) else {"ev": "EOF", "cls": ""}
        hang = next((e["ev"] for e in evs if e["ev"] in ("WaitHang", "RunHang")), None)
        ret = next((e for e in evs if e["ev"] == "RunReturn"), None)
        sig = "%s%s rejected_at=%s:%s%s" % ("engine " if module == "TraceEngine" else "", plan_sig(pl), stuck["ev"],
                                            stuck.get("cls", ""), (" hang=" + hang) if hang else "")
        what = ("real engine run under fault plan %d (%s) is not a behaviour of %s: the specification cannot take "
                "event #%d %s; Run returned %s%s; %d of the recorded runs of this plan rejected"
                % (pl["id"], plan_sig(pl), "Engine.tla" if module == "TraceEngine" else "PoolRun.tla", idx, compact(stuck),
                   (ret["cls"] + (":" + ret["c"] if ret["c"] else "")) if ret else "never",
                   ("; " + hang + " (Engine.Wait/Run never returned within the watchdog, confirmed twice)") if hang else "",
                   nrej[pl["id"]]))
        v.violation(sig, what, replay_obj={"kind": "trace", "module": module, "cfg": cfg, "plan": pl, "events": evs, "rejected_at": idx},
                    replay_name="plan%d_run%d.json" % (pl["id"], k))


def binding_selftest(v, rows, plans, d):
    """Teeth of the binding: recorded runs with one line dropped / one field changed must be rejected."""
    byrun = {}
    for r_ in rows:
        byrun.setdefault(r_["run"], []).append(r_)
    src = next((evs for evs in byrun.values() if any(e["ev"] == "ErrForwarded" for e in evs)
                and any(e["ev"] == "Close" for e in evs)), None)
    if src is None:
        raise vlib.MachineryError("binding self-test: no run with a forwarded error recorded")
    variants = []

    def variant(f):
        evs = [dict(e, run=900000 + len(variants)) for e in src]
        variants.append(f(evs))

    variant(lambda evs: [e for e in evs if e["ev"] != "ErrForwarded"])                       # hook event dropped
    variant(lambda evs: [dict(e, cls="nil", c="", p=0) if e["ev"] == "RunReturn" else e for e in evs])  # success claimed
    variant(lambda evs: [e for e in evs if e["ev"] != "WaitDone"])                           # onWaitDone not seen
    variant(lambda evs: [e for i, e in enumerate(evs) if not (e["ev"] == "Close" and
                                                            i == min(j for j, x in enumerate(evs) if x["ev"] == "Close"))])
    variant(lambda evs: [dict(e, n=1) if e["ev"] == "End" else e for e in evs])              # a mock Run still active
    flat = [e for evs in variants for e in evs]
    acc, n, _, rej = validate(v, flat, plans, os.path.join(d), workers=1, report=False)
    if acc != 0:
        raise vlib.MachineryError("binding self-test: %d of %d corrupted traces were accepted by TracePoolRun" % (acc, n))
    return n


def run(tier, v):
    thorough = tier == "thorough"
    vlib.spec_copy()
    ncpu = vlib.NCPU
    t0 = time.time()
    # ---- 1. design level; TLC also prints the fault-plan catalogue --------------------------------
    main_cfg = "PoolRun_thorough.cfg" if thorough else "PoolRun_quick.cfg"
    pool = ThreadPoolExecutor(max_workers=8)
    f_main = pool.submit(vlib.tlc, "PoolRunPlans", main_cfg, None, max(4, ncpu // 2), 3000, heap="16g" if thorough else "6g")
    f_build = pool.submit(vlib.harness_build)

    def side(part):
        res = []
        # the liveness twins of two safety negative controls only in the thorough tier
        negs_ = [n for n in NEGATIVE if thorough or not n[0].endswith("_live.cfg")]
        for cfg, kind, what in negs_[part::2]:
            r = fix_temporal(vlib.tlc("PoolRunMC", cfg, workers=1, timeout=600))
            vlib.log("   (%s)" % cfg)
            vlib.tlc_must_fail(r, cfg)
            if r.kind != kind or (what and r.what != what):
                raise vlib.MachineryError("negative control %s failed with %s %s, expected %s %s" % (cfg, r.kind, r.what, kind, what))
            res.append(r)
        return res

    def live():
        res = []
        cfgs = ["PoolRun_live.cfg", "PoolRun_livec.cfg", "PoolRun_prompt.cfg", "PoolRun_exh2q.cfg", "PoolRun_long.cfg",
                "PoolRun_livelong.cfg", "PoolRun_block.cfg", "PoolRun_liveblock.cfg"] if thorough else \
            ["PoolRun_liveq.cfg", "PoolRun_promptq.cfg", "PoolRun_longq.cfg", "PoolRun_blockq.cfg"]
        for cfg in cfgs:
            r = fix_temporal(vlib.tlc("PoolRunMC", cfg, workers=max(2, ncpu // 4), timeout=3000,
                                      deadlock=cfg.startswith(("PoolRun_exh", "PoolRun_long", "PoolRun_block")), heap="12g" if thorough else "4g"))
            vlib.log("   (%s)" % cfg)
            vlib.tlc_must_pass(r, cfg)
            res.append((cfg, r))
        return res

    import c05_engine
    import c05_repo
    f_eng = pool.submit(c05_engine.design, thorough, fix_temporal)
    # the repository's OWN tests, recorded through the hook file sink, validated by TracePoolRunHooks.tla (see c05_repo.py)
    f_repo = pool.submit(c05_repo.bind, tier, v)
    def three():
        """growth: three instances with a startup schedule (MaxN = 3), thorough tier only"""
        r3 = fix_temporal(vlib.tlc("PoolRunPlans", "PoolRun_n3.cfg", workers=max(4, ncpu // 2), timeout=3000, heap="12g"))
        vlib.log("   (PoolRun_n3.cfg)")
        vlib.tlc_must_pass(r3, "PoolRun_n3.cfg")
        rn = fix_temporal(vlib.tlc("PoolRunMC", "PoolRun_neg_n3_suppress.cfg", workers=2, timeout=900))
        vlib.tlc_must_fail(rn, "PoolRun_neg_n3_suppress.cfg")
        if rn.what != "Outcome":
            raise vlib.MachineryError("negative control PoolRun_neg_n3_suppress failed with %s %s" % (rn.kind, rn.what))
        return r3, parse_plans(r3)

    f_three = pool.submit(three) if thorough else None
    f_side = pool.submit(side, 0)
    f_side2 = pool.submit(side, 1)
    f_live = pool.submit(live)
    rmain = fix_temporal(f_main.result())
    vlib.log("   (%s)" % main_cfg)
    vlib.tlc_must_pass(rmain, main_cfg)
    plans = parse_plans(rmain)
    if len(plans) < 100:
        raise vlib.MachineryError("only %d fault plans exported by TLC" % len(plans))
    b = f_build.result()
    negs = f_side.result() + f_side2.result()
    lives = f_live.result()
    states = rmain.distinct + sum(r.distinct for _, r in lives)
    trans = rmain.generated + sum(r.generated for _, r in lives)
    vlib.log("design level: %d states, %.0fs" % (states, time.time() - t0))
    # ---- 2. M1: the real engine under every plan ---------------------------------------------------
    d = vlib.scratch()
    pf = os.path.join(d, "plans.ndjson")
    # quick tier: every one-pool plan, and every eighth (fault, pool) pair of the two-pool plans, with and without cancel (which half depends on the seed), every long-pool plan
    drive = plans if thorough else [pl for pl in plans if len(pl["pools"]) == 1 or pl["id"] >= 5000 or ((pl["id"] - 1) // 2 + vlib.seed()) % 8 == 0]
    vlib.write_ndjson(pf, drive)
    out = os.path.join(d, "runs.ndjson")
    args = ["poolrun", "-plans", pf, "-out", out]
    args += ["-runs", "30", "-runs2", "10", "-sweep", "2"] if thorough else ["-runs", "5", "-runs2", "1"]
    p = vlib.run_driver(b, args, timeout=3000)
    stats = json.loads(p.stdout.strip().splitlines()[-1])
    rows = vlib.read_ndjson(out)
    eng = f_eng.result()
    f_engbind = pool.submit(c05_engine.bind, thorough, v, b, d, eng, validate)
    accepted, nruns, tstates, rejected = validate(v, rows, plans, d, workers=ncpu)
    engb = f_engbind.result()
    three_cov = {}
    if thorough:
        r3, plans3 = f_three.result()
        pf3, out3 = os.path.join(d, "plans3.ndjson"), os.path.join(d, "runs3.ndjson")
        vlib.write_ndjson(pf3, plans3)
        vlib.run_driver(b, ["poolrun", "-plans", pf3, "-out", out3, "-runs", "40"], timeout=3000)
        rows3 = vlib.read_ndjson(out3)
        acc3, n3, ts3, rej3 = validate(v, rows3, plans3, d, workers=ncpu, cfg="TracePoolRun3")
        three_cov = {"three_instances_states": r3.distinct, "three_instances_transitions": r3.generated,
                     "three_instances_plans": len(plans3), "three_instances_runs": n3,
                     "three_instances_traces_validated": acc3, "three_instances_trace_validation_states": ts3}
    corrupted = 0
    if thorough and not rejected:
        corrupted = binding_selftest(v, rows, plans, d)
    byplan = {}
    for r_ in rows:
        if r_["ev"] == "Plan":
            byplan[r_["plan"]] = byplan.get(r_["plan"], 0) + 1
    # samples: one clean run, one faulty, written out
    samples = []
    pl_by_id = {pl["id"]: pl for pl in plans}
    want = {1, next((pl["id"] for pl in plans if pl["pools"][0]["fault"] == "agg-drop-on-cancel"), 1)}
    cur = None
    for r_ in rows:
        if r_["ev"] == "Plan":
            cur = None
            if r_["plan"] in want:
                want.discard(r_["plan"])
                cur = {"plan": plan_sig(pl_by_id[r_["plan"]]), "events": []}
                samples.append(cur)
        elif cur is not None:
            e = compact(r_)
            cur["events"].append(" ".join([e.pop("ev")] + ["%s=%s" % (k, e[k]) for k in sorted(e)]))
    outcomes = {}
    for r_ in rows:
        if r_["ev"] == "RunReturn":
            k = r_["cls"] + (":" + r_["c"] if r_["c"] else "")
            outcomes[k] = outcomes.get(k, 0) + 1
    cov = {
        "states": states, "transitions": trans,
        "traces_validated_against_impl": accepted,
        "samples": samples,
        "fault_plans": len(plans), "plans_run": len(byplan), "engine_runs": nruns, "rejected_runs": len(rejected),
        "hangs": stats["hangs"], "trace_events": len(rows), "trace_validation_states": tstates,
        "run_outcomes": outcomes, "corrupted_traces_rejected": corrupted,
        "design_configs": [main_cfg] + [c for c, _ in lives],
        "negative_controls": [c for c, _, _ in NEGATIVE],
        "exhaustive": False,
        "engine_module": dict(eng["coverage"], **engb),
        "three_instances": three_cov,
    }
    if thorough:
        cov["states"] += three_cov["three_instances_states"]
        cov["transitions"] += three_cov["three_instances_transitions"]
        cov["traces_validated_against_impl"] += three_cov["three_instances_traces_validated"]
    repo_cov = f_repo.result()
    cov["repo_tests"] = repo_cov
    cov["repo_test_traces"] = repo_cov["repo_test_traces"]
    cov["traces_validated_against_impl"] += repo_cov["repo_test_traces_validated"]
    cov["states"] += eng["states"]
    cov["transitions"] += eng["transitions"]
    cov["traces_validated_against_impl"] += engb["engine_traces_validated"]
    pool.shutdown()
    return "model_checking", cov, [
        "design bounds: <= 2 instances, <= 2 schedule tokens, <= 3 ammo, one fault per pool + one user cancel, 1 or 2 pools; "
        "quick tier explores the no-cancel plans exhaustively, the thorough tier every plan incl. cancel at every step and 2 pools",
        "liveness (Termination, CancelPromptLive) is model-checked on the design under weak fairness of every goroutine; on real runs "
        "it is observed with a watchdog (10 s, confirmed twice; a normal run takes milliseconds)",
        "Outcome under a user cancel racing with the very end of the run: Run may return nil although a late component error was "
        "suppressed after the cancel (the spec states this exemption explicitly: cancelAtRet)",
        "trusted: the scripted mocks and recorder (harness/cmd/vdrive/poolrun.go), the placement of the verif hooks in core/engine "
        "(each cancelling step is logged before its cancel() call), TLC",
        "repository's own tests (go test -tags verif, hook file sink): hook events only, the tests' components are the most general "
        "environment of PoolRun.tla; acceptance is prefix-closed safety (a test process may end before its background goroutines); "
        "which tests can cancel the caller's context is a reviewed list (checks/c05_repo.py, unknown tests: may cancel); a failing "
        "repository test is noted, never a verdict",
    ]


def replay(path, v):
    obj = json.load(open(path))
    if obj.get("kind") == "repo-trace":
        import c05_repo
        vlib.spec_copy()
        c05_repo.replay(obj, v)
        return None
    d = vlib.scratch()
    evs = obj["events"]
    acc, n, _, rej = validate(v, evs, [obj["plan"]], d, workers=1, module=obj.get("module", "TracePoolRun"), cfg=obj.get("cfg"))
    return None
