"""C06 — result completeness: every reported sample is written once, well-formed, flushed.

TLC design level : Aggregator.tla (K reporters, bounded queue, blocking / dropping Report, the Run loop
                   as coded: dequeue-encode, tick-flush, cancel -> drain until empty -> final flush ->
                   close -> return the drop error) exhaustively, + negative controls nodrain / noflush /
                   nocount / late;  Shutdown.tla (main / Engine.Run / pool.Run / await goroutine /
                   instances / aggregator / Exit, signal at every position) exhaustively with the fix,
                   + negative control nowait (= the code as found) that must violate ExitComplete.
M2 (spec->code)  : PhoutCases.tla enumerates the abstract case space of the phout line format with the
                   expected columns computed by TLC (PhoutLine); `vdrive aggcases` renders each case
                   through the real phout aggregator; expected == observed columns.
M1 (code->spec)  : `vdrive agg` drives the real phout / jsonlines / log / discard / test aggregators (made by their
                   constructors or by config.Decode through the registered factories, on recording - and
                   fault-injecting - sinks) with K goroutines / queue sizes / flush intervals / seeded cancel, and
                   full engine runs with mock guns; TraceAggregator.tla checks every recorded step.
Process level    : `vdrive aggsig` stops real pandora processes (vpandora = real cli.Run + counting
                   wrapper) with SIGINT / SIGTERM (once, twice, during start-up, with a blocked or crawling sink)
                   or SIGHUP / SIGQUIT at seeded instants, or lets them write to /dev/full; TraceShutdown.tla
                   checks the final predicates of Shutdown.tla on what was left on disk.
"""
import concurrent.futures
import json
import os
import re
import shutil
import subprocess
import time
import vlib

PID = "C06"

MANIFEST = dict(
    category="model_checking",
    technique="explicit TLA+ models of the aggregator Run loop (every shipped kind, working and failing sinks) and of the "
              "CLI shutdown checked exhaustively with TLC (with negative controls), bound to the code by trace validation "
              "of real aggregator executions (made by constructors and through the registered plugin factories) and of "
              "real pandora processes stopped by signals, and by replaying the TLC-enumerated phout format case space "
              "through the real aggregator",
    design_ref="DESIGN.md §4 C06",
    text="Aggregator.tla models reporters, the bounded queue (Mode: blocking phout/log, dropping encoder aggregators, "
         "discard, in-memory test) and the Run loop statement by statement; TLC proves within K=2x2 (3x2 thorough), Q in "
         "{1,2} that at Run return the sink holds a permutation of the non-dropped reports, lines + drops = reports, "
         "flushed and closed, at every cancel position after the last report; with a sink that may fail (write error, "
         "partial write, short count, failing Close) NoSilentLoss: the run returns the error, a run without error is "
         "complete. Shutdown.tla composes main/engine/pool/await/instances/aggregator/Exit with signals at every "
         "position (before signal.Notify, first, second, untrapped), the interrupt / tasks timers, slow or blocking sinks "
         "and instances parked in a blocking Report: an exit may lack data ONLY after one of four forced causes "
         "(ExitComplete with the exact Exempt set), every exit invents nothing, a stopped process ends (liveness); of "
         "those a timer excuses missing data only when the sink blocks: with shots that hang past the interrupt timeout "
         "the aggregator - stopped by the run cancel itself, not by the end of the instances - has flushed and closed "
         "(TimeoutExitFlushed; bound by engine runs whose guns do not come back and by processes whose target stops "
         "answering before SIGTERM). The "
         "real code answers to the same operators (spec/Phout.tla): every line the real aggregators hand to their sink "
         "must be PhoutLine(s) / decode to s of a not yet written report (tags with TAB/LF/CR as TagText says), the "
         "counts must add up at Run return, a failing recording sink must make Run fail, and real processes stopped by "
         "SIGINT/SIGTERM (one, two, during start-up, under back-pressure, with the grpc gun, with pools of different "
         "kinds) or SIGHUP/SIGQUIT, or writing to /dev/full, must satisfy the final predicates. "
         "Beyond the statement: PoolAgg.tla composes the engine's await loop with the aggregator (the aggregator is "
         "cancelled only after every instance result was awaited; exactly which late reports a provider failure or "
         "user cancel may lose), validated on real engine runs whose life-cycle hooks are merged into the "
         "report/line trace (TracePoolAgg.tla); Sink.tla / TraceSink.tla: result files are created/truncated, never "
         "appended, closed once (two pools with ONE file name tear and lose lines: known finding).",
    note="Bounds: design K<=3 reporters x 2 samples, Q<=2; conformance K in 1..8, queue 1..64, flush 0 / 1 ms..1 s / 1 h, "
         "buffer-size 0 / 1 / 4 KiB / 100 KB, int32 field values, timestamps 2001..2038. Trusted: the syntactic line "
         "splitter and the recording / fault-injecting sinks of harness/cmd/vdrive/agg*.go, the counting wrapper of "
         "vpandora. Fixed while building this check: SIGINT/SIGTERM exit without Engine.Wait(); swallowed final-flush / "
         "close errors of phout and of the jsonlines encoder; TAB/LF/CR of a tag tearing the phout line. Not decided: "
         "reports made after the stop by shots still in flight (core.Aggregator documents that they may be lost) are "
         "bounded, not required; forced exits (second signal, a timer, SIGHUP/SIGQUIT, a signal before signal.Notify) "
         "are exempt by design and only bounded; the µs window before signal.Notify could not be hit on the real binary.",
)


ENGINE_MODES = ("engine", "cancel", "provfail", "staged", "hang")

# ------------------------------------------------------------------------------------------ build

_bins = None


def build():
    """vdrive and vpandora from one scratch copy of the harness (vlib.harness_build only builds vdrive)."""
    global _bins
    if _bins:
        return _bins
    d = vlib.scratch("verif-h6-")
    src = os.path.join(d, "harness")
    shutil.copytree(vlib.HARNESS, src, ignore=shutil.ignore_patterns("go.mod", "go.sum"))
    vlib.gen_gomod(src)
    outs = {}
    t0 = time.time()
    # one go invocation for both commands: one action graph, shared packages compiled once
    bindir = os.path.join(d, "bin")
    os.makedirs(bindir)
    p = subprocess.run(["go", "build", "-tags", "verif", "-o", bindir + os.sep, "./cmd/vdrive", "./cmd/vpandora"], cwd=src, env=vlib.go_env(),
                       stdout=subprocess.PIPE, stderr=subprocess.STDOUT, text=True, timeout=1800)
    if p.returncode != 0:
        raise vlib.MachineryError("build of vdrive / vpandora failed\n%s" % p.stdout[-6000:])
    for name in ("vdrive", "vpandora"):
        outs[name] = os.path.join(bindir, name)
        if not os.path.exists(outs[name]):
            raise vlib.MachineryError("go build did not produce %s" % name)
    vlib.log("vdrive + vpandora built in %.1fs" % (time.time() - t0))
    _bins = (outs["vdrive"], outs["vpandora"])
    return _bins


# ------------------------------------------------------------------------------------------ design level

# design-level TLC runs: (module, config, in the quick tier too).  Every JVM start costs 1-2 s on the idle machine and
# 10-20 s at load average > 100, so the quick tier runs a representative slice (one exhaustive config and one negative
# control per mechanism), the thorough tier all of them.
POS = [
    ("AggregatorMC", "Aggregator_exh.cfg", True), ("AggregatorMC", "Aggregator_exh_block.cfg", True),
    ("AggregatorMC", "Aggregator_exh_q2.cfg", False), ("AggregatorMC", "Aggregator_exh_block_q2.cfg", False),
    ("AggregatorMC", "Aggregator_exh_discard.cfg", True), ("AggregatorMC", "Aggregator_exh_memory.cfg", False),
    # a sink that fails (write error, partial write, short count, close error): the run FAILS, nothing is lost
    # silently - phout as fixed (the periodic flush ignores the error, the writer keeps it), encoder aggregators
    ("AggregatorMC", "Aggregator_exh_fault_block.cfg", True), ("AggregatorMC", "Aggregator_exh_fault_drop.cfg", True),
    ("AggregatorMC", "Aggregator_exh_fault_drop_q2.cfg", False), ("AggregatorMC", "Aggregator_exh_big.cfg", False),
    # CLI shutdown: signal before signal.Notify, untrapped signals, second signal, the timers, slow / blocking
    # sink (back-pressure), instances parked in a blocking Report: _slow_small = 2x1 with two-step writes,
    # _fast = 2x2 with an instantaneous sink, the others 2x2 / 3x2 with two-step writes
    ("ShutdownMC", "Shutdown_exh_slow_small.cfg", True), ("ShutdownMC", "Shutdown_exh_drop_slow_small.cfg", True),
    ("ShutdownMC", "Shutdown_exh_fast.cfg", True), ("ShutdownMC", "Shutdown_exh_drop_fast.cfg", False),
    ("ShutdownMC", "Shutdown_exh.cfg", False), ("ShutdownMC", "Shutdown_exh_drop.cfg", False),
    ("ShutdownMC", "Shutdown_exh_q2.cfg", False), ("ShutdownMC", "Shutdown_exh_big.cfg", False),
    # once told to stop the process ends: thanks to the timers also with a sink that blocks for ever or an
    # instance parked for ever in phout's Report; jsonlines on a working sink needs no timer
    ("ShutdownMC", "Shutdown_live.cfg", False), ("ShutdownMC", "Shutdown_live_drop.cfg", False),
    ("ShutdownMC", "Shutdown_live_drop_fastsink_notimeout.cfg", False),
    # a shot that hangs (Hangs) + timers that are long against everything the program does by itself (PatientTimers):
    # a TIMER exit with a working sink still leaves everything reported before the stop flushed and closed
    # (TimeoutExitFlushed) - the aggregator is stopped by the run cancel, it does not wait for the instances
    ("ShutdownMC", "Shutdown_exh_hang.cfg", True), ("ShutdownMC", "Shutdown_exh_hang_drop.cfg", False),
    ("ShutdownMC", "Shutdown_exh_hang_slow_small.cfg", False),
    # engine await loop composed with the aggregator (PoolAgg.tla)
    ("PoolAggMC", "PoolAgg_exh_nofault.cfg", True), ("PoolAggMC", "PoolAgg_exh_small.cfg", True),
    ("PoolAggMC", "PoolAgg_exh_schedend.cfg", False),
    ("PoolAggMC", "PoolAgg_exh.cfg", False), ("PoolAggMC", "PoolAgg_exh_block.cfg", False),
    ("PoolAggMC", "PoolAgg_exh_small2.cfg", False), ("PoolAggMC", "PoolAgg_live_nofault.cfg", False),
    ("PoolAggMC", "PoolAgg_live.cfg", False), ("PoolAggMC", "PoolAgg_exh_big.cfg", False),
    # result destinations (Sink.tla): own files as coded; what a repair of the shared file must establish
    ("SinkMC", "Sink_exh.cfg", True), ("SinkMC", "Sink_repair.cfg", False),
]
NEG = [
    ("AggregatorMC", "Aggregator_neg_nodrain.cfg", True), ("AggregatorMC", "Aggregator_neg_noflush.cfg", True),
    ("AggregatorMC", "Aggregator_neg_nocount.cfg", True), ("AggregatorMC", "Aggregator_neg_late.cfg", False),
    # the code as found: phout dropped the error of its final flush / of Close, jsonEncoder.Flush bufio's error
    ("AggregatorMC", "Aggregator_neg_swallow_final.cfg", True), ("AggregatorMC", "Aggregator_neg_swallow_close.cfg", True),
    ("AggregatorMC", "Aggregator_neg_swallow_tick.cfg", True), ("AggregatorMC", "Aggregator_neg_memory_reach.cfg", False),
    # the flush tick consumes the drop counter (seed C06-9)
    ("AggregatorMC", "Aggregator_neg_tickresets.cfg", False),
    # a drop that is not counted breaks the drop count of failed runs too (FailedRunStillCounts is not vacuous)
    ("AggregatorMC", "Aggregator_neg_nocount_fault.cfg", False),
    ("ShutdownMC", "Shutdown_neg_nowait.cfg", True), ("ShutdownMC", "Shutdown_neg_reach.cfg", False),
    # a first signal while the tasks of a FAILED run are awaited ends the process (seed C06-6)
    ("ShutdownMC", "Shutdown_neg_errsig.cfg", True),
    # the aggregator on a context of its own that ends only when every instance was awaited (seed C06-12): a hung shot
    # + the interrupt timeout = exit with the reports still in memory
    ("ShutdownMC", "Shutdown_neg_aggwaits.cfg", True), ("ShutdownMC", "Shutdown_neg_aggwaits_drop.cfg", False),
    ("ShutdownMC", "Shutdown_neg_hangreach.cfg", False),
    # every exempt cause of a forced exit really loses data (the list in ExitComplete is minimal) ...
    ("ShutdownMC", "Shutdown_neg_early.cfg", True), ("ShutdownMC", "Shutdown_neg_untrapped.cfg", True),
    ("ShutdownMC", "Shutdown_neg_second.cfg", True), ("ShutdownMC", "Shutdown_neg_timeout.cfg", True),
    # ... an unforced complete exit of a run whose instance was parked by back-pressure at the signal is reachable
    ("ShutdownMC", "Shutdown_neg_bpreach.cfg", False),
    # without the timers a stopped process may never end (instance parked for ever in a blocking Report; a sink
    # that blocks for ever)
    ("ShutdownMC", "Shutdown_neg_live_notimeout.cfg", True), ("ShutdownMC", "Shutdown_neg_live_notimeout_slow.cfg", False),
    ("PoolAggMC", "PoolAgg_neg_early.cfg", True),
    # out of ammo during the start-up calls runCancel() instead of instanceStartCancel() (seed C06-8)
    ("PoolAggMC", "PoolAgg_neg_ooa.cfg", True), ("PoolAggMC", "PoolAgg_neg_ooa_start.cfg", False),
    ("PoolAggMC", "PoolAgg_neg_reach.cfg", False), ("PoolAggMC", "PoolAgg_neg_early_complete.cfg", False),
    ("PoolAggMC", "PoolAgg_neg_ooa_complete.cfg", False),
    ("SinkMC", "Sink_neg_samefile.cfg", True), ("SinkMC", "Sink_neg_append_midline.cfg", False), ("SinkMC", "Sink_neg_latetrunc.cfg", False),
]


# millions of states: more workers, started first
BIG = ("Shutdown_exh_big.cfg", "PoolAgg_exh_big.cfg", "PoolAgg_exh.cfg", "PoolAgg_exh_block.cfg", "PoolAgg_live.cfg",
       "PoolAgg_neg_ooa_complete.cfg")


def design(thorough):
    pos = [(m, c) for m, c, q in POS if q or thorough]
    neg = [(m, c) for m, c, q in NEG if q or thorough]
    vlib.spec_copy()

    def one(mc):
        big = mc[1] in BIG
        r = vlib.tlc(mc[0], mc[1], workers=6 if big else 2, heap="6g" if big else "3g", timeout=3000, deadlock=False)
        # vlib's parser knows 'Temporal properties were violated'; this TLC prints 'Temporal property X was violated'
        # (additive helper kept here because lib/vlib.py is shared)
        m = re.search(r"Temporal property (\S+) was violated", r.out)
        if m and r.kind in ("tlc-error", ""):
            r.error, r.violation, r.kind, r.what = False, True, "temporal", m.group(1)
        return mc, r

    states = trans = 0
    per = {}
    # the long ones first
    order = sorted(pos + neg, key=lambda mc: (0 if mc[1] in BIG else 1 if mc[1].startswith(("Shutdown_exh", "PoolAgg_exh", "Shutdown_live", "PoolAgg_live")) else 2))
    with concurrent.futures.ThreadPoolExecutor(max_workers=6) as ex:
        for (mod, cfg), r in ex.map(one, order):
            if (mod, cfg) in pos:
                vlib.tlc_must_pass(r, cfg)
                states += r.distinct
                trans += r.generated
            else:
                vlib.tlc_must_fail(r, cfg)
            per[cfg] = {"distinct": r.distinct, "generated": r.generated, "wall_s": round(r.wall, 1),
                        "violated": r.what if r.violation else None}
    if thorough:
        # every action of the design modules must have fired (an action that never fires is a modelling hole)
        # (module, config, actions that cannot fire under that config's constants)
        for mod, cfg, na in (("AggregatorMC", "Aggregator_exh.cfg", ()), ("AggregatorMC", "Aggregator_exh_fault_block.cfg", ()),
                             # (Hangs: a shot that never comes back exists only under Hang = TRUE - Shutdown_exh_hang*.cfg)
                             ("ShutdownMC", "Shutdown_exh_drop_slow_small.cfg", ("ReportBlocks", "Unblock", "Hangs")),
                             ("ShutdownMC", "Shutdown_exh_slow_small.cfg", ("Hangs",)),
                             # ... and there it must fire (untrapped signals are not part of that configuration)
                             ("ShutdownMC", "Shutdown_exh_hang_slow_small.cfg", ("UntrappedSignal",)),
                             ("PoolAggMC", "PoolAgg_exh_small2.cfg", ())):
            r = vlib.tlc(mod, cfg, workers=4, heap="4g", timeout=3000, deadlock=False, coverage=True)
            vlib.tlc_must_pass(r, cfg + " (coverage)")
            acts = re.findall(r"^<(\w+) line \d+, col \d+ to line \d+, col \d+ of module \w+>: (\d+):(\d+)", r.out, re.M)
            dead = sorted({a for a, dist, gen in acts if int(gen) == 0 and a not in na})
            if not acts or dead:
                raise vlib.MachineryError("%s: actions never taken: %s" % (cfg, dead or "no coverage output"))
            per[cfg + " coverage"] = {a: int(gen) for a, dist, gen in acts}
    return states, trans, per


# ------------------------------------------------------------------------------------------ M2: format cases

def format_cases(v, vdrive, d):
    r = vlib.tlc("PhoutCases", "PhoutCases.cfg", workers=1, heap="3g", timeout=900, deadlock=False)
    vlib.tlc_must_pass(r, "PhoutCases")
    cases = []
    for ln in r.prints:
        if ln.startswith('<<"VERIF", "'):
            cases.append(json.loads(json.loads(ln[len('<<"VERIF", '):-2])))
    if len(cases) != r.distinct or not cases:
        raise vlib.MachineryError("PhoutCases printed %d cases for %d states" % (len(cases), r.distinct))
    for k, c in enumerate(cases):
        c["id"] = k + 1
    cpath, opath = os.path.join(d, "cases.ndjson"), os.path.join(d, "cases_obs.ndjson")
    vlib.write_ndjson(cpath, cases)
    vlib.run_driver(vdrive, ["aggcases", "-in", cpath, "-out", opath], timeout=900)
    obs = {o["id"]: o for o in vlib.read_ndjson(opath)}
    if len(obs) != len(cases):
        raise vlib.MachineryError("aggcases recorded %d of %d cases" % (len(obs), len(cases)))
    bad = 0
    for c in cases:
        o = obs[c["id"]]
        if o.get("c") == c["expect"] and o.get("err") == "<nil>":
            continue
        bad += 1
        got = o.get("c")
        cols = [i for i in range(13) if not got or len(got) != 13 or got[i] != c["expect"][i]]
        colname = ["seconds", "ms", "tag"] + ["f%d" % i for i in range(1, 11)]
        v.violation("phoutcase ids=%s cols=%s" % (c["ids"], ",".join(colname[i] for i in cols[:3])),
                    "phout line of sample %s (ids=%s) is %r, PhoutLine says %s" % (c["s"], c["ids"], o.get("raw"), c["expect"]),
                    replay_obj={"kind": "phoutcase", "case": c, "observed": o}, replay_name="phoutcase_%d.json" % c["id"])
        if bad >= 5:
            break
    return len(cases), r.distinct, r.generated, cases[::777][:3]


# ------------------------------------------------------------------------------------------ trace validation

def validate(v, module, rows, d, describe, name):
    """TLC over the recorded events (grouped by run); on a violation report that run, drop it, continue."""
    rows = sorted(rows, key=lambda r: r["run"])
    validated = states = 0
    for attempt in range(8):
        if not rows:
            break
        p = os.path.join(d, "%s_%d.ndjson" % (name, attempt))
        vlib.write_ndjson(p, rows)
        tr = vlib.tlc(module, module + ".cfg", env={"VERIF_TRACE": p}, workers=1, deadlock=False, timeout=3000, heap="6g")
        if tr.error:
            raise vlib.MachineryError("%s failed: %s\n%s" % (module, tr.kind, tr.out[-3000:]))
        states += tr.distinct
        runs = sorted({r["run"] for r in rows})
        if not tr.violation:
            if tr.distinct != len(rows) + 1:
                raise vlib.MachineryError("%s visited %d states for %d events" % (module, tr.distinct, len(rows)))
            validated += len(runs)
            break
        ln = int(tr.trace_state.get("l", "1"))
        idx = min(max(ln - (1 if tr.what in ("Accepted", "PAccepted") else 2), 0), len(rows) - 1)
        ev = rows[idx]
        run = ev["run"]
        bad = tr.trace_state.get("bad", "").replace(" ", "").replace('"', "")
        bad2 = tr.trace_state.get("bad2", "").replace(" ", "").replace('"', "")
        if bad2 not in ("", "{}"):
            bad = bad2 if bad in ("", "{}") else bad + bad2
        evs = [r for r in rows if r["run"] == run]
        sig, what = describe(evs, ev, tr.what, bad)
        v.violation(sig, what, replay_obj={"kind": name, "module": module, "events": evs, "at": ev, "bad": bad},
                    replay_name="%s_run%d.json" % (name, run))
        validated += len([r for r in runs if r < run])
        rows = [r for r in rows if r["run"] > run]
    return validated, states


def describe_agg(evs, ev, inv, bad):
    head = next((e for e in evs if e["ev"] == "Run"), {})
    nrep = sum(1 for e in evs if e["ev"] == "Report") + sum(e["n"] for e in evs if e["ev"] == "Reports")
    nline = sum(1 for e in evs if e["ev"] in ("Line", "JLine", "LogLine", "BadLine"))
    end = next((e for e in evs if e["ev"] == "RunEnd"), {})
    brief = {k: ev.get(k) for k in ("ev", "c", "raw", "s", "dropped", "err", "partial", "lines") if k in ev}
    fault = head.get("fault") or ""
    made = "%s %s" % (head.get("build") or "ctor", head.get("type") or head.get("kind"))
    if head.get("build") == "factory":
        made = "config.Decode of {type: %s%s} (%s map shape)" % (head.get("type"), ", sink: " + head["sink"] if head.get("sink") else "", head.get("shape"))
    return ("agg kind=%s mode=%s%s inv=%s bad=%s" % (head.get("kind"), head.get("mode"), " fault=" + fault if fault else "", inv, bad),
            "real %s aggregator made by %s (K=%s queue=%s flush=%sms ids=%s mode %s%s): %d reports, %d lines, dropped=%s, Run returned %r: %s at %s" % (
                head.get("kind"), made, head.get("k"), head.get("q"), head.get("flush_ms"), head.get("ids"), head.get("mode"),
                "; the sink fails from its write no. %s on: %s" % (head.get("fail_at"), fault) if fault else "",
                nrep, nline, end.get("dropped"), end.get("err"), bad, brief))


def describe_sig(evs, ev, inv, bad):
    st = next((e for e in evs if e["ev"] == "Start"), {})
    sg = next((e for e in evs if e["ev"] == "Signal"), {})
    ex = next((e for e in evs if e["ev"] == "Exit"), {})
    if st.get("fail"):
        return ("signal errorpath sig=%s kind=%s inv=%s bad=%s" % (st.get("sig"), st.get("kind"), inv, bad),
                "pandora (%s; a second pool fails by itself %s ms into the run; slow pipe sink): %s; %s reports had returned "
                "before the failure, %s begun at exit; result has %s lines (+%s counted drops), last line complete=%s, "
                "aggregators returned before exit=%s, log says 'Another signal received'=%s after %s signal(s), exit status %s: %s" % (
                    st.get("kind"), st.get("after_ms"),
                    "no signal" if st.get("sig") == "none" else "ONE SIG%s sent when 'Awaiting started tasks' was logged" % st.get("sig"),
                    ex.get("failed_returned_before"), ex.get("entered"), ex.get("lines"), ex.get("dropped"),
                    ex.get("last_complete"), ex.get("agg_returned"), ex.get("another_signal"), ex.get("signals"),
                    ex.get("status"), bad))
    scen = st.get("scen") or ""
    how = {"second": "; a second signal followed %s ms later" % st.get("second_ms"),
           "timeout": "; the sink takes no bytes any more from the signal on",
           "hang": "; the target stopped answering 150 ms before the signal (the shots in flight hang), the result is a plain file",
           "startup": " (sent %s ms after the process was started, without waiting for a report)" % st.get("after_ms"),
           "full": "; the result destination is /dev/full", "nodir": "; the result destination lies in a directory that does not exist",
           "grpc": "; grpc gun", "mixed": "; one phout and one jsonlines pool",
           "backpr": "; queue 16, 4 KiB buffer, a pipe slower than the load (back-pressure)"}.get(scen, "")
    return ("signal%s sig=%s kind=%s pipe=%s inv=%s bad=%s" % (" scen=" + scen if scen else "", st.get("sig"), st.get("kind"), st.get("pipe"), inv, bad),
            "pandora (%s, %s rps, %s instances in %s pool(s), %s sink, GOMAXPROCS=%s) stopped with SIG%s %s ms into the run%s: %s reports had returned "
            "before the signal, %s begun at exit; result has %s lines (+%s counted drops, %s malformed), last line complete=%s, "
            "aggregator returned before exit=%s (its error: %r), exit status %s%s after %s ms, log says timeout=%s another-signal=%s: %s" % (
                st.get("kind"), st.get("rps"), st.get("inst"), st.get("pools"), "slow pipe" if st.get("pipe") else "file",
                st.get("gomaxprocs") or "default",
                st.get("sig"), st.get("after_ms"), how, sg.get("returned_before"), ex.get("entered"), ex.get("lines"),
                ex.get("dropped"), ex.get("malformed"), ex.get("last_complete"), ex.get("agg_returned"), ex.get("agg_err"), ex.get("status"),
                " (killed by the default action of '%s')" % ex.get("killed") if ex.get("killed") else "", ex.get("elapsed_ms"),
                ex.get("timeout_exit"), ex.get("another_signal"), bad))


def sink_runs(v, vdrive, d, n):
    """Result destinations (Sink.tla): real engine runs writing to real files; one TLC run with -continue."""
    path = os.path.join(d, "aggsink.ndjson")
    vlib.run_driver(vdrive, ["aggsink", "-out", path, "-runs", str(n)], timeout=1200)
    rows = sorted(vlib.read_ndjson(path), key=lambda r: r["run"])
    p = os.path.join(d, "aggsink_sorted.ndjson")
    vlib.write_ndjson(p, rows)
    tr = vlib.tlc("TraceSink", "TraceSink.cfg", env={"VERIF_TRACE": p}, workers=1, deadlock=False, timeout=1200,
                  heap="3g", cont=True)
    if tr.error or tr.distinct != len(rows) + 1:
        raise vlib.MachineryError("TraceSink failed (%s, %d states for %d events)\n%s" % (tr.kind, tr.distinct, len(rows), tr.out[-3000:]))
    per_run = {}
    for inv, st in tr.all_violations:
        ln = int(st.get("l", "0"))
        if ln < 2:
            continue
        if inv == "Accepted":
            raise vlib.MachineryError("TraceSink cannot take event %s" % rows[min(ln, len(rows)) - 1])
        run = rows[min(ln - 2, len(rows) - 1)]["run"]
        if run not in per_run or ln > per_run[run][0]:
            per_run[run] = (ln, st.get("bad", "").replace(" ", "").replace('"', ""))
    heads = {r["run"]: r for r in rows if r["ev"] == "SinkRun"}
    for run, (ln, bad) in sorted(per_run.items()):
        h = heads[run]
        evs = [r for r in rows if r["run"] == run]
        files = [{k: e[k] for k in ("file", "lines", "malformed", "partial", "stale_left")} for e in evs if e["ev"] == "File"]
        nrep = sum(e["n"] for e in evs if e["ev"] == "Reported")
        v.violation("sink layout=%s kind=%s inv=NoViolation bad=%s" % ("same" if h["same"] else "own", h["kind"], bad),
                    "%d pool(s) writing %s results to %s: %d reports, files %s: %s" % (
                        h["pools"], h["kind"], "ONE file name" if h["same"] else "their own files", nrep, files, bad),
                    replay_obj={"kind": "sink", "module": "TraceSink", "events": evs, "bad": bad},
                    replay_name="sink_run%d.json" % run)
    layouts = {}
    for h in heads.values():
        key = "%s %s" % (h["kind"], "two pools one file" if h["same"] else ("two pools two files" if h["pools"] == 2 else "one pool"))
        layouts[key] = layouts.get(key, 0) + 1
    return {"runs": len(heads), "events": len(rows), "layouts": layouts, "runs_flagged": len(per_run),
            "opens": sum(1 for r in rows if r["ev"] == "Open"), "writes": sum(1 for r in rows if r["ev"] == "Write"),
            "trace_spec_states": tr.distinct}


def machinery_events(rows, what):
    m = [r for r in rows if r["ev"] == "Machinery"]
    if m:
        raise vlib.MachineryError("%s: %s\n%s" % (what, m[0]["what"], m[0].get("log", "")))


# ------------------------------------------------------------------------------------------ run

def run(tier, v):
    thorough = tier == "thorough"
    d = vlib.scratch()
    sig_path = os.path.join(d, "aggsig.ndjson")
    agg_path = os.path.join(d, "agg.ndjson")
    nsig = 500 if thorough else 16
    nruns, neng, ncan, nstress, nprov, nother, nstaged, nfault = (5000, 300, 1500, 40, 700, 400, 400, 1200) if thorough else (300, 24, 40, 6, 24, 30, 20, 80)
    nhang = 300 if thorough else 12

    # everything that does not depend on something else runs at the same time: the design-level TLC runs, the
    # process-level driver (mostly waiting), the in-process driver + its two trace validations, the format cases,
    # the result-destination runs
    def in_process(vdrive):
        vlib.run_driver(vdrive, ["agg", "-out", agg_path, "-runs", str(nruns), "-engine", str(neng), "-cancel", str(ncan),
                                 "-dropstress", str(nstress), "-provfail", str(nprov), "-other", str(nother), "-staged", str(nstaged),
                                 "-fault", str(nfault), "-hang", str(nhang)], timeout=3000)
        rows = vlib.read_ndjson(agg_path)
        machinery_events(rows, "agg")
        # real engine runs (hooks of the await loop merged with report / line events) answer to PoolAgg's trace
        # specification, which re-uses every action of TraceAggregator; direct runs to TraceAggregator itself
        eng_runs = {r["run"] for r in rows if r["ev"] == "Run" and r["mode"] in ENGINE_MODES}
        with concurrent.futures.ThreadPoolExecutor(max_workers=2) as ex2:
            f1 = ex2.submit(validate, v, "TraceAggregator", [r for r in rows if r["run"] not in eng_runs], d, describe_agg, "agg")
            f2 = ex2.submit(validate, v, "TracePoolAgg", [r for r in rows if r["run"] in eng_runs], d, describe_agg, "poolagg")
            a1, a2 = f1.result(), f2.result()
        return rows, a1, a2

    def process_level(vdrive, vpandora):
        vlib.run_driver(vdrive, ["aggsig", "-vpandora", vpandora, "-out", sig_path, "-runs", str(nsig),
                                 "-par", "6" if thorough else "4", "-fail", "80" if thorough else "4",
                                 "-scen", "143" if thorough else "13", "-long", "1" if thorough else "0",
                                 "-hangs", "40" if thorough else "4"], 3000)
        srows = vlib.read_ndjson(sig_path)
        machinery_events(srows, "aggsig")
        return srows, validate(v, "TraceShutdown", srows, d, describe_sig, "signal")

    vlib.spec_copy()
    with concurrent.futures.ThreadPoolExecutor(max_workers=6) as ex:
        fb = ex.submit(build)
        fd = ex.submit(design, thorough)
        vdrive, vpandora = fb.result()
        fs = ex.submit(process_level, vdrive, vpandora)
        fa = ex.submit(in_process, vdrive)
        fc = ex.submit(format_cases, v, vdrive, d)
        fk = ex.submit(sink_runs, v, vdrive, d, 60 if thorough else 9)
        rows, (agg_validated, agg_states), (pa_validated, pa_states) = fa.result()
        ncases, cstates, ctrans, csamples = fc.result()
        sink_cov = fk.result()
        srows, (sig_validated, sig_states) = fs.result()
        states, trans, per = fd.result()
    agg_validated += pa_validated
    agg_states += pa_states
    nhooks = sum(1 for r in rows if r["ev"] == "Hook")
    nrep = sum(1 for r in rows if r["ev"] == "Report") + sum(r["n"] for r in rows if r["ev"] == "Reports")
    nlines = sum(1 for r in rows if r["ev"] in ("Line", "JLine", "LogLine"))
    ndrop = sum(r["dropped"] for r in rows if r["ev"] == "RunEnd")
    droprun = sum(1 for r in rows if r["ev"] == "RunEnd" and r["dropped"] > 0)
    exits = [r for r in srows if r["ev"] == "Exit"]
    sigs = {r["run"]: r for r in srows if r["ev"] == "Signal"}
    starts = {r["run"]: r for r in srows if r["ev"] == "Start"}
    samples = []
    for e in exits[:3]:
        s_ = starts[e["run"]]
        samples.append({"process": {k: s_[k] for k in ("kind", "sig", "after_ms", "rps", "inst", "pipe", "gomaxprocs", "pools")},
                        "returned_before_signal": sigs.get(e["run"], {}).get("returned_before"),
                        "exit": {k: e[k] for k in ("status", "entered", "returned", "lines", "dropped", "last_complete", "agg_returned", "wait_ms")}})
    run1 = [r for r in rows if r["run"] == 1]
    samples.append({"in_process_run": next(r for r in run1 if r["ev"] == "Run"),
                    "first_events": [{k: e_[k] for k in e_ if k != "run"} for e_ in run1[1:4]],
                    "end": next((r for r in run1 if r["ev"] == "RunEnd"), None)})
    samples.append({"tlc_format_cases": csamples})
    cov = {
        "states": states, "transitions": trans,
        "traces_validated_against_impl": agg_validated + sig_validated + sink_cov["runs"],
        "samples": samples,
        "design_tlc": per,
        "in_process_runs": {"validated": agg_validated, "events": len(rows), "reports": nrep, "lines": nlines,
                            "dropped": ndrop, "runs_with_drops": droprun, "engine_runs": neng, "engine_runs_cancelled_midway": ncan,
                            "modes": {m: sum(1 for r in rows if r["ev"] == "Run" and r["mode"] == m)
                                      for m in ("normal", "late", "burst", "engine", "cancel", "provfail", "staged", "hang", "dropstress")},
                            "hang_runs_aggregator_returned_while_every_shot_hung": sum(1 for r in rows if r["ev"] == "AggReturned"),
                            "engine_runs_provider_failed_midway": nprov,
                            "kinds": {k: sum(1 for r in rows if r["ev"] == "Run" and r["kind"] == k)
                                      for k in ("phout", "jsonlines", "log", "discard", "test")}, "engine_hook_events": nhooks,
                            "engine_runs_validated_by_TracePoolAgg": pa_validated,
                            "runs_with_failing_sink": {f: sum(1 for r in rows if r["ev"] == "Run" and r.get("fault") == f)
                                                       for f in ("err", "partial", "short", "close")},
                            "sink_failures_injected": sum(1 for r in rows if r["ev"] == "SinkFault" and r.get("first")),
                            "made_by": {b: sum(1 for r in rows if r["ev"] == "Run" and r.get("build") == b) for b in ("ctor", "factory")},
                            "factory_forms": sorted({"%s/%s/%s" % (r.get("type"), r.get("sink") or "-", r.get("shape"))
                                                     for r in rows if r["ev"] == "Run" and r.get("build") == "factory"}),
                            "trace_spec_states": agg_states},
        "signal_runs": {"validated": sig_validated, "signalled": len(sigs), "self_ended": len(exits) - len(sigs),
                        "error_path_runs": sum(1 for r in srows if r["ev"] == "Start" and r.get("fail")),
                        "error_path_runs_signalled_while_awaiting_tasks": sum(1 for e in exits if starts[e["run"]].get("fail") and e.get("signals")),
                        "forced": sum(1 for e in exits if e.get("forced")),
                        "scenarios": {sc: sum(1 for r in srows if r["ev"] == "Start" and r.get("scen") == sc)
                                      for sc in ("second", "timeout", "startup", "hup", "quit", "full", "nodir", "grpc", "mixed", "backpr", "hang")},
                        "hang_runs_ended_by_interrupt_timeout_with_aggregator_returned": sum(
                            1 for e in exits if starts[e["run"]].get("scen") == "hang" and e.get("timeout_exit") and e.get("agg_returned")),
                        "exits_by_interrupt_timeout": sum(1 for e in exits if e.get("timeout_exit")),
                        "exits_by_second_signal": sum(1 for e in exits if e.get("another_signal") and e.get("signals", 0) >= 2),
                        "killed_by_default_action": sum(1 for e in exits if e.get("killed")),
                        "full_disk_runs_failed": sum(1 for e in exits if starts[e["run"]].get("scen") == "full" and e["status"] != 0),
                        "late_reports_lost": sum(e["entered"] - e["lines"] - e["dropped"] for e in exits
                                                 if not e.get("forced") and starts[e["run"]].get("scen") not in ("full", "nodir", "quit", "hup")),
                        "reports": sum(e["entered"] for e in exits), "trace_spec_states": sig_states},
        "format_cases": {"cases": ncases, "tlc_states": cstates},
        "result_destinations": sink_cov,
        "evaluations": ncases + agg_validated + sig_validated,
        "distinct_nontrivial": ncases + len({(r["kind"], r["k"], r["q"], r["flush_ms"], r["ids"], r["mode"]) for r in rows if r["ev"] == "Run"}),
        "rule": "format cases: the complete abstract case space of PhoutCases.tla (distinct by construction); in-process "
                "runs: distinct (kind, K, queue, flush, ids, mode) tuples; every run reports >= 0 seeded samples",
        "exhaustive": False,
    }
    return "model_checking", cov, [
        "the syntactic line splitter, the recording sinks and the counting wrapper record faithfully (harness/cmd/vdrive/agg.go, aggsig.go, harness/cmd/vpandora)",
        "a sink that fails does so like the injected ones (error, partial write, short count, failing Close; ENOSPC of /dev/full)",
        "reports made after the stop instant by shots still in flight may be lost (documented in core.Aggregator); the check "
        "requires lines + drops >= reports returned before the signal was sent and <= reports begun before exit",
        "forced exits (second signal, interrupt / tasks timeout exceeded, SIGHUP/SIGQUIT, a signal sent before any report had "
        "returned that kills by default action) are exempt from completeness and only bounded; they are provoked on purpose",
    ]


def replay(path, v):
    obj = json.load(open(path))
    d = vlib.scratch()
    if obj.get("kind") == "phoutcase":
        vdrive, _ = build()
        c = obj["case"]
        cpath, opath = os.path.join(d, "c.ndjson"), os.path.join(d, "o.ndjson")
        vlib.write_ndjson(cpath, [c])
        vlib.run_driver(vdrive, ["aggcases", "-in", cpath, "-out", opath])
        o = vlib.read_ndjson(opath)[0]
        print("expected %s\nobserved %s" % (c["expect"], o.get("c")))
        if o.get("c") != c["expect"]:
            v.violation("replay phoutcase", "real phout line %r differs from PhoutLine %s" % (o.get("raw"), c["expect"]))
        return None
    module = obj["module"]
    validate(v, module, obj["events"], d, describe_sig if module == "TraceShutdown" else describe_agg, "replay")
    return None
