"""C15 — scenario execution: order, multiplicity, variable flow, stop on failure, weights, [next].

TLC design level : Scenario.tla (description -> expansion, ring, step loop Pre/Send/Post with the variable
                   tree and [next] counters) over the enumerated case space (ScenarioMC: flow profiles x name
                   sequences x multiplicity/sleep shapes x target scripts; weights; shared iterators), a
                   2-instance configuration for [next] under every interleaving, seven negative controls.
M2 (spec->code)  : the same TLC run exports the cases; `vdrive scenario` renders each to YAML (every 5th
                   through HCL), builds the REAL provider + gun through the registered factories and runs a
                   real engine against a scripted in-process target; TraceScenario.tla compares the ordered
                   request log, the samples and the ring with Expected(case) computed by the specification.
M1 (code->spec)  : 4 instances on one shared [next] iterator; TraceScenario.NextRowsOK on the rows seen.  First-access
                   contention: 120 short runs (fresh provider each) of 8 instances that meet at a spin barrier in front
                   of every step's real preprocessor, so that the first [next] look-up of each path is simultaneous.
"""
import json
import os
import vlib

PID = "C15"
NEGS = ["continue", "sleepnext", "mult", "weights", "pernext", "grpcabort", "htmlraw", "nextkey", "sleepleak"]
INVS = ["Built", "LogOK", "GapsOK", "SamplesOK", "StepsOK", "ShotSpanOK", "RingOK", "NextRowsOK", "MultiSamplesOK", "MultiBagsOK"]


def cases_of(r):
    out = []
    for ln in r.out.splitlines():
        if ln.startswith('<<"VERIF", "'):
            out.append(json.loads(json.loads(ln[len('<<"VERIF", '):-2])))
    return out


def describe(c):
    sc = c["scens"]
    items = ";".join(",".join(("%s(%d,%d)" % (i["name"], i["n"], i["sl"])) if i["k"] == "req" else "sleep(%d)" % i["sl"]
                              for i in s["items"]) + "@w%d" % s["weight"] for s in sc)
    return "id=%d fam=%s %s script=%s@%d shots=%d" % (c["id"], c["fam"], items, c["script"]["kind"], c["script"]["at"], c["shots"])


def flow_of(c):
    if c["fam"] != "flow":
        return c["fam"]
    return "flow%d" % (c["id"] // 67 // 2400 // 8)


def signature(c, inv, inst):
    return "fam=%s inv=%s script=%s inst=%d" % (flow_of(c), inv, c["script"]["kind"], inst)


def validate(v, obs_path, tag=""):
    rows = vlib.read_ndjson(obs_path)
    tr = vlib.tlc("TraceScenario", "TraceScenario.cfg", env={"VERIF_TRACE": obs_path}, cont=True,
                  workers=8, heap="6g", deadlock=False, timeout=1500)
    if tr.error:
        raise vlib.MachineryError("TraceScenario failed: %s\n%s" % (tr.kind, tr.out[-3000:]))
    if tr.distinct != len(rows) + 1:
        raise vlib.MachineryError("TraceScenario visited %d states for %d lines" % (tr.distinct, len(rows)))
    seen = set()
    for inv, st in tr.all_violations:
        ln = int(st.get("l", "0"))
        if ln < 1 or (inv, ln) in seen:
            continue
        seen.add((inv, ln))
        row = rows[ln - 1]
        c = row["case"]
        o = row["obs"]
        what = "%s: %s fails; observed log=%s samples=%s ring=%s steps=%s spans=%s build_err=%r run_err=%r" % (
            describe(c), inv,
            [(e["req"], e["val"]["t"] + str(e["val"]["n"]), e["at"], e["since"]) for e in o["log"]][:14],
            [(s["sc"] + "." + s["step"], s["proto"], s["err"]) for s in o["samples"]][:14],
            o["ring"][:8],
            [(x["sc"], x["mwt"], [(y["name"], y["sleep"]) for y in x["steps"]][:10]) for x in o.get("steps", [])][:3],
            [(x["sc"], x["ms"]) for x in o.get("spans", [])][:8], o["build_err"][:200], o["run_err"][:200])
        v.violation(signature(c, inv, row["inst"]), what, replay_obj={"kind": "case", "invariant": inv, "line": row},
                    replay_name="case_%d_%s%s.json" % (c["id"], inv, tag))
    return rows, tr


def run(tier, v):
    thorough = tier == "thorough"
    states = trans = 0
    # 1. design level + case export
    mod = 3 if thorough else 9
    r = vlib.tlc("ScenarioMC", "Scenario_thorough.cfg" if thorough else "Scenario_exh.cfg",
                 env={"VERIF_SEED": vlib.seed(), "VERIF_MOD": mod, "VERIF_GMOD": 1 if thorough else 2}, workers=8, heap="6g", deadlock=False, timeout=2400)
    vlib.tlc_must_pass(r, "Scenario_exh")
    vlib.log("design level: %d states, %d cases exported, %.1fs" % (r.distinct, len(cases_of(r)), r.wall))
    states += r.distinct
    trans += r.generated
    cases = cases_of(r)
    if len(cases) < 300:
        raise vlib.MachineryError("only %d cases exported" % len(cases))
    r2 = vlib.tlc("ScenarioMC", "Scenario_next2.cfg", workers=4, heap="4g", deadlock=False, timeout=900)
    vlib.tlc_must_pass(r2, "Scenario_next2")
    states += r2.distinct
    trans += r2.generated
    r3 = vlib.tlc("ScenarioMC", "Scenario_src2.cfg", workers=2, heap="2g", deadlock=False, timeout=900)
    vlib.tlc_must_pass(r3, "Scenario_src2")
    states += r3.distinct
    trans += r3.generated
    import concurrent.futures
    with concurrent.futures.ThreadPoolExecutor(max_workers=3) as ex:
        futs = {neg: ex.submit(vlib.tlc, "ScenarioMC", "Scenario_neg_%s.cfg" % neg, workers=1, heap="1g", deadlock=False,
                               timeout=600) for neg in NEGS}
        for neg in NEGS:
            vlib.tlc_must_fail(futs[neg].result(), neg)
    vlib.log("negative controls done")
    # 2. M2 / M1: the real code
    b = vlib.harness_build()
    d = vlib.scratch()
    single = [c for c in cases if c["fam"] not in ("next", "first", "mfail")]
    multi = [c for c in cases if c["fam"] in ("next", "mfail")]
    first = [c for c in cases if c["fam"] == "first"]
    if len(first) < 3:
        raise vlib.MachineryError("first-access cases missing from the export")
    vlib.write_ndjson(os.path.join(d, "single.ndjson"), single)
    vlib.write_ndjson(os.path.join(d, "multi.ndjson"), multi * (3 if thorough else 1))
    o1, o2 = os.path.join(d, "obs1.ndjson"), os.path.join(d, "obs2.ndjson")
    vlib.run_driver(b, ["scenario", "-in", os.path.join(d, "single.ndjson"), "-out", o1, "-instances", "1",
                        "-hcl-every", "5", "-workers", "6"], timeout=1500)
    vlib.run_driver(b, ["scenario", "-in", os.path.join(d, "multi.ndjson"), "-out", o2, "-instances", "4",
                        "-workers", "2"], timeout=900)
    # first-access contention: 8 instances with one shot each meet at a spin barrier in front of every step's real
    # preprocessor, i.e. in front of the first [next] look-up of every path; every repetition builds a fresh provider
    # (fresh iterator); sequential, so that the 8 instances have the cores for themselves
    vlib.write_ndjson(os.path.join(d, "first.ndjson"), first)
    o3 = os.path.join(d, "obs3.ndjson")
    vlib.run_driver(b, ["scenario", "-in", os.path.join(d, "first.ndjson"), "-out", o3, "-instances", "8", "-spin-barrier",
                        "-repeat", "120" if thorough else "40", "-workers", "1"], timeout=900)
    obs = os.path.join(d, "obs.ndjson")
    with open(obs, "w") as f:
        f.write(open(o1).read())
        f.write(open(o2).read())
        f.write(open(o3).read())
    rows, tr = validate(v, obs)
    for r_ in rows:     # machinery sanity: the request that got no answer came on a fresh connection (net/http never re-sends there)
        sc = r_["case"]["script"]
        if sc["kind"] == "eof" and r_["inst"] == 1:
            hit = [e for e in r_["obs"]["log"] if e["k"] == sc["at"]]
            if hit and not hit[0]["fresh"]:
                raise vlib.MachineryError("case %d: the eof script hit a reused connection" % r_["case"]["id"])
    vlib.log("TraceScenario: %d lines in %.1fs" % (len(rows), tr.wall))
    nontrivial = len({json.dumps([c["case"]["scens"], c["case"]["script"], c["case"]["reqs"]], sort_keys=True) for c in rows})
    fams = {}
    for c in cases:
        fams[flow_of(c)] = fams.get(flow_of(c), 0) + 1
    samples = []
    for row in rows[:: max(1, len(rows) // 4)][:4]:
        samples.append({"case": describe(row["case"]), "format": row["obs"]["format"], "instances": row["inst"],
                        "log": [[e["req"], e["val"]["t"] + str(e["val"]["n"]), e["at"]] for e in row["obs"]["log"]][:12],
                        "samples": [[s["sc"] + "." + s["step"], s["proto"], s["err"]] for s in row["obs"]["samples"]][:12]})
    cov = {
        "states": states, "transitions": trans,
        "traces_validated_against_impl": len(rows),
        "samples": samples,
        "exhaustive": False,
        "evaluations": len(rows), "distinct_nontrivial": nontrivial,
        "rule": "cases exported by TLC from the ScenarioMC space (flow cases with id %% %d == seed %% %d, all ring/iter/next "
                "cases); distinct = distinct (request definitions, scenarios, script)" % (mod, mod),
        "cases_by_family": fams,
        "requests_observed": sum(len(r_["obs"]["log"]) for r_ in rows),
        "samples_observed": sum(len(r_["obs"]["samples"]) for r_ in rows),
        "hcl_cases": sum(1 for r_ in rows if r_["obs"]["format"] == "hcl"),
        "trace_spec_states": tr.distinct,
        "negative_controls": NEGS,
        "design_configs": ["Scenario_thorough.cfg" if thorough else "Scenario_exh.cfg", "Scenario_next2.cfg", "Scenario_src2.cfg"],
    }
    return "model_checking", cov, [
        "design level exhaustive within: <= 3 listed requests, multiplicities 1..3, sleeps 0/3/4 ms, 9 flow profiles, "
        "scripts ok / transport@k / status 418@k / truncated body@k / clean close without a response byte@k for every k of the first shot + 1, 2 shots; weights in {1,2,3,4,6} for 1..3 scenarios",
        "the replayed subset of the flow cases is chosen by id modulo (seeded); ring, iter and next cases are all replayed",
        "pauses are checked one-sidedly (>= requested); min_waiting_time, [rand] and the html templater are not modelled",
        "trusted: renderer and recorder (harness/cmd/vdrive/scenario.go, harness/internal/scentarget)"]


def replay(path, v):
    obj = json.load(open(path))
    b = vlib.harness_build()
    d = vlib.scratch()
    row = obj["line"]
    vlib.write_ndjson(os.path.join(d, "c.ndjson"), [row["case"]])
    o = os.path.join(d, "o.ndjson")
    args = ["scenario", "-in", os.path.join(d, "c.ndjson"), "-out", o, "-instances", str(row["inst"]),
            "-hcl-every", "1" if row["obs"].get("format") == "hcl" else "0"]
    if row["case"]["fam"] == "first":      # a race: give it the same number of chances as the check does
        args += ["-spin-barrier", "-repeat", "120", "-workers", "1"]
    vlib.run_driver(b, args)
    validate(v, o, tag="_replay")
    return None


MANIFEST = dict(
    category="model_checking",
    technique="TLC on an explicit TLA+ model of scenario expansion and the step loop (Scenario.tla), whose enumerated "
              "cases are replayed through the real provider/gun/engine against a scripted target and compared by "
              "TraceScenario.tla with the observable the specification computes",
    design_ref="DESIGN.md §4 C15",
    text="The statement quantifies over descriptions x target histories; Scenario.tla makes the expansion, the ring, the "
         "variable tree and the stop-on-failure rule explicit and TLC enumerates the bounded space completely; every "
         "exported case is rendered to the real payload format and executed by the real code, so a divergence in order, "
         "multiplicity, variable flow, failure handling, weights or [next] sharing shows up as a rejected observation.",
    note="bounds: <= 3 listed requests x multiplicity 1..3, 9 flow profiles, 2 shots, 1 failure per run (quick: representative "
         "shapes for lists of 2 and 3, failure positions <= 5; a seeded 1/7 of the flow cases is replayed, 1/3 in thorough); pauses "
         "one-sided; ring order inside a cycle not demanded; a missing template variable is '<no value>', not a failure; [rand], "
         "min_waiting_time not covered; grpc/scenario gun and html templater are dimensions of the case space; renderer/recorder trusted",
)
