"""C15 — scenario execution: order, multiplicity, variable flow, stop on failure, weights, [next].

TLC design level : Scenario.tla (description -> expansion, ring, step loop Pre/Send/Post with the variable
                   tree and [next] counters) over the enumerated case space (ScenarioMC: flow profiles x name
                   sequences x multiplicity/sleep shapes x target scripts; weights; shared iterators), a
                   2-instance configuration for [next] under every interleaving, seven negative controls.
M2 (spec->code)  : the same TLC run exports the cases; `vdrive scenario` renders each to YAML (every 5th
                   through HCL), builds the REAL provider + gun through the registered factories and runs a
                   real engine against a scripted in-process target; TraceScenario.tla compares the ordered
                   request log, the samples and the ring with Expected(case) computed by the specification.
Processors       : ScenarioProc.tla computes, on character sequences, what var/header (modifier chains), var/jsonpath, var/xpath capture from
                   a response letter, whether assert/response (headers / body / status_code / size) holds and what the next step renders;
                   `vdrive scenproc` runs one scenario per TLC-generated case through the real gun; TraceScenarioProc.tla compares the texts.
M1 (code->spec)  : 4 instances on one shared [next] iterator; TraceScenario.NextRowsOK on the rows seen.  First-access
                   contention: 120 short runs (fresh provider each) of 8 instances that meet at a spin barrier in front
                   of every step's real preprocessor, so that the first [next] look-up of each path is simultaneous.
"""
import json
import os
import vlib

PID = "C15"
NEGS = ["continue", "sleepnext", "mult", "weights", "pernext", "grpcabort", "htmlraw", "nextkey", "sleepleak"]
INVS = ["Built", "LogOK", "GapsOK", "SamplesOK", "StepsOK", "ShotSpanOK", "RingOK", "NextRowsOK", "MultiSamplesOK", "MultiBagsOK"]


def cases_of(r):
    out = []
    for ln in r.out.splitlines():
        if ln.startswith('<<"VERIF", "'):
            out.append(json.loads(json.loads(ln[len('<<"VERIF", '):-2])))
    return out


def describe(c):
    sc = c["scens"]
    items = ";".join(",".join(("%s(%d,%d)" % (i["name"], i["n"], i["sl"])) if i["k"] == "req" else "sleep(%d)" % i["sl"]
                              for i in s["items"]) + "@w%d" % s["weight"] for s in sc)
    return "id=%d fam=%s %s script=%s@%d shots=%d" % (c["id"], c["fam"], items, c["script"]["kind"], c["script"]["at"], c["shots"])


def flow_of(c):
    if c["fam"] != "flow":
        return c["fam"]
    return "flow%d" % (c["id"] // 67 // 2400 // 8)


def signature(c, inv, inst):
    return "fam=%s inv=%s script=%s inst=%d" % (flow_of(c), inv, c["script"]["kind"], inst)


def validate(v, obs_path, tag=""):
    rows = vlib.read_ndjson(obs_path)
    tr = vlib.tlc("TraceScenario", "TraceScenario.cfg", env={"VERIF_TRACE": obs_path}, cont=True,
                  workers=8, heap="6g", deadlock=False, timeout=1500)
    if tr.error:
        raise vlib.MachineryError("TraceScenario failed: %s\n%s" % (tr.kind, tr.out[-3000:]))
    if tr.distinct != len(rows) + 1:
        raise vlib.MachineryError("TraceScenario visited %d states for %d lines" % (tr.distinct, len(rows)))
    seen = set()
    for inv, st in tr.all_violations:
        ln = int(st.get("l", "0"))
        if ln < 1 or (inv, ln) in seen:
            continue
        seen.add((inv, ln))
        row = rows[ln - 1]
        c = row["case"]
        o = row["obs"]
        what = "%s: %s fails; observed log=%s samples=%s ring=%s steps=%s spans=%s build_err=%r run_err=%r" % (
            describe(c), inv,
            [(e["req"], e["val"]["t"] + str(e["val"]["n"]), e["at"], e["since"]) for e in o["log"]][:14],
            [(s["sc"] + "." + s["step"], s["proto"], s["err"]) for s in o["samples"]][:14],
            o["ring"][:8],
            [(x["sc"], x["mwt"], [(y["name"], y["sleep"]) for y in x["steps"]][:10]) for x in o.get("steps", [])][:3],
            [(x["sc"], x["ms"]) for x in o.get("spans", [])][:8], o["build_err"][:200], o["run_err"][:200])
        v.violation(signature(c, inv, row["inst"]), what, replay_obj={"kind": "case", "invariant": inv, "line": row},
                    replay_name="case_%d_%s%s.json" % (c["id"], inv, tag))
    return rows, tr


# ---------------------------------------------------------------- processors (ScenarioProc)
PROC_NEGS = ["sizeblind", "sizeincl"]
PROC_INVS = ["Built", "StepAOK", "StepBOK", "FnOK"]


def proc_cases_of(r):
    cases, docs = [], None
    for ln in r.out.splitlines():
        if ln.startswith('<<"VERIF", "'):
            cases.append(json.loads(json.loads(ln[len('<<"VERIF", '):-2])))
        elif ln.startswith('<<"VERIFDOC", "'):
            docs = json.loads(json.loads(ln[len('<<"VERIFDOC", '):-2]))
    cases.sort(key=lambda c: json.dumps(c, sort_keys=True))     # TLC's order of initial states is not fixed
    for i, c in enumerate(cases):
        c["id"] = i + 1
    return cases, docs


def chars(x):
    return "".join(x)


def proc_describe(c):
    if c["kind"] == "fn":
        f = c["fn"]
        return "fn %s(%s) in %s" % (f["f"], ",".join(str(x) for x in ([f["a"], chars(f["letters"]) if f["f"] == "randString" else f["b"]][:f["nargs"]])), c["where"])
    out = []
    for p in c["chain"]:
        if p["kind"] == "header":
            out.append("%s=%s%s" % (p["var"], p["hname"], "".join(
                "|" + (m["m"] if m["m"] in ("lower", "upper") else
                       "substr(%d%s)" % (m["a"], ",%d" % m["b"] if m["hasb"] else "") if m["m"] == "substr" else
                       "replace(%s,%s)" % (chars(m["s"]), chars(m["r"]))) for m in p["mods"])))
        elif p["kind"] == "jsonpath":
            out.append("%s=$%s" % (p["var"], "".join("[%d]" % st["idx"] if st["idx"] >= 0 else "." + chars(st["key"]) for st in p["path"])))
        elif p["kind"] == "xpath":
            out.append("%s=xpath:%s(%s)" % (p["var"], p["q"]["by"], chars(p["q"]["v"])))
        else:
            a = p["as"]
            out.append("assert(%s)" % ",".join(
                ([("hdr~" + chars(a["hpat"]))] if a["hon"] else []) + (["body~" + "+".join(chars(t) for t in a["body"])] if a["body"] else []) +
                (["status=%d" % a["status"]] if a["status"] else []) + (["size %s len%+d" % (a["op"], a["delta"])] if a["son"] else [])))
    r = c["resp"]
    return "response %d/%s/%s; a: %s" % (r["status"], r["hdr"], r["body"], "; ".join(out))


def proc_signature(c, inv):
    if c["kind"] == "fn":
        return "fam=proc kind=fn:%s inv=%s" % (c["fn"]["f"], inv)
    kinds = [p["kind"] for p in c["chain"]]
    kind = kinds[0] if len(kinds) == 1 else "chain"
    if kind == "assert":
        a = c["chain"][0]["as"]
        kind += ":" + ("size" if a["son"] else "header" if a["hon"] else "body" if a["body"] else "status")
    return "fam=proc kind=%s inv=%s" % (kind, inv)


def proc_validate(v, obs_path, tag=""):
    rows = vlib.read_ndjson(obs_path)
    tr = vlib.tlc("TraceScenarioProc", "TraceScenarioProc.cfg", env={"VERIF_TRACE": obs_path}, cont=True, workers=6, heap="4g",
                  deadlock=False, timeout=900)
    if tr.error:
        raise vlib.MachineryError("TraceScenarioProc failed: %s\n%s" % (tr.kind, tr.out[-3000:]))
    if tr.distinct != len(rows) + 1:
        raise vlib.MachineryError("TraceScenarioProc visited %d states for %d lines" % (tr.distinct, len(rows)))
    seen = set()
    for inv, st in tr.all_violations:
        ln = int(st.get("l", "0"))
        if ln < 1 or (inv, ln) in seen:
            continue
        seen.add((inv, ln))
        row = rows[ln - 1]
        c, o = row["case"], row["obs"]
        what = "%s: %s fails; observed a=%s (%d requests) b=%s (%d requests) captured=%s rendered=%r body length=%d build_err=%r run_err=%r" % (
            proc_describe(c), inv, o["a"], o["areqs"], o["b"], o["breqs"], {k: chars(x) for k, x in o["vals"].items()}, chars(o["pval"]),
            o["blen"], o["build_err"][:200], o["run_err"][:200])
        v.violation(proc_signature(c, inv), what, replay_obj={"kind": "proc", "invariant": inv, "line": row},
                    replay_name="proc_%d_%s%s.json" % (c["id"], inv, tag))
    return rows, tr


def run(tier, v):
    thorough = tier == "thorough"
    states = trans = 0
    # 1. design level + case export.  All TLC runs of the design level start at once (the small ones - two-instance
    #    configurations, processors, negative controls - in a pool of four next to the big one) while the harness is built.
    import concurrent.futures
    #    The negative controls are facts about the specification alone: thorough runs all of them, quick a third (rotating
    #    with the seed).
    mod = 3 if thorough else 14
    sd = int(vlib.seed())
    negs = NEGS if thorough else [n for k, n in enumerate(NEGS) if k % 3 == sd % 3]
    pnegs = PROC_NEGS if thorough else [PROC_NEGS[sd % 2]]
    vlib.spec_copy()
    big = concurrent.futures.ThreadPoolExecutor(max_workers=1)
    ex = concurrent.futures.ThreadPoolExecutor(max_workers=2)
    fr = big.submit(vlib.tlc, "ScenarioMC", "Scenario_thorough.cfg" if thorough else "Scenario_exh.cfg",
                    env={"VERIF_SEED": vlib.seed(), "VERIF_MOD": mod, "VERIF_GMOD": 1 if thorough else 3,
                         "VERIF_SMOD": 1 if thorough else 2, "VERIF_RMOD": 1 if thorough else 3},
                    workers=8, heap="6g", deadlock=False, timeout=2400)
    pf = ex.submit(vlib.tlc, "ScenarioProcMC", "ScenarioProc_exh.cfg", workers=2, heap="2g", deadlock=False, timeout=900)
    f2 = ex.submit(vlib.tlc, "ScenarioMC", "Scenario_next2.cfg", workers=2, heap="4g", deadlock=False, timeout=900)
    f3 = ex.submit(vlib.tlc, "ScenarioMC", "Scenario_src2.cfg", workers=1, heap="2g", deadlock=False, timeout=900)
    futs = {neg: ex.submit(vlib.tlc, "ScenarioMC", "Scenario_neg_%s.cfg" % neg, workers=1, heap="1g", deadlock=False,
                           timeout=600) for neg in negs}
    pfuts = {neg: ex.submit(vlib.tlc, "ScenarioProcMC", "ScenarioProc_neg_%s.cfg" % neg, workers=1, heap="1g", deadlock=False,
                            timeout=600) for neg in pnegs}
    b = vlib.harness_build()
    r = fr.result()
    vlib.tlc_must_pass(r, "Scenario_exh")
    vlib.log("design level: %d states, %d cases exported, %.1fs" % (r.distinct, len(cases_of(r)), r.wall))
    states += r.distinct
    trans += r.generated
    cases = cases_of(r)
    if len(cases) < 300:
        raise vlib.MachineryError("only %d cases exported" % len(cases))
    rp = pf.result()
    vlib.tlc_must_pass(rp, "ScenarioProc_exh")
    states += rp.distinct
    trans += rp.generated
    pcases, pdocs = proc_cases_of(rp)
    if len(pcases) < 500 or pdocs is None:
        raise vlib.MachineryError("only %d processor cases exported" % len(pcases))
    # 2. M2 / M1: the real code
    d = vlib.scratch()
    single = [c for c in cases if c["fam"] not in ("next", "first", "mfail")]
    multi = [c for c in cases if c["fam"] in ("next", "mfail")]
    first = [c for c in cases if c["fam"] == "first"]
    if len(first) < 3:
        raise vlib.MachineryError("first-access cases missing from the export")
    vlib.write_ndjson(os.path.join(d, "single.ndjson"), single)
    vlib.write_ndjson(os.path.join(d, "multi.ndjson"), multi * (3 if thorough else 1))
    o1, o2 = os.path.join(d, "obs1.ndjson"), os.path.join(d, "obs2.ndjson")
    vlib.run_driver(b, ["scenario", "-in", os.path.join(d, "single.ndjson"), "-out", o1, "-instances", "1",
                        "-hcl-every", "5", "-workers", "6"], timeout=1500)
    vlib.run_driver(b, ["scenario", "-in", os.path.join(d, "multi.ndjson"), "-out", o2, "-instances", "4",
                        "-workers", "2"], timeout=900)
    # first-access contention: 8 instances with one shot each meet at a spin barrier in front of every step's real
    # preprocessor, i.e. in front of the first [next] look-up of every path; every repetition builds a fresh provider
    # (fresh iterator); sequential, so that the 8 instances have the cores for themselves
    vlib.write_ndjson(os.path.join(d, "first.ndjson"), first)
    o3 = os.path.join(d, "obs3.ndjson")
    vlib.run_driver(b, ["scenario", "-in", os.path.join(d, "first.ndjson"), "-out", o3, "-instances", "8", "-spin-barrier",
                        "-repeat", "120" if thorough else "40", "-workers", "1"], timeout=900)
    obs = os.path.join(d, "obs.ndjson")
    with open(obs, "w") as f:
        f.write(open(o1).read())
        f.write(open(o2).read())
        f.write(open(o3).read())
    # processors: one scenario per case, every scenario shot once (4 engine runs side by side)
    if not thorough:    # quick: every second case (by the seed's parity), all variable-function cases
        pcases = [c for c in pcases if c["kind"] == "fn" or c["id"] % 2 == sd % 2]
    vlib.write_ndjson(os.path.join(d, "pcases.ndjson"), pcases)
    with open(os.path.join(d, "pdocs.json"), "w") as f:
        json.dump(pdocs, f)
    po = os.path.join(d, "pobs.ndjson")
    vlib.run_driver(b, ["scenproc", "-in", os.path.join(d, "pcases.ndjson"), "-docs", os.path.join(d, "pdocs.json"), "-out", po,
                        "-chunks", "4"], timeout=900)
    pfut = ex.submit(proc_validate, v, po)
    rows, tr = validate(v, obs)
    prows, ptr = pfut.result()
    vlib.log("TraceScenarioProc: %d lines in %.1fs" % (len(prows), ptr.wall))
    # the small design-level runs have long finished by now
    for name, f in (("Scenario_next2", f2), ("Scenario_src2", f3)):
        rr = f.result()
        vlib.tlc_must_pass(rr, name)
        states += rr.distinct
        trans += rr.generated
    for neg in negs:
        vlib.tlc_must_fail(futs[neg].result(), neg)
    for neg in pnegs:
        vlib.tlc_must_fail(pfuts[neg].result(), "proc_" + neg)
    ex.shutdown()
    big.shutdown()
    for r_ in rows:     # machinery sanity: the request that got no answer came on a fresh connection (net/http never re-sends there)
        sc = r_["case"]["script"]
        if sc["kind"] == "eof" and r_["inst"] == 1:
            hit = [e for e in r_["obs"]["log"] if e["k"] == sc["at"]]
            if hit and not hit[0]["fresh"]:
                raise vlib.MachineryError("case %d: the eof script hit a reused connection" % r_["case"]["id"])
    vlib.log("TraceScenario: %d lines in %.1fs" % (len(rows), tr.wall))
    nontrivial = len({json.dumps([c["case"]["scens"], c["case"]["script"], c["case"]["reqs"]], sort_keys=True) for c in rows})
    fams = {}
    for c in cases:
        fams[flow_of(c)] = fams.get(flow_of(c), 0) + 1
    samples = []
    for row in rows[:: max(1, len(rows) // 4)][:4]:
        samples.append({"case": describe(row["case"]), "format": row["obs"]["format"], "instances": row["inst"],
                        "log": [[e["req"], e["val"]["t"] + str(e["val"]["n"]), e["at"]] for e in row["obs"]["log"]][:12],
                        "samples": [[s["sc"] + "." + s["step"], s["proto"], s["err"]] for s in row["obs"]["samples"]][:12]})
    cov = {
        "states": states, "transitions": trans,
        "traces_validated_against_impl": len(rows) + len(prows),
        "processor_cases": len(prows),
        "processor_cases_by_kind": {k: sum(1 for r_ in prows if proc_signature(r_["case"], "")[:-5] == k)
                                    for k in sorted({proc_signature(r_["case"], "")[:-5] for r_ in prows})},
        "samples": samples,
        "exhaustive": False,
        "evaluations": len(rows), "distinct_nontrivial": nontrivial,
        "rule": "cases exported by TLC from the ScenarioMC space (flow cases with id %% %d == seed %% %d, all ring/iter/next "
                "cases); distinct = distinct (request definitions, scenarios, script)" % (mod, mod),
        "cases_by_family": fams,
        "requests_observed": sum(len(r_["obs"]["log"]) for r_ in rows),
        "samples_observed": sum(len(r_["obs"]["samples"]) for r_ in rows),
        "hcl_cases": sum(1 for r_ in rows if r_["obs"]["format"] == "hcl"),
        "trace_spec_states": tr.distinct,
        "negative_controls": negs + ["proc_" + n for n in pnegs],
        "design_configs": ["Scenario_thorough.cfg" if thorough else "Scenario_exh.cfg", "Scenario_next2.cfg", "Scenario_src2.cfg"],
    }
    return "model_checking", cov, [
        "design level exhaustive within: <= 3 listed requests, multiplicities 1..3, sleeps 0/3/4 ms, 9 flow profiles, "
        "scripts ok / transport@k / status 418@k / truncated body@k / clean close without a response byte@k for every k of the first shot + 1, 2 shots; weights in {1,2,3,4,6} for 1..3 scenarios",
        "the replayed subset of the flow cases is chosen by id modulo (seeded); ring, iter and next cases are all replayed",
        "pauses and min_waiting_time are checked one-sidedly (gap / shot span >= requested); the expanded step list of the real provider (name, pause per step) exactly; "
        "[rand] and randInt / randString / uuid only by shape and range",
        "processors: 862 cases (response letters x var/header modifier chains, var/jsonpath, var/xpath, assert/response predicates, chains of them, variable functions); "
        "quick replays every second one; substr only inside its pinned range",
        "trusted: renderer and recorder (harness/cmd/vdrive/scenario.go, harness/internal/scentarget)"]


def replay(path, v):
    obj = json.load(open(path))
    b = vlib.harness_build()
    d = vlib.scratch()
    row = obj["line"]
    if obj.get("kind") == "proc":
        r = vlib.tlc("ScenarioProcMC", "ScenarioProc_exh.cfg", workers=2, heap="2g", deadlock=False, timeout=900)
        vlib.tlc_must_pass(r, "ScenarioProc_exh")
        _, docs = proc_cases_of(r)
        vlib.write_ndjson(os.path.join(d, "pc.ndjson"), [row["case"]])
        with open(os.path.join(d, "pdocs.json"), "w") as f:
            json.dump(docs, f)
        po = os.path.join(d, "po.ndjson")
        vlib.run_driver(b, ["scenproc", "-in", os.path.join(d, "pc.ndjson"), "-docs", os.path.join(d, "pdocs.json"), "-out", po, "-chunks", "1"])
        proc_validate(v, po, tag="_replay")
        return None
    vlib.write_ndjson(os.path.join(d, "c.ndjson"), [row["case"]])
    o = os.path.join(d, "o.ndjson")
    args = ["scenario", "-in", os.path.join(d, "c.ndjson"), "-out", o, "-instances", str(row["inst"]),
            "-hcl-every", "1" if row["obs"].get("format") == "hcl" else "0"]
    if row["case"]["fam"] == "first":      # a race: give it the same number of chances as the check does
        args += ["-spin-barrier", "-repeat", "120", "-workers", "1"]
    vlib.run_driver(b, args)
    validate(v, o, tag="_replay")
    return None


MANIFEST = dict(
    category="model_checking",
    technique="TLC on an explicit TLA+ model of scenario expansion and the step loop (Scenario.tla), whose enumerated "
              "cases are replayed through the real provider/gun/engine against a scripted target and compared by "
              "TraceScenario.tla with the observable the specification computes",
    design_ref="DESIGN.md §4 C15",
    text="The statement quantifies over descriptions x target histories; Scenario.tla makes the expansion, the ring, the "
         "variable tree and the stop-on-failure rule explicit and TLC enumerates the bounded space completely; every "
         "exported case is rendered to the real payload format and executed by the real code, so a divergence in order, "
         "multiplicity, variable flow, failure handling, weights or [next] sharing shows up as a rejected observation.",
    note="bounds: <= 3 listed requests x multiplicity 1..3, 9 flow profiles, 2 shots, 1 failure per run (quick: representative "
         "shapes for lists of 2 and 3, failure positions <= 5; a seeded 1/14 of the flow cases is replayed, 1/3 in thorough); pauses and "
         "min_waiting_time one-sided; ring order inside a cycle not demanded; a missing template variable is '<no value>', not a failure; "
         "data sources are csv / nested json / variables lists with [next] (counter per full path), [last], [rand], integer indexes; "
         "processors (ScenarioProc.tla) as functions on character sequences over a response alphabet of 30 letters; random functions by "
         "shape only; grpc/scenario gun and html templater are dimensions of the case space; renderer/recorder trusted",
)
