"""C19 — no response from the target can abort or crash the run.

TLC design level : Responses.tla — the response alphabet x gun kinds x postprocessor sets, the Outcome function
                   (which samples every ammo must yield) and the instance loop with recover(); exhaustive for
                   2 instances x 3 ammo; negative control RespCanPanic (unchecked use of response-derived data)
                   must violate NoPoolFailure.  Scenario.tla contributes the same negative control on the
                   scenario step machine (Scenario_neg_panic.cfg).
M1/M2            : `vdrive responses` runs a real engine (2 instances, 30 ammo) per letter x gun kind (x
                   postprocessor set for the scenario guns) against raw-TCP / TLS / gRPC targets that misbehave on
                   request, plus seeded random mixtures; TraceResponses.tla requires Engine.Run = nil, all ammo
                   fired, and per letter exactly the samples Outcome demands.
"""
import json
import os
import vlib

PID = "C19"
INVS = ["Built", "RunOK", "AllFired", "SamplesOK", "NoStray", "Known"]


def letter_name(x):
    if x["l"] == "status":
        return "s%d" % x["code"]
    if x["l"] == "code":
        return "c%d" % x["code"]
    if x["l"] == "hv":
        return "hv%d" % x["code"]
    return x["l"]


def signature(row, inv):
    letters = sorted({letter_name(x) for x in row["ammo"]})
    lt = "mix" if row["mix"] else letters[0]
    if inv in ("RunOK", "AllFired") and "shoot panic" in row["run_err"]:
        what = "panic"
        if "slice bounds" in row["run_err"]:
            what = "panic-slice-bounds"
        # which letters can have caused it is in the replay file; the class is the stable part
        return "gun=%s posts=%s letter=%s inv=%s cause=%s" % (row["gun"], row["posts"], lt, "RunOK", what)
    return "gun=%s posts=%s letter=%s inv=%s" % (row["gun"], row["posts"], lt, inv)


def validate(v, path, tag=""):
    rows = vlib.read_ndjson(path)
    tr = vlib.tlc("TraceResponses", "TraceResponses.cfg", env={"VERIF_TRACE": path}, cont=True, workers=4, heap="4g",
                  deadlock=False, timeout=900)
    if tr.error:
        raise vlib.MachineryError("TraceResponses failed: %s\n%s" % (tr.kind, tr.out[-3000:]))
    if tr.distinct != len(rows) + 1:
        raise vlib.MachineryError("TraceResponses visited %d states for %d lines" % (tr.distinct, len(rows)))
    seen = set()
    for inv, st in tr.all_violations:
        ln = int(st.get("l", "0"))
        if ln < 1:
            continue
        row = rows[ln - 1]
        sig = signature(row, inv)
        if (sig, ln) in seen:
            continue
        seen.add((sig, ln))
        cnt = {}
        for s in row["samples"]:
            k = "%s/%s proto=%d err=%s empty=%s" % (letter_name(s["letter"]), s["step"], s["proto"], s["err"], s["empty"])
            cnt[k] = cnt.get(k, 0) + 1
        what = "run %d gun=%s posts=%s letters=%s: %s fails; Engine.Run=%r fired=%d/%d samples=%s" % (
            row["run"], row["gun"], row["posts"], sorted({letter_name(x) for x in row["ammo"]})[:8], inv,
            row["run_err"][:160], row["fired"], row["shots"], dict(sorted(cnt.items())[:8]))
        v.violation(sig, what, replay_obj={"kind": "run", "invariant": inv, "line": row},
                    replay_name="run_%s_%s_%s_%s%s.json" % (row["gun"].replace("/", "-"), row["posts"],
                                                            "mix%d" % row["run"] if row["mix"] else letter_name(row["ammo"][0]), inv, tag))
    return rows, tr


def run(tier, v):
    thorough = tier == "thorough"
    states = trans = 0
    r = vlib.tlc("Responses", "Responses_exh.cfg", workers=8, heap="4g", deadlock=False, timeout=1200)
    vlib.tlc_must_pass(r, "Responses_exh")
    states += r.distinct
    trans += r.generated
    vlib.tlc_must_fail(vlib.tlc("Responses", "Responses_neg_panic.cfg", workers=2, heap="2g", deadlock=False, timeout=600),
                       "Responses_neg_panic")
    vlib.tlc_must_fail(vlib.tlc("ScenarioMC", "Scenario_neg_panic.cfg", workers=2, heap="2g", deadlock=False, timeout=600),
                       "Scenario_neg_panic")
    b = vlib.harness_build()
    d = vlib.scratch()
    out = os.path.join(d, "runs.ndjson")
    vlib.run_driver(b, ["responses", "-out", out, "-mix", "150" if thorough else "6", "-workers", "8"], timeout=2400)
    rows, tr = validate(v, out)
    for r_ in rows:     # machinery sanity: the handshake-level faults really were injected
        if r_["ammo"] and r_["ammo"][0]["l"].startswith("tls") and not r_["build_err"] and not r_["run_err"] \
                and r_["fired"] == r_["shots"] and r_["faults"] < 3:    # (a run that died early is a verdict, not this)
            raise vlib.MachineryError("run %d (%s %s): the TLS target injected only %d handshake faults" % (
                r_["run"], r_["gun"], r_["ammo"][0]["l"], r_["faults"]))
    letters = {(r_["gun"], r_["posts"], letter_name(x)) for r_ in rows for x in r_["ammo"]}
    samples = []
    for r_ in rows[:: max(1, len(rows) // 5)][:5]:
        cnt = {}
        for s in r_["samples"]:
            k = "%s/%s proto=%d err=%s" % (letter_name(s["letter"]), s["step"], s["proto"], s["err"])
            cnt[k] = cnt.get(k, 0) + 1
        samples.append({"gun": r_["gun"], "posts": r_["posts"], "letters": sorted({letter_name(x) for x in r_["ammo"]})[:6],
                        "run_err": r_["run_err"][:100], "fired": r_["fired"], "samples": cnt})
    cov = {
        "states": states, "transitions": trans,
        "traces_validated_against_impl": len(rows),
        "samples": samples,
        "exhaustive": False,
        "evaluations": len(rows), "distinct_nontrivial": len(letters),
        "rule": "one real engine run (2 instances, 30 ammo) per letter x gun kind (x postprocessor set) + seeded mixtures; "
                "distinct = distinct (gun, postprocessors, letter) triples exercised",
        "runs_by_gun": {g: sum(1 for r_ in rows if r_["gun"] == g) for g in sorted({r_["gun"] for r_ in rows})},
        "mixtures": sum(1 for r_ in rows if r_["mix"]),
        "ammo_fired": sum(r_["fired"] for r_ in rows),
        "samples_observed": sum(len(r_["samples"]) for r_ in rows),
        "fatal_runs_documented": sum(1 for r_ in rows if r_["fatal"]),
        "negative_controls": ["Responses_neg_panic", "Scenario_neg_panic"],
        "trace_spec_states": tr.distinct,
    }
    return "model_checking", cov, [
        "alphabet: statuses {200,201,204,299,301,304,400,404,418,429,500,503,599}, 1xx preface, empty / 10 MB / truncated / "
        "bad-chunk bodies, malformed status line / header / 12 MB header, close before / during, refused, timeout, non-JSON, "
        "non-HTML, short / absent header; gRPC: codes 0..16, 1 MB / 6 MB replies, deadline, killed connection",
        "each ammo names its letter; letters with effects beyond their own request (timeout, refused, killed gRPC connection, "
        "slow gRPC) only in single-letter runs; gRPC status coding only checked as 200 / >= 400 (C10, C20 own the table)",
        "http2 guns: well-formed h2 responses, handshake-level letters (alert / close / reset on every other handshake, "
        "handshake timeout) and the documented fatal non-h2 target; https = http gun with ssl",
        "trusted: targets and recorder (harness/internal/scentarget, harness/cmd/vdrive/responses.go)"]


def replay(path, v):
    obj = json.load(open(path))
    row = obj["line"]
    d = vlib.scratch()
    p = os.path.join(d, "one.ndjson")
    vlib.write_ndjson(p, [row])
    validate(v, p, tag="_replay")
    return None


MANIFEST = dict(
    category="model_checking",
    technique="TLC on an explicit TLA+ model of the response alphabet, the per-gun outcome function and the instance loop "
              "with recover() (Responses.tla); real engine runs against scripted misbehaving targets are validated "
              "against it by TraceResponses.tla",
    design_ref="DESIGN.md §4 C19",
    text="Robustness against the peer is a universal statement over response histories; the specification fixes the finite "
         "alphabet and what each letter must turn into (a sample with the status or the failure, never a pool failure), "
         "TLC checks the loop for every interleaving of letters, and every letter x gun kind x postprocessor set is "
         "provoked on the real engine, so a panic or a lost/extra sample in any path shows as a rejected run.",
    note="2 instances x 30 ammo per run; byte-level fuzz of responses is not attempted (letters are representatives); "
         "gRPC status table not re-derived; stalled bodies / 101 outside the alphabet",
)
