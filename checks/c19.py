"""C19 — no response from the target can abort or crash the run.

TLC design level : Responses.tla — the response alphabet x gun kinds x postprocessor sets, the Outcome function
                   (which samples every ammo must yield) and the instance loop with recover(); exhaustive for
                   2 instances x 3 ammo; negative control RespCanPanic (unchecked use of response-derived data)
                   must violate NoPoolFailure.  Scenario.tla contributes the same negative control on the
                   scenario step machine (Scenario_neg_panic.cfg).
M1/M2            : `vdrive responses` runs a real engine (2 instances, 30 ammo) per letter x gun kind (x
                   postprocessor set for the scenario guns) against raw-TCP / TLS / gRPC targets that misbehave on
                   request, plus seeded random mixtures; TraceResponses.tla requires Engine.Run = nil, all ammo
                   fired, and per letter exactly the samples Outcome demands.
"""
import json
import os
import vlib

PID = "C19"
INVS = ["Built", "RunOK", "AllFired", "SamplesOK", "NoStray", "Known"]


def letter_name(x):
    if x["l"] == "status":
        return "s%d" % x["code"]
    if x["l"] == "code":
        return "c%d" % x["code"]
    if x["l"] == "hv":
        return "hv%d" % x["code"]
    return x["l"]


def signature(row, inv):
    letters = sorted({letter_name(x) for x in row["ammo"]})
    lt = "mix" if row["mix"] else letters[0]
    if "child process died" in row["run_err"]:
        return "gun=%s posts=%s letter=%s inv=RunOK cause=%s" % (
            row["gun"], row["posts"], lt, "data-race-dns-cache" if "DATA RACE" in row["run_err"] else "process-crash")
    if inv in ("RunOK", "AllFired") and "context deadline exceeded" in row["run_err"]:
        # the run was not over within the driver's generous limit, twice: an instance is blocked in a call
        return "gun=%s posts=%s letter=%s inv=RunOK cause=instance-blocked ammo=%s" % (row["gun"], row["posts"], lt, row.get("avariant"))
    if inv in ("RunOK", "AllFired") and "shoot panic" in row["run_err"]:
        what = "panic"
        if "slice bounds" in row["run_err"]:
            what = "panic-slice-bounds"
        # which letters can have caused it is in the replay file; the class is the stable part
        return "gun=%s posts=%s letter=%s inv=%s cause=%s" % (row["gun"], row["posts"], lt, "RunOK", what)
    return "gun=%s posts=%s letter=%s inv=%s" % (row["gun"], row["posts"], lt, inv)


def dns_child(binary, out, rounds, instances, race):
    """The host-name / down-at-construction history in a process of its own: a fatal runtime error (concurrent map writes)
    kills the process and cannot be recorded from inside, so the death of the child IS the observation.  With the race
    build a report of the race detector that involves the DNS cache (lib/netutil) counts the same."""
    import subprocess
    e = vlib.go_env()
    e["VERIF_SEED"] = str(vlib.seed())
    try:
        p = subprocess.run([binary, "dnsrace", "-out", out, "-rounds", str(rounds), "-instances", str(instances)], env=e,
                           stdout=subprocess.PIPE, stderr=subprocess.PIPE, text=True, errors="replace", timeout=600)
    except subprocess.TimeoutExpired:
        raise vlib.MachineryError("dnsrace child timed out")
    err = p.stderr
    crash = None
    if "fatal error: concurrent map" in err:
        crash = "child process died: " + [ln for ln in err.splitlines() if "fatal error" in ln][0]
    elif race and "DATA RACE" in err and "netutil" in err:
        crash = "child process died: WARNING: DATA RACE in lib/netutil (SimpleDNSCache)"
    if crash is None and p.returncode != 0 and not (race and "DATA RACE" in err):
        raise vlib.MachineryError("dnsrace child failed rc=%s\n%s" % (p.returncode, err[-3000:]))
    rows = vlib.read_ndjson(out) if os.path.exists(out) else []
    if crash:
        n = instances
        rows = [{"run": 9999 if race else 9998, "gun": "http", "posts": "none", "shots": 4 * n, "inst": n,
                 "ammo": [{"l": "avrefused", "code": 200}] * (4 * n), "ammo_s": ["avrefused"] * (4 * n), "samples": [],
                 "build_err": "", "run_err": crash, "fired": 0, "answered": 0, "seen": 0, "variant": "race" if race else "plain",
                 "downs": 0, "faults": 0, "avariant": "plain", "fatal": False, "mix": False, "wall_ms": 0, "retried": False, "kind": "letters",
                 "vlen": 0, "cases": [], "stderr_tail": err[-1500:]}]
    return rows


def validate(v, path, tag=""):
    rows = vlib.read_ndjson(path)
    tr = vlib.tlc("TraceResponses", "TraceResponses.cfg", env={"VERIF_TRACE": path}, cont=True, workers=4, heap="4g",
                  deadlock=False, timeout=900)
    if tr.error:
        raise vlib.MachineryError("TraceResponses failed: %s\n%s" % (tr.kind, tr.out[-3000:]))
    if tr.distinct != len(rows) + 1:
        raise vlib.MachineryError("TraceResponses visited %d states for %d lines" % (tr.distinct, len(rows)))
    seen = set()
    for inv, st in tr.all_violations:
        ln = int(st.get("l", "0"))
        if ln < 1:
            continue
        row = rows[ln - 1]
        sig = signature(row, inv)
        if (sig, ln) in seen:
            continue
        seen.add((sig, ln))
        cnt = {}
        for s in row["samples"]:
            k = "%s/%s proto=%d err=%s empty=%s" % (letter_name(s["letter"]), s["step"], s["proto"], s["err"], s["empty"])
            cnt[k] = cnt.get(k, 0) + 1
        what = "run %d gun=%s posts=%s letters=%s: %s fails; Engine.Run=%r fired=%d/%d samples=%s" % (
            row["run"], row["gun"], row["posts"], sorted({letter_name(x) for x in row["ammo"]})[:8], inv,
            row["run_err"][:160], row["fired"], row["shots"], dict(sorted(cnt.items())[:8]))
        v.violation(sig, what, replay_obj={"kind": "run", "invariant": inv, "line": row},
                    replay_name="run_%s_%s_%s_%s%s.json" % (row["gun"].replace("/", "-"), row["posts"],
                                                            ("mix%d" % row["run"] if row["mix"] else letter_name(row["ammo"][0])) +
                                                            ("" if row.get("avariant", "plain") == "plain" else "-" + row["avariant"]), inv, tag))
    return rows, tr


def run(tier, v):
    thorough = tier == "thorough"
    states = trans = 0
    # design level: the five TLC runs go on in the background while the harness is built and the drivers run
    import concurrent.futures
    vlib.spec_copy()
    ex = concurrent.futures.ThreadPoolExecutor(max_workers=8)
    design = {
        "Responses_exh": ex.submit(vlib.tlc, "Responses", "Responses_exh.cfg", workers=6, heap="4g", deadlock=False, timeout=1200),
        "Availability_exh": ex.submit(vlib.tlc, "Availability", "Availability_exh.cfg", workers=2, heap="2g", deadlock=False, timeout=900),
        "Responses_neg_panic": ex.submit(vlib.tlc, "Responses", "Responses_neg_panic.cfg", workers=1, heap="1g", deadlock=False, timeout=600),
        "Responses_neg_announced": ex.submit(vlib.tlc, "Responses", "Responses_neg_announced.cfg", workers=1, heap="1g", deadlock=False, timeout=600),
        "Responses_neg_wkt": ex.submit(vlib.tlc, "Responses", "Responses_neg_wkt.cfg", workers=1, heap="1g", deadlock=False, timeout=600),
        "Availability_neg_bind": ex.submit(vlib.tlc, "Availability", "Availability_neg_bind.cfg", workers=1, heap="1g", deadlock=False, timeout=600),
        "Scenario_neg_panic": ex.submit(vlib.tlc, "ScenarioMC", "Scenario_neg_panic.cfg", workers=1, heap="1g", deadlock=False, timeout=600),
    }
    b = vlib.harness_build()
    d = vlib.scratch()
    out = os.path.join(d, "runs.ndjson")
    vlib.run_driver(b, ["responses", "-out", out, "-mix", "150" if thorough else "6", "-workers", "8"], timeout=2400)
    # host-name target, down at construction, coming up while many instances dial: child processes (plain + -race build)
    extra = dns_child(b, os.path.join(d, "dns.ndjson"), 20 if thorough else 6, 48, False)
    br = vlib.harness_build(race=True)
    extra += dns_child(br, os.path.join(d, "dnsr.ndjson"), 6 if thorough else 3, 16, True)
    with open(out, "a") as f:
        for r_ in extra:
            f.write(json.dumps(r_, separators=(",", ":"), sort_keys=True) + "\n")
    for name in ("Responses_exh", "Availability_exh"):
        r = design[name].result()
        vlib.tlc_must_pass(r, name)
        states += r.distinct
        trans += r.generated
    for name in ("Responses_neg_panic", "Responses_neg_announced", "Responses_neg_wkt", "Availability_neg_bind", "Scenario_neg_panic"):
        vlib.tlc_must_fail(design[name].result(), name)
    ex.shutdown()
    rows, tr = validate(v, out)
    for r_ in rows:     # machinery sanity: the handshake-level faults really were injected
        if r_["ammo"] and r_["ammo"][0]["l"].startswith("tls") and not r_["build_err"] and not r_["run_err"] \
                and r_["fired"] == r_["shots"] and r_["faults"] < 3:    # (a run that died early is a verdict, not this)
            raise vlib.MachineryError("run %d (%s %s): the TLS target injected only %d handshake faults" % (
                r_["run"], r_["gun"], r_["ammo"][0]["l"], r_["faults"]))
        if r_["ammo"] and r_["ammo"][0]["l"] in ("avreset", "avhole") and not r_["build_err"] and not r_["run_err"] \
                and r_["fired"] == r_["shots"] and r_["downs"] < 1:
            raise vlib.MachineryError("run %d (%s %s): no connection met the target while it was away" % (
                r_["run"], r_["gun"], r_["ammo"][0]["l"]))
    letters = {(r_["gun"], r_["posts"], letter_name(x)) for r_ in rows for x in r_["ammo"]}
    samples = []
    for r_ in rows[:: max(1, len(rows) // 5)][:5]:
        cnt = {}
        for s in r_["samples"]:
            k = "%s/%s proto=%d err=%s" % (letter_name(s["letter"]), s["step"], s["proto"], s["err"])
            cnt[k] = cnt.get(k, 0) + 1
        samples.append({"gun": r_["gun"], "posts": r_["posts"], "letters": sorted({letter_name(x) for x in r_["ammo"]})[:6],
                        "run_err": r_["run_err"][:100], "fired": r_["fired"], "samples": cnt})
    cov = {
        "states": states, "transitions": trans,
        "traces_validated_against_impl": len(rows),
        "samples": samples,
        "exhaustive": False,
        "evaluations": len(rows), "distinct_nontrivial": len(letters),
        "rule": "one real engine run (2 instances, 30 ammo) per letter x gun kind (x postprocessor set) + seeded mixtures; "
                "distinct = distinct (gun, postprocessors, letter) triples exercised",
        "runs_by_gun": {g: sum(1 for r_ in rows if r_["gun"] == g) for g in sorted({r_["gun"] for r_ in rows})},
        "mixtures": sum(1 for r_ in rows if r_["mix"]),
        "ammo_fired": sum(r_["fired"] for r_ in rows),
        "samples_observed": sum(len(r_["samples"]) for r_ in rows),
        "fatal_runs_documented": sum(1 for r_ in rows if r_["fatal"]),
        "negative_controls": ["Responses_neg_panic", "Responses_neg_announced", "Responses_neg_wkt", "Scenario_neg_panic", "Availability_neg_bind"],
        "trace_spec_states": tr.distinct,
    }
    return "model_checking", cov, [
        "alphabet: statuses {200,201,204,299,301,304,400,404,418,429,500,503,599}, 1xx preface, empty / 10 MB / truncated / "
        "bad-chunk bodies, malformed status line / header / 12 MB header, close before / during, refused, timeout, non-JSON, "
        "non-HTML, short / absent header; unsolicited 100 Continue, more 1xx than the client accepts, 101 Switching Protocols, chunk sizes "
        "that overflow / are negative / lack CRLF / end early, gzip Content-Encoding on garbage (with and without a decompressing client), "
        "a 1.2 MB header block in 20 000 lines, one-byte writes; announced Content-Length 2^62 / 2^63-1 (a few bytes, close) and 2^63 / 10^20; $.list empty / one element / string / null / object flowing into a later "
        "step's preprocessor under every index form; connect tunnel refused / 407 / garbage / extra bytes; gRPC: codes 0..16 and 17, 42, "
        "2^31-1, 1 MB / 6 MB replies, deadline, killed connection (before / after the headers), empty and undecodable reply messages, OK replies whose type is a protobuf "
        "well-known type (Empty, Timestamp, Duration, wrappers, Struct, ListValue, Any)",
        "each ammo names its letter; letters with effects beyond their own request (timeout, refused, killed gRPC connection, "
        "slow gRPC) only in single-letter runs; gRPC status coding only checked as 200 / >= 400 (C10, C20 own the table)",
        "http2 guns: well-formed h2 responses, handshake-level letters (alert / close / reset on every other handshake, "
        "handshake timeout), frame-level letters against a target written on http2.Framer (GOAWAY + close, RST_STREAM instead of / in the "
        "middle of a response, DATA on stream 0, a block that is not HPACK, a flood of SETTINGS and PINGs; single-letter runs and mixtures "
        "on shared connections) and the documented fatal non-h2 target; https = http gun with ssl",
        "trusted: targets and recorder (harness/internal/scentarget, harness/cmd/vdrive/responses.go)"]


def replay(path, v):
    obj = json.load(open(path))
    row = obj["line"]
    d = vlib.scratch()
    p = os.path.join(d, "one.ndjson")
    vlib.write_ndjson(p, [row])
    validate(v, p, tag="_replay")
    return None


MANIFEST = dict(
    category="model_checking",
    technique="TLC on an explicit TLA+ model of the response alphabet, the per-gun outcome function and the instance loop "
              "with recover() (Responses.tla); real engine runs against scripted misbehaving targets are validated "
              "against it by TraceResponses.tla",
    design_ref="DESIGN.md §4 C19",
    text="Robustness against the peer is a universal statement over response histories; the specification fixes the finite "
         "alphabet and what each letter must turn into (a sample with the status or the failure, never a pool failure), "
         "TLC checks the loop for every interleaving of letters, and every letter x gun kind x postprocessor set is "
         "provoked on the real engine, so a panic or a lost/extra sample in any path shows as a rejected run.",
    note="2 instances x 30 ammo per run; byte-level fuzz of responses is not attempted (letters are representatives); "
         "gRPC status table not re-derived; the instance loop is explored over one representative letter per outcome class; "
         "a peer that stalls in the middle of a body is outside the alphabet (no body timeout option: the instance would block, not crash); "
         "announced body lengths are either true, slightly short or absurd (>= 2^62) - lengths that a careless client would really try to "
         "allocate (2^31 .. 2^40) are not provoked",
)
