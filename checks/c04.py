"""C04 — timing: no early shots; discard_overflow bounds lateness to the 2 s window.

TLC design level : Timing.tla (the Waiter as coded: cached clock, one clock reading per Wait, timer armed
                   from the runtime's own reading, IsSlowDown, the decide/shoot/discard steps of instance.Run,
                   one or two instances on a shared schedule (the second started later by the startup schedule, or
                   never when the schedule finishes first), responses 0/5/25/35 ticks, Tick anywhere within a
                   budget of "lazy" ticks), exhaustive for the prompt machine and for the descheduled one,
                   liveness under weak fairness, + five negative controls that must produce counterexamples
                   (stale cached clock = the shipped defect, wrong threshold, skipped sleep, overdue not reset, strong iff under
                   descheduling).
M2 (spec->code)  : TLC -simulate produces robust timing scripts (token instants, response per token, expected
                   decision and predicted lateness per token; a second family with a descheduling of 3/6 ticks
                   between Next() and the Waiter's clock reading, which the harness injects); `vdrive timing` runs
                   them in real time, in parallel, through cli.readConfig -> engine.Run -> instance.Run -> Waiter.
M1 (code->spec)  : random response histories against real pandora schedules (const/line/step/once+const), same
                   path.  TraceTiming.tla decides every logged token and run with the operators of Timing.tla.
"""
import json
import os
import threading
import time
import vlib

PID = "C04"

MANIFEST = dict(
    category="model_checking",
    technique="explicit TLA+ specification of the Waiter/instance loop checked exhaustively with TLC (safety + liveness, "
              "negative controls), bound to the code by real-time replay of TLC-generated timing scripts and by trace "
              "validation of random response histories with TLC (TraceTiming.tla)",
    design_ref="DESIGN.md §4 C04",
    text="Timing.tla models one action per clock reading / blocking point / decision of coreutil.Waiter and "
         "engine.instance.Run on a discrete clock where the goroutine may be descheduled anywhere; TLC proves NoEarly, the "
         "two one-sided discard rules the code guarantees under any scheduling, the exact iff and the run-length bound "
         "for the prompt machine, never-discard and all-fired with discard off, and termination.  The same record "
         "predicates judge every token of real runs (real engine, real Waiter, config decoded by cli.readConfig incl. "
         "the discard_overflow default) from two stamps that bracket the Waiter's clock reading, so a scheduling delay "
         "can only relax a rule, never break it.  Grown beyond the statement: scenario pacing min_waiting_time (a shot blocks the "
         "instance for max(response, min_waiting_time); invariants Paced/ShotLength; bound to the REAL http/scenario gun and "
         "provider against an in-process target, incl. aborted scenarios); several instances on one schedule (every token held "
         "by exactly one instance and decided exactly once, fire xor discard; 3 instances with one slow worker in M1); and, as an "
         "extra in the thorough tier, an inductive invariant of the Waiter over unbounded integer time discharged by Apalache.",
    note="bounds: 3-4 tokens, gaps {0,1,3,5,30} ticks, responses {0,5,25,35} ticks, <= 2 instances (3 in thorough), lazy-tick budget 2 (22 in "
         "thorough); real time: scripts <= 8 s, 100 ms tick; trusted: the recording mocks (Schedule wrapper, gun, "
         "aggregator) and goroutine-id tagging; `>=` vs `>` at exactly 2.000000 s is not observable in real time "
         "(decided at design level only).",
)

NEGS = [("Timing_neg_stale.cfg", "stale"), ("Timing_neg_thresh.cfg", "thresh"),
        ("Timing_neg_early.cfg", "early"), ("Timing_neg_desched.cfg", "desched"), ("Timing_neg_noreset.cfg", "noreset"), ("Timing_neg_burstcache.cfg", "burstcache"),
        ("Timing_neg_nopace.cfg", "nopace"), ("Timing_neg_paceend.cfg", "paceend"),
        ("Timing_neg_doubledraw.cfg", "doubledraw"), ("Timing_wit_backlog.cfg", "witness_backlog_next_to_on_time")]


def prints_json(r):
    out = []
    for ln in r.out.splitlines():
        if ln.startswith('<<"VERIF", "'):
            out.append(json.loads(json.loads(ln[len('<<"VERIF", '):-2])))
    return out


def design_level(thorough, res):
    """Runs in a thread next to the real-time part; stores into res (errors are re-raised by the caller)."""
    try:
        states = trans = 0
        cfgs = ["Timing_exh.cfg", "Timing_lazy.cfg", "Timing_pace.cfg"] + (["Timing_exh4.cfg", "Timing_lazy2.cfg", "Timing_lazy22.cfg", "Timing_exh3i.cfg", "Timing_pace25.cfg"] if thorough else [])
        per, runs = {}, {}

        def one(cfg):
            runs[cfg] = vlib.tlc("TimingMC", cfg, deadlock=False, timeout=3000, workers=6, heap="8g" if thorough else "4g")
        # the two large configurations of the thorough tier run next to the small ones
        BIG = ("Timing_lazy2.cfg", "Timing_lazy22.cfg", "Timing_exh3i.cfg", "Timing_pace.cfg", "Timing_pace25.cfg") + \
              (() if thorough else ("Timing_lazy.cfg",))     # quick: the three small configurations run side by side
        big = [threading.Thread(target=one, args=(c,)) for c in cfgs if c in BIG]
        [t.start() for t in big]
        for cfg in cfgs:
            if cfg not in BIG:
                one(cfg)
        [t.join() for t in big]
        for cfg in cfgs:
            r = runs[cfg]
            vlib.tlc_must_pass(r, cfg)
            states += r.distinct
            trans += r.generated
            per[cfg] = {"distinct": r.distinct, "generated": r.generated, "wall_s": round(r.wall, 1)}
        negs = {}

        def neg(cfg, name):
            r = vlib.tlc("TimingMC", cfg, deadlock=False, timeout=600, workers=2, heap="2g")
            negs[name] = r
        ths = [threading.Thread(target=neg, args=a) for a in NEGS]
        [t.start() for t in ths]
        [t.join() for t in ths]
        for cfg, name in NEGS:
            vlib.tlc_must_fail(negs[name], cfg)
        res.update(states=states, trans=trans, per=per, negs={n: negs[n].what for _, n in NEGS})
    except BaseException as ex:  # noqa
        res["error"] = ex


APALACHE_RUNS = [   # (name, args, expected outcome)
    ("init_establishes_IndInv", ["--cinit=CInit", "--init=Init", "--inv=IndInv", "--length=0"], "NoError"),
    ("IndInv_is_inductive", ["--cinit=CInit", "--init=IndInit", "--inv=IndInv", "--length=1"], "NoError"),
    ("stale_variant_not_inductive", ["--cinit=CInitStale", "--init=IndInit", "--inv=IndInv", "--length=1"], "Error"),
    ("stale_variant_violates_Sandwich_from_Init", ["--cinit=CInitStale", "--init=Init", "--inv=Sandwich", "--length=10"], "Error"),
]


def unbounded_evidence(res):
    """Optional extra (thorough tier): Apalache proves the inductive invariant of WaiterInd.tla (NoEarly, Sandwich,
    NeverDiscardOff for ALL integer clock values, token instants, MAX > 0, any descheduling).  A tool failure is a
    note in the evidence, never a verdict and never a machinery failure."""
    import shutil
    import subprocess
    out = {"tool": "apalache-mc", "module": "WaiterInd.tla", "runs": {}, "status": "not run"}
    try:
        exe = shutil.which("apalache-mc")
        if not exe:
            out["status"] = "apalache-mc not installed"
            return
        d = vlib.scratch("c04-apalache-")
        shutil.copy(os.path.join(vlib.SPEC, "WaiterInd.tla"), d)
        ok = True
        for name, args, expect in APALACHE_RUNS:
            t0 = time.time()
            try:
                p = subprocess.run(["timeout", "300", exe, "check"] + args + ["--out-dir=" + os.path.join(d, "out"), "WaiterInd.tla"],
                                   cwd=d, stdout=subprocess.PIPE, stderr=subprocess.STDOUT, text=True, timeout=330)
                m = [ln for ln in p.stdout.splitlines() if "The outcome is:" in ln]
                outcome = m[-1].split("The outcome is:")[1].split()[0] if m else "tool failure rc=%s" % p.returncode
            except Exception as ex:  # noqa
                outcome = "tool failure: %s" % ex
            out["runs"][name] = {"outcome": outcome, "expected": expect, "wall_s": round(time.time() - t0, 1)}
            ok = ok and outcome == expect
        out["status"] = ("inductive invariant discharged for unbounded integer time (and both negative controls fail as they must)"
                         if ok else "NOT discharged (see runs) - no claim of unbounded evidence in this run")
    except Exception as ex:  # noqa
        out["status"] = "tool failure: %s" % ex
    finally:
        res["unbounded"] = out


PACE_MW = 25   # MinWait of Timing_simpace.cfg (ticks): min_waiting_time = 2500 ms


def scripts_from_tlc(n_walks, n_pick, first_id=1, cfg="Timing_sim.cfg"):
    lazy = cfg == "Timing_simlazy.cfg"
    mw = PACE_MW if cfg == "Timing_simpace.cfg" else 0
    r = vlib.tlc("TimingMC", cfg, workers=1, simulate="num=%d" % n_walks, depth=3000, seed_=vlib.seed(),
                 deadlock=False, timeout=900, heap="2g")
    if r.error or r.violation:
        raise vlib.MachineryError("script generation failed: %s %s\n%s" % (r.kind, r.what, r.out[-2000:]))
    walks = prints_json(r)
    if len(walks) < min(n_pick, 8):
        raise vlib.MachineryError("only %d complete robust scripts out of %d walks" % (len(walks), n_walks))
    # selection (not an oracle): spread over (discard, instances) classes, inside a class prefer scripts that
    # contain both discards and late-but-fired tokens
    def score(w):
        h = w["hist"]
        nd = sum(1 for e in h if e["d"] == "discard")
        late = sum(1 for e in h if e["d"] == "fire" and e["b"] > e["tok"])
        flipped = sum(1 for e in h if e["a"] - e["tok"] < 20 <= e["b"] - e["tok"])   # only interesting for lazy scripts
        byi = {}
        for e in h:
            byi.setdefault(e["i"], []).append(e)
        # a waiter that has just discarded and then has to sleep for its next token
        resume = sum(1 for hh in byi.values() for x, y in zip(hh, hh[1:]) if x["d"] == "discard" and y["a"] < y["tok"])
        # an equal-time burst worked off by one instance: a token fired, a later token with the SAME instant discarded
        burst = sum(1 for hh in byi.values() for x, y in zip(hh, hh[1:])
                    if x["tok"] == y["tok"] and x["d"] == "fire" and y["d"] == "discard")
        return (min(flipped, 1) * 2 + min(resume, 1) * 2 + min(burst, 1) * 2 + min(nd, 1) + min(late, 1),
                flipped + resume + burst, nd + late)
    classes = {}
    for w in walks:
        classes.setdefault((w["disc"], w["ninst"]), []).append(w)
    for c in classes.values():
        c.sort(key=score, reverse=True)
    picked = []
    order = sorted(classes, key=lambda c: (not c[0], c[1]))     # discard-on classes first
    i = 0
    while len(picked) < n_pick and any(classes.values()):
        c = order[i % len(order)]
        if classes[c]:
            picked.append(classes[c].pop(0))
        if c[0] and classes[c] and len(picked) < n_pick:        # twice as many with discard on
            picked.append(classes[c].pop(0))
        i += 1
    cases = []
    for j, w in enumerate(picked):
        h = sorted(w["hist"], key=lambda e: e["k"])
        cid = first_id + j
        key = "false" if not w["disc"] else ("absent", "true", "null")[cid % 3]
        chan = ("stdin", "file", "cwd", "noext", "yml", "cwdconfig")[(cid // 3) % 6]   # input channel of cli.readConfig
        cases.append({"id": cid, "kind": "script", "key": key, "chan": chan, "ninst": w["ninst"],
                      "toks": [e["tok"] for e in h], "resp": [e["r"] for e in h], "exp": [e["d"] for e in h],
                      "pa": [e["a"] - e["tok"] for e in h], "pb": [e["b"] - e["tok"] for e in h], "fin": w["fin"],
                      "lz": [e["lz"] for e in h], "starts": sorted(w["startAt"][:w["ninst"]]), "mw": mw,
                      "grpc": bool(mw and cid % 2 == 1),    # pacing cases alternate between the http and the grpc scenario gun
                      # pacing cases: every third shot is answered with 500, so the scenario's assert/response fails and
                      # the scenario is aborted (an input dimension; the model's shot lasts max(response, MinWait) either way)
                      "fail": [1 if mw and e["d"] == "fire" and (cid + e["k"]) % 3 == 0 else 0 for e in h],
                      "desc": "script tokens=%s resp=%s%s instances=%d discard_overflow=%s" % (
                          [e["tok"] for e in h], [e["r"] for e in h],
                          (" desched_after_next=%s" % [e["lz"] for e in h]) if lazy else "", w["ninst"], key) +
                              (" instance_starts=%s" % w["startAt"][:w["ninst"]] if max(w["startAt"]) > 0 else "") +
                              (" REAL %s/scenario gun, min_waiting_time=%d ms" % ("grpc" if cid % 2 == 1 else "http", mw * 100) if mw else "")})
    return cases, len(walks)


CANARY = 1000000
# Synthetic runs appended to every batch: TraceTiming MUST flag exactly these rules on them, otherwise the trace
# specification has lost its teeth (machinery failure).  They never count as verdicts about the code.
def canary_rows():
    t = lambda run, k, tok, a, b, d, net=0, tag="", mw=0, pf=-1, dur=0, srv=0, psleep=False: {
        "ev": "tok", "run": run, "k": k, "tok": tok, "a": a, "b": b, "d": d, "net": net, "tag": tag, "dur": dur,
        "exp": "", "pa": 0, "pb": 0, "mw": mw, "pf": pf, "srv": srv, "gs": 0, "psleep": psleep}
    c1, c2 = CANARY, CANARY + 1
    rows = [
        {"ev": "run", "run": c1, "kind": "canary", "key": "absent", "got": True, "ninst": 1, "desc": "canary on"},
        t(c1, 1, 100000, 2600000, 2600010, "fire"),                      # fired-two-seconds-late
        t(c1, 2, 200000, 1200000, 1200010, "discard", 777, "discarded"), # discarded-inside-window
        t(c1, 3, 300000, 3300000, 3300010, "discard", 0, "discarded"),   # discard-not-marked (net)
        t(c1, 4, 300000, 3300000, 3300010, "discard", 777, ""),          # discard-not-marked (tag)
        t(c1, 5, 400000, 100000, 399999, "fire"),                        # fired-early (1 us)
        t(c1, 6, 500000, 500000, 500010, "both"),                        # shot-and-discarded
        {"ev": "end", "run": c1, "end": 19000000, "left": 0, "drawn": 7, "err": "", "timeout": False, "last": 500000, "orphans": 0},
        {"ev": "run", "run": c2, "kind": "canary", "key": "absent", "got": False, "ninst": 1, "desc": "canary off"},
        t(c2, 1, 100000, 3100000, 3100010, "discard", 777, "discarded"), # discarded-while-off
        t(c2, 2, 100000, 3100000, 3100010, "fire"),                      # fine: late but discard is off
        t(c2, 3, 100000, 3100000, 3600000, "fire", mw=1000000, pf=3100010, dur=1000000),           # next-shot-before-min-wait
        t(c2, 4, 100000, 3100000, 4700000, "fire", mw=1000000, pf=3600000, dur=999999),            # shot-shorter-than-min-wait
        t(c2, 5, 100000, 3100000, 5800000, "fire", mw=1000000, pf=4700000, dur=10500001, srv=2500000),  # paced-longer-than-needed
        t(c2, 6, 100000, 3100000, 17000000, "fire", mw=1000000, pf=5800000, dur=2600000, srv=2500000, psleep=True),  # paced-although-served-longer
        t(c2, 7, 100000, 3100000, 20000000, "fire", mw=1000000, pf=17000000, dur=1000000, srv=400000, psleep=True),  # fine: the wait was needed
        {"ev": "end", "run": c2, "end": 4000000, "left": 0, "drawn": 7, "err": "", "timeout": False, "last": 100000, "orphans": 0},
        {"ev": "conf", "run": c2, "pool": 0, "key": "false", "got": True},
        {"ev": "conf", "run": c2, "pool": 1, "key": "null", "got": False, "chan": "stdin"},
    ]
    expect = {(c1, "fired-two-seconds-late"), (c1, "discarded-inside-window"), (c1, "discard-not-marked"),
              (c1, "fired-early"), (c1, "shot-and-discarded"), (c1, "token-lost"), (c1, "run-not-bounded"),
              (c2, "default-not-applied"), (c2, "discarded-while-off"), (c2, "not-all-fired-while-off"),
              (c2, "next-shot-before-min-wait"), (c2, "shot-shorter-than-min-wait"), (c2, "paced-longer-than-needed"),
              (c2, "paced-although-served-longer")}
    return rows, expect


def validate(v, trace_path, cases_by_id):
    rows = vlib.read_ndjson(trace_path)
    crow, cexpect = canary_rows()
    rows = rows + crow
    trace_path = trace_path + ".canary"
    vlib.write_ndjson(trace_path, rows)
    tr = vlib.tlc("TraceTiming", "TraceTiming.cfg", env={"VERIF_TRACE": trace_path}, workers=1, deadlock=False,
                  timeout=900, heap="2g")
    if tr.error or tr.violation:
        raise vlib.MachineryError("TraceTiming failed: %s %s\n%s" % (tr.kind, tr.what, tr.out[-3000:]))
    rep = prints_json(tr)
    if len(rep) != 1 or rep[0]["lines"] != len(rows):
        raise vlib.MachineryError("TraceTiming did not consume the whole trace (%d lines)\n%s" % (len(rows), tr.out[-2000:]))
    rep = rep[0]
    seen = {}
    machinery = []
    cgot = {}
    for e in rep["viol"]:
        row = rows[e["l"] - 1]
        e["run"] = row["run"]
        if e["run"] >= CANARY:
            cgot[(e["run"], e["rule"])] = cgot.get((e["run"], e["rule"]), 0) + 1
            continue
        case = cases_by_id.get(e["run"]) or {"id": e["run"], "kind": row.get("kind", row["ev"]), "key": row.get("key"),
                                             "desc": "multi-pool configuration, pool %s" % row.get("pool")}
        if e["rule"] in ("run-error", "run-timeout-off"):
            machinery.append("%s: case %s: %s" % (e["rule"], case.get("desc"), row))
            continue
        key = (e["rule"], e["run"])
        seen[key] = seen.get(key, 0) + 1
        if seen[key] > 1 or sum(1 for k_ in seen if k_[0] == e["rule"]) > 6:
            continue
        sig = "rule=%s kind=%s key=%s" % (e["rule"], case.get("kind"), case.get("key"))
        if e["rule"] == "default-not-applied":
            sig += " channel=%s" % row.get("chan")
        if row["ev"] == "tok":
            what = ("token %d of run %d (%s): scheduled at %d us, handed out at %d us, %s at %d us (late by %d..%d us), "
                    "net=%s tag=%r%s" % (row["k"], e["run"], case.get("desc"), row["tok"], row["a"],
                                        {"fire": "Shoot entered", "discard": "discarded sample reported"}.get(row["d"], row["d"]),
                                        row["b"], row["a"] - row["tok"], row["b"] - row["tok"], row["net"], row["tag"],
                                        (" expected by Timing.tla: %s" % row["exp"]) if row.get("exp") else ""))
        else:
            what = "run %d (%s): %s" % (e["run"], case.get("desc"), {k_: row[k_] for k_ in row if k_ not in ("ev",)})
        v.violation(sig, "%s — %s" % (e["rule"], what),
                    replay_obj={"kind": "timing", "rule": e["rule"], "case": case, "line": row,
                                "events": [r_ for r_ in rows if r_.get("run") == e["run"]]},
                    replay_name="%s_run%d.json" % (e["rule"], e["run"]))
    if set(cgot) != cexpect or cgot[(CANARY, "discard-not-marked")] != 2 or cgot[(CANARY + 1, "default-not-applied")] != 3:
        raise vlib.MachineryError("TraceTiming canary: flagged %s, expected %s" % (sorted(cgot.items()), sorted(cexpect)))
    rep["runs"] -= 2
    rep["toks"] -= 13
    rep["canary"] = sum(cgot.values())
    rows = rows[:-len(crow)]
    if machinery and not v.violations:
        raise vlib.MachineryError("; ".join(machinery[:3]))
    return rep, rows, tr.distinct


def run(tier, v):
    thorough = tier == "thorough"
    vlib.spec_copy()
    design = {}
    th = threading.Thread(target=design_level, args=(thorough, design))
    th.start()
    unb = {}
    uth = threading.Thread(target=unbounded_evidence, args=(unb,)) if thorough else None
    if uth:
        uth.start()
    try:
        d = vlib.scratch("c04-timing-")
        n_scripts, n_gap, n_lazy, n_random, n_walks, n_confs = (140, 60, 100, 160, 3000, 72) if thorough else (20, 8, 10, 28, 800, 24)
        n_pace = 40 if thorough else 6
        n_burst = 60 if thorough else 8      # equal-time bursts (gap 0) with responses of about a second
        # script families (generated in parallel; ids are disjoint ranges):
        #   sim     prompt machine, 8 tokens            sim12  (thorough) 12 tokens, up to 11 s
        #   simgap  bursts separated by a pause longer than the window: a waiter that was behind has to sleep again
        #   simlazy descheduling of 3/6 ticks between Next() and the Waiter's clock reading (injected by the harness)
        fams = [("Timing_sim.cfg", n_scripts, 1)] + ([("Timing_sim12.cfg", 60, 2001)] if thorough else []) + \
               [("Timing_simgap.cfg", n_gap, 4001), ("Timing_simlazy.cfg", n_lazy, 6001), ("Timing_simpace.cfg", n_pace, 8001),
                ("Timing_simburst.cfg", n_burst, 9001)]
        got = {}

        def gen(cfg, n, first):
            try:
                got[cfg] = scripts_from_tlc(n_walks, n, first_id=first, cfg=cfg)
            except BaseException as ex:  # noqa
                got[cfg] = ex
        gts = [threading.Thread(target=gen, args=f) for f in fams]
        [t.start() for t in gts]
        b = vlib.harness_build()
        [t.join() for t in gts]
        scripts, nwalks, lscripts = [], 0, []
        for cfg, _, _ in fams:
            if isinstance(got[cfg], BaseException):
                raise got[cfg]
            scripts += got[cfg][0]
            nwalks += got[cfg][1]
            if cfg == "Timing_simlazy.cfg":
                lscripts = got[cfg][0]
        cin = os.path.join(d, "scripts.ndjson")
        vlib.write_ndjson(cin, scripts)
        out = os.path.join(d, "trace.ndjson")
        cout = os.path.join(d, "cases.ndjson")
        t0 = time.time()
        vlib.run_driver(b, ["timing", "-in", cin, "-random", str(n_random), "-confs", str(n_confs), "-out", out,
                            "-cases-out", cout, "-par", "64"], timeout=1500)
        drv_wall = time.time() - t0
        cases = {c["id"]: c for c in vlib.read_ndjson(cout)}
        rep, rows, tstates = validate(v, out, cases)
    finally:
        th.join()
        if uth:
            uth.join()
    if "error" in design:
        raise design["error"]
    script_toks = sum(len(c["toks"]) for c in scripts)
    if script_toks and rep["confirmed"] + rep["offscript"] < script_toks * 0.9 and not v.violations:
        raise vlib.MachineryError("script tokens missing from the trace: %d of %d" % (rep["confirmed"] + rep["offscript"], script_toks))
    if rep["offscript"] > rep["confirmed"]:
        vlib.log("note: %d of %d script tokens were off script (machine loaded?) — they are judged by the one-sided "
                 "rules only" % (rep["offscript"], script_toks))
    toks = [r_ for r_ in rows if r_["ev"] == "tok"]
    samples = [{"case": scripts[0]["desc"], "expected": scripts[0]["exp"],
                "observed": [[r_["k"], r_["d"], r_["a"] - r_["tok"], r_["b"] - r_["tok"]] for r_ in toks if r_["run"] == scripts[0]["id"]]}]
    rnd = [c for c in cases.values() if c["kind"] == "random"][:2]
    for c in rnd:
        samples.append({"case": c["desc"][:300],
                        "observed": [[r_["k"], r_["d"], r_["a"] - r_["tok"], r_["b"] - r_["tok"]] for r_ in toks if r_["run"] == c["id"]][:12]})
    cov = {
        "states": design["states"], "transitions": design["trans"],
        "traces_validated_against_impl": rep["runs"],
        "samples": samples,
        "design_configs": design["per"],
        "negative_controls": design["negs"],
        "script_walks_complete": nwalks, "scripts_replayed": len(scripts), "descheduling_scripts_replayed": len(lscripts),
        "descheduling_flipped_decisions_replayed": sum(1 for c in lscripts for i_ in range(len(c["toks"]))
                                                       if c["pa"][i_] < 20 <= c["pb"][i_]), "random_histories": len(cases) - len(scripts),
        "tokens_judged": rep["toks"],
        "tokens_discarded_observed": sum(1 for r_ in toks if r_["d"] == "discard"),
        "tokens_fired_late_observed": sum(1 for r_ in toks if r_["d"] == "fire" and r_["a"] - r_["tok"] > 100000),
        "max_lateness_fired_us": max([r_["a"] - r_["tok"] for r_ in toks if r_["d"] == "fire"] or [0]),
        "script_tokens_confirmed_on_script": rep["confirmed"], "script_tokens_off_script": rep["offscript"],
        "config_default_cases": {k_: sum(1 for c in cases.values() if c["key"] == k_) +
                                 sum(1 for r_ in rows if r_["ev"] == "conf" and r_["key"] == k_ and r_["run"] < CANARY)
                                 for k_ in ("absent", "true", "false", "null")},
        "config_channels": {ch: sum(1 for r_ in rows if r_["ev"] in ("conf", "run") and r_.get("chan") == ch and r_["run"] < CANARY)
                            for ch in ("file", "yml", "noext", "stdin", "cwd", "cwdconfig")},
        "burst_scripts_replayed": sum(1 for c in scripts if 9001 <= c["id"] < 10000),
        "trace_spec_canary_violations_flagged": rep["canary"],
        "pacing_scripts_real_scenario_gun": {"http": sum(1 for c in scripts if c.get("mw") and not c.get("grpc")),
                                             "grpc": sum(1 for c in scripts if c.get("mw") and c.get("grpc"))},
        "pacing_shots_observed": sum(1 for r_ in toks if r_.get("mw", 0) > 0 and r_["d"] == "fire"),
        "pacing_shots_aborted_by_failed_step": sum(sum(c["fail"]) for c in scripts if c.get("mw")),
        "slow_worker_runs_3_instances": sum(1 for c in cases.values() if c.get("slowms")),
        "trace_states": tstates, "driver_wall_s": round(drv_wall, 1),
        "exhaustive": False,
    }
    if thorough:
        cov["unbounded_evidence"] = unb.get("unbounded", {"status": "not run"})
    return "model_checking", cov, [
        "exhaustive TLC bounds: 3 tokens (4 in thorough), gaps {0,1,3,5,30} ticks, responses {0,5,25,35} ticks, 1-2 instances, "
        "lazy-tick budget 2 with one instance (2 with two instances and 22 with one instance in thorough); 3 instances x 4 tokens "
        "(prompt) in thorough",
        "real-time runs: the two one-sided discard rules are judged from stamps that bracket the Waiter's clock reading; "
        "the exact boundary (lateness within the [a,b] interval / +-1 ms of 2 s) is decided at design level only",
        "run-length bound checked with the measured response times and 8 s scheduling slack",
        "trusted: recording Schedule wrapper / gun / aggregator mocks of harness/cmd/vdrive/timing.go, goroutine-id tagging"]


def replay(path, v):
    obj = json.load(open(path))
    b = vlib.harness_build()
    d = vlib.scratch()
    case = obj["case"]
    cin = os.path.join(d, "case.ndjson")
    out = os.path.join(d, "trace.ndjson")
    if case.get("kind") == "conf":
        vlib.run_driver(b, ["timing", "-confs", "12", "-out", out], timeout=600)
        validate(v, out, {})
        return None
    vlib.write_ndjson(cin, [case])
    vlib.run_driver(b, ["timing", "-in", cin, "-out", out], timeout=600)
    validate(v, out, {case["id"]: case})
    return None
