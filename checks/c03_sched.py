"""C03 extra (thorough tier): PoolSched.tla - Pool.tla composed with the composite schedule's own steps
(RW-lock, shift, retry) and the Waiter's due/sleep decision - model-checked for all interleavings of 2 instances,
and bound to the real engine: runs with shared two-part composites validated by TracePoolSched.tla (logged
Left()/Next() results = return steps, everything inside a call = silent steps, high-water mark + POSTCONDITION)."""
import os
import re
import vlib
import pool_common as pc

NEGS = ["PoolSched_neg_leftbug.cfg", "PoolSched_neg_leftbug_zero.cfg"]


def design():
    r = vlib.tlc("PoolSchedMC", "PoolSched_exh.cfg", workers=8, timeout=1500, heap="8g")
    vlib.tlc_must_pass(r, "PoolSched_exh.cfg")
    for n in NEGS:
        vlib.tlc_must_fail(vlib.tlc("PoolSchedMC", n, workers=2, timeout=600, heap="3g"), n)
    return r.distinct, r.generated


def _hwm(out):
    m = re.findall(r'<<"VERIF-HWM", (\d+)>>', out)
    return int(m[-1]) if m else None


def validate(v, rows, d, tag="c03sched"):
    """Returns (runs accepted, states).  A run PoolSched cannot reproduce is a violation; the rest continues."""
    accepted = states = 0
    for attempt in range(6):
        if not rows:
            break
        p = os.path.join(d, "%s_%d.ndjson" % (tag, attempt))
        pc.write_rows(p, rows)
        tr = vlib.tlc("TracePoolSched", "TracePoolSched.cfg", env={"VERIF_TRACE": p}, workers=1, deadlock=False,
                      dfs=True, timeout=1800, heap="6g")
        states += tr.distinct
        hwm = _hwm(tr.out)
        runs = sorted({r["run"] for r in rows})
        if hwm is None and not tr.violation:
            raise vlib.MachineryError("TracePoolSched failed: %s rc=%s\n%s" % (tr.kind, tr.rc, tr.out[-3000:]))
        if tr.violation and tr.kind == "invariant":
            ln = int(tr.trace_state.get("l", "2"))
            idx = min(max(ln - 2, 0), len(rows) - 1)
            what = tr.what
        elif hwm == len(rows) + 1:
            accepted += len(runs)
            break
        else:
            idx = min(hwm, len(rows)) - 1          # the line no behaviour of PoolSched could consume
            what = "Accepted"
        ev = rows[idx]
        run = ev["run"]
        conf = next(r for r in rows if r["ev"] == "conf" and r["run"] == run)
        v.violation("poolsched trace inv=%s %s tree=%s" % (what, ev["ev"] if what == "Accepted" else "",
                                                          "/".join(t["kind"] for t in conf["tree"])),
                    "real engine run with a shared composite schedule is not a behaviour of PoolSched.tla (%s) at entry %s [%s]"
                    % (what, {k: ev.get(k) for k in ("ev", "inst", "item", "n", "ok")}, conf["desc"]),
                    replay_obj={"kind": "poolsched", "conf": conf, "events": [r for r in rows if r["run"] == run], "at": idx},
                    replay_name="%s_run%d.json" % (tag, run))
        accepted += len([r for r in runs if r < run])
        rows = [r for r in rows if r["run"] > run]
    return accepted, states


def bind(v, b, d, runs):
    path = os.path.join(d, "c03sched.ndjson")
    vlib.run_driver(b, ["pool", "-out", path, "-runs", str(runs), "-focus", "c03sched"], timeout=1800)
    rows = vlib.read_ndjson(path)
    acc, st = validate(v, rows, d)
    # the same runs are ordinary pool runs too: Pool.tla's atomic grain must accept them as well
    acc2, st2 = pc.validate_parallel(v, "C03", rows, d, "c03sched_pool")
    return {"poolsched_runs": len({r["run"] for r in rows}), "poolsched_runs_accepted": acc,
            "poolsched_trace_states": st, "poolsched_runs_accepted_by_TracePool": acc2,
            "poolsched_shift_runs": len({r["run"] for r in rows if r["ev"] == "conf" and r["tree"]})}
