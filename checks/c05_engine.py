"""C05 growth: the engine above the pools (Engine.tla / TraceEngine.tla), called from checks/c05.py.

design(): Engine.tla - Engine.Run / Wait as coded, pools abstracted to the contract PoolRun.tla establishes, 2-3 pools
          per plan: exhaustive safety (FirstError, AllNil, StopAfterReturn, WaitAfterAll, ...; deadlock check = nothing
          hangs, no pool goroutine stuck), liveness under fairness, negative controls that must fail; TLC prints the plans.
bind():   `vdrive poolrun` runs the REAL engine on those plans (2-3 pools of scripted mocks), TraceEngine.tla validates
          the engine-level lines (engine.VerifSink hooks PoolReturn / WaitDone / EngineReturn, mock stop events, driver).
"""
import json
import os

import vlib

NEGATIVE = [
    ("Engine_neg_callerctx.cfg", "invariant", "StopAfterReturn"),   # pools on the caller's ctx
    ("Engine_neg_reportblocks.cfg", "deadlock", ""),                # pool goroutine sends without the ctx.Done alternative
    ("Engine_neg_lasterror.cfg", "invariant", "FirstError"),        # Run keeps collecting and returns the last error
    ("Engine_neg_waitfirst.cfg", "invariant", "WaitAfterAll"),      # only the first pool registered in the WaitGroup
    ("Engine_neg_noengselect.cfg", "invariant", "CancelPrompt"),    # Run's loop without `case <-ctx.Done()` (seeded C05-7)
    ("Engine_neg_pendingbyid.cfg", "invariant", "AllNil"),          # Run keeps a SET of pending pool ids; pools sharing an id (seeded C05-10)
    ("Engine_neg_callerctx_live.cfg", "temporal", ""),              # thorough only
    ("Engine_neg_noengselect_live.cfg", "temporal", ""),            # thorough only
]


def design(thorough, fix_temporal):
    main_cfg = "Engine_exh.cfg" if thorough else "Engine_quick.cfg"
    r = fix_temporal(vlib.tlc("EnginePlans", main_cfg, workers=max(2, vlib.NCPU // 4), timeout=1800, heap="8g" if thorough else "3g"))
    vlib.log("   (%s)" % main_cfg)
    vlib.tlc_must_pass(r, main_cfg)
    plans = []
    for ln in r.out.splitlines():
        if ln.startswith('<<"VERIF", "'):
            plans.append(json.loads(json.loads(ln[len('<<"VERIF", '):-2])))
    plans.sort(key=lambda p: p["id"])
    if len(plans) < 10:
        raise vlib.MachineryError("only %d engine plans exported by TLC" % len(plans))
    states, trans, cfgs = r.distinct, r.generated, [main_cfg]
    for cfg in (["Engine_live.cfg", "Engine_prompt.cfg"] if thorough else ["Engine_liveq.cfg"]):
        rl = fix_temporal(vlib.tlc("EngineMC", cfg, workers=2, timeout=1800, deadlock=False))
        vlib.log("   (%s)" % cfg)
        vlib.tlc_must_pass(rl, cfg)
        states += rl.distinct
        trans += rl.generated
        cfgs.append(cfg)
    negs = []
    for cfg, kind, what in NEGATIVE:
        if cfg.endswith("_live.cfg") and not thorough:
            continue
        rn = fix_temporal(vlib.tlc("EngineMC", cfg, workers=1, timeout=600))
        vlib.log("   (%s)" % cfg)
        vlib.tlc_must_fail(rn, cfg)
        if rn.kind != kind or (what and rn.what != what):
            raise vlib.MachineryError("negative control %s failed with %s %s, expected %s %s" % (cfg, rn.kind, rn.what, kind, what))
        negs.append(cfg)
    return {"plans": plans, "states": states, "transitions": trans,
            "coverage": {"engine_states": states, "engine_transitions": trans, "engine_design_configs": cfgs,
                         "engine_negative_controls": negs, "engine_plans": len(plans)}}


def bind(thorough, v, b, d, eng, validate):
    plans = eng["plans"]
    pf = os.path.join(d, "engine_plans.ndjson")
    vlib.write_ndjson(pf, plans)
    out = os.path.join(d, "engine_runs.ndjson")
    n = "25" if thorough else "3"
    p = vlib.run_driver(b, ["poolrun", "-plans", pf, "-out", out, "-runs", n, "-runs2", n], timeout=3000)
    stats = json.loads(p.stdout.strip().splitlines()[-1])
    rows = vlib.read_ndjson(out)
    accepted, nruns, tstates, rejected = validate(v, rows, plans, d, workers=max(2, vlib.NCPU // 2), module="TraceEngine")
    outcomes = {}
    for r_ in rows:
        if r_["ev"] == "RunReturn":
            k = r_["cls"] + (":p%d:%s" % (r_["p"], r_["c"]) if r_["c"] else "")
            outcomes[k] = outcomes.get(k, 0) + 1
    return {"engine_traces_validated": accepted, "engine_runs": nruns, "engine_rejected_runs": len(rejected),
            "engine_hangs": stats["hangs"], "engine_trace_validation_states": tstates, "engine_run_outcomes": outcomes}
