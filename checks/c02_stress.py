"""C02 M1: free-running stress histories of real schedule trees validated by TraceSchedStress.tla."""
import os
import vlib


def validate(v, path, rows=None):
    rows = rows if rows is not None else vlib.read_ndjson(path)
    d = os.path.dirname(path)
    validated = 0
    for attempt in range(6):
        if not rows:
            break
        p = os.path.join(d, "stress_%d.ndjson" % attempt)
        vlib.write_ndjson(p, rows)
        tr = vlib.tlc("TraceSchedStress", "TraceSchedStress.cfg", env={"VERIF_TRACE": p}, workers=1, deadlock=False,
                      timeout=1800, heap="8g")
        if tr.error:
            raise vlib.MachineryError("TraceSchedStress failed: %s\n%s" % (tr.kind, tr.out[-3000:]))
        runs = sorted({r["run"] for r in rows})
        if not tr.violation:
            validated += len(runs)
            break
        ln = int(tr.trace_state.get("l", "1"))
        idx = min(max(ln - (1 if tr.what == "Accepted" else 2), 0), len(rows) - 1)
        ev = rows[idx]
        run = ev["run"]
        bad = tr.trace_state.get("bad", "").replace(" ", "")
        tree = next(r for r in rows if r["ev"] == "tree" and r["run"] == run)
        has_unl = any(lf["kind"] == "unl" for lf in tree["leaves"])
        v.violation("stress inv=%s bad=%s unl=%s" % (tr.what, bad, has_unl),
                    "history of real tree %s violates the token contract at event %s (%s %s)" % (
                        tree["desc"], {k: ev.get(k) for k in ("ev", "g", "op", "t", "ok", "left")}, tr.what, bad),
                    replay_obj={"kind": "stress", "tree": tree, "events": [r for r in rows if r["run"] == run], "at": idx},
                    replay_name="stress_run%d.json" % run)
        validated += len([r for r in runs if r < run])
        rows = [r for r in rows if r["run"] > run]
    return validated


def run(tier, v, b, d):
    n = 600 if tier == "thorough" else 60
    path = os.path.join(d, "stress.ndjson")
    vlib.run_driver(b, ["schedstress", "-out", path, "-runs", str(n)], timeout=1800)
    rows = vlib.read_ndjson(path)
    validated = validate(v, path, rows)
    trees = [r for r in rows if r["ev"] == "tree"]
    samples = []
    for t in trees[:2]:
        evs = [r for r in rows if r["run"] == t["run"] and r["ev"] != "tree"][:8]
        samples.append({"tree": t["desc"], "goroutines": t["g"],
                        "first_events": [[e["ev"], e["g"], e["op"], e["t"] if e["op"] == "N" else e["left"], e["ok"]] for e in evs]})
    return {"runs": len(trees), "events": len(rows), "validated": validated, "samples": samples}


def replay(obj, v, d):
    path = os.path.join(d, "one.ndjson")
    validate(v, path, obj["events"])
