"""C02 extra: unbounded evidence on top of TLC, reported separately in the evidence (coverage.unbounded_evidence) and
NEVER a verdict about the code.

spec/SchedInd.tla is the count-deciding grain of Schedule.tla for a flat composite of 4 parts: doAtSchedule's
fetch-and-increment (every index at most once - stated with an arbitrary witness token -, Left = max(0, n - i)), the
read-locked draw / write-locked re-check + startNext of compositeSchedule.Next, Left() = left + leftAfter with the sticky
unknown, shift and retry.  Token counts, the witness, the number of calls are unconstrained integers; Apalache (SMT)
discharges  Init => IndInv,  IndInv /\\ Next => IndInv',  IndInv => Contract,  and the wrong variants (the shipped
Left(), no re-check after the lock upgrade, the invariant without its strengthening) must all be refuted.
The same module is model-checked by TLC on three small shapes (SchedIndMC), so both tools exercise one text.

A missing / stalling tool is a note in the evidence.  A refuted obligation or a surviving control is a defect of the
MODEL (machinery failure), like any design-level TLC counterexample.
"""
import os
import shutil
import subprocess
import time
import vlib

OBLIGATIONS = [   # name, apalache arguments, must hold
    ("init_establishes_IndInv", ["--cinit=CInit", "--init=Init", "--inv=IndInv", "--length=0"], True),
    ("IndInv_is_inductive", ["--cinit=CInit", "--init=IndInit", "--inv=IndInv", "--length=1"], True),
    ("IndInv_implies_contract", ["--cinit=CInit", "--init=IndInit", "--inv=Contract", "--length=0"], True),
    ("control_shipped_Left_violates_LeftExact_from_Init", ["--cinit=CInitLeftBug", "--init=Init", "--inv=LeftExact", "--length=2"], False),
    ("control_no_recheck_violates_contract_from_Init", ["--cinit=CInitNoRecheck", "--init=Init", "--inv=Contract", "--length=6"], False),
    ("control_no_recheck_not_inductive", ["--cinit=CInitNoRecheck", "--init=IndInit", "--inv=IndInv", "--length=1"], False),
    ("control_weak_invariant_not_inductive", ["--cinit=CInit", "--init=IndInitWeak", "--inv=Weak", "--length=1"], False),
]
TLC_CFGS = ["SchedInd_tlcA.cfg", "SchedInd_tlcB.cfg", "SchedInd_tlcC.cfg"]
PER_RUN_TIMEOUT = 240     # measured 8-22 s each on the quiet machine


def _apalache(exe, d, name, args, out):
    t0 = time.time()
    try:
        p = subprocess.run(["timeout", str(PER_RUN_TIMEOUT), exe, "check"] + args +
                           ["--out-dir=" + os.path.join(d, "out_" + name), "SchedInd.tla"], cwd=d,
                           stdout=subprocess.PIPE, stderr=subprocess.STDOUT, text=True, timeout=PER_RUN_TIMEOUT + 30)
        if "The outcome is: NoError" in p.stdout:
            res = "holds"
        elif "The outcome is: Error" in p.stdout and p.returncode == 12:
            res = "counterexample"
        else:
            res = "tool failure rc=%s (no result)" % p.returncode
    except subprocess.TimeoutExpired:
        res = "tool timeout (no result)"
    except Exception as ex:  # noqa
        res = "tool failure: %s (no result)" % ex
    out[name] = {"outcome": res, "wall_s": round(time.time() - t0, 1)}


def run(parallel=3):
    """Returns the dict stored as coverage.unbounded_evidence; raises MachineryError only when the MODEL is refuted."""
    import threading
    ev = {"tool": "apalache-mc", "module": "SchedInd.tla", "obligations": {}, "status": "not run"}
    exe = shutil.which("apalache-mc")
    t0 = time.time()
    if exe:
        d = vlib.scratch("c02-apalache-")
        shutil.copyfile(os.path.join(vlib.SPEC, "SchedInd.tla"), os.path.join(d, "SchedInd.tla"))
        res = {}
        sem = threading.Semaphore(parallel)

        def one(name, args):
            with sem:
                _apalache(exe, d, name, args, res)
        ths = [threading.Thread(target=one, args=(nm, a)) for nm, a, _ in OBLIGATIONS]
        [t.start() for t in ths]
        [t.join() for t in ths]
        ok = True
        for name, _, must_hold in OBLIGATIONS:
            r = res.get(name, {"outcome": "not run"})
            r["expected"] = "holds" if must_hold else "counterexample"
            ev["obligations"][name] = r
            if must_hold and r["outcome"] == "counterexample":
                raise vlib.MachineryError("Apalache refutes %s of SchedInd.tla: the abstraction or its invariant is wrong" % name)
            if not must_hold and r["outcome"] == "holds":
                raise vlib.MachineryError("Apalache control %s of SchedInd.tla found no counterexample: the obligation is vacuous" % name)
            ok = ok and r["outcome"] == r["expected"]
        ev["status"] = ("inductive invariant discharged: exactly-once, Left() = remaining / -1 iff unknown, final !ok only when "
                        "drained, no panic - for ALL token counts of a flat 4-part composite (every control refuted as it must be)"
                        if ok else "NOT discharged (tool failure or timeout, see obligations) - no claim of unbounded evidence in this run")
    else:
        ev["status"] = "apalache-mc not installed: skipped"
    ev["apalache_wall_s"] = round(time.time() - t0, 1)
    # the same module on small shapes with TLC
    tl = {}
    for cfg in TLC_CFGS:
        r = vlib.tlc("SchedIndMC", cfg, workers=2, timeout=600, deadlock=False, heap="2g")
        vlib.tlc_must_pass(r, cfg)
        tl[cfg] = r.distinct
    vlib.tlc_must_fail(vlib.tlc("SchedIndMC", "SchedInd_tlc_neg_leftbug.cfg", workers=1, timeout=300, deadlock=False, heap="1g"),
                       "SchedInd_tlc_neg_leftbug.cfg")
    ev["tlc_states_small_shapes"] = tl
    return ev
