"""C17 — config decoding: unknown keys rejected, defaults kept, values validated.

TLC design level : ConfigDecode.tla — the hand-transcribed schema (documented keys, defaults, constraints) of three
                   two-pool configurations covering every built-in gun / ammo / result / schedule kind, the complete
                   mutation space (unknown key at every map level, wrong type / out-of-range value / placeholder
                   env|property set|unset at every leaf, every optional key left out, every required component
                   dropped) pushed through a staged decoder model; the property as invariants; five negative controls.
M2 (spec->code)  : TLC writes the variants, `vdrive confdecode -mode points` finds every struct level of the REAL
                   decoded config by reflection (following plugin fields through the registry's config types), TLC
                   writes the complete case list incl. an unknown-key case for every such level; the driver renders
                   each case as a Go map in the viper and the yaml.v2 shape, runs the real decoding chain
                   (config.DecodeAndValidate after the real imports; cli.VerifReadConfig for the CLI reader) and reads
                   the decoded component configs back; TraceConfigDecode.tla evaluates the property invariants on every
                   observed result and compares outcome and every decoded leaf with the model.
"""
import json
import os
import threading
import vlib

PID = "C17"

MANIFEST = dict(
    category="model_checking",
    technique="TLA+ spec ConfigDecode (hand-transcribed documented schema + staged decoder model, property as invariants) model-checked over "
              "the complete mutation space; every TLC-generated case decoded by the real chain in both map shapes and through the CLI reader, "
              "decoded values read back through recording constructors, validated by TLC (TraceConfigDecode)",
    design_ref="DESIGN.md §4 C17",
    text=("ConfigDecode.tla holds the documented keys, defaults and constraints (docs/eng + long-standing struct keys) of three two-pool "
          "configurations that together use every built-in gun, provider, aggregator and schedule kind (rps/startup as object, list and "
          "nested composite), log and monitoring; a staged model of the decoder (placeholder substitution, typed decoding, unused keys, "
          "validation tags, defaults, discard_overflow put in by the CLI reader); and the property as invariants over (case, result): Strict, "
          "Typed, Constrained, Placeholders, NoSpuriousError, DefaultsKept. TLC checks them for all ~2 900 mutations x 2 paths and five negative "
          "controls fail. Binding: TLC generates the cases; the insertion points for unknown keys also come from reflection over the real decoded "
          "structs (a documented level missing from the structs is reported); the driver decodes each case with the real imports/hook chain as "
          "map[string]any and map[any]any and through cli.VerifReadConfig (viper + YAML file), reads every leaf of the decoded component configs "
          "back through recording constructors mirroring the real registrations (same config type and default func, taken from the registry), "
          "and a sample also with the real constructors; TLC evaluates the property invariants on every observed result and compares outcome "
          "and each leaf with the model. Right level: the statement quantifies over all config paths and field positions; tests decode toy structs."),
    note=("Also: several placeholders in one value (resolvable / empty / unresolvable in every position, env, property and mixed sources, "
          "with and without literal text: an error iff any of them cannot be resolved), oneof value classes incl. values made of several "
          "allowed words, value classes that follow from the kind of a leaf (fractional / out-of-range number into an integer option, negative into an "
          "unsigned one, integral float accepted), every value class also delivered through a placeholder, the moment an error is reported "
          "(load | first call of the factory of a lazily decoded section: rps, grpc guns) pinned, and the input channel of the CLI reader x file "
          "syntax (file .yaml/.yml/no extension/.json/.toml, stdin, ./load.yaml, ./load.json, ./config/load.yaml with decoys in the search "
          "directories) as a dimension of the cli path. One mutation at a time on three base configurations; values are one representative per leaf (one non-default value, one wrong-typed, "
          "the listed out-of-range values); effective defaults applied downstream of decoding (max-idle-conns-per-host, fallback-delay, "
          "client-number, grpc timeouts) are pinned as the decoded zero value; scenario-file contents (HCL/YAML) belong to C16. Trusted: the "
          "recording driver incl. its reflection over the registry, the schema transcription, TLC."),
)

NEGS = ["ConfigDecode_neg_unused.cfg", "ConfigDecode_neg_novalidate.cfg", "ConfigDecode_neg_weak.cfg",
        "ConfigDecode_neg_unset.cfg", "ConfigDecode_neg_discard.cfg", "ConfigDecode_neg_stdin.cfg",
        "ConfigDecode_neg_oneofwords.cfg", "ConfigDecode_neg_lastonly.cfg"]
INVS = ["NoPanic", "Conforms", "TStage", "TStrict", "TTyped", "TConstrained", "TPlaceholders", "TNoSpuriousError", "TValues"]


def path_s(p):
    return ".".join(p) if p else "<root>"


def generic_path(p):
    """pools.#2.rps.#3.times -> pool.rps[].times : the failing input CLASS, not the instance."""
    out = []
    for e in p:
        if e.startswith("#"):
            if out and out[-1] != "pools":
                out[-1] += "[]"
            continue
        out.append(e)
    return ".".join(out) if out else "<root>"


def case_sig(row, variants):
    c = row["c"]
    s = "kind=%s path=%s" % (c["kind"], generic_path(c["p"]))
    if c["kind"] in ("ph", "emb"):
        s += " src=%s set=%d" % (c["src"], int(c["set"]))
    if c["kind"] == "unknown":
        s += " value=%s" % c["src"]
    if c["kind"] == "phadv":
        s += " src=%s scenario=%d" % (c["src"], c["x"])
    if c["kind"] in ("phmulti", "phmultisep"):
        s += " src=%s pattern=%d" % (c["src"], c["x"])
    if c["kind"] in ("range", "phrange"):
        s += " class=%d" % c["i"]
    comp = component_of(c, variants)
    return "%s comp=%s via=%s shape=%s reg=%s%s" % (s, comp, row["via"], row["shape"], row["reg"], channel_of(row))


def channel_of(row):
    """' channel=stdin' ... for a cli run through another input channel than a .yaml file named on the command line."""
    m = row.get("mvia", "")
    return " channel=%s" % m[4:] if m.startswith("cli-") else ""


def leaf_label(vname, p, variants):
    return "%s:%s" % (component_of({"v": vname, "p": p}, variants), generic_path(p))


def component_of(c, variants):
    """type name of the innermost plugin map the path lies in (from the variant's written configuration)."""
    best, name = -1, "-"
    for e in variants[c["v"]]["full"]:
        if e["p"][-1] == "type" and e["p"][:-1] == c["p"][:len(e["p"]) - 1] and len(e["p"]) - 1 > best:
            best, name = len(e["p"]) - 1, e["v"]
    return name


def validate(v, obs_path, rows, variants, points_path, workers=8):
    tr = vlib.tlc("TraceConfigDecode", "TraceConfigDecode.cfg", env={"VERIF_TRACE": obs_path, "VERIF_POINTS": points_path},
                  cont=True, workers=workers, heap="6g", deadlock=False, timeout=2400)
    if tr.error:
        raise vlib.MachineryError("TraceConfigDecode failed: %s\n%s" % (tr.kind, tr.out[-3000:]))
    if tr.distinct != len(rows) + 1:
        raise vlib.MachineryError("TraceConfigDecode visited %d states for %d lines" % (tr.distinct, len(rows)))
    seen = set()
    viol = []
    for inv, st in tr.all_violations:
        try:
            ln = int(st.get("l", "0"))
        except ValueError:
            ln = 0
        if 1 <= ln <= len(rows):
            viol.append((inv, ln))
    name_bad_leaves(rows, sorted({ln for inv, ln in viol if inv == "TValues"}))
    for inv, ln in viol:
        row = rows[ln - 1]
        c = row["c"]
        sig = "%s inv=%s" % (case_sig(row, variants), inv)
        detail = ""
        if inv == "TValues":
            # name the leaves: plain bookkeeping over the logged values; the verdict (which leaves are wrong) is TLC's invariant
            leaves = variants[c["v"]]["leaves"]
            bad = leaf_diff(tr, ln, row)
            labels = sorted({leaf_label(c["v"], leaves[j]["p"], variants) for j in bad})
            own = leaf_label(c["v"], c["p"], variants) in labels
            # the failing input class is the wrong leaf; the mutation only matters when it is the mutated leaf itself
            sig = "inv=TValues %s base=%s via=%s reg=%s leaf=%s" % (
                ("kind=%s src=%s" % (c["kind"], c["src"] or "-")) if own else "kind=any", c["base"], row["via"], row["reg"],
                ",".join(labels)[:300]) + channel_of(row)
            detail = " decoded: " + json.dumps({path_s(leaves[j]["p"]): row["got"][j] for j in bad})
        if sig in seen:
            continue
        seen.add(sig)
        v.violation(sig, "case %s (variant %s, base %s) via %s/%s/%s: real decoding gives %s%s%s; violates %s of TraceConfigDecode" % (
            json.dumps({k: c[k] for k in ("kind", "p", "i", "src", "set", "x")}) + " " + json.dumps(row.get("_delta", {}).get("set", []))[:200], c["v"], c["base"], row["via"], row["shape"], row["reg"],
            row["out"], (" (%s)" % row["err"][:160]) if row["err"] else "", detail, inv),
            replay_obj={"invariant": inv, "line": {k: row[k] for k in ("c", "via", "mvia", "stage", "shape", "reg", "out", "got", "err")},
                        "delta": row.get("_delta"), "phval": row.get("_phval"), "adv": row.get("_adv"), "multi": row.get("_multi")},
            replay_name="confdecode_%d_%s.json" % (ln, inv))
    return tr


_bad = {}


def leaf_diff(tr, ln, row):
    return _bad.get(ln, [])


def name_bad_leaves(rows, lines):
    """One extra TLC run over the lines TValues rejected: prints BadLeaves (the leaf indices TLC found wrong) per line."""
    if not lines:
        return
    d = vlib.scratch()
    some = os.path.join(d, "rejected.ndjson")
    vlib.write_ndjson(some, [{k: rows[ln - 1][k] for k in ("c", "via", "mvia", "stage", "shape", "reg", "out", "got", "err")} for ln in lines])
    r = vlib.tlc("TraceConfigDecode", "TraceConfigDecode_leaves.cfg", env={"VERIF_TRACE": some}, workers=1, heap="2g",
                 deadlock=False, timeout=900)
    for ln_ in r.out.splitlines():
        if ln_.startswith('<<"VERIF-BAD"'):
            nums = [int(x) for x in ln_.replace("}", " ").replace("{", " ").replace(">>", " ").replace(",", " ").split()[1:] if x.isdigit()]
            if nums and 1 <= nums[0] <= len(lines):
                _bad[lines[nums[0] - 1]] = [x - 1 for x in nums[1:]]


_points = [""]


def generate(d):
    """phase A: variants; points by reflection; phase B: cases.  Returns (variants, cases, report, paths)."""
    b = vlib.harness_build()
    empty = os.path.join(d, "empty.ndjson")
    open(empty, "w").close()
    variants_p, cases_p, points_p = (os.path.join(d, n) for n in ("variants.ndjson", "cases.ndjson", "points.ndjson"))
    env = {"VERIF_POINTS": empty, "VERIF_OUT_VARIANTS": variants_p, "VERIF_OUT_CASES": os.path.join(d, "cases0.ndjson")}
    g = vlib.tlc("ConfigDecodeMC", "ConfigDecode_genv.cfg", workers=1, heap="2g", deadlock=False, timeout=600, env=env)
    if g.error or g.violation or not os.path.exists(variants_p):
        raise vlib.MachineryError("variant generation failed\n%s" % g.out[-3000:])
    vlib.run_driver(b, ["confdecode", "-mode", "points", "-variants", variants_p, "-out", points_p], timeout=300)
    env = {"VERIF_POINTS": points_p, "VERIF_OUT_VARIANTS": variants_p, "VERIF_OUT_CASES": cases_p}
    g = vlib.tlc("ConfigDecodeMC", "ConfigDecode_gen.cfg", workers=1, heap="2g", deadlock=False, timeout=600, env=env)
    if g.error or g.violation or not os.path.exists(cases_p) or not g.prints:
        raise vlib.MachineryError("case generation failed\n%s" % g.out[-3000:])
    report = json.loads(json.loads(g.prints[-1][len('<<"VERIF", '):-2]))
    variants = {x["name"]: x for x in vlib.read_ndjson(variants_p)}
    _points[0] = points_p
    return b, variants, vlib.read_ndjson(cases_p), report, (variants_p, cases_p, points_p)


def overlapping_design():
    out = {"states": 0, "transitions": 0}
    r = vlib.tlc("ConfigDecodeConc", "ConfigDecodeConc_exh.cfg", workers=2, heap="1g", deadlock=False, timeout=600)
    vlib.tlc_must_pass(r, "ConfigDecodeConc_exh")
    out["states"], out["transitions"] = r.distinct, r.generated
    vlib.tlc_must_fail(vlib.tlc("ConfigDecodeConc", "ConfigDecodeConc_neg_shared.cfg", workers=2, heap="1g", deadlock=False, timeout=600),
                       "ConfigDecodeConc_neg_shared")
    return out


def overlapping_run(variants_p, d, thorough):
    """G goroutines decode different plugin sections at the same time, in a race-detector build.  Returns (rows, path)."""
    rb = vlib.harness_build(race=True)
    obs = os.path.join(d, "conc.ndjson")
    g, rounds = (8, 12) if thorough else (6, 3)
    p = vlib.run_driver(rb, ["confdecode", "-mode", "conc", "-variants", variants_p, "-out", obs, "-goroutines", str(g), "-rounds", str(rounds)],
                        timeout=1500, env={"GORACE": "halt_on_error=0 exitcode=0"})
    rows = vlib.read_ndjson(obs)
    if not [r_ for r_ in rows if r_["kind"] == "section"]:
        raise vlib.MachineryError("no section was decoded concurrently")
    reports = p.stderr.split("WARNING: DATA RACE")[1:]
    first = ""
    if reports:
        first = " | ".join(ln.strip() for ln in reports[0].splitlines() if ln.strip() and ("()" in ln or ".go:" in ln))[:900]
    rows.append({"kind": "race", "n": len(reports), "first": first})
    vlib.write_ndjson(obs, rows)
    return rows, obs, g, rounds


def overlapping_validate(v, rows, obs):
    tr = vlib.tlc("TraceConfigDecodeConc", "TraceConfigDecodeConc.cfg", env={"VERIF_TRACE": obs}, cont=True, workers=1, heap="2g",
                  deadlock=False, timeout=900)
    if tr.error:
        raise vlib.MachineryError("TraceConfigDecodeConc failed: %s\n%s" % (tr.kind, tr.out[-3000:]))
    if tr.distinct != len(rows) + 1:
        raise vlib.MachineryError("TraceConfigDecodeConc visited %d states for %d lines" % (tr.distinct, len(rows)))
    seen = set()
    for inv, st in tr.all_violations:
        try:
            ln = int(st.get("l", "0"))
        except ValueError:
            continue
        if not 1 <= ln <= len(rows):
            continue
        row = rows[ln - 1]
        if row["kind"] == "race":
            sig, what = "overlapping-decodes inv=NoRace", ("the race detector reports %d data race(s) while different config sections were "
                                                           "decoded concurrently; first: %s" % (row["n"], row["first"]))
        else:
            sig = "overlapping-decodes kind=%s how=%s section=%s inv=%s" % (row["kind"], row.get("how", "-"), generic_path(row["pre"]), inv)
            what = ("section %s of %s decoded %d times while other sections were being decoded: %d decodes failed (%s); distinct results read "
                    "back: %s (invariant %s of TraceConfigDecodeConc)" % (path_s(row["pre"]), row["v"], row["n"], row["nerr"], row.get("err", "")[:200],
                                                                        json.dumps(row.get("vectors", row.get("lefts")))[:600], inv))
        if sig in seen:
            continue
        seen.add(sig)
        v.violation(sig, what, replay_obj={"kind": "conc", "invariant": inv, "line": row}, replay_name="conc_%d_%s.json" % (ln, inv))
    return tr


def pairs_family(v, b, variants, variants_p, points_p, d, thorough):
    """Two mutations at once (ConfigDecodePairs.tla): design-level run + negative control, TLC-generated pairs decoded by the
    real chain, TraceConfigDecodePairs decides.  quick: `near` pairs; thorough: `broad` pairs as well."""
    out = {"states": 0, "transitions": 0, "pairs": 0, "decodes": 0}
    modes = [("near", "")] + ([("broad", "_broad")] if thorough else [])
    neg = vlib.tlc("ConfigDecodePairs", "ConfigDecodePairs_neg_first.cfg", workers=2, heap="2g", deadlock=False, timeout=900,
                   env={"VERIF_POINTS": points_p, "VERIF_OUT_PAIRS": os.path.join(d, "pairs_neg.ndjson")})
    vlib.tlc_must_fail(neg, "ConfigDecodePairs_neg_first")
    for mode, sfx in modes:
        pairs_p = os.path.join(d, "pairs_%s.ndjson" % mode)
        env = {"VERIF_POINTS": points_p, "VERIF_OUT_PAIRS": pairs_p}
        r = vlib.tlc("ConfigDecodePairs", "ConfigDecodePairs_exh%s.cfg" % sfx, workers=4, heap="4g", deadlock=False, timeout=1800, env=env)
        vlib.tlc_must_pass(r, "ConfigDecodePairs_exh%s" % sfx)
        out["states"] += r.distinct
        out["transitions"] += r.generated
        if not os.path.exists(pairs_p):
            raise vlib.MachineryError("pair generation (%s) wrote no file" % mode)
        pairs = vlib.read_ndjson(pairs_p)
        if len(pairs) < 100:
            raise vlib.MachineryError("only %d pairs (%s)" % (len(pairs), mode))
        obs = os.path.join(d, "obs_pairs_%s.ndjson" % mode)
        vlib.run_driver(b, ["confdecode", "-variants", variants_p, "-in", pairs_p, "-out", obs, "-cli-stride", "3", "-real-stride", "1000000"],
                        timeout=1800)
        rows = vlib.read_ndjson(obs)
        if len(rows) < 2 * len(pairs):
            raise vlib.MachineryError("driver ran %d decodes for %d pairs" % (len(rows), len(pairs)))
        tr = vlib.tlc("TraceConfigDecodePairs", "TraceConfigDecodePairs.cfg", env={"VERIF_TRACE": obs}, cont=True, workers=4, heap="4g",
                      deadlock=False, timeout=1800)
        if tr.error:
            raise vlib.MachineryError("TraceConfigDecodePairs failed: %s\n%s" % (tr.kind, tr.out[-3000:]))
        if tr.distinct != len(rows) + 1:
            raise vlib.MachineryError("TraceConfigDecodePairs visited %d states for %d lines" % (tr.distinct, len(rows)))
        seen = set()
        for inv, st in tr.all_violations:
            try:
                ln = int(st.get("l", "0"))
            except ValueError:
                continue
            if not 1 <= ln <= len(rows):
                continue
            row = rows[ln - 1]
            c1, c2 = row["c"]["c1"], row["c"]["c2"]
            sig = "pair %s:%s + %s:%s via=%s shape=%s inv=%s" % (c1["kind"], generic_path(c1["p"]), c2["kind"], generic_path(c2["p"]),
                                                               row["via"], row["shape"], inv)
            if sig in seen:
                continue
            seen.add(sig)
            v.violation(sig, "two mutations at once (variant %s): %s and %s via %s/%s: real decoding gives %s %s; violates %s of "
                        "TraceConfigDecodePairs" % (row["c"]["v"], json.dumps({k: c1[k] for k in ("kind", "p", "i", "src", "set")}),
                                                   json.dumps({k: c2[k] for k in ("kind", "p", "i", "src", "set")}), row["via"], row["shape"],
                                                   row["out"], row["err"][:200], inv),
                        replay_obj={"kind": "pair", "invariant": inv, "line": {k: row[k] for k in ("c", "via", "shape", "reg", "out", "err")}},
                        replay_name="pair_%s_%d_%s.json" % (mode, ln, inv))
        out["pairs"] += len(pairs)
        out["decodes"] += len(rows)
    return out


def run_driver_split(b, variants_p, cases, obs, stride, d, parts=4):
    """The sequential family is executed by `parts` driver processes (each with its own scratch directory, environment and
    property file), every process a contiguous share of the case list; the observations are concatenated in case order."""
    n = (len(cases) + parts - 1) // parts
    jobs, errs = [], []
    for k in range(parts):
        part = cases[k * n:(k + 1) * n]
        if not part:
            continue
        pin, pout = os.path.join(d, "cases_part%d.ndjson" % k), os.path.join(d, "obs_part%d.ndjson" % k)
        vlib.write_ndjson(pin, part)

        def job(pin=pin, pout=pout):
            try:
                vlib.run_driver(b, ["confdecode", "-variants", variants_p, "-in", pin, "-out", pout,
                                    "-cli-stride", str(stride), "-real-stride", str(stride),
                                    "-channels-per-case", "0" if stride == 1 else "1"], timeout=1800)
            except BaseException as ex:
                errs.append(ex)
        t = threading.Thread(target=job)
        t.start()
        jobs.append((t, pout))
    for t, _ in jobs:
        t.join()
    if errs:
        raise errs[0]
    with open(obs, "w") as out:
        for _, pout in jobs:
            with open(pout) as f:
                out.write(f.read())


def run(tier, v):
    import time
    t0 = time.time()
    thorough = tier == "thorough"
    d = vlib.scratch()
    b, variants, cases, report, (variants_p, cases_p, points_p) = generate(d)
    vlib.log("generated %d cases at %.1fs" % (len(cases), time.time() - t0))
    # a base configuration the real code rejects / a documented map level that the real structs do not have
    for pt in vlib.read_ndjson(points_p):
        if pt["p"] and pt["p"][0] == "<base-config-rejected>":
            v.violation("kind=none base=full variant=%s rejected" % pt["v"],
                        "the documented full configuration %s is rejected by the real decoder: %s" % (pt["v"], pt["p"][1]))
    for m in report["missing"]:
        v.violation("kind=level path=%s" % generic_path(m["p"]),
                    "documented map level %s (variant %s) does not exist in the real config structs" % (path_s(m["p"]), m["v"]))
    # the overlapping-decodes family runs beside the sequential one (own binary, own TLC runs)
    conc = {}

    def conc_job():
        try:
            conc["design"] = overlapping_design()
            conc["rows"], conc["obs"], conc["g"], conc["rounds"] = overlapping_run(variants_p, d, thorough)
            conc["pairs"] = pairs_family(v, b, variants, variants_p, points_p, d, thorough)
        except BaseException as ex:      # re-raised in the main thread
            conc["exc"] = ex
    conc_thread = threading.Thread(target=conc_job)
    conc_thread.start()
    # design level (with the reflection points in the case space), negative controls in parallel
    states = trans = 0
    res = {}

    def neg(n):
        res[n] = vlib.tlc("ConfigDecodeMC", n, workers=2, heap="2g", deadlock=False, timeout=600, env={"VERIF_POINTS": points_p})
    ths = [threading.Thread(target=neg, args=(n,)) for n in NEGS]
    for t in ths:
        t.start()
    def exh():
        res["exh"] = vlib.tlc("ConfigDecodeMC", "ConfigDecode_exh.cfg", workers=4, heap="4g", deadlock=False, timeout=900,
                              env={"VERIF_POINTS": points_p})
    ths.append(threading.Thread(target=exh))
    ths[-1].start()
    vlib.log("design level started at %.1fs" % (time.time() - t0))
    if len(cases) != report["cases"]:
        raise vlib.MachineryError("case file has %d lines, TLC counted %d cases" % (len(cases), report["cases"]))
    if not thorough:
        # quick tier: of the value classes delivered through a placeholder all kind classes (x = 1) and every 3rd class of a documented
        # constraint (rotating with VERIF_SEED) are executed; the design-level run covers all of them, the thorough tier executes all
        n_all = len(cases)
        cases = [c for i, c in enumerate(cases) if c["c"]["kind"] != "phrange" or c["c"]["x"] == 1 or (i + vlib.seed()) % 3 == 0]
        # several placeholders in one value: every 8th case of the (leaf x source x pattern) space (every 3rd of those with literal
        # text around the placeholders), rotating with VERIF_SEED; the thorough tier executes all
        cases = [c for i, c in enumerate(cases) if c["c"]["kind"] not in ("phmulti", "phmultisep")
                 or (i + vlib.seed()) % (8 if c["c"]["kind"] == "phmulti" else 3) == 0]
        cases_p = os.path.join(d, "cases_quick.ndjson")
        vlib.write_ndjson(cases_p, cases)
        vlib.log("quick tier executes %d of %d cases" % (len(cases), n_all))
    # conformance
    obs = os.path.join(d, "obs.ndjson")
    stride = 1 if thorough else 3
    run_driver_split(b, variants_p, cases, obs, stride, d)
    rows = vlib.read_ndjson(obs)
    by_case = {}
    for c in cases:
        by_case[json.dumps(c["c"], sort_keys=True)] = c
    n_rec = {}
    for r_ in rows:
        k = json.dumps(r_["c"], sort_keys=True)
        if k not in by_case:
            raise vlib.MachineryError("driver reported a case TLC did not generate: %s" % k)
        r_["_delta"], r_["_phval"], r_["_adv"], r_["_multi"] = by_case[k]["delta"], by_case[k]["phval"], by_case[k]["adv"], by_case[k]["multi"]
        if r_["mvia"] not in ["decode", "cli"] + by_case[k]["vias"]:
            raise vlib.MachineryError("driver used a channel TLC did not list for the case: %s %s" % (r_["mvia"], k))
        if r_["reg"] == "rec" and r_["via"] == "decode":
            n_rec[k] = n_rec.get(k, 0) + 1
    if len(n_rec) != len(cases) or any(x != 2 for x in n_rec.values()):
        raise vlib.MachineryError("driver did not run every case in both map shapes (%d of %d)" % (len(n_rec), len(cases)))
    vlib.log("driver done at %.1fs" % (time.time() - t0))
    for t in ths:
        t.join()
    r = res["exh"]
    vlib.tlc_must_pass(r, "ConfigDecode_exh")
    states += r.distinct
    trans += r.generated
    for n in NEGS:
        vlib.tlc_must_fail(res[n], n)

    tr = validate(v, obs, rows, variants, points_p)
    vlib.log("trace validated at %.1fs" % (time.time() - t0))
    conc_thread.join()
    if "exc" in conc:
        raise conc["exc"]
    overlapping_validate(v, conc["rows"], conc["obs"])
    states += conc["design"]["states"] + conc["pairs"]["states"]
    trans += conc["design"]["transitions"] + conc["pairs"]["transitions"]
    kinds = {}
    for c in cases:
        kinds[c["c"]["kind"]] = kinds.get(c["c"]["kind"], 0) + 1
    channels = {}
    for r_ in rows:
        if r_["via"] == "cli":
            channels[r_["mvia"]] = channels.get(r_["mvia"], 0) + 1
    outcomes = {}
    for r_ in rows:
        outcomes[r_["via"] + "/" + r_["reg"] + "/" + r_["out"]] = outcomes.get(r_["via"] + "/" + r_["reg"] + "/" + r_["out"], 0) + 1
    samples = [{"case": r_["c"], "via": r_["via"], "shape": r_["shape"], "reg": r_["reg"], "out": r_["out"], "err": r_["err"][:120],
                "decoded_first_leaves": r_["got"][:6]} for r_ in rows[5::max(1, len(rows) // 6)][:6]]
    cov = {
        "states": states, "transitions": trans,
        "traces_validated_against_impl": len(rows),
        "samples": samples,
        "exhaustive": True, "evaluations": len(rows),
        "distinct_nontrivial": len({json.dumps(c["c"], sort_keys=True) for c in cases if c["c"]["kind"] != "none"}),
        "rule": "one case per (variant, base, mutation) as enumerated by CasesOf in ConfigDecode.tla, each decoded as map[string]any and "
                "map[any]any with the recording registry; every %d-th also through the CLI reader and (non-placeholder, V1/V2) with the real "
                "constructors; channel cases (none/absent/nullval/dropcomp/nullcomp) through %s other input channel(s) of the CLI reader; quick "
                "tier: of the value classes delivered through a placeholder all kind classes and every 3rd documented class; "
                "distinct_nontrivial = distinct abstract cases that carry a mutation (kind # none)" % (stride, "every" if thorough else "1 (kind none: every)"),
        "cases_by_kind": kinds, "outcomes": outcomes, "cli_runs_by_input_channel": channels,
        "pairs_of_mutations": {"pairs": conc["pairs"]["pairs"], "decodes": conc["pairs"]["decodes"]},
        "overlapping_decodes": {"goroutines": conc["g"], "passes": conc["rounds"],
                                "sections": len([r_ for r_ in conc["rows"] if r_["kind"] == "section"]),
                                "decodes": sum(r_.get("n", 0) for r_ in conc["rows"] if r_["kind"] != "race"),
                                "races_reported": conc["rows"][-1]["n"]},
        "schema_leaves": {n: len(x["leaves"]) for n, x in variants.items()},
        "map_levels_documented": {n: len(x["spec_points"]) for n, x in variants.items()},
        "map_levels_only_found_by_reflection": [path_s(e["p"]) + "@" + e["v"] for e in report["extra"]],
        "trace_spec_states": tr.distinct,
        "negative_controls": [n[len("ConfigDecode_neg_"):-4] for n in NEGS],
        "invariants_on_observed_results": INVS,
    }
    return "model_checking", cov, [
        "one mutation at a time on three base configurations (full / min); one representative value per leaf and per constraint",
        "decoded component configs are read through recording constructors registered under the real names with the real config types and "
        "default-config funcs (fetched from the real registry by reflection); real constructors are sampled for the outcome only",
        "trusted: schema transcription from docs/eng, the driver (renderer, reflection walker, log.Fatal interception through zap's exit variable), TLC"]


def replay(path, v):
    obj = json.load(open(path))
    d = vlib.scratch()
    b, variants, cases, report, (variants_p, cases_p, points_p) = generate(d)
    if obj.get("kind") == "conc":
        rows, obs, g, rounds = overlapping_run(variants_p, d, False)
        overlapping_validate(v, rows, obs)
        return None
    line = obj["line"]
    one = os.path.join(d, "one_case.ndjson")
    chans = [line["mvia"]] if line.get("mvia", "").startswith("cli-") else []
    vlib.write_ndjson(one, [{"c": line["c"], "delta": obj["delta"], "phval": obj["phval"], "vias": chans, "multi": obj.get("multi") or {"parts": [], "pre": "", "sep": "", "post": ""},
                             "adv": obj.get("adv") or {"src": "", "eol": "lf", "lines": [], "envs": [], "req": ""}}])
    obs = os.path.join(d, "obs1.ndjson")
    vlib.run_driver(b, ["confdecode", "-variants", variants_p, "-in", one, "-out", obs, "-channels-per-case", "0"])
    rows = vlib.read_ndjson(obs)
    for r_ in rows:
        print("observed now via %s/%s/%s: %s %s" % (r_["mvia"], r_["shape"], r_["reg"], r_["out"], r_["err"][:200]))
    validate(v, obs, rows, variants, points_p, workers=1)
    return None
