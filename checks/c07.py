"""C07 — ammo decoding fidelity for uri, uripost, raw, http/json.

TLC design level : AmmoFormatsMC — the reader state machine (ReadHeader/ReadBlank/ReadEntry/EOFWrap) over EVERY
                   abstract file of <= 3 (thorough: 4) items per format against the declarative reading of a file
                   (file order, cyclic; last header line of a name before the entry; nothing carried over a pass),
                   the symbol-level layout theorem (every permitted layout is read back as the same items), and
                   three negative controls (headers kept over a pass; first header wins; last line without newline
                   dropped) that must produce counterexamples.
M2 (spec->code)  : TLC exports every abstract file x every layout; `vdrive ammofmt` renders each to bytes, runs the
                   REAL provider built by the registered plugin constructor, projects every request handed out;
                   TraceAmmoFormats.tla steps the reader over the file and compares every delivery.
M1 (large scope) : seeded random files (up to 200 entries, bodies up to 64 KiB, per-item layouts) through the same
                   driver and the same trace specification.
"""
import os
import vlib
import ammofmt_lib as al

PID = "C07"

MANIFEST = dict(
    category="model_checking",
    technique=("TLA+ spec AmmoFormats (one reader state machine per ammo format + declarative meaning of a file) model-checked "
               "over all small files; TLC-enumerated files x layouts rendered to bytes, run through the real providers, and every "
               "delivered request compared by TLC (TraceAmmoFormats) with the reader stepped over the abstract file"),
    design_ref="DESIGN.md §4 C07",
    text=("AmmoFormats.tla defines an ammo file as items Entry|Header|Blank plus layout, the reader as four actions (ReadHeader with Set "
          "semantics, ReadBlank, ReadEntry, EOFWrap = pass+1 and in-file headers forgotten) and Expected = what the provider hands out. "
          "TLC proves on every file of <= 3/4 items per format that the reader equals the declarative reading (file order, cyclic, each entry "
          "with the last [Header] line of every name before it, nothing from the previous pass), that no entry is dropped/duplicated per pass, "
          "and — on a symbol-level model of the line/size-prefix grammar — that blank lines, surrounding blanks/tabs, CRLF, the blank line after "
          "a body and a missing final newline never change what is read. The same enumeration (every file x every layout, ~10.7k cases quick, "
          "~174k thorough) is rendered to bytes, decoded by the real provider (plugin constructor, mem fs, Run/Acquire/Release) and each request "
          "(method, RequestURI, Host, canonical headers, body bytes, tag) for two passes and one extra entry is compared by TLC; large random "
          "files (200 entries, 64 KiB binary bodies) go through the same trace spec. The alphabets deliberately cross the readers' buffer sizes: "
          "request lines, tags and header values of 4-5 KB in every exhaustive pool and up to 70 000 bytes in the random files (uri: below bufio.Scanner's "
          "64 KiB limit), bodies at 4096/8192/65536 +-1, tags with runs of blanks, tabs and a leading blank, odd URI characters; half of the layouts are "
          "read with preload; pairs of different entries on both sides of every allocation threshold (4 KiB, 64 KiB, 1 MiB) are alive at once, and "
          "every delivery is verified only after later entries have been acquired (a delivered request stays what it was). Right level: the property quantifies over file contents and "
          "layouts, which is a finite case function TLC can enumerate completely for small files; the unit tests have one fixture per decoder."),
    note=("Small-scope exhaustive (<= 4 items over pools of 3-4 entries / 4 header lines per format) + sampled large scope. Trusted: the renderers "
          "(harness/cmd/vdrive/ammofmt_render.go, written against docs/eng/providers.md), the projection, TLC. Provider option `headers` left empty "
          "(precedence is C09); malformed files are C13; limit/passes semantics are C08/C14."),
)


def sig(row, inv):
    c = al.case_class(row)
    return "fmt=%s style=%s mode=%s inv=%s sep=%d final=%d last=%s outcome=%s src=%s" % (
        c["fmt"], c["style"], c["mode"], inv, c["sep"], c["final"], c["last"], row["obs"]["outcome"], c["src"])


def run(tier, v):
    thorough = tier == "thorough"
    sfx = "_big" if thorough else ""
    states, trans, detail = al.design_level(
        ["AmmoFormats_exh%s.cfg" % sfx, "AmmoFormats_layout%s.cfg" % sfx],
        ["AmmoFormats_neg_noreset.cfg", "AmmoFormats_neg_eofline.cfg"] + (["AmmoFormats_neg_firstwins.cfg"] if thorough else []),
        workers=16 if thorough else 8, heap="12g" if thorough else "4g", coverage=thorough)
    d = vlib.scratch()
    files = al.export_cases("AmmoFormats_export_C07%s.cfg" % sfx, d, "c07")
    b = vlib.harness_build()
    rows_all, tstates, bad = [], 0, 0
    nrand = 60 if thorough else 10
    # quick: one trace; thorough: one trace per format (size)
    batches = [[f] for f in files] if thorough else [files]
    for i, batch in enumerate(batches):
        trace = os.path.join(d, "trace%d.ndjson" % i)
        args = ["ammofmt", "-in", ",".join(batch), "-out", trace]
        if i == 0:
            args += ["-random", str(nrand), "-mode", "c07"]
        if not al.run_cases(v, b, args):
            bad += 1
            continue
        rows, ts, nb = al.validate(v, trace, sig, "real provider diverges from AmmoFormats.Expected",
                                   heap="16g" if thorough else "6g", workers=16 if thorough else 8, timeout=3000, case_files=batch)
        tstates += ts
        bad += nb
        rows_all += [al.brief_case(r) | {"delivered": len(r["obs"]["deliv"]), "first": (r["obs"]["deliv"] or [None])[0]}
                     for r in rows[5::max(1, len(rows) // 3)]][:3]
        n_tlc = sum(1 for r in rows if r["src"] == "tlc")
        detail.setdefault("cases", []).append({"files": [os.path.basename(f) for f in batch], "cases": len(rows), "from_tlc": n_tlc,
                                               "deliveries": sum(len(r["obs"]["deliv"]) for r in rows),
                                               "max_entries": max(sum(1 for it in r["items"] if it["k"] == "E") for r in rows)})
        del rows
    detail.setdefault("cases", [])
    total = sum(c["cases"] for c in detail["cases"])
    from_tlc = sum(c["from_tlc"] for c in detail["cases"])
    cov = {
        "states": states, "transitions": trans,
        "traces_validated_against_impl": total,
        "samples": rows_all[:6] or [{"driver": "crashed, see the violation"}],
        "exhaustive": True,
        "evaluations": total,
        "distinct_nontrivial": from_tlc,
        "rule": ("every abstract file of 1..%d items (>= 1 entry) over the per-format pools x every layout (crlf, ws%s, sep, final; json: 4 styles), "
                 "%sexported by TLC (sets: all distinct); plus %d seeded random large files per format" % (
                     4 if thorough else 3, "" if thorough else " varying together",
                     "plus every 2-item file with a different layout per item, " if thorough else "", nrand)),
        "deliveries_compared": sum(c["deliveries"] for c in detail["cases"]),
        "diverging_cases": bad,
        "trace_spec_states": tstates,
        "design": detail,
        "negative_controls": ["noreset", "eofline"] + (["firstwins"] if thorough else []),
    }
    return "model_checking", cov, [
        "renderers (abstract file -> bytes) are faithful to docs/eng/providers.md and mirror RenderItem of AmmoFormats.tla (trusted base)",
        "well-formed files only, provider option `headers` empty, one consumer; bodies > 64 bytes and strings > 128 bytes compared by length + SHA-256 prefix",
        "exhaustive part bounded to <= %d items per file over small pools; large files sampled (VERIF_SEED)" % (4 if thorough else 3)]


def replay(path, v):
    return al.replay_case(path, v, sig, "real provider diverges from AmmoFormats.Expected")
