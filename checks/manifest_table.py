NOTES = ("All checks: python3 bin/check <ID> --tier quick|thorough. Exit 0 held / 1 violation / 2 machinery failure. "
         "Honours VERIF_SEED; VERIF_REPO overrides /repo (used only by bin/selftest on scratch copies).")

NOT_CLAIMED = {}

CHECKS = {
 "C01": dict(
  category="model_checking",
  technique="TLA+ spec ProfileMath (declarative profile semantics in exact BigNat arithmetic) + TLC trace validation of token instants recorded from the real schedules",
  design_ref="DESIGN.md §4 C01",
  text=("ProfileMath.tla states what const/line/step/once mean (earliest instant at which the integral of the rate reaches k; "
        "floor of the integral as count; succession of const parts; finish = start+duration) with division-free exact integer "
        "inequalities. TLC checks the oracle itself exhaustively on a grid (window exists, is tight, monotone; golden points) and "
        "then validates, line by line, traces of every token instant drained from the real schedules (built by constructors and by "
        "config decoding) for hundreds of profiles incl. fractional-second durations, decreasing/flat/zero-rate lines. "
        "This is the right level: the property is a universally quantified arithmetic statement over configurations; tests sample a dozen."),
  note=("Bounded domain (rates multiples of 0.001 rps up to 1000 rps, durations 1 ms..61 s, tolerance 1 us on instants); float stability of "
        "near-flat lines not decided. Trusted: the recording driver, TLC, BigNat.tla."),
 ),
 "C02": dict(
  category="model_checking",
  technique="implementation-shaped TLA+ spec of composite/doAt/unlimited schedules (RW-lock steps, call stacks) model-checked exhaustively; TLC behaviours replayed through the real code under yield hooks and validated by TLC (TraceSchedule); free-running histories validated against the sequential contract (TraceSchedStress)",
  design_ref="DESIGN.md §4 C02",
  text=("Schedule.tla models every statement of compositeSchedule.Next/Left at which goroutines interleave, doAt counters that overshoot, lazy/explicit "
        "start, unlimited parts, nesting. TLC checks exactly-once/all-drawn-when-finished, per-caller monotonicity, chained starts, stable finish, "
        "Left exactness at its linearisation point, no panic and no lock deadlock for ALL interleavings of 2 callers x 3 calls (3 x 2 in thorough) over a "
        "tree catalogue (empty parts, unknown parts in every position, nesting); four negative controls must fail. The model is bound to the code both "
        "ways: hundreds of TLC behaviours are executed step by step on the real object (one released goroutine per spec step; site, node and every "
        "return value compared by TLC), and free-running stress histories of random real trees are validated with linearisation intervals."),
  note=("Small-scope exhaustiveness (callers, calls, tokens, clock bound); replays use tick = 1 h so only tick-free behaviours are replayed; the constructor's own Left() probes of nested composites are modelled as a "
        "sequential construction phase (negative control ctorshift = the shipped code, which started nested parts there). "
        "Trusted: hook placement (15 add-only lines), replayer, TLC."),
 ),
}
