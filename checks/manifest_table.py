NOTES = ("All checks: python3 bin/check <ID> --tier quick|thorough. Exit 0 held / 1 violation / 2 machinery failure. "
         "Honours VERIF_SEED; VERIF_REPO overrides /repo (used only by bin/selftest on scratch copies).")

NOT_CLAIMED = {}

CHECKS = {
 "C01": dict(
  category="model_checking",
  technique="TLA+ spec ProfileMath (declarative profile semantics in exact BigNat arithmetic) + TLC trace validation of token instants recorded from the real schedules",
  design_ref="DESIGN.md §4 C01",
  text=("ProfileMath.tla states what const/line/step/once mean (earliest instant at which the integral of the rate reaches k; "
        "floor of the integral as count; succession of const parts; finish = start+duration) with division-free exact integer "
        "inequalities. TLC checks the oracle itself exhaustively on a grid (window exists, is tight, monotone; golden points) and "
        "then validates, line by line, traces of every token instant drained from the real schedules (built by constructors and by "
        "config decoding) for hundreds of profiles incl. fractional-second durations, decreasing/flat/zero-rate lines. "
        "This is the right level: the property is a universally quantified arithmetic statement over configurations; tests sample a dozen."),
  note=("Bounded domain (rates multiples of 0.001 rps up to 1000 rps, durations 1 ms..61 s, tolerance 1 us on instants); float stability of "
        "near-flat lines not decided. Trusted: the recording driver, TLC, BigNat.tla."),
 ),
}
