"""C02 M1 family "bigleft": Left() bookkeeping of profiles whose token totals do not fit 32 bits (and of ordinary ones),
built by the real constructors, a config map and YAML text.  `vdrive schedbig` records (construct, Left(), Start, a few
Next() with Left() after each, sleep past a short unlimited part, again); TraceLeftBig.tla decides with BigNat counts
computed from the profile description by ProfileTree.tla.

Teeth: synthetic canary lines (a 32-bit wrap to zero, "unknown" without an unlimited part, a drop by two, a total taken
modulo 2^32, "unknown" after the last unlimited part was passed) are appended to every batch and MUST be flagged with
exactly the expected rules (else machinery failure); the negative-control configuration TraceLeftBig_neg_wrap32 (the
ORACLE sums modulo 2^32) must reject real lines - which shows the recorded profiles really exceed 32 bits."""
import os
import vlib


def limbs(n):
    out = []
    while n > 0:
        out.append(n % 10000)
        n //= 10000
    return out


def _node(k, from_m=0, to_m=0, step=0, times=0, dur=0, kids=()):
    return {"k": k, "from_m": from_m, "to_m": to_m, "step": step, "times": limbs(times), "dur": limbs(dur), "kids": list(kids)}


def _obs(left, draw=False, ok=False, t=0):
    return {"draw": draw, "ok": ok, "t": limbs(t), "neg": left < 0, "v": limbs(abs(left))}


def canaries():
    P30, P32 = 1 << 30, 1 << 32
    once = lambda n: _node("once", times=n)   # noqa: E731
    H = 3600 * 10**9
    out = []
    # 1. the suffix sum wrapped to zero: Left() = 0 after the first token while Next() keeps handing out
    #    (TLC reports the FIRST failing invariant of a state, in the order of the configuration: Known comes first)
    out.append(({"Known"},
                {"tree": _node("list", kids=[once(1)] + [once(P30)] * 4),
                 "obs": [_obs(1), _obs(1), _obs(0, True, True), _obs(P30 - 1, True, True), _obs(P30 - 2, True, True)]}))
    # 2. "unknown" although the profile has no unlimited part (a negative 32-bit sum taken for the sticky -1)
    out.append(({"NegOnlyUnknown"},
                {"tree": _node("step", from_m=50000000, to_m=100000000, step=10000, dur=2 * H),
                 "obs": [_obs(-1), _obs(-1), _obs(-1, True, True), _obs(-1, True, True)]}))
    # 3. drops by two (inside the rounding slack of the count - const 100 rps for 290 ms may hold 28 or 29 tokens -, so that
    #    only the relative rule can see it)
    out.append(({"DropsByOne"},
                {"tree": _node("const", from_m=100000, to_m=100000, dur=290000000),
                 "obs": [_obs(29), _obs(29), _obs(27, True, True), _obs(26, True, True, 10000000)]}))
    # 3b. zero while the (only, unlimited) part still hands out tokens
    out.append(({"ZeroOnlyAtEnd"},
                {"tree": _node("unl", dur=3000000),
                 "obs": [_obs(-1), _obs(-1), _obs(0, True, True, 1000), _obs(0, True, True, 2000)]}))
    # 4. consistent, but the total is the true one modulo 2^32
    out.append(({"Known"},
                {"tree": _node("list", kids=[once(2), once(P32 + 5)]),
                 "obs": [_obs(7), _obs(7), _obs(6, True, True), _obs(5, True, True)]}))
    # 5. still "unknown" after a token from behind the last unlimited part
    out.append(({"NegOnlyUnknown"},
                {"tree": _node("list", kids=[_node("unl", dur=3000000), once(4)]),
                 "obs": [_obs(-1), _obs(-1), _obs(-1, True, True, 1000), _obs(-1, True, True, 3000000), _obs(2, True, True, 3000000)]}))
    rows = []
    for i, (exp, r) in enumerate(out):
        r.update(desc="canary %d" % (i + 1), via="canary", err="", tneg=False)
        rows.append((exp, r))
    return rows


def kinds(node):
    ks = {node["k"]} if node["k"] != "list" else set()
    for k in node["kids"]:
        ks |= kinds(k)
    return ks


def run(tier, v, b, d):
    thorough = tier == "thorough"
    path = os.path.join(d, "big.ndjson")
    vlib.run_driver(b, ["schedbig", "-out", path, "-random", "400" if thorough else "45"], timeout=600)
    rows = vlib.read_ndjson(path)
    nreal = len(rows)
    can = canaries()
    rows += [r for _, r in can]
    vlib.write_ndjson(path, rows)
    tr = vlib.tlc("TraceLeftBig", "TraceLeftBig.cfg", env={"VERIF_TRACE": path}, cont=True, workers=4, timeout=1500, heap="4g")
    if tr.error:
        raise vlib.MachineryError("TraceLeftBig failed: %s\n%s" % (tr.kind, tr.out[-3000:]))
    if tr.distinct != len(rows) + 1:
        raise vlib.MachineryError("TraceLeftBig visited %d states for %d lines" % (tr.distinct, len(rows)))
    flagged = {}
    for inv, st in tr.all_violations:
        ln = int(st.get("l", "0"))
        if ln >= 1:
            flagged.setdefault(ln, set()).add(inv)
    for i, (exp, _) in enumerate(can):
        got = flagged.pop(nreal + 1 + i, set())
        if got != exp:
            raise vlib.MachineryError("TraceLeftBig canary %d: flagged %s, expected %s - the trace rules lost their teeth" % (i + 1, sorted(got), sorted(exp)))
    for ln in sorted(flagged):
        row = rows[ln - 1]
        for inv in sorted(flagged[ln]):
            if inv == "OracleOK":
                raise vlib.MachineryError("TraceLeftBig: ProfileTree admits no count for a part of %s" % row["desc"])
            lefts = [("-" if o["neg"] else "") + str(sum(x * 10000 ** i for i, x in enumerate(o["v"]))) for o in row["obs"]]
            v.violation("bigleft kinds=%s via=%s inv=%s" % ("+".join(sorted(kinds(row["tree"]))), row["via"], inv),
                        "profile %s built via %s: %s fails; Left() readings (before Start, after Start, after each Next()): %s%s" % (
                            row["desc"], row["via"], inv, lefts[:8], (" error: " + row["err"]) if row["err"] else ""),
                        replay_obj={"kind": "bigleft", "invariant": inv, "line": row}, replay_name="bigleft_%d_%s.json" % (ln, inv))
    # negative control: an oracle that sums modulo 2^32 must reject real lines
    neg = vlib.tlc("TraceLeftBig", "TraceLeftBig_neg_wrap32.cfg", env={"VERIF_TRACE": path}, cont=True, workers=2, timeout=900, heap="4g")
    vlib.tlc_must_fail(neg, "TraceLeftBig_neg_wrap32.cfg")
    nwrap = len({int(st.get("l", "0")) for inv, st in neg.all_violations if 1 <= int(st.get("l", "0")) <= nreal})
    if nwrap < 10:
        raise vlib.MachineryError("TraceLeftBig_neg_wrap32 rejects only %d real lines: the big-count family does not exceed 32 bits" % nwrap)
    big = [r for r in rows[:nreal] if any(len(o["v"]) >= 3 and sum(x * 10000 ** i for i, x in enumerate(o["v"])) >= 2**31 for o in r["obs"])]
    sample = [{"profile": r["desc"], "via": r["via"],
               "left": [("-" if o["neg"] else "") + str(sum(x * 10000 ** i for i, x in enumerate(o["v"]))) for o in r["obs"][:4]]}
              for r in rows[:nreal:37]][:3]
    return {"lines": nreal, "lines_beyond_2^31": len(big), "rejected_by_wrap32_control": nwrap, "canaries": len(can),
            "via": sorted({r["via"] for r in rows[:nreal]}), "samples": sample}


def replay(obj, v, d):
    p = os.path.join(d, "big1.ndjson")
    vlib.write_ndjson(p, [obj["line"]])
    tr = vlib.tlc("TraceLeftBig", "TraceLeftBig.cfg", env={"VERIF_TRACE": p}, cont=True, workers=1)
    for inv, _ in tr.all_violations:
        v.violation("bigleft kinds=%s via=%s inv=%s" % ("+".join(sorted(kinds(obj["line"]["tree"]))), obj["line"]["via"], inv),
                    "recorded line violates %s" % inv)
