"""C14 — preload is behaviour-preserving; chosencases selects exactly the listed tags.

TLC design level : AmmoFormatsMC — ExpectedSel(file, limit, passes, chosen) against the declarative reading on every
                   small file x chosen x limit x passes (SelTheorems: only listed tags, all of them, file order, cyclic;
                   limit counts delivered entries; passes counts file passes; outcome classes) + negative controls.
M2 (spec->code)  : TLC exports every file of <= 2 (thorough: 3) items x chosen subset (incl. the empty tag and subsets
                   matching nothing) x limit x passes x preload on/off x format (json: line and array); the driver builds
                   the REAL provider through the plugin constructor and records deliveries, end of ammo, and how Run
                   ended; TraceAmmoFormats.tla compares each with the ONE function ExpectedSel — so streaming and
                   preload are compared with the same oracle, hence with each other.
M1               : seeded random larger files with random limit/passes/chosencases/preload.
"""
import os
import vlib
import ammofmt_lib as al

PID = "C14"

MANIFEST = dict(
    category="model_checking",
    technique=("TLA+ function ExpectedSel(file, limit, passes, chosencases) of spec AmmoFormats, model-checked against its declarative "
               "characterisation; TLC enumerates the complete small configuration matrix, the real streaming and preloaded providers are run "
               "on every cell and TLC (TraceAmmoFormats) compares deliveries, end-of-ammo and Run's outcome class with that one function"),
    design_ref="DESIGN.md §4 C14",
    text=("One specification function says what an HTTP ammo provider delivers for (file, limit, passes, chosencases): exactly the entries whose "
          "tag is listed, in file order, cyclically; limit counts delivered entries, passes counts file passes; Run ends nil when the ammo is "
          "consumed, with an error when no entry is chosen. TLC checks these statements on every small file and exports the whole matrix "
          "(files x 5-6 chosencases settings incl. the empty tag and settings matching nothing x 3-4 limits x 3 passes x preload on/off x "
          "uri/uripost/raw/json-lines/json-array: ~9.2k cells quick; thorough also under a hostile layout: ~163k). Each cell is executed on the real provider built by the "
          "registered plugin constructor; the observed deliveries, whether Acquire reported end of ammo, and the class of Run's result "
          "(nil | error | cancel; a hang is confirmed twice under a watchdog >= 1000x the normal time) must equal the function; the ways "
          "of writing 'no chosencases / headers / uris' (key absent, null, []) go through the real config.Decode and must not matter; files "
          "without any ammo (empty, blank-only, header-only) must end with an error in both modes — the same "
          "function for preload on and off, which is what 'behaviour-preserving' means. Right level: the property is a finite function over a "
          "configuration matrix no test compares across the two paths."),
    note=("Bounded matrix (<= 3 items per file, limits {0,1,2,5}, passes {0,1,2}); larger files with random settings sampled. Trusted: renderers, "
          "projection, TLC. Outcome with chosencases matching nothing is specified as 'error' (ErrNoAmmo), the behaviour of the preloaded path."),
)


def sig(row, inv):
    c = al.case_class(row)
    return "fmt=%s style=%s mode=%s entries=%s chosen=%s rep=%s limit=%s passes=%s inv=%s outcome=%s src=%s" % (
        c["fmt"], c["style"], c["mode"], c["entries"], c["chosen"], c["rep"], c["limit"], c["passes"], inv,
        row["obs"]["outcome"], c["src"])


def run(tier, v):
    thorough = tier == "thorough"
    sfx = "_big" if thorough else ""
    states, trans, detail = al.design_level(
        ["AmmoFormats_exh%s.cfg" % sfx],
        ["AmmoFormats_neg_sellimit.cfg"] + (["AmmoFormats_neg_noreset.cfg"] if thorough else []),
        workers=16 if thorough else 8, heap="12g" if thorough else "4g", coverage=thorough)
    d = vlib.scratch()
    files = al.export_cases("AmmoFormats_export_C14%s.cfg" % sfx, d, "c14")
    b = vlib.harness_build()
    nrand = 100 if thorough else 25
    samples, tstates, bad = [], 0, 0
    batches = [[f] for f in files] if thorough else [files]
    stats = []
    pairs = set()
    for i, batch in enumerate(batches):
        trace = os.path.join(d, "trace%d.ndjson" % i)
        args = ["ammofmt", "-in", ",".join(batch), "-out", trace, "-maxentries", "40", "-maxbody", "2000"]
        if i == 0:
            args += ["-random", str(nrand), "-mode", "c14"]
        if not al.run_cases(v, b, args):
            bad += 1
            continue
        rows, ts, nb = al.validate(v, trace, sig, "real provider diverges from AmmoFormats.ExpectedSel",
                                   heap="16g" if thorough else "6g", workers=16 if thorough else 8, timeout=3000, case_files=batch)
        tstates += ts
        bad += nb
        samples += [al.brief_case(r) | {"delivered_tags": [x["tag"] for x in r["obs"]["deliv"]], "ended": r["obs"]["ended"],
                                        "outcome": r["obs"]["outcome"]} for r in rows[7::max(1, len(rows) // 3)]][:3]
        stats.append({"files": [os.path.basename(f) for f in batch], "cases": len(rows),
                      "from_tlc": sum(1 for r in rows if r["src"] == "tlc"),
                      "preload": sum(1 for r in rows if r["conf"]["preload"]),
                      "outcomes": {o: sum(1 for r in rows if r["obs"]["outcome"] == o) for o in ("nil", "error", "cancel", "hang")}})
        del rows
    total = sum(s["cases"] for s in stats)
    detail["cases"] = stats
    cov = {
        "states": states, "transitions": trans,
        "traces_validated_against_impl": total,
        "samples": samples[:6] or [{"driver": "crashed, see the violation"}],
        "exhaustive": True,
        "evaluations": total,
        "distinct_nontrivial": sum(s["from_tlc"] for s in stats),
        "rule": ("every file of 1..%d items (>= 1 entry; 3 tagged entries, header line, blank) x chosencases in {none, [t1], [t1,'t 2'], [''], [t]%s} x "
                 "limit {0,%s2,5} x passes {0,1,2} x preload {off,on} x {uri, uripost, raw, json lines, json array}%s, exported by TLC as a set (all "
                 "distinct); plus %d seeded random files per format with random settings" % (
                     3 if thorough else 2, ", [zz]" if thorough else "", "1," if thorough else "", " x {plain layout, CRLF+blanks+no blank line after bodies+no final newline (json also pretty)}" if thorough else "", nrand)),
        "diverging_cases": bad,
        "trace_spec_states": tstates,
        "design": detail,
        "negative_controls": ["sellimit"] + (["noreset"] if thorough else []),
    }
    return "model_checking", cov, [
        "renderers and projection as in C07 (trusted base); well-formed files, one consumer",
        "a bounded provider is observed to its end (take = bound + 1), an unbounded one for two passes and one extra entry, then cancelled",
        "hang = no Acquire result / no return of Run within the watchdog (5 s; normal < 1 ms), confirmed by a second run of the same case"]


def replay(path, v):
    return al.replay_case(path, v, sig, "real provider diverges from AmmoFormats.ExpectedSel")
