"""C08 — limit/passes semantics and clean end-of-ammo on every provider.

TLC design level : AmmoProvider.tla — one state machine per provider kind at the grain of the Go loops
                   (scan / seek / rewind / limit check / pass check / ctx check / select-send / deferred close),
                   anonymous consumers, cancel at any time; exhaustive over the matrix; invariants NeverMore,
                   NoError, CloseAtExit, NoSpin, Prompt, QuiescentOK (= liveness, every behaviour being finite);
                   negative controls = the pre-fix behaviours and the mutated decisions.
M2 (spec->code)  : TLC exports the complete case table (every cell with the run parameters stop/cap); `vdrive
                   ammoprov` builds every provider through the registered plugin constructors, consumes it with nc
                   goroutines, then runs a real engine.Engine over the same provider config.
M1 (code->spec)  : TraceAmmoProvider.tla recomputes Expected / Stop / Cap / Hist for every recorded cell and
                   compares; the set of recorded cells must be exactly the matrix.
"""
import json
import os
import random
import time
from concurrent.futures import ThreadPoolExecutor

import vlib

PID = "C08"
RAND_BASE = 100000000

MANIFEST = dict(
    category="model_checking",
    technique="explicit TLA+ state machines of every ammo provider checked exhaustively with TLC; the complete "
              "kind x preload x limit x passes x entries x consumers matrix exported by TLC and replayed through "
              "the real, registry-built providers and a real engine run; observations validated by TLC against "
              "the specification (TraceAmmoProvider.tla)",
    design_ref="DESIGN.md §4 C08",
    text="The property is a matrix over provider kinds and bounds plus two liveness clauses (never blocks, never "
         "spins). AmmoProvider.tla models each provider's loops step by step, so TLC decides the design for every "
         "interleaving of provider, consumers and cancel; the full matrix (not a sample) is then executed against "
         "the real code built through config.Decode and the registered constructors, and TLC compares every cell "
         "with the specification's Expected/Hist and demands nil results, ok=false on every consumer, a closed sink "
         "after cancel and a successful engine run.",
    note="Every cell runs on afero.MemMapFs and on afero.OsFs (real files in the check's scratch dir; double Close, "
         "descriptor leaks, real Seek/Read), with rotating file layouts (no final newline, 5 KB padding per entry, relative "
         "path, in-file header lines, an entry of 70 000 / 200 000 bytes with maxammosize raised, minimal read buffer) and a "
         "fingerprint of every delivered ammo (same entry = same ammo in every pass). A wrapper fs counts the work on the ammo "
         "files per run (rewinds bounded by the passes needed: no spinning after the bound) and injects file faults "
         "(Open/Close/Read/Seek/Stat) into a rotating third of the cells: sink closed, nobody blocked, short delivery "
         "only with an error. Bounds: entries 1..3 (rings with weights up to 6:3:3 in the thorough tier), limit 0..4, passes 0..3, "
         "consumers 1..3, cut after 1 item or after 2E+3. Hang rule: no progress for 5 s (normal: microseconds), "
         "confirmed by a second run. Well-formed files only; the renderers and the projection "
         "(harness/cmd/vdrive/ammoprov_render.go) are trusted. Buffered sinks are abstracted to capacity 1-2 in "
         "the model; Go's random select is modelled as bounded unfairness (MaxSkip).",
)

NEGS = ["preload_err", "scn_err", "scn_noclose", "grpc_spin", "array_single", "pass_off_by_one", "limit_gt",
        "limit_err", "noclose_on_limit", "nodone_select", "rewind_first"]


def cases_from(r):
    out = []
    for ln in r.out.splitlines():
        if ln.startswith('<<"VERIF", "'):
            out.append(json.loads(json.loads(ln[len('<<"VERIF", '):-2])))
    out.sort(key=lambda c: c["id"])
    return out


KMS = [(k, p) for k in ("uri", "uris", "raw", "uripost", "jsonline", "jsonarray") for p in (False, True)] + \
      [(k, False) for k in ("httpscn", "grpcscn", "grpcjson", "json")]


def rand_cells(n, max_e, seed):
    """Seeded random cell COORDINATES (sizes beyond the exhaustive matrix: files longer than the sinks' buffers,
    more consumers, arbitrary weights).  No expected values here: TLC computes stop/cap, drops cuts that are no
    cuts, and later judges the observations."""
    rnd = random.Random(seed * 7919 + 17)
    out = []
    for i in range(n):
        kind, pre = KMS[i % len(KMS)]
        if kind in ("httpscn", "grpcscn") and rnd.random() < 0.7:
            f = rnd.choice([1, 1, 2, 5])
            w = [f * rnd.randint(1, 6) for _ in range(rnd.randint(1, 6))]
            e = sum(w)
        else:
            e = rnd.choice([1, 2, 3, 5, 8, 13, 40, 99, 100, 101, 127, 128, 129, 130, max_e])
            w = [1] * min(e, max_e)
            e = len(w)
        limit = rnd.choice([0, 0, rnd.randint(1, 3 * e + 2), rnd.randint(1, e + 1)])
        passes = rnd.choice([0, 0, 1, 2, 3, 5])
        cut = rnd.choice([0, 0, -1, rnd.randint(1, 2 * e + 1), rnd.randint(1, 2 * e + 1)])
        out.append({"id": RAND_BASE + i, "kind": kind, "preload": pre, "limit": limit, "passes": passes, "w": w,
                    "nc": rnd.randint(1, 8), "cut": cut})
    return out


def cell_sig(o):
    mode = "preload" if o["preload"] else "stream"
    lim = "limit>0" if o["limit"] else "limit=0"
    pas = "passes>0" if o["passes"] else "passes=0"
    cut = " cut" if o["cut"] > 0 else (" precancel" if o["cut"] < 0 else "")
    flt = " fault=%s" % o["fault"].rstrip("0123456789") if o.get("fault") else ""
    return "provider=%s mode=%s %s %s%s fs=%s%s" % (o["kind"], mode, lim, pas, cut, o["fs"], flt)


def describe(o, inv):
    base = "cell kind=%s preload=%s limit=%d passes=%d w=%s consumers=%d cut=%d (config: %s, %s shape; fs=%s, file layout %s): " % (
        o["kind"], o["preload"], o["limit"], o["passes"], o["w"] if len(o["w"]) < 8 else "%d x 1" % len(o["w"]), o["nc"],
        o["cut"], o["via"], o["shape"], o["fs"], o["layout"])
    if o.get("build_err"):
        return base + "provider could not be built: %s" % o["build_err"]
    if inv in ("Delivered", "Order"):
        return base + "delivered %d item(s), per-entry counts %s (unknown items: %d)" % (o["count"], o["hist"], o["unknown"])
    if inv == "Returned":
        return base + "Provider.Run did not return (no progress for the hang limit, %d attempt(s)); consumers done: %s" % (
            o["attempts"], o["cons_done"])
    if inv == "RunResult":
        return base + "Provider.Run returned %s (%r), driver had to cancel: %s" % (o["run_class"], o["run_err"], o["cancelled"])
    if inv == "EndOfAmmo":
        return base + "%d of %d consumers observed ok=false; after cancel: drained %d, sink closed: %s" % (
            o["eofs"], o["nc"], o["drained"], o["eof_after"])
    if inv == "Stable":
        return base + "%d entr(y/ies) did not look the same every time they were delivered (%d items delivered)" % (
            o["variants"], o["count"])
    if inv == "RejectOK":
        return base + "entry over the size limit behind %d entries: Run returned=%s class=%s (%r), %d of %d consumers saw ok=false, %d delivered" % (
            o["over_at"], o["run_ret"], o["run_class"], o["run_err"], o["eofs"], o["nc"], o["count"])
    if inv == "Work":
        return base + "%d rewinds, %d opens, %d Read calls, %d KiB read for %d delivered (+%d drained) item(s)" % (
            o["rewinds"], o["opens"], o["reads"], o["kbytes"], o["count"], max(o["drained"], 0))
    if inv == "EngWork":
        return base + "engine run: %d rewinds, %d opens for %d shots" % (o["eng_rewinds"], o["eng_opens"], o["eng_shots"])
    if inv == "FaultOK":
        return base + "injected fault %s (hit %d time(s)): Run returned=%s class=%s (%r); consumers done=%s, %d of %d saw " \
            "ok=false, sink closed after cancel=%s; %d delivered" % (
                o["fault"], o["faults_hit"], o["run_ret"], o["run_class"], o["run_err"], o["cons_done"], o["eofs"], o["nc"],
                o["eof_after"], o["count"])
    if inv == "NoSeekOK":
        return base + "source that cannot seek (every rewind fails; %d rewind attempt(s)), all wanted items lie in the first pass: " \
            "Run returned=%s class=%s (%r), %d delivered" % (o["faults_hit"], o["run_ret"], o["run_class"], o["run_err"], o["count"])
    if inv == "NoFdLeak":
        return base + "the driver process held %d open descriptors before its first cell and %d after this one" % (
            o["fds0"], o["fds"])
    if inv == "EngineOK":
        return base + "engine run: returned=%s result=%s (%r) shots=%d Wait returned=%s" % (
            o["eng_ret"], o["eng_class"], o["eng_err"], o["eng_shots"], o["eng_wait"])
    return base + "invariant %s" % inv


def trace_tlc(obs_path, cfg, timeout, workers=6):
    return vlib.tlc("TraceAmmoProvider", cfg, env={"VERIF_TRACE": obs_path}, cont=True, timeout=timeout,
                    workers=workers, heap="4g")


def judge(v, tr, rows):
    if tr.error:
        raise vlib.MachineryError("TraceAmmoProvider failed: %s\n%s" % (tr.kind, tr.out[-3000:]))
    if tr.distinct != len(rows) + 1:
        raise vlib.MachineryError("TraceAmmoProvider visited %d states for %d lines" % (tr.distinct, len(rows)))
    seen = set()
    bad_cells = set()
    for inv, st in tr.all_violations:
        ln = int(st.get("l", "0"))
        if inv in ("Complete", "InMatrix"):
            raise vlib.MachineryError("recorded cells are not the matrix (%s at line %d)" % (inv, ln))
        if ln < 1 or (inv, ln) in seen:
            continue
        seen.add((inv, ln))
        o = rows[ln - 1]
        bad_cells.add(o["id"])
        v.violation("%s inv=%s" % (cell_sig(o), inv), describe(o, inv),
                    replay_obj={"invariant": inv, "observed": o}, replay_name="cell_%d_%s_%s.json" % (o["id"], o["fs"], inv))
    return bad_cells


QUICK_NEGS = ["preload_err", "scn_noclose", "grpc_spin", "array_single", "rewind_first"]     # the pre-fix behaviours


def run(tier, v):
    thorough = tier == "thorough"
    states = trans = 0
    exh = ["AmmoProvider_exh.cfg", "AmmoProvider_exh_big.cfg", "AmmoProvider_live.cfg"] if thorough \
        else ["AmmoProvider_exh_quick.cfg"]
    negs = NEGS if thorough else QUICK_NEGS
    gen_cfg = "AmmoProvider_gen_thorough.cfg" if thorough else "AmmoProvider_gen_quick.cfg"
    d = vlib.scratch()
    rpath = os.path.join(d, "randcells.ndjson")
    vlib.write_ndjson(rpath, rand_cells(8000 if thorough else 240, 400 if thorough else 140, vlib.seed()))

    # 1. design level: exhaustive + negative controls; the case table (small jobs, run side by side)
    def one(job):
        kind, cfg = job
        if kind == "gen":
            return job, vlib.tlc("AmmoProviderMC", cfg, workers=2, heap="3g", deadlock=False, timeout=900,
                                 env={"VERIF_CELLS": rpath})
        if kind == "exh":
            return job, vlib.tlc("AmmoProviderMC", cfg, workers=6, heap="6g", deadlock=False, timeout=3000)
        return job, vlib.tlc("AmmoProviderMC", cfg, workers=1, heap="2g", deadlock=False, timeout=600)

    jobs = [("exh", c) for c in exh] + [("gen", gen_cfg)] + [("neg", "AmmoProvider_neg_%s.cfg" % n) for n in negs]
    vlib.spec_copy()
    b = vlib.harness_build()
    with ThreadPoolExecutor(max_workers=3) as ex:
        results = list(ex.map(one, jobs))
    cases = None
    for (kind, cfg), r in results:
        vlib.log("TLC %s %s: %.1fs, %d distinct states" % (kind, cfg, r.wall, r.distinct))
        if kind == "exh":
            vlib.tlc_must_pass(r, cfg)
            states += r.distinct
            trans += r.generated
        elif kind == "neg":
            vlib.tlc_must_fail(r, cfg)
        else:
            vlib.tlc_must_pass(r, cfg)
            cases = cases_from(r)
            if len(cases) != r.distinct or len({c_["id"] for c_ in cases}) != len(cases):
                raise vlib.MachineryError("case export: %d cases for %d cells" % (len(cases), r.distinct))
    nrand = sum(1 for c_ in cases if c_["id"] >= RAND_BASE)
    if nrand < 100:
        raise vlib.MachineryError("only %d random cells survived" % nrand)
    # 2. M2: the whole table through the real providers
    cpath = os.path.join(d, "cases.ndjson")
    vlib.write_ndjson(cpath, cases)
    opath = os.path.join(d, "obs.ndjson")
    t0 = time.time()
    if not os.path.exists(b):       # scratch dirs live in the shared /tmp: somebody else's cleanup may have taken it
        vlib._built.clear()
        b = vlib.harness_build()
    osdir = os.path.join(d, "osfs")      # real files of the OsFs runs: under the check's scratch dir, removed with it
    os.makedirs(osdir)
    vlib.run_driver(b, ["ammoprov", "-cases", cpath, "-out", opath, "-hang", "5s", "-par", "6", "-osdir", osdir],
                    timeout=2400)
    drv_wall = time.time() - t0
    rows = vlib.read_ndjson(opath)
    # 3. M1: TLC compares cell by cell; the recorded cells must be exactly the tier's table (+ the random cells)
    tr = trace_tlc(opath, "TraceAmmoProvider_thorough.cfg" if thorough else "TraceAmmoProvider.cfg",
                   3000 if thorough else 900, 6)
    bad = judge(v, tr, rows)
    vlib.log("TraceAmmoProvider: %.1fs for %d cells" % (tr.wall, len(rows)))
    skipped = [o for o in rows if o["skipped"]]
    if skipped and not bad:
        raise vlib.MachineryError("%d cells skipped without a blocked cell" % len(skipped))
    kinds = sorted({(o["kind"], o["preload"]) for o in rows})
    nontrivial = len({(o["kind"], o["preload"], o["limit"], o["passes"], tuple(o["w"]), o["nc"], o["cut"], o["fs"])
                      for o in rows if not o["skipped"] and (o["limit"] or o["passes"] or o["cut"])})
    def brief(o):
        return {k: o[k] for k in ("kind", "preload", "limit", "passes", "nc", "cut", "shape", "via", "fs", "layout", "count", "eofs",
                                  "run_class", "cancelled", "drained", "eof_after", "ret_us", "eng_class", "eng_shots")} \
            | {"w": o["w"] if len(o["w"]) < 8 else "%d x 1" % len(o["w"]),
               "hist": o["hist"] if len(o["hist"]) < 8 else o["hist"][:4] + ["..."]}
    picks = [lambda o: o["limit"] and not o["passes"] and not o["cut"] and o["preload"],
             lambda o: o["passes"] and not o["limit"] and not o["cut"] and o["kind"] == "jsonarray",
             lambda o: o["limit"] and o["passes"] and o["kind"] in ("httpscn", "grpcscn") and len(o["w"]) > 1 and not o["cut"],
             lambda o: o["kind"] == "grpcjson" and o["limit"] and not o["passes"] and not o["cut"],
             lambda o: o["kind"] == "json" and o["passes"] > 1 and o["cut"],
             lambda o: not o["limit"] and not o["passes"] and not o["cut"] and o["nc"] > 1,
             lambda o: o["id"] >= RAND_BASE and o["limit"]]
    samples = []
    for i, pk in enumerate(picks):
        hit = [o for o in rows if not o["skipped"] and pk(o)]
        if hit:
            samples.append(brief(hit[(vlib.seed() * 31 + i * 7) % len(hit)]))
    samples = samples or [brief(rows[0])]
    ret = sorted(o["ret_us"] for o in rows if o["cancelled"] and o["run_ret"])
    cov = {
        "states": states, "transitions": trans,
        "traces_validated_against_impl": len(rows) - len(skipped),
        "samples": samples,
        "exhaustive": True,
        "evaluations": len(rows), "distinct_nontrivial": nontrivial,
        "rule": "every cell of kind x preload x limit x passes x weights x consumers x cut of the tier's table "
                "enumerated by TLC (AmmoProviderMC!QuickTable / ThoroughTable), plus seeded random cells of larger "
                "sizes whose run parameters TLC computes; non-trivial = at least one of limit, passes, cut is set "
                "(the others are the unbounded cells cut at 2E+3)",
        "provider_kind_modes": len(kinds),
        "matrix_cells": len(cases) - nrand,
        "random_cells": nrand,
        "max_entries": max(c_["entries"] for c_ in cases),
        "max_delivered": max(o["count"] for o in rows),
        "engine_runs": sum(1 for o in rows if o["eng"]),
        "cells_skipped_after_blocked": len(skipped),
        "second_attempts": sum(1 for o in rows if o["attempts"] > 1 or o["eng_attempts"] > 1),
        "return_after_cancel_us_median_max": [ret[len(ret) // 2], ret[-1]] if ret else [],
        "config_routes": sorted({o["via"] + "/" + o["shape"] for o in rows}),
        "file_systems": sorted({o["fs"] for o in rows}),
        "file_layouts": len({o["layout"] for o in rows}),
        "oversize_entry_runs": sum(1 for o in rows if "+over" in o["layout"] and not o["reject"]),
        "oversize_multi_pass_runs": sum(1 for o in rows if "+over" in o["layout"] and not o["reject"] and o["count"] > len(o["w"])),
        "size_limit_control_runs": sum(1 for o in rows if o["reject"]),
        "fault_runs": sum(1 for o in rows if o["fault"]),
        "fault_runs_where_the_fault_fired": sum(1 for o in rows if o["fault"] and o["faults_hit"] > 0),
        "fault_kinds": sorted({o["fault"] for o in rows if o["fault"]}),
        "max_rewinds": max(o["rewinds"] for o in rows),
        "rewinds_total": sum(o["rewinds"] + o["eng_rewinds"] for o in rows),
        "max_open_fds_over_baseline": max(o["fds"] - o["fds0"] for o in rows),
        "trace_spec_states": tr.distinct,
        "driver_wall_s": round(drv_wall, 1),
        "negative_controls": negs,
        "design_configs": exh,
    }
    return "model_checking", cov, [
        "well-formed ammo files only; renderers/projection in harness/cmd/vdrive/ammoprov_render.go are trusted",
        "descriptor-leak check needs /proc/self/fd (vacuous elsewhere); one-sided with slack 16",
        "hang rule: no progress for 5 s on two consecutive attempts = blocked/spinning",
        "model abstractions: buffered sinks have capacity 1-2, Go's select is boundedly unfair (MaxSkip)",
    ]


def replay(path, v):
    obj = json.load(open(path))
    o = obj["observed"]
    case = {k: o[k] for k in ("id", "kind", "preload", "limit", "passes", "w", "nc", "cut", "stop", "cap")}
    b = vlib.harness_build()
    d = vlib.scratch()
    cpath, opath = os.path.join(d, "cases.ndjson"), os.path.join(d, "obs.ndjson")
    vlib.write_ndjson(cpath, [case])
    osdir = os.path.join(d, "osfs")
    os.makedirs(osdir)
    vlib.run_driver(b, ["ammoprov", "-cases", cpath, "-out", opath, "-hang", "5s", "-osdir", osdir], timeout=300)
    rows = vlib.read_ndjson(opath)
    cfg = "TraceAmmoProvider_replay.cfg"   # no matrix membership for a single replayed cell
    tr = trace_tlc(opath, cfg, 600, 1)
    if tr.error:
        raise vlib.MachineryError("TraceAmmoProvider failed: %s\n%s" % (tr.kind, tr.out[-3000:]))
    for inv, st in tr.all_violations:
        if inv in ("Complete", "InMatrix") or int(st.get("l", "0")) < 1:
            continue
        o_ = rows[int(st.get("l", "1")) - 1]
        print("replayed cell violates %s: %s" % (inv, describe(o_, inv)))
        v.violation("%s inv=%s" % (cell_sig(o_), inv), describe(o_, inv))
    return None
