"""C10 — sample result coding: one sample per request with faithful codes, tags, ids.

TLC design level : SampleCoding.tla — GrpcCode (documented table), HttpSample (proto/net coding of an
                   exchange outcome), Tags/AutoTag/__EMPTY__, Expected(c), and the OneSamplePerRequest /
                   id-allocation state machine (Acquire -> ShootBegin -> Report* -> ShootEnd, 2 instances,
                   all interleavings), 6 negative controls (swap, grpc_internal, double, id_local,
                   depth_off, no_empty).
M2 (spec->code)  : SampleCodingGen.tla writes the case space (all HTTP statuses 200..599, refused / reset /
                   timeout / truncated body, all gRPC codes 0..17 + 99 and client-side Unavailable /
                   DeadlineExceeded, tag settings x URI shapes, scenario shots over step variants:
                   exchange outcomes, REAL pre/postprocessors that pass or fail (assert, extractor,
                   missing variable, unrenderable template), sleeps); `vdrive samplecoding -mode cases` plays each against
                   in-process HTTP/HTTPS/gRPC targets with the REAL providers and guns (registered
                   factories); TraceSampleCoding.tla compares every reported sample with Expected(c).
M1 (code->spec)  : the same log is the begin/report/end trace of a recording gun wrapper + aggregator mock,
                   walked through the machine's effects (one sample per request on every path, never more
                   while a shot runs); `-mode ids`: 8 instances x 500 concurrent acquisitions on one
                   provider, ids fresh at every Acquire and their cardinality = acquisitions (TLC).
Pool part        : SamplePool.tla - life-cycle of the pooled sample objects (Acquire -> fill field by field -> Report ->
                   aggregator writes the line -> release -> Acquire again; discarded shots), invariant "a sample handed
                   out by Acquire carries no residue of its previous use in any field that reaches the output",
                   exhaustive for 2 instances x 3 objects, 4 negative controls; bound by `vdrive samplepool`: TLC-
                   generated plans (all sequences of shot kinds) through the REAL guns into the REAL phout aggregator
                   (the one that returns samples to the pool), the written phout file is the observable
                   (TraceSamplePool.tla).
"""
import concurrent.futures
import json
import os
import vlib

PID = "C10"

MANIFEST = dict(
    category="model_checking",
    technique="TLC: explicit TLA+ coding functions + one-sample/id state machine (SampleCoding.tla) checked exhaustively, "
              "complete case space replayed through the real guns/providers against programmable in-process HTTP and gRPC "
              "targets, recorded begin/report/end traces validated by TraceSampleCoding.tla; sample-object life-cycle machine "
              "(SamplePool.tla) checked exhaustively and bound by runs through the real phout aggregator (written file = observable)",
    design_ref="DESIGN.md §4 C10",
    text="Status/errno/tag coding is a finite function (every HTTP status 200-599, every gRPC code, every failure kind, every "
         "auto-tag setting x URI shape): the function is written once in TLA+, TLC enumerates its whole domain and decides on "
         "the samples the real guns reported; 'exactly one sample per request on every path' and 'ids unique under any "
         "interleaving' are a state machine checked exhaustively for 2 instances and validated on recorded traces of the "
         "real guns (1 instance per case; 8 instances x 500 concurrent acquisitions). Samples are pooled objects: 'no residue of "
         "the previous use reaches the output' is an invariant of the Acquire/fill/Report/write/release machine (all interleavings "
         "of 2 instances, the aggregator and 3 objects) and is validated on the phout files written by the real aggregator for "
         "TLC-generated shot sequences (every kind followed by every kind) and for a pool run by the real engine with discarded shots.",
    note="net code is only decided as zero / non-zero (the statement's wording); failed scenario steps carry the extra tag "
         "__EMPTY__ after scenario.step (first tag compared); gRPC: untagged ammo and the proto code of unknown-method / "
         "ill-typed-payload shots are not fixed by the statement (only one-sample is checked there). Client timeout 150 ms is "
         "used only where the target never answers. Trusted: harness recorder (samplecoding.go, internal/targets).")


def _par(jobs):
    """run independent TLC jobs concurrently (each has its own metadir and config copy)."""
    vlib.spec_copy()
    with concurrent.futures.ThreadPoolExecutor(max_workers=8) as ex:
        futs = [ex.submit(vlib.tlc, *a, **k) for a, k in jobs]
        return [f.result() for f in futs]


def _case_sig(c):
    k = c["kind"]
    if k == "http":
        side = c.get("side")
        return "kind=http out=%s%s" % (c["out"]["kind"], " side=answlog:%s,httptrace:%s" % (side["answlog"], side["trace"]) if side else "")
    if k == "scncancel":
        return "kind=scncancel gun=%s when=%s" % (c["gun"], c["when"])
    if k == "tag":
        at = c["at"]
        return "kind=tag fmt=%s tag=%s auto=%s notagonly=%s%s" % (c["fmt"], "yes" if c["tag"] else "no", at["enabled"], at["notagonly"],
                                                                  " uri=no-path" if c.get("nopath") else "")
    if k == "grpc":
        return "kind=grpc status=%d" % c["status"]
    if k == "grpcfile":
        return "kind=grpcfile n=%d pattern=%s" % (c["n"], ",".join(x or "<untagged>" for x in c["pattern"]))
    if k in ("grpcbad", "grpcfail"):
        return "kind=%s what=%s" % (k, c["what"])
    if k == "httpscn":
        return "kind=httpscn steps=%s" % ",".join(
            s["out"]["kind"] + ("" if s.get("pre", "none") in ("none", "ok") else "+pre:" + s["pre"]) +
            ("" if s.get("post", "none") in ("none", "pass") else "+post:" + s["post"]) for s in c["steps"])
    if k == "grpcscn":
        return "kind=grpcscn steps=%s" % ",".join(
            "st%d" % s["status"] + ("" if s.get("pre", "none") in ("none", "ok") else "+pre:" + s["pre"]) +
            ("" if s.get("post", "none") in ("none", "pass") else "+post:" + s["post"]) for s in c["steps"])
    return "kind=%s" % k


def kinds_has_files(gen):
    return any(c["c"]["kind"] == "grpcfile" for c in gen)


def _shot_of(rows, ln):
    """the Begin..line slice of the shot that line ln (1-based) belongs to (same instance)."""
    inst = rows[ln - 1].get("inst")
    j = ln - 1
    while j >= 0 and not (rows[j]["ev"] == "Begin" and rows[j].get("inst") == inst):
        j -= 1
    if j < 0:
        return None, []
    return rows[j], [r for r in rows[j:ln] if r.get("inst") == inst]


def report(v, rows, tr, what):
    seen = set()
    for inv, st in tr.all_violations:
        try:
            ln = int(st.get("l", "0"))
        except ValueError:
            ln = 0
        if ln < 1 or (inv, ln) in seen:
            continue
        seen.add((inv, ln))
        if inv == "TRunIds":
            end = rows[ln - 1]
            begins = [r for r in rows[end.get("first", 1) - 1:ln] if r["ev"] == "Begin"]
            idl = [r["id"] for r in begins]
            dup = sorted({i for i in idl if idl.count(i) > 1})[:5] if len(idl) < 20000 else []
            v.violation("ids inv=TRunIds",
                        "%d instances x %d acquisitions on one provider: %d shots carried %d distinct ammo ids (e.g. repeated: %s) — "
                        "ids are not injective within the run" % (end["n"], end["r"], len(idl), len(set(idl)), dup),
                        replay_obj={"kind": "ids", "invariant": inv, "case": None,
                                    "events": [{"ev": "RunBegin", "n": end["n"], "r": end["r"]}] + begins +
                                              [dict(end, first=1)]},
                        replay_name="ids_TRunIds.json")
            continue
        begin, shot = _shot_of(rows, ln)
        c = begin["c"] if begin else {"kind": "?"}
        keep = len(seen) <= 40   # replay files for the first violations only
        reps = [{k: r.get(k) for k in ("tags", "id", "proto", "net", "err")} for r in shot if r["ev"] == "Report"]
        nreps = len(reps)
        if c.get("kind") == "grpcfile":
            # evidence only (TLC decided): the first samples whose tag is not an element of the pattern at that position
            pat = c["pattern"]
            odd = [dict(r, entry=i + 1, written=pat[i % len(pat)] or "<no tag key>") for i, r in enumerate(reps)
                   if (r["tags"] or [""])[0] not in (pat[i % len(pat)], "__EMPTY__")]
            reps = {"first_samples": reps[:6], "samples_under_a_foreign_tag": len(odd), "e.g.": odd[:4]}
            shot = shot[:40]
        v.violation("coding %s inv=%s" % (_case_sig(c), inv),
                    "%s: case %s (ammo id %s) — the aggregator received %d sample(s) %s, target saw %s; invariant %s of "
                    "TraceSampleCoding fails at log line %d" % (what, json.dumps(c, sort_keys=True), begin.get("id") if begin else "?",
                                                               nreps, reps, shot[-1].get("seen") if shot else None, inv, ln),
                    replay_obj={"kind": what, "invariant": inv, "case": {"id": begin.get("caseid", 0), "c": c} if begin else None,
                                "events": shot} if keep else None,
                    replay_name="%s_l%d_%s.json" % (what, ln, inv))


def validate(v, path, cfg, what, timeout=1800):
    """cases log: every violation (chunks of 20 cases keep counterexamples short); ids log (long concurrent
    waves): first violation only."""
    rows = vlib.read_ndjson(path)
    tr = vlib.tlc("TraceSampleCoding", cfg, env={"VERIF_TRACE": path}, workers=4, cont=(what == "cases"), timeout=timeout, heap="4g")
    return rows, tr


def _finish(v, rows, tr, what):
    if tr.error:
        raise vlib.MachineryError("TraceSampleCoding (%s) failed: %s\n%s" % (what, tr.kind, tr.out[-3000:]))
    resets = sum(1 for r in rows if r["ev"] == "Reset")
    first = min([i for i, r in enumerate(rows) if r["ev"] == "Reset"] or [0])
    if (what == "cases" or not tr.violation) and tr.distinct != len(rows) - first + resets:
        raise vlib.MachineryError("TraceSampleCoding (%s) visited %d states for %d lines + %d restart points\n%s" % (
            what, tr.distinct, len(rows), resets, tr.out[-2000:]))
    report(v, rows, tr, what)


def _shot_sig(c):
    if c.get("kind") == "discard":
        return "discard"
    return "http out=%s%s%s" % (c["out"]["kind"], "/%d" % c["out"]["status"] if c["out"].get("status") else "", " httptrace" if c.get("dump") else "")


def pool_validate(v, path, what, timeout=900):
    """TraceSamplePool on one pool log; every violation is reported with the object's previous use as evidence."""
    rows = vlib.read_ndjson(path)
    tr = vlib.tlc("TraceSamplePool", "TraceSamplePool.cfg", env={"VERIF_TRACE": path}, workers=4, cont=True, timeout=timeout, heap="4g")
    if tr.error:
        raise vlib.MachineryError("TraceSamplePool (%s) failed: %s\n%s" % (what, tr.kind, tr.out[-3000:]))
    resets = sum(1 for r in rows if r["ev"] == "Reset")
    if tr.distinct != len(rows) + resets:
        raise vlib.MachineryError("TraceSamplePool (%s) visited %d states for %d lines + %d runs\n%s" % (what, tr.distinct, len(rows), resets, tr.out[-2000:]))
    seen = set()
    for inv, st in tr.all_violations:
        try:
            ln = int(st.get("l", "0"))
        except ValueError:
            ln = 0
        if ln < 1 or (inv, ln) in seen:
            continue
        seen.add((inv, ln))
        row = rows[ln - 1]
        keep = len(seen) <= 20
        if row["ev"] == "Shot":
            prev = [r for r in rows[:ln - 1] if r["ev"] == "Shot" and r["obj"] == row["obj"]]
            before = ("object #%d was last reported for a %s shot as %s" % (row["obj"], _shot_sig(prev[-1]["c"]), prev[-1]["s"])) if prev else \
                     ("object #%d had not been reported before" % row["obj"])
            v.violation("pool shot=%s inv=%s" % (_shot_sig(row["c"]), inv),
                        "%s, run %d (GOMAXPROCS %s), instance %d, plan %d: the shot %s (ammo id %d) reported through the real phout aggregator "
                        "carries %s - %s; rule %s of SamplePool.tla (LineOK) fails at log line %d" % (
                            what, row["run"], [r for r in rows if r["ev"] == "Reset" and r["run"] == row["run"]][0].get("procs", "default"),
                            row["inst"], row.get("plan", 0), json.dumps(row["c"], sort_keys=True), row["ammo"], row["s"], before, inv, ln),
                        replay_obj={"kind": "pool", "invariant": inv, "events": [{"ev": "Reset", "run": row["run"]}] + prev[-1:] + [row]} if keep else None,
                        replay_name="pool_l%d_%s.json" % (ln, inv))
        else:
            run_rows = [r for r in rows if r.get("run") == row.get("run")]
            v.violation("pool %s inv=%s" % ("engine-run" if row["ev"] in ("ELine", "EEnd") else "file", inv),
                        "%s, run %d: rule %s of TraceSamplePool fails at log line %d %s (reported samples %d, lines in the phout file %d)" % (
                            what, row.get("run", 0), inv, ln, {k: row.get(k) for k in ("ev", "j", "s", "raw", "reports", "lines")},
                            sum(1 for r in run_rows if r["ev"] == "Shot"), sum(1 for r in run_rows if r["ev"] == "Line")),
                        replay_obj={"kind": "pool", "invariant": inv, "events": run_rows} if keep else None,
                        replay_name="pool_l%d_%s.json" % (ln, inv))
    shots = [r for r in rows if r["ev"] == "Shot"]
    objs, recycled, dirty = set(), 0, 0
    last = {}
    for r in shots:
        if r["obj"] in objs:
            recycled += 1
            p_ = last[r["obj"]]     # (by the KIND of the two shots, as planned - not by what was reported)
            if (p_["kind"] == "discard" or p_["out"]["kind"] != "status") and r["c"]["kind"] == "http" and r["c"]["out"]["kind"] == "status":
                dirty += 1          # the object of a failed / discarded shot came back for a shot that gets an answer
        objs.add(r["obj"])
        last[r["obj"]] = r["c"]
    return rows, tr, dict(shots=len(shots), lines=sum(1 for r in rows if r["ev"] == "Line"), runs=resets, objects=len(objs),
                          recycled=recycled, failed_object_reused_by_successful_shot=dirty)


def run(tier, v):
    thorough = tier == "thorough"
    sfx = "_big" if thorough else ""
    negs = ["swap", "grpc_internal", "double", "double_post", "double_cancel", "no_empty_auto", "id_local", "depth_off", "no_empty", "stale_tag"]
    # 1. design level + negative controls + generator, concurrently
    d = vlib.scratch()
    cases = os.path.join(d, "cases.ndjson")
    # quick: one shot per instance (all interleavings of two instances); thorough: two shots each
    exh = "SampleCoding_exh.cfg" if thorough else "SampleCoding_exh_quick.cfg"
    jobs = [(("SampleCodingMC", exh), dict(deadlock=False, workers=2, heap="4g", timeout=1200)),
            (("SampleCodingGen", "SampleCoding_gen%s.cfg" % sfx), dict(env={"VERIF_OUT": cases}, workers=1, heap="4g", timeout=1200, deadlock=False))]
    jobs += [(("SampleCodingMC", "SampleCoding_neg_%s.cfg" % n), dict(deadlock=False, workers=1, heap="2g", timeout=600)) for n in negs]
    # pool part: life-cycle machine (quick: 3 shots, thorough: 4), its negative controls, the plan generator
    plans = os.path.join(d, "plans.ndjson")
    pool_exh = "SamplePool_exh%s.cfg" % sfx
    # quick: one negative control per mechanism (re-initialisation, release order); thorough: all, and the explanation run
    pool_negs = ["keeps_net", "keeps_sizes", "release_early", "recycles"] if thorough else ["keeps_net", "release_early"]
    njobs = len(jobs)
    jobs += [(("SamplePoolMC", pool_exh), dict(deadlock=False, workers=4, heap="6g", timeout=1800)),
             (("SamplePoolGen", "SamplePool_gen%s.cfg" % sfx), dict(env={"VERIF_OUT": plans}, workers=1, heap="2g", timeout=600, deadlock=False))]
    jobs += [(("SamplePoolMC", "SamplePool_neg_%s.cfg" % n), dict(deadlock=False, workers=1, heap="2g", timeout=600)) for n in pool_negs]
    if thorough:
        jobs += [(("SamplePoolMC", "SamplePool_norelease.cfg"), dict(deadlock=False, workers=2, heap="4g", timeout=900))]
    with concurrent.futures.ThreadPoolExecutor(max_workers=1) as bex:
        fbuild = bex.submit(vlib.harness_build)        # the Go build runs next to the TLC jobs
        res = _par(jobs)
        b = fbuild.result()
    pres = res[njobs:]
    res = res[:njobs]
    vlib.tlc_must_pass(pres[0], pool_exh)
    if pres[1].error or pres[1].violation or not os.path.exists(plans):
        raise vlib.MachineryError("plan generation failed: %s\n%s" % (pres[1].kind, pres[1].out[-3000:]))
    for n, r in zip(pool_negs, pres[2:]):
        vlib.tlc_must_fail(r, "SamplePool_neg_%s.cfg" % n)
    if thorough:
        # an aggregator that keeps the samples hides even the forgotten net code: the model says why only a releasing one binds
        vlib.tlc_must_pass(pres[-1], "SamplePool_norelease.cfg")
    states, trans = res[0].distinct + pres[0].distinct, res[0].generated + pres[0].generated
    g = res[1]
    if g.error or g.violation or not os.path.exists(cases):
        raise vlib.MachineryError("case generation failed: %s\n%s" % (g.kind, g.out[-3000:]))
    for n, r in zip(negs, res[2:]):
        vlib.tlc_must_fail(r, "SampleCoding_neg_%s.cfg" % n)
    gen = vlib.read_ndjson(cases)
    # 2. drivers
    poole = os.path.join(d, "poole.ndjson")
    eex = concurrent.futures.ThreadPoolExecutor(max_workers=1)
    fengine = eex.submit(vlib.run_driver, b, ["samplepool", "-mode", "engine", "-out", poole], timeout=600)   # sleeps 3 s: next to the others
    obs = os.path.join(d, "obs.ndjson")
    ids = os.path.join(d, "ids.ndjson")
    vlib.run_driver(b, ["samplecoding", "-mode", "cases", "-cases", cases, "-out", obs], timeout=1800)
    n_inst, n_acq, rounds = (8, 1500, 2) if thorough else (8, 500, 1)
    vlib.run_driver(b, ["samplecoding", "-mode", "ids", "-out", ids, "-n", str(n_inst), "-r", str(n_acq), "-rounds", str(rounds)], timeout=1800)
    # pool runs: (a) one P, one instance - what a shot releases is what the next one gets; (b) the machine's Ps, 4
    # instances shooting concurrently into one phout aggregator
    pool1 = os.path.join(d, "pool1.ndjson")
    pool4 = os.path.join(d, "pool4.ndjson")
    vlib.run_driver(b, ["samplepool", "-plans", plans, "-out", pool1, "-procs", "1", "-n", "1"], timeout=1800)
    vlib.run_driver(b, ["samplepool", "-plans", plans, "-out", pool4, "-procs", "0", "-n", "4", "-repeat", "2" if not thorough else "1"], timeout=1800)
    # (c) a whole pool run by the real engine from a YAML config: the first answer takes 2.3 s, the engine discards the
    # overdue shots (discard_overflow, on by default), the following shots recycle their samples (3 s of wall, mostly asleep)
    fengine.result()
    # bookkeeping (plain equality of abstract JSON values): the driver played exactly the generated cases
    orows = vlib.read_ndjson(obs)
    begun = {r["caseid"]: r["c"] for r in orows if r["ev"] == "Begin"}
    if sorted(begun) != sorted(c["id"] for c in gen) or any(begun[c["id"]] != c["c"] for c in gen):
        raise vlib.MachineryError("driver did not play exactly the generated cases (%d of %d)" % (len(begun), len(gen)))
    # 3. TLC on both logs, concurrently
    cfg = "TraceSampleCoding%s.cfg" % sfx
    with concurrent.futures.ThreadPoolExecutor(max_workers=4) as ex:
        f1 = ex.submit(validate, v, obs, cfg, "cases")
        f2 = ex.submit(validate, v, ids, "TraceSampleCodingIds%s.cfg" % sfx, "ids")  # own cfg name: runs concurrently
        f3 = ex.submit(pool_validate, v, pool1, "pool run, one instance on one P")
        f4 = ex.submit(pool_validate, v, pool4, "pool run, 4 concurrent instances")
        (rows1, tr1), (rows2, tr2) = f1.result(), f2.result()
        (prow1, ptr1, pcov1), (prow4, ptr4, pcov4) = f3.result(), f4.result()
    prowe, ptre, _ = pool_validate(v, poole, "pool run by the real engine, discard_overflow")
    elines = [r for r in prowe if r["ev"] == "ELine"]
    ecov = dict(lines=len(elines), discarded=sum(1 for r in elines if r["s"]["tags"] == ["discarded"]),
                fired_after_a_discard=sum(1 for i, r in enumerate(elines) if r["s"]["tags"] != ["discarded"] and
                                          any(q["s"]["tags"] == ["discarded"] for q in elines[:i])))
    nplans = len(vlib.read_ndjson(plans))
    if pcov1["recycled"] == 0 or pcov1["failed_object_reused_by_successful_shot"] == 0:
        # nothing was recycled: the run would not have exercised what it is for (machinery, not a verdict)
        raise vlib.MachineryError("pool run on one P recycled no sample object (%s)" % pcov1)
    # grpc/json file cases: how many entries were shot with an ammo object an earlier entry had used (End.note)
    import re
    fnotes = [re.search(r"recycled=(\d+) calls=(\d+)", r.get("note", "")) for r in rows1 if r["ev"] == "End" and r.get("note")]
    frecycled = sum(int(m.group(1)) for m in fnotes if m)
    if kinds_has_files(gen) and frecycled == 0:
        raise vlib.MachineryError("grpc/json file cases: no entry was shot with a recycled ammo object (%d cases)" % len(fnotes))
    _finish(v, rows1, tr1, "cases")
    _finish(v, rows2, tr2, "ids")
    kinds = {}
    for c in gen:
        kinds[c["c"]["kind"]] = kinds.get(c["c"]["kind"], 0) + 1
    nontrivial = len({json.dumps(c["c"], sort_keys=True) for c in gen
                      if not (c["c"]["kind"] == "http" and c["c"]["out"] == {"kind": "status", "status": 200})})
    shots2 = sum(1 for r in rows2 if r["ev"] == "Begin")
    samples = []
    for want in ("http", "tag", "grpc", "httpscn", "grpcscn"):
        for i, r in enumerate(rows1):
            if r["ev"] == "Begin" and r["c"]["kind"] == want and (want != "http" or r["c"]["out"]["kind"] != "status"):
                _, shot = _shot_of(rows1, i + 1)
                j = i
                while rows1[j]["ev"] != "End":
                    j += 1
                samples.append({"case": r["c"], "reported": [{k: e.get(k) for k in ("tags", "id", "proto", "net")}
                                                               for e in rows1[i:j + 1] if e["ev"] == "Report"],
                                "target_saw": rows1[j].get("seen")})
                break
    samples.append({"pool_run": [r for r in prow1 if r["ev"] in ("Shot", "Line")][:4] + [r for r in prow1 if r["ev"] == "Line"][:2]})
    samples.append({"ids_run": [r for r in rows2 if r["ev"] in ("Reset", "RunEnd")],
                    "first_events": [{k: e.get(k) for k in ("seq", "ev", "inst", "id", "tags", "proto", "net")} for e in rows2[1:7]]})
    cov = {
        "states": states, "transitions": trans,
        "traces_validated_against_impl": len(begun) + shots2 + pcov1["runs"] + pcov4["runs"] + 1,
        "pool_design_tlc": "%s: %d states" % (pool_exh, pres[0].distinct),
        "pool_plans": nplans, "pool_run_one_instance": pcov1, "pool_run_concurrent": pcov4, "pool_run_engine": ecov,
        "pool_trace_states": ptr1.distinct + ptr4.distinct + ptre.distinct,
        "pool_negative_controls": pool_negs,
        "samples": samples,
        "exhaustive": True,
        "evaluations": len(gen),
        "distinct_nontrivial": nontrivial,
        "rule": "complete case space generated by TLC (SampleCodingGen): HTTP statuses 200..599 + refused/reset/timeout/truncated, "
                "gRPC codes 0..17,99 + client-side refused/timeout, unknown method / ill-typed payload, invalid ammo, heterogeneous grpc/json files (tagged / untagged / undecodable lines, several times the provider queue long), {tagged, untagged} x auto-tag settings x "
                "URI shapes (0-4 segments, trailing slash, 3 query forms) x formats, scenario shots = all sequences (<= 2, thorough 3) "
                "of step variants {exchange outcomes; postprocessor none/pass/assertfail/extractfail x 200/404/500; preprocessor "
                "ok/fail; template failure; sleep} for the http and the grpc scenario gun; "
                "non-trivial = anything but the plain 200 exchange",
        "cases_by_kind": kinds,
        "grpc_file_entries": sum(c["c"]["n"] for c in gen if c["c"]["kind"] == "grpcfile"),
        "grpc_file_entries_shot_with_a_recycled_ammo_object": frecycled,
        "case_trace_states": tr1.distinct, "ids_trace_states": tr2.distinct,
        "concurrent_shots": shots2, "instances": n_inst, "acquisitions_per_instance": n_acq, "provider_rounds": rounds,
        "negative_controls": negs,
    }
    return "model_checking", cov, [
        "net code decided as zero / non-zero only; proto 0 demanded when no status line arrived",
        "scenario samples: first tag must be <scenario>.<step>; extra tags (the guns add __EMPTY__ on a failed step) tolerated",
        "scenario step that fails before sending (preprocessor / template): exactly one sample, proto 0, net not pinned; step whose "
        "postprocessor fails after a complete response: exactly one sample, proto = status received, net not pinned",
        "gRPC: an untagged grpc/json entry (file cases): its sample must carry no tag of another entry - __EMPTY__ (the statement) and the "
        "empty tag the gun reports today are both accepted; unknown method / ill-typed payload: only 'exactly one sample' is decided",
        "URIs without a path (query only, absolute-form): no auto-tag can be derived, __EMPTY__ unless the entry is tagged; a "
        "tagged entry with no-tag-only off is left out (the gun appends an empty tag, 't1|')",
        "cancelled scenario shots: the executed steps must be a prefix with one sample each (today's guns ignore the cancellation "
        "and finish the shot); the moment the cancel lands is not asserted",
        "timeout case uses response-header-timeout 150 ms against a target that never answers (one-sided: no upper bound asserted)",
        "pool runs: the sample pool is sync.Pool (per-P caches, emptied by the garbage collector): which object a shot gets "
        "is up to the runtime; the run on one P recycles deterministically enough (a machinery failure is raised if nothing was "
        "recycled), the concurrent run takes what it gets; a discarded shot is rendered as the engine does it "
        "(aggregator.Report(netsample.DiscardedShootSample())); its line is only required to carry the tag `discarded`",
        "phout columns: size / timing columns must be 0 for a gun without httptrace (nothing else is demanded of them)",
        "trusted: harness recorder (harness/cmd/vdrive/samplecoding.go, samplepool.go, httpwire_common.go, harness/internal/targets)",
    ]


def replay(path, v):
    obj = json.load(open(path))
    d = vlib.scratch()
    if obj.get("kind") == "pool":
        p_ = os.path.join(d, "pool.ndjson")
        vlib.write_ndjson(p_, obj["events"])
        pool_validate(v, p_, "replay")
        return None
    if obj.get("kind") == "cases" and obj.get("case"):
        b = vlib.harness_build()
        cases = os.path.join(d, "cases.ndjson")
        vlib.write_ndjson(cases, [obj["case"]])
        obs = os.path.join(d, "obs.ndjson")
        vlib.run_driver(b, ["samplecoding", "-mode", "cases", "-cases", cases, "-out", obs])
    else:
        obs = os.path.join(d, "events.ndjson")
        insts = sorted({e["inst"] for e in obj["events"] if e.get("inst")})
        vlib.write_ndjson(obs, [{"ev": "Reset", "insts": insts}] + obj["events"])
    rows, tr = validate(v, obs, "TraceSampleCoding_big.cfg", obj.get("kind", "cases"))
    _finish(v, rows, tr, obj.get("kind", "cases"))
    for r in rows:
        if r["ev"] == "Report":
            print("replayed: sample %s" % {k: r.get(k) for k in ("tags", "id", "proto", "net", "err")})
    return None
