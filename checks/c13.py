"""C13 — malformed ammo, scenario or config input is rejected, never crashes or hangs.

TLC design level : Malformed.tla — reader state machine over the abstract file (well-formed prefix, ONE
                   malformed item of a class, trailing entries) per format x mode, and over the stages of a
                   scenario description / config value with one defect; invariants: prefix unchanged, no
                   silent accept, no false reject, streaming delivers the whole prefix, progress bound.
                   Exhaustive over the whole case space; three negative controls must fail.
M2 (spec->code)  : the case list IS TLC's output (every terminal state prints its case); `vdrive malformed`
                   renders each case to bytes / a mutated bundled scenario payload, runs the REAL providers
                   (child processes under an address-space limit: a crash is an observation), records
                   Deliver/Stage/End events; TraceMalformed.tla accepts an observation iff it is a complete
                   behaviour of the reader machine - whose alphabet has no Panic, Crash or Hang.
M1 (byte level)  : seeded mutation fuzz of valid files per format; here the specification contributes only
                   the outcome alphabet {ok, error} and the prefix rule (thin end of the technique).
"""
import json
import os
import re
import time
import vlib

PID = "C13"

MANIFEST = dict(
    category="model_checking",
    technique="TLC enumerates the complete abstract case space of Malformed.tla (format x mode x prefix x malformed class x trailing; "
              "description defects x target; configuration files as text: pool-schema node x value shape x yaml/json/toml with the "
              "verdict computed by CfgSchema.tla; property files as line-token sequences; degenerate-only files with counted rewinds) "
              "and validates, with TraceMalformed.tla, what the real providers / the real CLI config reader + engine did on every "
              "rendered case against the reader state machine whose alphabet has no Panic/Crash/Hang/Spin; ByteEdit.tla and "
              "LineEdit.tla compute the expected outcome of byte- and line-level edits of valid files (LineEdit: by an abstract reader "
              "per format) and TraceByteEdit / TraceLineEdit compare; byte-level mutation fuzz is checked against the outcome "
              "alphabet and prefix rule.",
    design_ref="DESIGN.md §4 C13",
    text="Design level: reader machine per format/mode with invariants (prefix unchanged, no silent accept, no false reject, streaming "
         "delivers the prefix, progress bound, every rewind is paid for by a delivery, a rejected pool is named), exhaustive, six "
         "negative controls (+ two for LineEdit, one for ByteEdit). Conformance: every TLC-enumerated case is rendered and run through "
         "the real constructors/Run/Acquire (scenario: plus the real pre/postprocessors and templater on the acquired ammo; "
         "configuration text: cli.readConfig = viper + DecodeAndValidate with every plugin registered, then a real engine against a "
         "local target) in child processes under RLIMIT_AS; a process death, a recovered panic, a confirmed hang, a run that had to "
         "be cancelled or a provider that keeps rewinding its file is an event outside the alphabet, so the trace is rejected. This "
         "is the right level because the property is a universal statement over input classes whose outcome is a small relation "
         "(class x format x mode -> rejected/skipped/delivered prefix, stage of the rejection).",
    note="Bounds: prefix <= 2 (thorough 3), trailing <= 1 (thorough 2); configuration trees in yaml (thorough: + json, toml), one "
         "defect per file; property files of <= 2 lines (thorough 3); line edits on 2-entry files (thorough 4), one edit. Trusted: "
         "renderers/projections in harness/cmd/vdrive/malformed_*.go (incl. the YAML/JSON/TOML serialisers of malformed_cfg.go) and "
         "the step loop mirroring ScenarioGun.shootStep. 'All byte strings' is only sampled (seeded fuzz); there the spec contributes "
         "just {ok,error} + prefix rule. `lax` classes (what a grammar allows but the statement does not pin, malformed data files) "
         "decide only no-crash/no-hang and stage consistency. Not decided: polynomial slowness of third-party parsers on deep "
         "nesting (viper key search is cubic in the depth of mappings; go-toml has no depth limit), operator chains of > 1 MB in HCL, "
         "the grpc gun (unknown call / payload vs message type / reflection unavailable), real network responses (C19).")


def parse_prints(r):
    out = []
    for ln in r.out.splitlines():
        if ln.startswith('<<"VERIF", "'):
            out.append(json.loads(json.loads(ln[len('<<"VERIF", '):-2])))
    return out


def case_key(c):
    return json.dumps(c, sort_keys=True)


def obs_of(row):
    if row["k"] == "fuzz":
        return "res:" + str(row.get("res"))
    if not row["evs"]:
        return "none"
    last = row["evs"][-1]
    if last["ev"] == "End":
        return "End:" + last["arg"]
    return last["ev"]


def argstr(a):
    """one token per parameter; a parameter that is itself a list (property-file lines) is joined with '+'"""
    return "+".join(str(x) for x in a) if isinstance(a, list) else str(a)


def signature(row, inv):
    if row["k"] == "fuzz":
        return "fuzz format=%s mode=%s obs=%s inv=%s" % (row["format"], row["mode"], obs_of(row), inv)
    c = row["c"]
    arg = (" arg=" + ",".join(argstr(a) for a in c["arg"])) if c.get("arg") else ""
    return "case kind=%s format=%s mode=%s cls=%s%s obs=%s inv=%s" % (c["kind"], c["format"], c["mode"], c["cls"], arg, obs_of(row), inv)


def describe(row, inv):
    if row["k"] == "fuzz":
        return "mutated valid %s file (seed %s, %s): result %s, %d leading deliveries unchanged of %d intact entries (%s)" % (
            row["format"], row.get("seed"), row.get("info", {}).get("op"), row.get("res"), row.get("same", 0), row.get("intact", 0), inv)
    c = row["c"]
    evs = " ".join("%s(%s)" % (e["ev"], e["arg"][:90]) for e in row["evs"])
    return "case %s: real code produced [%s], which is not a behaviour of Malformed.tla for this case (%s); %s" % (
        {k: c[k] for k in ("format", "mode", "np", "cls", "nt", "arg")}, evs, inv,
        {k: v for k, v in (row.get("info") or {}).items() if k not in ("file",) and v not in ("", None)})


def validate(v, trace_path, timeout=900):
    rows = vlib.read_ndjson(trace_path)
    tr = vlib.tlc("TraceMalformed", "TraceMalformed.cfg", env={"VERIF_TRACE": trace_path}, cont=True, timeout=timeout,
                  workers=8, heap="4g")
    vlib.log("TraceMalformed: %d lines, %.1fs" % (len(rows), tr.wall))
    if tr.error:
        raise vlib.MachineryError("TraceMalformed failed: %s\n%s" % (tr.kind, tr.out[-3000:]))
    if tr.distinct != len(rows) + 1:
        raise vlib.MachineryError("TraceMalformed visited %d states for %d lines" % (tr.distinct, len(rows)))
    seen = set()
    bad = 0
    for inv, st in tr.all_violations:
        try:
            ln = int(st.get("l", "0"))
        except ValueError:
            raise vlib.MachineryError("cannot parse line number of a violation: %r" % (st,))
        if ln < 1 or ln > len(rows) or (inv, ln) in seen:
            continue
        seen.add((inv, ln))
        row = rows[ln - 1]
        if inv == "KnownCase":
            raise vlib.MachineryError("driver echoed a case the specification does not enumerate: %r" % (row.get("c"),))
        bad += 1
        name = "case_%s_%s_%s%s_%s_%d_%d.json" % (row["c"]["format"], row["c"]["mode"], row["c"]["cls"],
                                                  re.sub(r"[^A-Za-z0-9_.+-]", "_", "".join("-" + argstr(a) for a in row["c"].get("arg", [])))[:120],
                                                  inv, row["c"]["np"], row["c"]["nt"]) \
            if row["k"] == "case" else "fuzz_%s_%s_%s.json" % (row["format"], row["mode"], row.get("seed"))
        v.violation(signature(row, inv), describe(row, inv), replay_obj={"invariant": inv, "row": row}, replay_name=name)
    if tr.violation and not seen:
        raise vlib.MachineryError("TraceMalformed reports a violation that could not be located\n%s" % tr.out[-3000:])
    return rows, tr, bad


def spread_heavy_lines(trace_path, chunk=16):
    """TraceMalformed walks the lines in chunks of 16, one chunk per worker step chain: put the few long
    observations (hundreds of events) at the start of different chunks so that they are validated in parallel.
    Pure reordering of the recorded lines."""
    rows = vlib.read_ndjson(trace_path)
    heavy = [r_ for r_ in rows if len(r_.get("evs") or []) > 100]
    if not heavy:
        return
    light = [r_ for r_ in rows if len(r_.get("evs") or []) <= 100]
    # not at a chunk START: the successors of the root state (= all chunk starts) are generated and checked by
    # one worker; the second line of a chunk is checked by whichever worker picks that chunk up
    out = []
    while light or heavy:
        if heavy and light:
            out.append(light.pop(0))
            out.append(heavy.pop())
            out.extend(light[:chunk - 2])
            light = light[chunk - 2:]
        elif heavy:
            out.append(heavy.pop())
        else:
            out.extend(light)
            light = []
    vlib.write_ndjson(trace_path, out)


def byte_edit(v, tier, b, d):
    """Byte-edit module (spec/ByteEdit.tla): quick = every case of a 2-entry file (exhaustive, with the design
    invariants); thorough = additionally a TLC -simulate sample over 6-entry files."""
    thorough = tier == "thorough"
    r = vlib.tlc("ByteEditMC", "ByteEdit_q.cfg", deadlock=False, timeout=600, workers=4, heap="2g")
    vlib.tlc_must_pass(r, "ByteEdit_q.cfg")
    states, trans = r.distinct, r.generated
    vlib.tlc_must_fail(vlib.tlc("ByteEditMC", "ByteEdit_neg_lax.cfg", deadlock=False, timeout=600, workers=2, heap="2g"),
                       "ByteEdit_neg_lax.cfg")
    prints = parse_prints(r)
    sampled = 0
    if thorough:
        rx = vlib.tlc("ByteEditMC", "ByteEdit_exh.cfg", deadlock=False, timeout=1200, workers=4, heap="4g")
        vlib.tlc_must_pass(rx, "ByteEdit_exh.cfg")
        states, trans = states + rx.distinct, trans + rx.generated
        rs = vlib.tlc("ByteEditMC", "ByteEdit_sim.cfg", workers=1, simulate="num=6000", depth=3, seed_=vlib.seed(),
                      deadlock=False, timeout=1200, heap="4g")
        if rs.error or rs.violation:
            raise vlib.MachineryError("ByteEdit simulation failed: %s %s\n%s" % (rs.kind, rs.what, rs.out[-2000:]))
        sim = parse_prints(rs)
        sampled = len(sim)
        prints += sim
    cases, expect = {}, {}
    for pr in prints:
        c = dict(pr["c"], n=pr["n"])
        cases[case_key(c)] = c
        expect[case_key(c)] = pr["exp"]
    jobs = [cases[k] for k in sorted(cases)]
    if len(jobs) < 500:
        raise vlib.MachineryError("only %d byte-edit cases exported by TLC" % len(jobs))
    epath, etrace = os.path.join(d, "edits.ndjson"), os.path.join(d, "edit_trace.ndjson")
    vlib.write_ndjson(epath, jobs)
    vlib.run_driver(b, ["malformed", "-edits", epath, "-out", etrace, "-repo", vlib.REPO], timeout=1800)
    rows = vlib.read_ndjson(etrace)
    if len(rows) != len(jobs):
        raise vlib.MachineryError("driver returned %d edit lines for %d cases" % (len(rows), len(jobs)))
    tr = vlib.tlc("TraceByteEdit", "TraceByteEdit.cfg", env={"VERIF_TRACE": etrace}, cont=True, timeout=1800, workers=8, heap="4g")
    vlib.log("TraceByteEdit: %d lines, %.1fs" % (len(rows), tr.wall))
    if tr.error:
        raise vlib.MachineryError("TraceByteEdit failed: %s\n%s" % (tr.kind, tr.out[-3000:]))
    if tr.distinct != len(rows) + 1:
        raise vlib.MachineryError("TraceByteEdit visited %d states for %d lines" % (tr.distinct, len(rows)))
    seen = set()
    for inv, st in tr.all_violations:
        ln = int(st.get("l", "0"))
        if ln < 1 or ln > len(rows) or (inv, ln) in seen:
            continue
        seen.add((inv, ln))
        row = rows[ln - 1]
        ec, obs = row["ec"], row["obs"]
        if inv == "KnownEdit":
            raise vlib.MachineryError("driver echoed an edit case the specification does not know: %r" % (ec,))
        e = lambda x: "%s/%s@%d" % (x["kind"], x["op"], x["k"]) if x["k"] else "-"
        v.violation("edit format=%s mode=%s e1=%s/%s e2=%s/%s obs=%s inv=%s" % (ec["format"], ec["mode"], ec["e1"]["kind"], ec["e1"]["op"],
                                                                               ec["e2"]["kind"], ec["e2"]["op"], obs["res"], inv),
                    "byte edit %s %s of a valid %d-entry %s file (%s): result %s, %d delivered, %d leading deliveries unchanged, invalid at %s; "
                    "ByteEdit.tla expects %s (%s)" % (e(ec["e1"]), e(ec["e2"]), ec["n"], ec["format"], ec["mode"], obs["res"], obs["delivered"],
                                                     obs["same"], obs["invalid_at"], expect.get(case_key(ec)), inv),
                    replay_obj={"invariant": inv, "row": row},
                    replay_name="edit_%s_%s_%s_%s.json" % (ec["format"], ec["mode"], e(ec["e1"]).replace("/", "-"), e(ec["e2"]).replace("/", "-")))
    if tr.violation and not seen:
        raise vlib.MachineryError("TraceByteEdit reports a violation that could not be located\n%s" % tr.out[-3000:])
    kinds = {}
    for k in cases:
        kinds[expect[k]["kind"]] = kinds.get(expect[k]["kind"], 0) + 1
    return {"states": states, "transitions": trans, "cases": len(jobs), "sampled_by_simulate": sampled, "expectation_classes": kinds,
            "lines_rejected": len(seen),
            "sample": [{"case": rows[i]["ec"], "observed": rows[i]["obs"], "spec_expects": expect.get(case_key(rows[i]["ec"]))} for i in (7, len(rows) // 2)]}


def line_edit(v, tier, b, d):
    """Line-edit module (spec/LineEdit.tla): one edit operator on the LINES of a valid file, the expectation computed by
    the module's abstract reader; quick = 2-entry files, thorough = 4-entry files; exhaustive in both."""
    cfg = "LineEdit_exh.cfg" if tier == "thorough" else "LineEdit_q.cfg"
    r = vlib.tlc("LineEditMC", cfg, deadlock=False, timeout=900, workers=4, heap="2g")
    vlib.tlc_must_pass(r, cfg)
    for neg in ("LineEdit_neg_stickydup.cfg", "LineEdit_neg_nulok.cfg"):
        vlib.tlc_must_fail(vlib.tlc("LineEditMC", neg, deadlock=False, timeout=600, workers=2, heap="2g"), neg)
    cases, expect = {}, {}
    for pr in parse_prints(r):
        cases[case_key(pr["c"])] = pr["c"]
        expect[case_key(pr["c"])] = pr["exp"]
    jobs = [cases[k] for k in sorted(cases)]
    if len(jobs) < 100:
        raise vlib.MachineryError("only %d line-edit cases exported by TLC" % len(jobs))
    lpath, ltrace = os.path.join(d, "ledits.ndjson"), os.path.join(d, "ledit_trace.ndjson")
    vlib.write_ndjson(lpath, jobs)
    vlib.run_driver(b, ["malformed", "-ledits", lpath, "-out", ltrace, "-repo", vlib.REPO], timeout=1800)
    rows = vlib.read_ndjson(ltrace)
    if len(rows) != len(jobs):
        raise vlib.MachineryError("driver returned %d line-edit lines for %d cases" % (len(rows), len(jobs)))
    tr = vlib.tlc("TraceLineEdit", "TraceLineEdit.cfg", env={"VERIF_TRACE": ltrace}, cont=True, timeout=1800, workers=8, heap="4g")
    vlib.log("TraceLineEdit: %d lines, %.1fs" % (len(rows), tr.wall))
    if tr.error:
        raise vlib.MachineryError("TraceLineEdit failed: %s\n%s" % (tr.kind, tr.out[-3000:]))
    if tr.distinct != len(rows) + 1:
        raise vlib.MachineryError("TraceLineEdit visited %d states for %d lines" % (tr.distinct, len(rows)))
    seen = set()
    for inv, st in tr.all_violations:
        ln = int(st.get("l", "0"))
        if ln < 1 or ln > len(rows) or (inv, ln) in seen:
            continue
        seen.add((inv, ln))
        row = rows[ln - 1]
        lc, obs = row["lc"], row["obs"]
        if inv == "KnownLineEdit":
            raise vlib.MachineryError("driver echoed a line-edit case the specification does not know: %r" % (lc,))
        e = lc["e"]
        v.violation("ledit format=%s mode=%s op=%s w=%s obs=%s inv=%s" % (lc["format"], lc["mode"], e["op"], e["w"], obs["res"], inv),
                    "line edit %s(line %d, %s) of a valid %d-entry %s file (%s): result %s, %d delivered, %d leading deliveries unchanged, "
                    "invalid at %s; LineEdit.tla expects %s (%s); %s" % (e["op"], e["i"], e["w"], lc["n"], lc["format"], lc["mode"], obs["res"],
                                                                      obs["delivered"], obs["same"], obs["invalid_at"],
                                                                      expect.get(case_key(lc)), inv,
                                                                      {k: x for k, x in (row.get("info") or {}).items() if k != "file" and x}),
                    replay_obj={"invariant": inv, "row": row},
                    replay_name="ledit_%s_%s_%s-%d-%s.json" % (lc["format"], lc["mode"], e["op"], e["i"], e["w"]))
    if tr.violation and not seen:
        raise vlib.MachineryError("TraceLineEdit reports a violation that could not be located\n%s" % tr.out[-3000:])
    kinds = {}
    for k in cases:
        kinds[expect[k]["res"]] = kinds.get(expect[k]["res"], 0) + 1
    return {"states": r.distinct, "transitions": r.generated, "cases": len(jobs), "expectation_classes": kinds, "lines_rejected": len(seen),
            "design_config": cfg, "negative_controls": ["stickydup", "nulok"],
            "sample": [{"case": rows[i]["lc"], "observed": rows[i]["obs"], "spec_expects": expect.get(case_key(rows[i]["lc"]))} for i in (3, len(rows) // 2)]}


def run(tier, v):
    thorough = tier == "thorough"
    # 1. design level: exhaustive over the case space; terminal states print the case list
    cfg = "Malformed_exh_big.cfg" if thorough else "Malformed_exh.cfg"
    r = vlib.tlc("MalformedMC", cfg, deadlock=False, timeout=900, workers=4, heap="4g")
    vlib.tlc_must_pass(r, cfg)
    vlib.log("design level %s: %d states, %.1fs" % (cfg, r.distinct, r.wall))
    states, trans = r.distinct, r.generated
    terminals = parse_prints(r)
    allowed = {}
    for t in terminals:
        allowed.setdefault(case_key(t["c"]), set()).add((t["res"], tuple(t["out"])))
    cases = [json.loads(k) for k in sorted(allowed)]
    if len(cases) < 300:
        raise vlib.MachineryError("only %d cases exported by TLC" % len(cases))
    # negative controls run beside the driver (they only need the spec); joined before the verdict
    negs = ["Malformed_neg_swallow.cfg", "Malformed_neg_loseprefix.cfg", "Malformed_neg_spin.cfg", "Malformed_neg_noname.cfg",
            "Malformed_neg_freerewind.cfg"]
    import concurrent.futures
    pool = concurrent.futures.ThreadPoolExecutor(max_workers=5)
    neg_jobs = [(neg, pool.submit(vlib.tlc, "MalformedMC", neg, deadlock=False, timeout=300, workers=2, heap="2g")) for neg in negs]
    # 2. M2 + M1: render and run every case through the real code
    b = vlib.harness_build()
    d = vlib.scratch()
    cpath = os.path.join(d, "cases.ndjson")
    vlib.write_ndjson(cpath, cases)
    trace = os.path.join(d, "trace.ndjson")
    nfuzz = 5000 if thorough else 60
    p = vlib.run_driver(b, ["malformed", "-cases", cpath, "-out", trace, "-repo", vlib.REPO, "-fuzz", str(nfuzz)],
                        timeout=3000 if thorough else 900)
    m = re.search(r"(\d+) jobs in (\d+) child processes", p.stderr)
    children = int(m.group(2)) if m else 0
    spread_heavy_lines(trace)
    rows, tr, bad = validate(v, trace, timeout=3000 if thorough else 900)
    be = byte_edit(v, tier, b, d)
    le = line_edit(v, tier, b, d)
    for neg, job in neg_jobs:
        vlib.tlc_must_fail(job.result(), neg)
    pool.shutdown()
    case_rows = [r_ for r_ in rows if r_["k"] == "case"]
    fuzz_rows = [r_ for r_ in rows if r_["k"] == "fuzz"]
    if len(case_rows) != len(cases):
        raise vlib.MachineryError("driver returned %d case lines for %d cases" % (len(case_rows), len(cases)))
    def control(c):
        return c["cls"] in ("none", "d_none", "xpath_ok", "map_neg_index", "unknown_tag", "p_none") \
            or (c["format"] == "cfg" and (c["arg"][-1] in ("same", "t_none")))
    nontrivial = len({case_key(r_["c"]) for r_ in case_rows if not control(r_["c"])})
    obs = {}
    for r_ in case_rows:
        obs[obs_of(r_)] = obs.get(obs_of(r_), 0) + 1
    fobs = {}
    for r_ in fuzz_rows:
        fobs[r_["res"]] = fobs.get(r_["res"], 0) + 1
    samples = []
    for r_ in case_rows[5::max(1, len(case_rows) // 7)][:7]:
        samples.append({"case": r_["c"], "observed": [[e["ev"], e["arg"][:60]] for e in r_["evs"]],
                        "spec_allows": sorted([res, list(out)] for res, out in allowed[case_key(r_["c"])]),
                        "file": (r_.get("info") or {}).get("file", "")[:240]})
    for r_ in fuzz_rows[3::max(1, len(fuzz_rows) // 3)][:3]:
        samples.append({"fuzz": {k: r_.get(k) for k in ("format", "mode", "seed", "intact", "same", "res")},
                        "op": (r_.get("info") or {}).get("op")})
    cov = {
        "states": states + be["states"] + le["states"], "transitions": trans + be["transitions"] + le["transitions"],
        "traces_validated_against_impl": len(rows) + be["cases"] + le["cases"],
        "byte_edit": be,
        "line_edit": le,
        "samples": samples,
        "exhaustive": True,
        "evaluations": len(rows) + be["cases"] + le["cases"],
        "distinct_nontrivial": nontrivial,
        "rule": "M2: every case of Malformed!Cases (TLC-enumerated; one per format x mode x prefix length x class x trailing, and "
                "per description defect x target) rendered and run through the real code; non-trivial = the case carries a "
                "malformed item / defect (controls 'none', 'd_none', 'xpath_ok', 'map_neg_index', 'unknown_tag' excluded). M1 fuzz lines are counted in "
                "evaluations only; for them the specification contributes only the outcome alphabet {ok,error} and the prefix rule.",
        "cases_enumerated_by_tlc": len(cases),
        "spec_terminal_states": len(terminals),
        "fuzz_cases": len(fuzz_rows), "fuzz_outcomes": fobs,
        "observed_outcomes": obs,
        "child_processes": children,
        "trace_spec_states": tr.distinct,
        "lines_rejected": bad,
        "negative_controls": [n[len("Malformed_neg_"):-4] for n in negs],
        "design_config": cfg,
    }
    return "model_checking", cov, [
        "bounds: prefix <= %d, trailing <= %d well-formed entries, one malformed item per file, passes=1" % ((3, 2) if thorough else (2, 1)),
        "byte level ('all byte strings') is sampled by seeded mutation only; there the spec contributes {ok,error} and the prefix rule",
        "trusted: renderers/projections (harness/cmd/vdrive/malformed_render.go, malformed_desc.go), the step loop that mirrors "
        "ScenarioGun.shootStep on canned responses; children run under RLIMIT_AS=4GiB, an allocation failure counts as a crash",
        "hang rule: no return 5 s after the job started (normal < 5 ms), confirmed by one re-run",
    ]


def replay(path, v):
    obj = json.load(open(path))
    row = obj["row"]
    b = vlib.harness_build()
    d = vlib.scratch()
    trace = os.path.join(d, "trace.ndjson")
    if row["k"] == "edit":
        epath = os.path.join(d, "edits.ndjson")
        vlib.write_ndjson(epath, [row["ec"]])
        vlib.run_driver(b, ["malformed", "-edits", epath, "-out", trace, "-repo", vlib.REPO])
        for r_ in vlib.read_ndjson(trace):
            print("replayed: %s -> %s" % (r_["ec"], r_["obs"]))
        return None
    if row["k"] == "ledit":
        lpath = os.path.join(d, "ledits.ndjson")
        vlib.write_ndjson(lpath, [row["lc"]])
        vlib.run_driver(b, ["malformed", "-ledits", lpath, "-out", trace, "-repo", vlib.REPO])
        for r_ in vlib.read_ndjson(trace):
            print("replayed: %s -> %s" % (r_["lc"], r_["obs"]))
        return None
    if row["k"] == "case":
        cpath = os.path.join(d, "cases.ndjson")
        vlib.write_ndjson(cpath, [row["c"]])
        vlib.run_driver(b, ["malformed", "-cases", cpath, "-out", trace, "-repo", vlib.REPO])
    else:
        # a fuzz case is determined by (format, mode, seed): re-run the recorded line through the spec only
        vlib.write_ndjson(trace, [row])
    rows, tr, bad = validate(v, trace)
    for r_ in rows:
        print("replayed: %s -> %s" % (r_.get("c") or r_.get("format"), obs_of(r_)))
    return None
