"""C09 — HTTP wire fidelity: the request reaching the target equals ammo plus gun config.

TLC design level : HttpWire.tla — Wire(c), the request that must arrive for an abstract entry c
                   (format x entry headers x `headers` option x ammo Host x ssl x method x uri x body),
                   walked over the complete case space with the precedence rules as invariants,
                   3 negative controls (config_wins = pandora before the fix, host_target, opt_always);
                   HttpConn.tla — per-instance clients / keep-alive state machine over the server's
                   ConnState alphabet (incl. idle gaps and failed exchanges), exhaustive, 2 negative controls
                   (client silently drops connections; drops them during an idle gap).
M2 (spec->code)  : HttpWireGen.tla writes the complete case space; `vdrive httpwire -mode cases` renders
                   each case into an ammo file + provider/gun config, fires it through the REAL provider
                   and the REAL http gun (registered factories, config decoding) at an in-process
                   HTTP/HTTPS target (a live decoy listens where the ammo's Host points);
                   TraceHttpWire.tla recomputes Wire(c) and decides, one invariant per rule.
M1 (code->spec)  : `vdrive httpwire -mode conn`: N=1..4 instances x R requests, keep-alive on/off,
                   http/https; the target's ConnState log is replayed through HttpConn's effects by
                   TraceHttpConn.tla, every invariant after every event.
"""
import concurrent.futures
import json
import os
import re
import vlib

PID = "C09"

MANIFEST = dict(
    category="model_checking",
    technique="TLC: explicit TLA+ wire function HttpWire.tla enumerated completely (M2 case replay through the real "
              "provider+gun against recording HTTP/HTTPS targets, TLC recomputes and compares) plus HttpConn.tla "
              "connection state machine validated on the target's ConnState traces",
    design_ref="DESIGN.md §4 C09",
    text="The property is a function from (ammo entry, format, `headers` option, gun config) to the request at the target "
         "plus a small per-instance connection machine; the function is specified in TLA+, TLC enumerates the whole finite "
         "abstract case space (4 formats x header-overlap/Host precedence x ssl x method x uri x body) and decides on what "
         "real servers received, so 'for every format alike' and 'only where the entry does not define it' are quantified, "
         "not sampled; connection reuse is decided on the server's own ConnState log for N=1..4 instances. Grown beyond the "
         "statement: multi-entry files, connect gun (CONNECT line, tunnel per connection, refused tunnel), shared-client pools "
         "(connections <= client-number, round-robin), header/date middleware, answlog/httptrace as pure observers, valid RFC 3986 "
         "request-targets in a spelling of their own (percent-encoded reserved characters, sub-delims, empty segments, leading //, "
         "bare ?) byte-identical through every format and gun, the http2 gun (HTTP/2.0 iff it meets a target offering h2, nothing "
         "delivered otherwise; one h2 connection per instance).",
    note="Header values/URIs/bodies are tokens of a fixed alphabet (RFC-valid URIs - request-targets are built by TLC from classed "
         "pieces -, printable bodies; byte-level fidelity of "
         "arbitrary bodies is C07's). Extra headers tolerated: exactly Go's transport defaults (User-Agent when absent, "
         "Content-Length/Transfer-Encoding, Accept-Encoding only with compression on). json: Host inside `headers` without "
         "`host` is outside the domain (docs say ignored, code uses it). Trusted: renderer/recorder in harness "
         "(httpwire*.go, internal/targets), net/http server parsing.")


def _violations_by_line(tr):
    out, seen = [], set()
    for inv, st in tr.all_violations:
        try:
            ln = int(st.get("l", "0"))
        except ValueError:
            ln = 0
        if ln < 1 or (inv, ln) in seen:
            continue
        seen.add((inv, ln))
        out.append((inv, ln))
    return out


def _case_class(c):
    if "rounds" in c:    # small file handed out again and again to several instances
        return "reuse fmt=%s entries=%d preload=%s instances=%d" % (c["fmt"], len(c["entries"]), c["preload"], c["n"])
    if "entries" in c:   # multi-entry file case
        redef = any(h["n"].lower() in {g["n"].lower() for e0 in c["entries"][:i] for g in e0["hl"]}
                    for i, e in enumerate(c["entries"]) for h in e["hl"])
        return "file fmt=%s entries=%d opts=%s preload=%s redefines=%s" % (
            c["fmt"], len(c["entries"]), "yes" if c["opts"] else "no", c["preload"], "yes" if redef else "no")
    empty = any(h["v"].strip() == "" for h in c["ehdr"])
    extra = ""
    if c.get("gun") == "connect":
        extra = " gun=connect cssl=%s cstatus=%s" % (c["cssl"], c["cstatus"])
    if c.get("gun") == "http2":
        extra = " gun=http2 target-offers-h2=%s" % c.get("h2")
    elif c.get("h2"):
        extra = " target-offers-h2=True"
    if c.get("tname"):
        extra = " target=by-name"
    if "mw" in c:
        extra = " mw=header/date(name=%s,loc=%s)" % (c["mw"]["name"] or "default", c["mw"]["loc"] or "UTC")
    if "side" in c:
        extra = " side=answlog:%s,status:%s,httptrace:%s" % (c["side"]["answlog"], c["side"]["status"], c["side"]["trace"])
    if "rt" in c:        # structured RFC 3986 request-target: name the character classes it is made of
        cl = sorted(({p["class"] for p in c["rt"]["segs"]} | {c["rt"]["query"]["class"]}) - {"none", "unreserved"})
        extra += " target=rfc3986(%s%s) preload=%s" % (",".join(cl) or "plain", ",bare-?" if c["rt"]["query"]["raw"] == "?" else "", c["preload"])
    en = sorted(h["n"].lower() for h in c["ehdr"])
    on = sorted(o["n"].lower() for o in c["opts"])
    overlap = sorted(set(en) & set(on))
    uriclass = "rfc" if re.fullmatch(r"[A-Za-z0-9\-._~!$&'()*+,;=:@/?%]*", c["uri"]) else "nonrfc"
    return "fmt=%s host=%s opthost=%s overlap=%s%s uri=%s%s" % (c["fmt"], "ammo" if c["host"] else "none",
                                                                "yes" if "host" in on else "no", ",".join(overlap) or "-",
                                                                "(empty-valued)" if empty else "", uriclass, extra)


def validate_cases(v, obs_path, cfg, timeout=900):
    rows = vlib.read_ndjson(obs_path)
    tr = vlib.tlc("TraceHttpWire", cfg, env={"VERIF_TRACE": obs_path}, cont=True, timeout=timeout, workers=4, heap="4g")
    if tr.error:
        raise vlib.MachineryError("TraceHttpWire failed: %s\n%s" % (tr.kind, tr.out[-3000:]))
    if tr.distinct != len(rows) + 1:
        raise vlib.MachineryError("TraceHttpWire visited %d states for %d lines\n%s" % (tr.distinct, len(rows), tr.out[-2000:]))
    for k, (inv, ln) in enumerate(_violations_by_line(tr)):
        row = rows[ln - 1]
        c = row["c"]
        keep = k < 40        # replay files for the first violations only (a broad regression breaks thousands of cases)
        if "entries" in c:
            k = row["k"]
            v.violation("wire %s inv=%s" % (_case_class(c), inv),
                        "file case %d (%s, %d entries, preload=%s, headers option %s), entry %d %s: target saw %s (err=%r, provider handed out %d) — "
                        "rule %s of HttpWire.tla fails for EntryCase(file, %d); ammo file %r" % (
                            row["id"], c["fmt"], len(c["entries"]), c["preload"], c["opts"], k, c["entries"][k - 1], row["obs"], row["err"],
                            row["acq"], inv, k, row["file"]),
                        replay_obj={"kind": "case", "invariant": inv, "case": {"id": row["id"], "c": c}, "observed": row, "cfg": cfg} if keep else None,
                        replay_name="file_%d_%d_%s.json" % (row["id"], k, inv))
            continue
        v.violation("wire %s inv=%s" % (_case_class(c), inv),
                    "case %d %s: target saw %s (samples %s, err=%r, panic=%r) — rule %s of HttpWire.tla fails; ammo file %r, headers option %s" % (
                        row["id"], {k: c[k] for k in ("fmt", "ssl", "method", "uri", "host", "ehdr", "body")},
                        row["obs"], row["samples"], row["err"], row.get("panic", ""), inv, row["file"], c["opts"]),
                    replay_obj={"kind": "case", "invariant": inv, "case": {"id": row["id"], "c": c}, "observed": row, "cfg": cfg} if keep else None,
                    replay_name="case_%d_%s.json" % (row["id"], inv))
    return rows, tr


class NotWellFormed(vlib.MachineryError):
    """the recorded connection log is not a sequence the effects of HttpConn can be applied to (an ordering of the
    target's callbacks the driver does not expect, e.g. after a shot that timed out on an overloaded machine): decides
    nothing about the code; the recording is repeated before it counts as a failure of the machinery"""


def validate_conn(v, path, timeout=600):
    rows = vlib.read_ndjson(path)
    tr = vlib.tlc("TraceHttpConn", "TraceHttpConn.cfg", env={"VERIF_TRACE": path}, workers=1, timeout=timeout, heap="2g")
    if tr.error:
        raise vlib.MachineryError("TraceHttpConn failed: %s\n%s" % (tr.kind, tr.out[-3000:]))
    runs = [r for r in rows if r["ev"] == "Run"]
    if tr.violation:
        ln = int(tr.trace_state.get("l", "0"))
        run = rows[max(ln, 1) - 1]["run"]
        hdr = [r for r in runs if r["run"] == run][0]
        evs = [r for r in rows if r["run"] == run]
        conns = sorted({r["conn"] for r in evs if r["ev"] == "Conn"})
        v.violation("conn keepalive=%s inv=%s" % (hdr["keepalive"], tr.what),
                    "run %d (instances=%d, requests/instance=%d, keep-alive=%s, ssl=%s): invariant %s of HttpConn.tla fails at "
                    "log line %d %s; the target saw %d connections" % (
                        run, hdr["n"], hdr["r"], hdr["keepalive"], hdr["ssl"], tr.what, ln,
                        {k: rows[ln - 1][k] for k in ("ev", "conn", "state", "inst", "uri")} if ln else "", len(conns)),
                    replay_obj={"kind": "conn", "invariant": tr.what, "events": evs}, replay_name="conn_run%d_%s.json" % (run, tr.what))
        return rows, runs, tr
    if tr.distinct != len(rows) + 1:
        at = rows[tr.distinct - 1] if 0 < tr.distinct <= len(rows) else None
        raise NotWellFormed("TraceHttpConn consumed %d of %d lines (log not well-formed); first line without a step: %s\n%s" % (
            tr.distinct - 1, len(rows), json.dumps(at)[:600], tr.out[-2000:]))
    return rows, runs, tr


def run(tier, v):
    thorough = tier == "thorough"
    sfx = "_big" if thorough else ""
    states = trans = 0
    design = []
    # 1. design level, negative controls and the generator — independent TLC jobs, run concurrently
    d = vlib.scratch()
    cases = os.path.join(d, "cases.ndjson")
    pos = [("HttpWireMC", "HttpWire_exh%s.cfg" % sfx), ("HttpWireMC", "HttpWire_files%s.cfg" % sfx),
           ("HttpConnMC", "HttpConn_exh%s.cfg" % sfx), ("HttpConnMC", "HttpConn_shared.cfg"), ("HttpConnMC", "HttpConn_shared1.cfg"),
           ("HttpConnMC", "HttpConn_expiry.cfg")]
    negs = [("HttpWireMC", "HttpWire_neg_config_wins.cfg"), ("HttpWireMC", "HttpWire_neg_host_target.cfg"),
            ("HttpWireMC", "HttpWire_neg_opt_always.cfg"), ("HttpWireMC", "HttpWire_neg_empty_undefined.cfg"),
            ("HttpWireMC", "HttpWire_neg_live_map.cfg"), ("HttpWireMC", "HttpWire_neg_connect_plain.cfg"),
            ("HttpWireMC", "HttpWire_neg_mw_twice.cfg"), ("HttpWireMC", "HttpWire_neg_side_changes.cfg"),
            ("HttpConnMC", "HttpConn_neg_noreuse.cfg"), ("HttpConnMC", "HttpConn_neg_idledrop.cfg"),
            ("HttpConnMC", "HttpConn_neg_ownclient.cfg"), ("HttpConnMC", "HttpConn_neg_noexpire.cfg"),
            ("HttpWireMC", "HttpWire_neg_shared_cursor.cfg"), ("HttpWireMC", "HttpWire_neg_framing_chunked.cfg"),
            ("HttpWireMC", "HttpWire_neg_target_resolved.cfg"),
            ("HttpWireMC", "HttpWire_neg_uri_rebuilt.cfg"), ("HttpWireMC", "HttpWire_neg_h2_fallback.cfg")]
    if not thorough:
        # quick: one negative control per mechanism; the thorough tier runs all of them
        skip = ("host_target", "opt_always", "mw_twice", "side_changes", "shared1", "noreuse", "empty_undefined")
        negs = [(m, c) for m, c in negs if not any(k in c for k in skip)]
        pos = [(m, c) for m, c in pos if "shared1" not in c]
    vlib.spec_copy()
    obs = os.path.join(d, "obs.ndjson")
    conn = os.path.join(d, "conn.ndjson")

    def conn_part(b_):
        # M1 (connection reuse): needs only the harness, so it runs next to everything else
        for attempt in (1, 2, 3):
            vlib.run_driver(b_, ["httpwire", "-mode", "conn", "-out", conn, "-n", "4", "-r", "12" if thorough else "5"], timeout=900)
            try:
                return validate_conn(v, conn)
            except NotWellFormed as e:
                vlib.log("connection log of attempt %d not well-formed: %s" % (attempt, str(e).splitlines()[0][:700]))
                if attempt == 3:
                    raise

    with concurrent.futures.ThreadPoolExecutor(max_workers=7) as ex:
        fgen = ex.submit(vlib.tlc, "HttpWireGen", "HttpWire_gen%s.cfg" % sfx, env={"VERIF_OUT": cases}, workers=1, heap="6g",
                         timeout=1200, deadlock=False)
        fpos = [ex.submit(vlib.tlc, m, c, deadlock=False, workers=3, heap="6g", timeout=2400) for m, c in pos]
        fneg = [ex.submit(vlib.tlc, m, c, deadlock=False, workers=1, heap="3g", timeout=900) for m, c in negs]
        b = vlib.harness_build()          # while TLC works
        fconn = ex.submit(conn_part, b)
        # M2: the complete case space -> real provider + gun, as soon as the generator is done
        g = fgen.result()
        if g.error or g.violation or not os.path.exists(cases):
            raise vlib.MachineryError("case generation failed: %s\n%s" % (g.kind, g.out[-3000:]))
        gen = vlib.read_ndjson(cases)
        vlib.run_driver(b, ["httpwire", "-mode", "cases", "-cases", cases, "-out", obs], timeout=1800)
        rows, tr = validate_cases(v, obs, "TraceHttpWire%s.cfg" % sfx, timeout=3000)
        for (m, c), f in zip(pos, fpos):
            r = f.result()
            vlib.tlc_must_pass(r, c)
            states += r.distinct
            trans += r.generated
            design.append("%s: %d states" % (c, r.distinct))
        for (m, c), f in zip(negs, fneg):
            vlib.tlc_must_fail(f.result(), c)
        crows, runs, ctr = fconn.result()
    # bookkeeping: one line per single-entry case / per entry of a file; re-used files give one line per request or failed shot
    reuse_ids = {c["id"] for c in gen if "rounds" in c["c"]}
    want = sorted((c["id"], k) for c in gen if c["id"] not in reuse_ids
                  for k in (range(1, len(c["c"]["entries"]) + 1) if "entries" in c["c"] else [0]))
    if sorted((r["id"], r["k"]) for r in rows if r["id"] not in reuse_ids) != want:
        raise vlib.MachineryError("driver answered %d lines for %d generated cases / file entries" % (len(rows), len(want)))
    if {r["id"] for r in rows if r["id"] in reuse_ids} != reuse_ids:
        raise vlib.MachineryError("driver did not play every re-use case")
    for c in gen:
        if c["id"] in reuse_ids:
            got = sum(1 for r in rows if r["id"] == c["id"])
            if got < c["c"]["n"] * c["c"]["rounds"]:      # fewer lines than shots: neither arrived nor reported as failed
                v.violation("wire %s inv=ShotsAccounted" % _case_class(c["c"]),
                            "re-use case %d: %d shots, but only %d requests arrived or were reported as failed samples" % (
                                c["id"], c["c"]["n"] * c["c"]["rounds"], got))
    files = [c for c in gen if "entries" in c["c"] and c["id"] not in reuse_ids]
    nontrivial = len({json.dumps(r["c"], sort_keys=True) for r in rows
                      if "entries" in r["c"] or r["c"]["ehdr"] or r["c"]["opts"] or r["c"]["host"]})
    single = [r for r in rows if "entries" not in r["c"]]
    sample_rows = [single[i] for i in (0, len(single) // 3, (2 * len(single)) // 3)] + \
                  [r for r in rows if "entries" in r["c"] and r["c"]["fmt"] == "uri" and len(r["c"]["entries"]) == 3 and r["c"]["entries"][1]["hl"]][:3]
    samples = [{"case": r["c"], "entry": r["k"], "ammo_file": r["file"], "target_saw": r["obs"], "sample": r["samples"][:1], "config_shape": r["via"]}
               for r in sample_rows]
    samples.append({"conn_run": runs[len(runs) // 2], "events": [e for e in crows if e["run"] == runs[len(runs) // 2]["run"]][:12]})
    cov = {
        "states": states, "transitions": trans,
        "traces_validated_against_impl": len(rows) + len(runs),
        "samples": samples,
        "exhaustive": True,
        "evaluations": len(rows),
        "connect_gun_cases": sum(1 for c in gen if c["c"].get("gun") == "connect"),
        "middleware_cases": sum(1 for c in gen if "mw" in c["c"]), "side_channel_cases": sum(1 for c in gen if "side" in c["c"]),
        "conn_runs_connect_gun": sum(1 for r in runs if r.get("gun") == "connect"),
        "conn_runs_shared_client": sum(1 for r in runs if r.get("shared")),
        "conn_runs_http2_gun": sum(1 for r in runs if r.get("gun") == "http2"),
        "named_target_cases": sum(1 for c in gen if c["c"].get("tname")),
        "http2_gun_cases": sum(1 for c in gen if c["c"].get("gun") == "http2"),
        "http2_gun_cases_target_without_h2": sum(1 for c in gen if c["c"].get("gun") == "http2" and not c["c"].get("h2")),
        "http1_guns_against_h2_capable_target": sum(1 for c in gen if c["c"].get("gun") != "http2" and c["c"].get("h2")),
        "rfc3986_target_cases": sum(1 for c in gen if "rt" in c["c"]),
        "rfc3986_targets": len({c["c"]["uri"] for c in gen if "rt" in c["c"]}),
        "reuse_cases": len(reuse_ids), "reuse_requests_checked": sum(1 for r in rows if r["id"] in reuse_ids),
        "conn_runs_idle_expiry": sum(1 for r in runs if r.get("idle_ms") and r.get("gap_ms", 0) > r["idle_ms"]),
        "single_entry_cases": len(gen) - len(files) - len(reuse_ids), "multi_entry_files": len(files), "file_entries_checked": len(rows) - len(single),
        "conn_runs_with_client_options": sum(1 for r in runs if r.get("opts")),
        "conn_runs_with_idle_gap": sum(1 for r in runs if r.get("gap_ms")),
        "distinct_nontrivial": nontrivial,
        "rule": "complete product formats x methods(format) x bodies(format) x ssl x compression x uris x ammo-Host x "
                "subsets(entry headers) x subsets(option headers) of the config's alphabets, generated by TLC (HttpWireGen); "
                "+ present-but-empty / blank entry values against every option list + multi-entry files (2-3 entries, header/Host "
                "lines redefined between them, with/without headers option, stream/preload, 4 formats; one line per entry) "
                "+ connect gun through a recording CONNECT proxy (ssl x connect-ssl, refused tunnel) + header/date middleware "
                "(name x location x entry defines the header) + answlog filter x status x httptrace; "
                "non-trivial = the entry or the option defines at least one header/Host, or a file case (distinct abstract cases counted)",
        "case_trace_states": tr.distinct,
        "conn_runs": len(runs), "conn_events": len(crows), "conn_trace_states": ctr.distinct,
        "design_tlc": design,
        "negative_controls": [n for _, n in negs],
    }
    return "model_checking", cov, [
        "case alphabets: header names X-A (entry+option), x-c/X-C (same name, other spelling), User-Agent, X-B, option Host; "
        "RFC-valid request URIs; printable bodies; methods GET/POST/PURGE (+DELETE/HEAD/OPTIONS thorough)",
        "extra request headers tolerated at the target: User-Agent if the entry has none, Accept-Encoding iff compression enabled; "
        "framing is decided exactly: Content-Length = body length (0 for a body-less POST/PUT/PATCH, absent otherwise), never chunked",
        "named target: localhost (must resolve to the loopback address the targets listen on); http gun only - the connect "
        "factory overwrites its target with the resolved address by design",
        "connection part: sequential shots per instance, target keeps connections open, loopback; N <= 4 instances; runs with the "
        "documented client options away from their defaults (response-header-timeout 150 ms, idle-conn-timeout 10 min, ...) and "
        "idle gaps >= 4 x response-header-timeout between shots; an exchange that fails (possible under load with the small "
        "response-header-timeout) entitles the instance to one more connection",
        "connect gun: target = an in-process CONNECT proxy that relays to the recording target; shared-client runs are serialised "
        "(the instances take turns), because a shared transport opens more connections when used concurrently (documented)",
        "header/date: the stamped instant is read in the configured location and must lie between the driver's clock readings "
        "around Acquire..Shoot (program order, seconds); the value is labelled GMT whatever the location (observation)",
        "trusted: harness renderer/recorder (harness/cmd/vdrive/httpwire*.go, harness/internal/targets), net/http server parsing",
    ]


def replay(path, v):
    obj = json.load(open(path))
    d = vlib.scratch()
    b = vlib.harness_build()
    if obj.get("kind") == "case":
        cases = os.path.join(d, "cases.ndjson")
        vlib.write_ndjson(cases, [obj["case"]])
        obs = os.path.join(d, "obs.ndjson")
        vlib.run_driver(b, ["httpwire", "-mode", "cases", "-cases", cases, "-out", obs])
        rows, _ = validate_cases(v, obs, obj.get("cfg", "TraceHttpWire.cfg"))
        print("replayed case %s: target saw %s" % (obj["case"]["id"], rows[0]["obs"]))
    else:
        p = os.path.join(d, "conn.ndjson")
        vlib.write_ndjson(p, obj["events"])
        validate_conn(v, p)
    return None
