"""C01 — RPS schedules realise the configured load profile.

TLC, design level : ProfileMathCheck (oracle sanity on a grid: window exists, is tight, monotone;
                    golden points) — spec/ProfileMath.tla is the declarative meaning of a profile.
Conformance (M1)  : `vdrive profile` drains real schedules built by the real constructors and by
                    config decoding; TraceProfile.tla checks every line against ProfileMath.
"""
import os
import time
import vlib

PID = "C01"


def classify(row):
    dur_ns = sum(d * (10000 ** i) for i, d in enumerate(row["dur"]))
    frac = "whole-seconds" if dur_ns % 10**9 == 0 else ("sub-second" if dur_ns < 10**9 else "fractional-seconds")
    shape = "flat" if row["from_m"] == row["to_m"] else ("increasing" if row["to_m"] > row["from_m"] else "decreasing")
    return "kind=%s shape=%s duration=%s via=%s" % (row["kind"], shape, frac, row["via"])


def run(tier, v):
    t0 = time.time()
    thorough = tier == "thorough"
    # 1. design level: the oracle itself
    r = vlib.tlc("ProfileMathCheck", "ProfileMath_exh.cfg" if not thorough else "ProfileMath_exh_big.cfg",
                 deadlock=False, timeout=1800)
    vlib.tlc_must_pass(r, "ProfileMathCheck")
    states, trans = r.distinct, r.generated
    negs = ["ProfileMath_neg_latewindow.cfg", "ProfileMath_neg_countplus2.cfg"]
    for neg in negs:
        vlib.tlc_must_fail(vlib.tlc("ProfileMathCheck", neg, deadlock=False, timeout=600), neg)
    # 2. conformance
    b = vlib.harness_build()
    d = vlib.scratch()
    trace = os.path.join(d, "profile.ndjson")
    many = os.path.join(d, "many.ndjson")
    args = ["profile", "-out", trace, "-many", many, "-drains", "600" if thorough else "200"]
    if thorough:
        args += ["-lines", "1210", "-random", "1500", "-maxtokens", "30000"]
    else:
        args += ["-lines", "200", "-random", "40", "-maxtokens", "12000"]
    vlib.run_driver(b, args, timeout=1200)
    rows = vlib.read_ndjson(trace)
    tr = vlib.tlc("TraceProfile", "TraceProfile.cfg", env={"VERIF_TRACE": trace, "VERIF_SEED": vlib.seed()},
                  cont=True, timeout=3000 if thorough else 600, heap="12g")
    if tr.error:
        raise vlib.MachineryError("TraceProfile failed: %s\n%s" % (tr.kind, tr.out[-3000:]))
    if tr.distinct != len(rows) + 1:
        raise vlib.MachineryError("TraceProfile visited %d states for %d lines" % (tr.distinct, len(rows)))
    seen = set()
    for inv, st in tr.all_violations:
        ln = int(st.get("l", "0"))
        if ln < 1 or (inv, ln) in seen:
            continue
        seen.add((inv, ln))
        row = rows[ln - 1]
        brief = {k: row[k] for k in ("kind", "from_m", "to_m", "step", "times", "dur", "via", "left0", "n", "err", "after", "left_end")}
        brief["first_ts"] = row["ts"][:5]
        v.violation("%s inv=%s" % (classify(row), inv),
                    "profile %s: invariant %s of TraceProfile fails (n=%d left0=%d err=%r)" % (
                        {k: row[k] for k in ("kind", "from_m", "to_m", "step", "times")}, inv, row["n"], row["left0"], row["err"]),
                    replay_obj={"invariant": inv, "line": row}, replay_name="profile_%d_%s.json" % (ln, inv))
    # 2b. many concurrent drains of profiles with thousands of contended level hand-overs (counts and finish times)
    tm = vlib.tlc("TraceProfileMany", "TraceProfileMany.cfg", env={"VERIF_TRACE": many}, cont=True, workers=4, timeout=1800, heap="8g")
    if tm.error:
        raise vlib.MachineryError("TraceProfileMany failed: %s\n%s" % (tm.kind, tm.out[-3000:]))
    mrows = vlib.read_ndjson(many)
    if tm.distinct != len(mrows) + 1:
        raise vlib.MachineryError("TraceProfileMany visited %d states for %d lines" % (tm.distinct, len(mrows)))
    seen_m = set()
    for inv, stt in tm.all_violations:
        ln = int(stt.get("l", "0"))
        if ln < 1 or (inv, ln) in seen_m:
            continue
        seen_m.add((inv, ln))
        row = mrows[ln - 1]
        if inv == "OracleOK":
            raise vlib.MachineryError("TraceProfileMany: the oracle admits no count for a level of %s" % {k: row[k] for k in ("kind", "from_m", "to_m", "step")})
        ns = sorted({dr["n"] for dr in row["drains"]})
        v.violation("many kind=%s inv=%s" % (row["kind"], inv),
                    "%d concurrent drains (8 goroutines) of %s: %s fails; operation counts seen %s, finish instants per drain %s" % (
                        len(row["drains"]), {k: row[k] for k in ("kind", "from_m", "to_m", "step", "times", "dur")}, inv, ns[:6],
                        sorted({len(dr["fins"]) for dr in row["drains"]})),
                    replay_obj={"invariant": inv, "many": row}, replay_name="many_%d_%s.json" % (ln, inv))
    # 3. lazy start under contention: "no operation is scheduled before the profile's start" also holds for the
    #    callers that arrive while another caller is just starting the profile (TraceLazyStart.tla, shared with C02)
    lz = os.path.join(d, "lazy.ndjson")
    ntrials = 600000 if thorough else 150000
    vlib.run_driver(b, ["schedlazy", "-out", lz, "-trials", str(ntrials)], timeout=1800)
    tl = vlib.tlc("TraceLazyStart", "TraceLazyStart.cfg", env={"VERIF_TRACE": lz}, cont=True, timeout=1800, heap="8g")
    if tl.error:
        raise vlib.MachineryError("TraceLazyStart failed: %s\n%s" % (tl.kind, tl.out[-3000:]))
    lrows = vlib.read_ndjson(lz)
    if tl.distinct != len(lrows) + 1:
        raise vlib.MachineryError("TraceLazyStart visited %d states for %d lines" % (tl.distinct, len(lrows)))
    seen_l = set()
    for inv, stt in tl.all_violations:
        ln = int(stt.get("l", "0"))
        if ln < 1 or (inv, ln) in seen_l or lrows[ln - 1]["kind"] != "once":
            continue          # the unlimited trials belong to C02
        seen_l.add((inv, ln))
        row = lrows[ln - 1]
        v.violation("lazystart kind=once inv=%s n=%d" % (inv, row["n"]),
                    "once(%d) started by its first Next(), %d goroutines released together: %s fails" % (row["n"], row["g"], inv),
                    replay_obj={"invariant": inv, "lazy": row}, replay_name="lazy_%d_%s.json" % (ln, inv))
    tokens = sum(r_["n"] for r_ in rows)
    distinct = len({(r_["kind"], r_["from_m"], r_["to_m"], r_["step"], r_["times"], tuple(r_["dur"])) for r_ in rows if r_["n"] > 0})
    samples = [{k: rr[k] for k in ("kind", "from_m", "to_m", "step", "times", "dur", "via", "n")} | {"first_ts": rr["ts"][:3]}
               for rr in rows[3::97]][:6]
    cov = {
        "states": states, "transitions": trans,
        "traces_validated_against_impl": len(rows),
        "samples": samples,
        "evaluations": len(rows), "distinct_nontrivial": distinct,
        "rule": "one trace line per profile drained from the real schedule; distinct = distinct parameter tuples with >= 1 token",
        "tokens_checked": tokens,
        "lazy_start_trials": ntrials,
        "concurrent_drains": len([r_ for r_ in rows if r_["via"] == "concurrent"]) + sum(len(r_["drains"]) for r_ in mrows),
        "trace_spec_states": tr.distinct,
        "design_tlc": "ProfileMathCheck: %d grid profiles, oracle window/count sanity + golden points" % states,
        "negative_controls": negs,
        "exhaustive": False,
    }
    return "model_checking", cov, [
        "instants compared at tolerance 1 us; near-flat lines (|to-from| < 0.01 rps) and durations > 61 s outside the explored domain",
        "driver records faithfully (trusted: harness/cmd/vdrive/profile.go)"]


def replay(path, v):
    import json
    obj = json.load(open(path))
    d = vlib.scratch()
    if "many" in obj:
        p = os.path.join(d, "many1.ndjson")
        vlib.write_ndjson(p, [obj["many"]])
        tm = vlib.tlc("TraceProfileMany", "TraceProfileMany.cfg", env={"VERIF_TRACE": p}, cont=True, workers=1)
        for inv, _ in tm.all_violations:
            v.violation("many kind=%s inv=%s" % (obj["many"]["kind"], inv), "recorded drains violate %s" % inv)
        return None
    if "lazy" in obj:
        p = os.path.join(d, "lazy1.ndjson")
        vlib.write_ndjson(p, [obj["lazy"]])
        tl = vlib.tlc("TraceLazyStart", "TraceLazyStart.cfg", env={"VERIF_TRACE": p}, cont=True)
        for inv, _ in tl.all_violations:
            v.violation("lazystart kind=once inv=%s n=%d" % (inv, obj["lazy"]["n"]), "recorded batch violates %s" % inv)
        return None
    trace = os.path.join(d, "one.ndjson")
    vlib.write_ndjson(trace, [obj["line"]])
    tr = vlib.tlc("TraceProfile", "TraceProfile.cfg", env={"VERIF_TRACE": trace, "VERIF_SEED": vlib.seed()}, cont=True)
    for inv, st in tr.all_violations:
        print("recorded line violates %s" % inv)
        v.violation("replay inv=%s" % inv, "recorded profile line violates %s" % inv)
    return None
