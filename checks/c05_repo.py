"""C05 growth: the specification bound to pandora's OWN tests (DESIGN.md §9 item 6), called from checks/c05.py.

The test binaries of ./core/engine (quick + thorough) and ./tests/acceptance (thorough) are built with `-tags verif`
and every leaf test is run in a process of its own with PANDORA_VERIF_TRACE naming a file: the file sink of
core/engine's verif hooks (core/engine/verif_trace.go, tag-only) records every hook event of every engine / pool run
the test makes.  The lines are split into runs (one Engine.Run call with its pools, or one instancePool.Run called
directly by a test) and TracePoolRunHooks.tla - which EXTENDS the design module PoolRun.tla and replaces the scripted
components by the most general environment - decides for every run whether it is a behaviour of the specification;
all PoolRun invariants are evaluated on every state on the way.  The tests use their own mocks / real components, so
hook events are all there is; what the tests assert themselves is not used (a failing repo test is only noted).
"""
import json
import os
import re
import subprocess
import threading
import time
from concurrent.futures import ThreadPoolExecutor

import vlib

PACKAGES = [  # (import path below the repo root, tier in which it is run, jitter seeds in the quick / thorough tier)
    ("core/engine", "quick", 2, 12),
    ("tests/acceptance", "thorough", 0, 3),
]
# these tests listen on fixed ports (:18888, :18889): one at a time
EXCLUSIVE = re.compile(r"G[Rr][Pp][Cc]")

# Tests whose caller CAN cancel the context given to Engine.Run / instancePool.Run (reviewed by reading the test
# sources; the repository's tests are never edited).  A test that is not known at all (new test) is treated as "may
# cancel", which is the weaker, always sound assumption.
KNOWN_TESTS = re.compile(r"^(Test_ConfigValidation|Test_InstancePool|Test_MultipleInstance|Test_Engine|Test_BuildInstanceSchedule|"
                         r"Test_Instance|TestConnectGunSuite|TestCheckGRPCReflectServer|TestGrpcGunSuite|TestHTTPScenarioSuite|"
                         r"TestGunSuite)(/|$)")
MAY_CANCEL = re.compile(r"^(Test_InstancePool|Test_Engine)/context_canceled$")

MAXN = 3          # TracePoolRunHooks.cfg
MAXPOOLS = 2      # PoolRun.tla is exhaustively explored for <= 2 pools; its trace spec has no bound of its own
AWAIT4 = ("AwaitProvider", "AwaitAggregator", "AwaitStart", "AllInstancesFinished")


def may_cancel(test):
    return bool(MAY_CANCEL.match(test)) or not KNOWN_TESTS.match(test)


def build(pkg, d):
    out = os.path.join(d, pkg.replace("/", "_") + ".test")
    t0 = time.time()
    p = subprocess.run(["go", "test", "-c", "-tags", "verif", "-vet=off", "-o", out, "./" + pkg], cwd=vlib.REPO,
                       env=vlib.go_env(), stdout=subprocess.PIPE, stderr=subprocess.STDOUT, text=True, timeout=1200)
    if p.returncode != 0 or not os.path.exists(out):
        raise vlib.MachineryError("go test -c -tags verif ./%s failed\n%s" % (pkg, p.stdout[-4000:]))
    vlib.log("repo tests: ./%s built with -tags verif in %.1fs" % (pkg, time.time() - t0))
    return out


def run_test(binary, pkg, pattern, trace, jitter, timeout):
    e = vlib.go_env()
    e["PANDORA_VERIF_TRACE"] = trace
    if jitter:
        e["PANDORA_VERIF_JITTER"] = str(jitter)
    else:
        e.pop("PANDORA_VERIF_JITTER", None)
    try:
        p = subprocess.run([binary, "-test.v", "-test.count=1", "-test.timeout=%ds" % timeout, "-test.run", pattern],
                           cwd=os.path.join(vlib.REPO, pkg), env=e, stdout=subprocess.PIPE, stderr=subprocess.STDOUT,
                           text=True, errors="replace", timeout=timeout + 30)
        return p.returncode, p.stdout
    except subprocess.TimeoutExpired as ex:
        return -9, (ex.stdout or b"").decode("utf-8", "replace") if isinstance(ex.stdout, bytes) else (ex.stdout or "")


def leaves(out):
    """leaf (sub)tests of a `-test.v` run, in order"""
    names = [m.group(1) for m in re.finditer(r"^\s*=== RUN\s+(\S+)", out, re.M)]
    seen = []
    for n in names:
        if n not in seen:
            seen.append(n)
    return [n for n in seen if not any(o.startswith(n + "/") for o in seen)]


def leaf_pattern(name):
    return "/".join("^%s$" % re.escape(part) for part in name.split("/"))


def split_runs(lines):
    """Hook lines of ONE process -> runs.  A run is one Engine.Run call (the pools made by newPool on the goroutine that
    later writes EngineReturn) or one pool made by a direct newPool call.  Returns (runs, unseparable) where a run is
    {"engine": bool, "pools": [pool key], "wd": [bool], "events": [line]} and `unseparable` counts pool generations
    whose events cannot be told apart from those of an earlier pool with the same id that was still active."""
    gen = {}          # pool id -> current generation
    born = {}         # (id, gen) -> line of its PoolNew
    state = {}        # (id, gen) -> {"ret": bool, "await": set, "bound": bool}
    evs = {}          # (id, gen) -> [line]
    overlap = set()
    order = []
    for ln in lines:
        pid = ln["pool"]
        if ln["ev"] == "PoolNew":
            g = gen.get(pid, 0)
            if g and not quiescent(state[(pid, g)]):
                overlap.add((pid, g))
                overlap.add((pid, g + 1))
            gen[pid] = g + 1
            key = (pid, g + 1)
            born[key], state[key], evs[key] = ln, {"ret": False, "await": set(), "bound": False}, []
            order.append(key)
        elif ln["ev"] != "EngineReturn":
            if pid not in gen:
                continue
            key = (pid, gen[pid])
            evs[key].append(ln)
            s = state[key]
            if ln["ev"] == "PoolReturn":
                s["ret"] = True
            elif ln["ev"] in AWAIT4:
                s["await"].add(ln["ev"])
                s["bound"] = True
            elif ln["ev"].startswith(("Await", "Err")):
                s["bound"] = True
    # engine runs: pools born on goroutine G since the previous EngineReturn of G
    runs, used = [], set()
    last_ret = {}
    for ln in lines:
        if ln["ev"] != "EngineReturn":
            continue
        g = ln["g"]
        pools = [k for k in order if k not in used and born[k]["g"] == g and last_ret.get(g, -1) < born[k]["i"] < ln["i"]]
        last_ret[g] = ln["i"]
        used.update(pools)
        if pools:
            runs.append({"engine": True, "pools": pools, "ret": ln})
    for k in order:
        if k not in used and evs[k]:
            runs.append({"engine": False, "pools": [k], "ret": None})
    out, bad = [], 0
    for r in runs:
        if any(k in overlap for k in r["pools"]):
            bad += 1
            continue
        idx = {k: i + 1 for i, k in enumerate(r["pools"])}
        rows = [(ln["i"], dict(ln, p=idx[k])) for k in r["pools"] for ln in evs[k]]
        if r["ret"] is not None:
            rows.append((r["ret"]["i"], dict(r["ret"], p=0)))
        rows.sort(key=lambda x: x[0])
        out.append({"engine": r["engine"], "pools": ["%s#%d" % k for k in r["pools"]],
                    "wd": [born[k]["wd"] for k in r["pools"]], "events": [x[1] for x in rows]})
    return out, bad


def quiescent(s):
    """nothing of that pool can write another line: Run returned and the await goroutine (if any) left its loop"""
    return s["ret"] and (not s["bound"] or len(s["await"]) == 4)


def tlc_rows(run_id, r, cancel):
    rows = [{"run": run_id, "ev": "Run", "p": 0, "n": len(r["pools"]), "cls": "engine" if r["engine"] else "pool", "c": "",
             "flag": bool(cancel)}]
    for i, wd in enumerate(r["wd"]):
        rows.append({"run": run_id, "ev": "Pool", "p": i + 1, "n": 0, "cls": "", "c": "", "flag": bool(wd)})
    for ln in r["events"]:
        e = {"run": run_id, "ev": ln["ev"], "p": ln["p"], "n": ln["n"], "cls": ln["cls"], "c": "", "flag": False}
        if ln["ev"] == "PoolReturn":
            e["cls"], e["c"] = ln["ret"], (ln["cls"] if ln["ret"] == "err" else "")
        if ln["ev"] == "EngineReturn":
            e["cls"] = ""
        rows.append(e)
    return rows


def needs(r):
    n = 0
    for ln in r["events"]:
        if ln["ev"] == "AwaitStart":
            n = max(n, ln["n"])
        if ln["ev"] == "AwaitInstance":
            n = max(n, ln["n"] + 1)
    return n


def collect(tier, d):
    """runs every leaf test of the packages of this tier, once without jitter and once per jitter seed; returns the runs"""
    thorough = tier == "thorough"
    pkgs = [p[0] for p in PACKAGES if thorough or p[1] == "quick"]
    nseeds = {p[0]: (p[3] if thorough else p[2]) for p in PACKAGES}
    lock = threading.Lock()
    runs, stats = [], {"packages": pkgs, "processes": 0, "tests": 0, "tests_with_runs": 0, "failed_tests": [], "hook_events": 0,
                       "unseparable_runs": 0, "beyond_bounds": 0}
    with ThreadPoolExecutor(max_workers=max(2, vlib.NCPU // 2)) as ex:
        bins = dict(zip(pkgs, ex.map(lambda p: build(p, d), pkgs)))
        # 1. the whole package once: which leaf tests exist, do they pass with the tag on
        firsts = list(ex.map(lambda p: run_test(bins[p], p, ".", os.path.join(d, p.replace("/", "_") + ".all.ndjson"), 0, 600), pkgs))
        jobs = []
        for p, (rc, out) in zip(pkgs, firsts):
            if rc != 0:
                stats["failed_tests"] += ["%s:%s" % (p, m.group(1)) for m in re.finditer(r"^\s*--- FAIL: (\S+)", out, re.M)] or [p + ":(rc=%s)" % rc]
            lv = leaves(out)
            if not lv:
                raise vlib.MachineryError("no tests found in ./%s\n%s" % (p, out[-2000:]))
            stats["tests"] += len(lv)
            all_lines = vlib.read_ndjson(os.path.join(d, p.replace("/", "_") + ".all.ndjson")) \
                if os.path.exists(os.path.join(d, p.replace("/", "_") + ".all.ndjson")) else []
            if p == "core/engine" and not any(ln["ev"] == "PoolReturn" for ln in all_lines):
                raise vlib.MachineryError("the verif file sink recorded nothing for ./%s (hook missing in VERIF_REPO?)" % p)
            for name in lv:
                for s in [0] + [vlib.seed() * 100 + k for k in range(1, nseeds[p] + 1)]:
                    jobs.append((p, name, s))

        # 2. every leaf test in a process of its own (its runs cannot mix with those of another test)
        def one(job):
            p, name, s = job
            tf = os.path.join(d, "t_%s_%d_%d.ndjson" % (re.sub(r"\W", "_", name)[:80], s, abs(hash((p, name))) % 100000))
            if EXCLUSIVE.search(name):
                with lock:
                    rc, out = run_test(bins[p], p, leaf_pattern(name), tf, s, 300)
            else:
                rc, out = run_test(bins[p], p, leaf_pattern(name), tf, s, 300)
            lines = vlib.read_ndjson(tf) if os.path.exists(tf) else []
            return job, rc, lines

        results = list(ex.map(one, jobs))
    with_runs = set()
    for (p, name, s), rc, lines in results:
        stats["processes"] += 1
        stats["hook_events"] += sum(1 for ln in lines if ln["ev"] != "PoolNew")
        if rc != 0 and "%s:%s" % (p, name) not in stats["failed_tests"]:
            stats["failed_tests"].append("%s:%s" % (p, name))
        rs, bad = split_runs(lines)
        stats["unseparable_runs"] += bad
        for r in rs:
            if len(r["pools"]) > MAXPOOLS or needs(r) > MAXN:
                stats["beyond_bounds"] += 1
                continue
            r.update(test=name, pkg=p, jitter=s, cancel=may_cancel(name))
            runs.append(r)
            with_runs.add((p, name))
    stats["tests_with_runs"] = len(with_runs)
    return runs, stats


def validate(v, runs, d, report=True, tag="repo", must_reject=()):
    """TLC decides which runs are behaviours of PoolRun.tla with the most general environment.  `must_reject`: corrupted
    runs validated in the same TLC run (binding self-test); returns (#accepted, states, rejected, #corrupted accepted)"""
    rows = []
    for k, r in enumerate(list(runs) + list(must_reject)):
        rows += tlc_rows(k + 1, r, r["cancel"])
    path = os.path.join(d, "TracePoolRunHooks_%s_%d.ndjson" % (tag, len(rows)))
    vlib.write_ndjson(path, rows)
    tr = vlib.tlc("TracePoolRunHooks", "TracePoolRunHooks.cfg", env={"VERIF_TRACE": path}, workers=max(2, vlib.NCPU // 2),
                  deadlock=False, timeout=1800, heap="6g")
    if tr.error:
        raise vlib.MachineryError("TracePoolRunHooks failed: %s\n%s" % (tr.kind, tr.out[-3000:]))
    if tr.violation:
        raise vlib.MachineryError("TracePoolRunHooks: %s %s on a trace state (the design run should have found it)\n%s"
                                  % (tr.kind, tr.what, tr.out[-3000:]))
    acc = {int(m.group(1)) for m in re.finditer(r'<<"VERIF-ACC", (\d+)>>', tr.out)}
    rejected = [k for k in range(len(runs)) if (k + 1) not in acc]
    bad_acc = [must_reject[k]["test"] for k in range(len(must_reject)) if (len(runs) + k + 1) in acc]
    if bad_acc:
        raise vlib.MachineryError("binding self-test: corrupted repo-test traces accepted by TracePoolRunHooks: %s" % bad_acc)
    if rejected and report:
        diagnose(v, [runs[k] for k in rejected], d)
    return len(runs) - len(rejected), tr.distinct, rejected


def diagnose(v, runs, d):
    seen, pick = set(), []
    for r in runs:
        if (r["pkg"], r["test"]) not in seen:
            seen.add((r["pkg"], r["test"]))
            pick.append(r)
    pick = pick[:12]
    rows, first = [], {}
    for k, r in enumerate(pick):
        first[k + 1] = len(rows) + 1
        rows += tlc_rows(k + 1, r, r["cancel"])
    path = os.path.join(d, "TracePoolRunHooks_diag.ndjson")
    vlib.write_ndjson(path, rows)
    tr = vlib.tlc("TracePoolRunHooks", "TracePoolRunHooks_diag.cfg", env={"VERIF_TRACE": path}, workers=1, deadlock=False,
                  timeout=1200, heap="4g")
    if tr.error:
        raise vlib.MachineryError("TracePoolRunHooks (diagnosis) failed: %s\n%s" % (tr.kind, tr.out[-3000:]))
    hw = {}
    for m in re.finditer(r'<<"VERIF-HW", (\d+), (\d+)>>', tr.out):
        hw[int(m.group(1))] = max(hw.get(int(m.group(1)), 0), int(m.group(2)))
    for k, r in enumerate(pick):
        mine = tlc_rows(k + 1, r, r["cancel"])
        head = 1 + len(r["pools"])
        last_ok = hw.get(k + 1, first[k + 1] + head - 1)       # global index of the last consumed line
        idx = last_ok - first[k + 1] + 1                        # index in `mine` of the first line the spec cannot take
        stuck = mine[idx] if idx < len(mine) else {"ev": "EOF", "cls": "", "p": 0, "n": 0}
        n = sum(1 for x in runs if (x["pkg"], x["test"]) == (r["pkg"], r["test"]))
        sig = "repo-test=%s:%s pools=%d rejected_at=%s:%s" % (r["pkg"], r["test"], len(r["pools"]), stuck["ev"], stuck.get("cls", ""))
        what = ("a run of the real engine made by pandora's own test %s (./%s, jitter seed %d) is not a behaviour of PoolRun.tla "
                "with the most general environment: the specification cannot take hook event #%d %s; %d recorded run(s) of this "
                "test rejected" % (r["test"], r["pkg"], r["jitter"], idx - head,
                                   {k_: stuck[k_] for k_ in ("ev", "p", "n", "cls", "c") if stuck.get(k_) not in ("", 0, None)}, n))
        v.violation(sig, what, replay_obj={"kind": "repo-trace", "run": r, "rejected_at": idx - head},
                    replay_name="repo_%s.json" % re.sub(r"\W", "_", r["test"])[:60])


def corrupt(runs):
    """teeth of the binding: real recorded runs with one line dropped / changed must be rejected"""
    out = []

    def variant(src, f, what):
        r = dict(src, events=f([dict(e) for e in src["events"]]), test=src["test"] + " [" + what + "]")
        out.append(r)

    fwd = next((r for r in runs if any(e["ev"] == "ErrForwarded" for e in r["events"]) and not r["cancel"]), None)
    ok = next((r for r in runs if not r["cancel"] and any(e["ev"] == "AllInstancesFinished" for e in r["events"])
               and all(e["cls"] in ("nil", "ooa", "ctx", "") for e in r["events"] if e["ev"] != "PoolReturn")
               and any(e["ev"] == "PoolReturn" and e["ret"] == "nil" for e in r["events"])), None)
    if fwd is None or ok is None:
        raise vlib.MachineryError("binding self-test: no repo-test run with a forwarded error / no clean run recorded")
    # the error is received by Run although the await goroutine never had one to forward
    variant(fwd, lambda evs: [dict(e, cls="nil") if e["ev"] in ("AwaitProvider", "AwaitAggregator", "AwaitStart", "AwaitInstance")
                              and e["cls"] not in ("nil", "ctx", "ooa") else e for e in evs], "component error hidden")
    # a component error that is neither forwarded nor suppressed, Run returns nil
    variant(fwd, lambda evs: [dict(e, ret="nil", cls="nil") if e["ev"] == "PoolReturn" else e for e in evs if e["ev"] != "ErrForwarded"],
            "error swallowed")
    # the shipped onErrAwaited: error suppressed although nobody cancelled and Run has not returned
    def swap(evs):
        res = []
        for e in evs:
            if e["ev"] == "ErrForwarded":
                res.append(dict(e, ev="ErrSuppressed"))
            elif e["ev"] == "PoolReturn":
                continue
            else:
                res.append(e)
        return res
    variant(fwd, swap, "suppressed while Run listens")
    # all instances declared finished before the last one was awaited
    def early(evs):
        i = next(j for j, e in enumerate(evs) if e["ev"] == "AllInstancesFinished")
        j = max(j for j, e in enumerate(evs[:i]) if e["ev"] == "AwaitInstance")
        evs[i], evs[j] = evs[j], evs[i]
        return evs
    variant(ok, early, "AllInstancesFinished before the last instance")
    # onWaitDone before the await loop is over (only when the test hooks it)
    wdrun = next((r for r in runs if any(e["ev"] == "WaitDone" for e in r["events"]) and not r["cancel"]
                  and any(e["ev"] == "AllInstancesFinished" for e in r["events"])), None)
    if wdrun is not None:
        def wd_first(evs):
            w = next(e for e in evs if e["ev"] == "WaitDone")
            p = w["p"]
            rest = [e for e in evs if e is not w]
            k = next(j for j, e in enumerate(rest) if e["p"] == p and e["ev"] in AWAIT4)
            return rest[:k] + [w] + rest[k:]
        variant(wdrun, wd_first, "WaitDone before the results")
    # Run returns nil twice
    variant(ok, lambda evs: evs + [dict(next(e for e in evs if e["ev"] == "PoolReturn"))], "PoolReturn twice")
    return out


def bind(tier, v):
    d = vlib.scratch("verif-repo-")
    t0 = time.time()
    runs, stats = collect(tier, d)
    if not runs:
        raise vlib.MachineryError("no engine run recorded from the repository's tests")
    t1 = time.time()
    bad = corrupt(runs)
    accepted, states, rejected = validate(v, runs, d, must_reject=bad)
    vlib.log("repo tests: %d runs of %d tests, %d accepted, %d validation states, tests %.0fs + TLC %.0fs"
             % (len(runs), stats["tests_with_runs"], accepted, states, t1 - t0, time.time() - t1))
    sample = next((r for r in runs if r["engine"] and len(r["pools"]) == 2), runs[0])
    cov = dict(stats)
    cov.update({
        "repo_test_traces": len(runs), "repo_test_traces_validated": accepted, "repo_test_rejected": len(rejected),
        "repo_test_trace_events": sum(len(r["events"]) for r in runs),
        "repo_test_engine_runs": sum(1 for r in runs if r["engine"]),
        "repo_test_direct_pool_runs": sum(1 for r in runs if not r["engine"]),
        "repo_test_runs_by_test": count_by(runs),
        "repo_test_validation_states": states, "repo_test_corrupted_rejected": len(bad),
        "repo_test_jitter_seeds": sorted({r["jitter"] for r in runs}),
        "repo_test_sample": {"test": sample["test"], "pools": sample["pools"],
                             "events": ["%s p=%d n=%d %s" % (e["ev"], e["p"], e["n"], e.get("ret") or e["cls"]) for e in sample["events"]]},
    })
    return cov


def count_by(runs):
    out = {}
    for r in runs:
        k = "%s:%s" % (r["pkg"], r["test"])
        out[k] = out.get(k, 0) + 1
    return out


def replay(obj, v):
    d = vlib.scratch("verif-repo-")
    validate(v, [obj["run"]], d)
