"""C16 — a scenario means the same whether written in HCL or in YAML.

TLC, design level : ScenarioConfig.tla — abstract scenario descriptions (sources, requests/calls, processors,
                    templater, scenarios), their documented meaning Decoded(desc) / Ammo(desc), and the complete
                    case space (flag groups fully, all flag pairs, every single string / number substitution);
                    invariants OptionalSurvive, AmmoShape, DefaultsApplied on every case; negative controls.
M2 (spec -> code) : TLC exports every case; `vdrive scenconfig` renders each description four times (HCL plain,
                    HCL via locals + collection functions + heredocs, YAML plain, YAML via locals/anchors/merge
                    keys/flow style), runs the real config.ReadAmmoConfig and the real registered provider
                    factories, and records the projected AmmoConfig and ammo list of every rendering.
Decision          : TraceScenarioConfig.tla rebuilds the description from the case key and demands that every
                    rendering is accepted and equals Decoded / Ammo — one expected value for both syntaxes.
"""
import collections
import concurrent.futures
import json
import os
import time
import vlib

PID = "C16"

MANIFEST = dict(
    category="model_checking",
    technique="TLC enumerates the complete finite space of abstract scenario descriptions of ScenarioConfig.tla and "
              "computes their meaning; every case is rendered in HCL (plain; locals+functions; functions without locals; "
              "several locals blocks without functions) and YAML (two styles, plus .yml and .json on a share of the cases), run through the real front-ends and registered providers, and "
              "TraceScenarioConfig.tla (TLC) demands that every rendering equals that meaning",
    design_ref="DESIGN.md §4 C16",
    text="The property quantifies over scenario descriptions. The specification is a function from an abstract "
         "description to the expected AmmoConfig and ammo list (defaults applied, weights spread, name(n, sleep) forms "
         "expanded, variables of the ammo). Both syntaxes are compared against this single value, so they agree with "
         "each other and with the documented meaning; optional fields present/absent are covered group-wise and "
         "pairwise, strings by substitution of tokens that stand for literals hostile to YAML 1.1 typing, YAML "
         "indicators, HCL templates and escaping. HCL conveniences (locals, merge/concat/zipmap/..., interpolation, "
         "heredocs) and YAML conveniences (locals, anchors, merge keys, block scalars) are rendering styles of their own.",
    note="Bounds: 2 requests/calls, <= 2 scenarios, <= 3 variable sources, <= 4 postprocessors; flag pairs on the richest "
         "description (quick: http), thorough also on the poorest, all tokens on all slots and two-slot substitutions. "
         "Trusted: the renderers and projections in harness/cmd/vdrive/scenconfig*.go. The projection ignores "
         "nil-vs-empty collections, the Locals helper and private iterators. Not decided: execution of templates and "
         "processors (C15/C19), csv/json data file contents, unquoted numbers/booleans where a string is expected "
         "(YAML rejects them). Known findings: map key `<<` and numeric `variables` values in HCL, raw NEL/BOM in .json.",
)

STYLES = ["hcl", "hcll", "yaml", "yamla"]          # rendered for every case
EXTRA = ["hclf", "hclv", "yml", "json"]            # further HCL convenience styles / extensions, on a share of the cases
CFG_INVS = ["AcceptedHcl", "AcceptedHclL", "AcceptedYaml", "AcceptedYamlA", "CfgHcl", "CfgHclL", "CfgYaml", "CfgYamlA",
            "AmmoHcl", "AmmoHclL", "AmmoYaml", "AmmoYamlA", "AcceptedHclF", "CfgHclF", "AmmoHclF",
            "AcceptedHclV", "CfgHclV", "AmmoHclV", "AcceptedYml", "CfgYml", "AmmoYml",
            "AcceptedJson", "CfgJson", "AmmoJson", "Complete", "OptionalSurvive", "AmmoShape", "DefaultsApplied"]
TRACE_CONSTS = """CONSTANTS
  Tokens = {}
  CoreTokens = {}
  DelimTokens = {}
  OpTokens = {}
  DropField = ""
  WeightDefault = 1
  Tier = "quick"
INIT TInit
NEXT TNext
INVARIANTS %s
CHECK_DEADLOCK FALSE
"""


def _majority(keys):
    """The base key of the case space: per flag / slot / number the value most cases have (deterministic)."""
    base = {}
    for kind in sorted({k["k"] for k in keys}):
        base[kind] = {}
        for part in ("f", "s", "n"):
            cnt = collections.defaultdict(collections.Counter)
            for k in keys:
                if k["k"] == kind:
                    for name, val in k[part].items():
                        cnt[name][json.dumps(val)] += 1
            base[kind][part] = {name: json.loads(sorted(c.items(), key=lambda kv: (-kv[1], kv[0]))[0][0])
                                for name, c in cnt.items()}
    return base


def case_class(key, base):
    """Stable name of the failing input class: what distinguishes this case from the base description."""
    parts = []
    for part in ("s", "n", "f"):
        for name in sorted(key[part]):
            if key[part][name] != base.get(key["k"], {}).get(part, {}).get(name):
                parts.append("%s.%s=%s" % (part, name, key[part][name]))
    return ",".join(parts) or "base"


def _diff(a, b, path, out):
    if len(out) > 12:
        return
    if isinstance(a, dict) and isinstance(b, dict):
        for k in sorted(set(a) | set(b)):
            if k not in a or k not in b:
                out.append("%s/%s: %s" % (path, k, "missing in observed" if k in a else "unexpected in observed"))
            else:
                _diff(a[k], b[k], path + "/" + k, out)
    elif isinstance(a, list) and isinstance(b, list):
        if len(a) != len(b):
            out.append("%s: expected %d entries, observed %d" % (path, len(a), len(b)))
        for i, (x, y) in enumerate(zip(a, b)):
            _diff(x, y, "%s/%d" % (path, i), out)
    elif a != b and not (a in ([], {}) and b in ([], {})):
        out.append("%s: expected %s, observed %s" % (path, json.dumps(a)[:120], json.dumps(b)[:120]))


def expected_for(keys):
    """Description, Decoded and Ammo of the given keys, computed by TLC (diagnostics and replay only)."""
    d = vlib.scratch("c16-")
    kf, of = os.path.join(d, "key.ndjson"), os.path.join(d, "one.ndjson")
    vlib.write_ndjson(kf, [{"key": k} for k in keys])
    r = vlib.tlc("ScenarioConfigMC", "ScenarioConfig_one.cfg", env={"VERIF_KEY": kf, "VERIF_CASES": of}, workers=1,
                 deadlock=False, timeout=300, heap="2g")
    if r.error or r.violation or not os.path.exists(of):
        raise vlib.MachineryError("ScenarioConfig_one failed\n%s" % r.out[-2000:])
    return vlib.read_ndjson(of)


def resolve(out, style):
    o = out[style]
    return out[o["same"]] if o.get("same") else o


def trace_check(trace, nlines, invs, workers, timeout, tag):
    """TLC over a recorded trace with the given invariants; returns TLCResult (all_violations filled)."""
    sc = vlib.spec_copy()
    name = "_c16_%s_%d.cfg" % (tag, os.getpid())
    with open(os.path.join(sc, "cfg", name), "w") as f:
        f.write(TRACE_CONSTS % " ".join(invs))
    tr = vlib.tlc("TraceScenarioConfig", name, env={"VERIF_TRACE": trace}, cont=True, workers=workers,
                  timeout=timeout, heap="6g", deadlock=False)
    if tr.error:
        raise vlib.MachineryError("TraceScenarioConfig failed (%s)\n%s" % (tr.kind, tr.out[-3000:]))
    if tr.distinct != nlines + 1:
        raise vlib.MachineryError("TraceScenarioConfig visited %d states for %d lines" % (tr.distinct, nlines))
    return tr


def report(v, rows, bad, base, binary):
    """bad: {line number -> set of invariants}.  One violation per (case class, invariants)."""
    if not bad:
        return
    d = vlib.scratch("c16-")
    lns = sorted(bad)[:40]
    # rendered texts of the failing cases (the driver re-renders them; rendering is deterministic)
    sub = os.path.join(d, "cases.ndjson")
    exp = dict(zip(lns, expected_for([rows[ln - 1]["key"] for ln in lns])))
    with open(sub, "w") as f:
        for ln in lns:
            f.write(json.dumps({"id": rows[ln - 1]["id"], "key": exp[ln]["key"], "desc": exp[ln]["desc"]}) + "\n")
    texts = os.path.join(d, "texts.ndjson")
    vlib.run_driver(binary, ["scenconfig", "-cases", sub, "-out", os.path.join(d, "again.ndjson"), "-texts", texts, "-allstyles"])
    txt = {t["id"]: t["texts"] for t in vlib.read_ndjson(texts)}
    for i, ln in enumerate(lns):
        row, e = rows[ln - 1], exp[ln]
        invs = sorted(bad[ln])
        cls = case_class(row["key"], base)
        detail = []
        for st in [x for x in STYLES + EXTRA if x in row["out"]]:
            o = resolve(row["out"], st)
            if o["err"]:
                detail.append("%s: rejected: %s" % (st, o["err"][:300]))
            else:
                df = []
                _diff(e["cfg"], o.get("cfg"), "cfg", df)
                _diff(e["ammo"], o.get("ammo"), "ammo", df)
                if df:
                    detail.append("%s: %s" % (st, "; ".join(df[:6])))
        sig = "kind=%s inv=%s case=%s" % (row["key"]["k"], "+".join(invs), cls)
        v.violation(sig,
                    "case %d (%s, %s; file system delivered %s): TraceScenarioConfig invariant(s) %s fail: %s" % (
                        row["id"], row["key"]["k"], cls, row.get("fs", {}), ",".join(invs),
                        " | ".join(detail)[:1500] or "see replay"),
                    replay_obj={"id": row["id"], "seed": vlib.seed(), "key": row["key"], "invariants": invs, "desc": e["desc"],
                                "expected": {"cfg": e["cfg"], "ammo": e["ammo"]},
                                "observed": {st: resolve(row["out"], st) for st in row["out"]}, "fs": row.get("fs", {}),
                                "rendered": txt.get(row["id"], {})},
                    replay_name="case_%s_%d.json" % (row["key"]["k"], row["id"]))
    for ln in sorted(bad)[40:]:
        row = rows[ln - 1]
        v.violation("kind=%s inv=%s case=%s" % (row["key"]["k"], "+".join(sorted(bad[ln])), case_class(row["key"], base)),
                    "case %d: invariant(s) %s fail (no replay file: more than 40 failing cases)" % (row["id"], sorted(bad[ln])))


_SUFFIX = {"hcl": "Hcl", "hcll": "HclL", "yaml": "Yaml", "yamla": "YamlA", "yml": "Yml", "json": "Json",
           "hclf": "HclF", "hclv": "HclV"}


def validate(v, trace, rows, base, binary, workers=8, timeout=900):
    """All invariants on every line.  TLC -continue reports only the first violated invariant of a state, but the
    state itself carries `bad`, the set of all statements that fail on that line (computed by TLC in the action)."""
    import re
    tr = trace_check(trace, len(rows), CFG_INVS, workers, timeout, "all")
    bad = {}
    for inv, st in tr.all_violations:
        ln = int(st.get("l", "0"))
        if ln < 1:
            continue
        names = {what + _SUFFIX.get(style, style) for what, style in re.findall(r'<<"(\w+)", "(\w+)">>', st.get("bad", ""))}
        bad.setdefault(ln, set()).update(names | {inv})
    report(v, rows, bad, base, binary)
    return tr, len(bad)


_private = {"done": False}


def _private_copies():
    """Scratch copies under names of our own: other jobs on this machine clean up /tmp/verif-* wholesale (a run lost its
    freshly built driver that way), so the spec copy and the driver binary live in c16-* directories."""
    import shutil
    if _private["done"]:
        return
    d = vlib.scratch("c16-spec-")
    shutil.copytree(vlib.SPEC, os.path.join(d, "spec"))
    vlib._spec_copy = os.path.join(d, "spec")
    _private["done"] = True


def _build():
    import shutil
    b = vlib.harness_build()
    d = vlib.scratch("c16-bin-")
    dst = os.path.join(d, "vdrive")
    shutil.copy2(b, dst)
    return dst


def run(tier, v):
    thorough = tier == "thorough"
    _private_copies()
    d = vlib.scratch("c16-")
    cases = os.path.join(d, "cases.ndjson")
    # 1. design level: the case space with the oracle's own invariants; export of the cases; negative controls
    negs = ["ScenarioConfig_neg_droptag.cfg", "ScenarioConfig_neg_dropsize.cfg", "ScenarioConfig_neg_dropmwt.cfg",
            "ScenarioConfig_neg_weight0.cfg"]
    with concurrent.futures.ThreadPoolExecutor(max_workers=3) as ex:
        main = ex.submit(vlib.tlc, "ScenarioConfigMC", "ScenarioConfig_exh_big.cfg" if thorough else "ScenarioConfig_exh.cfg",
                         env={"VERIF_CASES": cases}, workers=8, heap="6g", deadlock=False, timeout=1500, coverage=thorough)
        build = ex.submit(_build)
        negr = [ex.submit(vlib.tlc, "ScenarioConfigMC", n, workers=2, heap="2g", deadlock=False, timeout=600) for n in negs]
        r = main.result()
        vlib.tlc_must_pass(r, "ScenarioConfig exhaustive")
        for n, fr in zip(negs, negr):
            vlib.tlc_must_fail(fr.result(), n)
        binary = build.result()
    if thorough:
        import re
        zero = [ln for ln in r.out.splitlines() if re.search(r"<(Next|Init) line .*: 0:0", ln)]
        if zero:
            raise vlib.MachineryError("action with coverage 0 in ScenarioConfig: %s" % zero[:3])
    states, trans = r.distinct, r.generated
    vlib.log("design level: %d states, exhaustive %.1fs; %d negative controls; build" % (states, r.wall, len(negs)))
    if not os.path.exists(cases):
        raise vlib.MachineryError("TLC did not export the case list")
    gen = vlib.read_ndjson(cases)
    if len(gen) < 1000:
        raise vlib.MachineryError("case space suspiciously small: %d" % len(gen))
    # 2. the real code on every case
    trace = os.path.join(d, "trace.ndjson")
    extra = ["-allstyles"] if thorough else []
    vlib.run_driver(binary, ["scenconfig", "-cases", cases, "-out", trace, "-workers", "8"] + extra, timeout=1800)
    rows = vlib.read_ndjson(trace)
    if [r_["key"] for r_ in rows] != [g["key"] for g in gen]:
        raise vlib.MachineryError("driver did not answer exactly the generated cases (%d vs %d)" % (len(rows), len(gen)))
    base = _majority([g["key"] for g in gen])
    # 3. TLC decides
    t1 = time.time()
    tr, nbad = validate(v, trace, rows, base, binary, timeout=2400 if thorough else 900)
    vlib.log("trace validation: %d lines, %d failing, %.1fs (first pass %.1fs)" % (len(rows), nbad, time.time() - t1, tr.wall))
    # 4. the binding has teeth: the same trace against a deliberately wrong oracle (forgets `tag`) must be rejected
    head = os.path.join(d, "head.ndjson")
    vlib.write_ndjson(head, rows[:160])
    sc = vlib.spec_copy()
    neg = vlib.tlc("TraceScenarioConfig", "TraceScenarioConfig_neg.cfg", env={"VERIF_TRACE": head}, workers=4,
                   heap="2g", deadlock=False, timeout=600)
    vlib.tlc_must_fail(neg, "TraceScenarioConfig_neg (oracle that forgets tag must reject the real traces)")
    kinds = collections.Counter(r_["key"]["k"] for r_ in rows)
    by_style = collections.Counter(st for r_ in rows for st in r_["out"])
    nrend = sum(by_style.values())
    by_fs = collections.Counter(m for r_ in rows for m in r_.get("fs", {}).values())
    if len(by_fs) < 7 or min(by_fs.values()) < 200:
        raise vlib.MachineryError("driver did not rotate the file-system read modes: %s" % dict(by_fs))
    if min(by_style.get(st, 0) for st in STYLES) != len(rows) or min(by_style.get(st, 0) for st in EXTRA) < 50:
        raise vlib.MachineryError("driver rendered too few styles: %s" % dict(by_style))
    distinct = len({json.dumps(g["desc"], sort_keys=True) for g in gen})
    identical = sum(1 for r_ in rows if all(r_["out"][s].get("same") for s in STYLES[1:]))
    # a few cases written out, with the head of two of their renderings
    picks = rows[5::max(1, len(rows) // 4)][:4]
    sub, tx = os.path.join(d, "sample_cases.ndjson"), os.path.join(d, "sample_texts.ndjson")
    vlib.write_ndjson(sub, [dict(gen[r_["id"] - 1], id=r_["id"]) for r_ in picks])
    vlib.run_driver(binary, ["scenconfig", "-cases", sub, "-out", os.path.join(d, "sample_out.ndjson"), "-texts", tx,
                             "-allstyles"])
    texts = {t["id"]: t for t in vlib.read_ndjson(tx)}
    samples = []
    for r_ in picks:
        t = texts[r_["id"]]
        o = resolve(r_["out"], "yaml")
        samples.append({"id": r_["id"], "kind": r_["key"]["k"], "case": case_class(r_["key"], base),
                        "all_renderings_identical": all(r_["out"][s].get("same") for s in STYLES[1:]),
                        "scenarios_in_ammo": [a["name"] for a in (o.get("ammo") or [])],
                        "hcl_locals_functions_head": t["texts"]["hcll"][:700],
                        "hcl_functions_only_tail": t["texts"]["hclf"][-500:],
                        "hcl_locals_only_head": t["texts"]["hclv"][:600],
                        "yaml_anchors_head": t["texts"]["yamla"][:400]})
    cov = {
        "states": states + tr.distinct, "transitions": trans + tr.generated,
        "design_states": states, "trace_spec_states": tr.distinct,
        "traces_validated_against_impl": len(rows),
        "renderings_validated": nrend, "renderings_by_style": dict(by_style),
        "renderings_by_file_system_read_mode": dict(by_fs),
        "exhaustive": True, "evaluations": nrend, "distinct_nontrivial": distinct,
        "rule": "one case per key of ScenarioConfig!Cases (flag groups fully, flag pairs fully, single string and number "
                "substitutions); each rendered 4 ways and run through ReadAmmoConfig and the registered provider; "
                "distinct = distinct abstract descriptions",
        "cases_by_kind": dict(kinds), "cases_all_renderings_identical": identical, "cases_failing": nbad,
        "negative_controls": negs + ["TraceScenarioConfig_neg.cfg"],
        "samples": samples,
    }
    return "model_checking", cov, [
        "renderers and projections of harness/cmd/vdrive/scenconfig*.go are faithful (trusted base; every disagreement is "
        "reported with the rendered text)",
        "bounds: 2 requests/calls, <= 2 scenarios, <= 3 variable sources; substitutions of %d tokens" % (
            len({val for g in gen for val in g["key"]["s"].values() if str(val).startswith("T_")})),
        "nil and empty collections are identified (behaviourally equal: consumers range over them / take len())"]


def replay(path, v):
    import re
    obj = json.load(open(path))
    _private_copies()
    e = expected_for([obj["key"]])[0]
    d = vlib.scratch("c16-")
    cases, trace = os.path.join(d, "cases.ndjson"), os.path.join(d, "trace.ndjson")
    vlib.write_ndjson(cases, [{"id": obj.get("id", 1), "key": e["key"], "desc": e["desc"]}])
    binary = _build()
    vlib.run_driver(binary, ["scenconfig", "-cases", cases, "-out", trace], env={"VERIF_SEED": obj.get("seed", vlib.seed())})
    t = trace_check(trace, 1, CFG_INVS, 1, 300, "rp")
    bad = set()
    for inv, st in t.all_violations:
        bad |= {what + _SUFFIX.get(style, style) for what, style in re.findall(r'<<"(\w+)", "(\w+)">>', st.get("bad", ""))} | {inv}
    for inv in sorted(bad):
        print("replayed case violates %s" % inv)
    if bad:
        v.violation("replay inv=%s" % "+".join(sorted(bad)), "replayed case still violates %s" % sorted(bad))
    else:
        print("replayed case satisfies every invariant")
    return None
