"""Shared by checks/c07.py and checks/c14.py (both are decided by spec/AmmoFormats.tla through
spec/TraceAmmoFormats.tla and use the `vdrive ammofmt` driver).  No oracle here: TLC exports the
cases, the driver records, TLC compares; python only moves files and words the verdict."""
import json
import os
import vlib

FORMATS = ["uri", "uripost", "raw", "json"]


ACTIONS = ("ReadHeader", "ReadBlank", "ReadEntry", "EOFWrap")


def design_level(cfgs_pass, cfgs_fail, workers=8, heap="4g", coverage=False):
    """TLC on AmmoFormatsMC: configs that must hold / negative controls that must fail.
    coverage=True (thorough): every reader action must have been taken (count 0 = machinery failure)."""
    import re
    states = trans = 0
    detail = {}
    for cfg in cfgs_pass:
        cov = coverage and "_exh" in cfg
        r = vlib.tlc("AmmoFormatsMC", cfg, deadlock=False, timeout=1800, workers=workers, heap=heap, coverage=cov)
        vlib.tlc_must_pass(r, cfg)
        states += r.distinct
        trans += r.generated
        detail[cfg] = {"states": r.distinct, "wall_s": round(r.wall, 1)}
        if cov:
            counts = {m.group(1): int(m.group(2)) for m in
                      re.finditer(r"^<(\w+) line \d+, col \d+ to line \d+, col \d+ of module AmmoFormatsMC>: (\d+):\d+", r.out, re.M)}
            for a in ACTIONS:
                if counts.get(a, 0) == 0:
                    raise vlib.MachineryError("action %s of AmmoFormatsMC was never taken in %s (coverage %r)" % (a, cfg, counts))
            detail[cfg]["action_counts"] = {a: counts[a] for a in ACTIONS}
    for cfg in cfgs_fail:
        r = vlib.tlc("AmmoFormatsMC", cfg, deadlock=False, timeout=600, workers=workers, heap=heap)
        vlib.tlc_must_fail(r, cfg)
        detail[cfg] = {"counterexample": r.what or r.kind}
    return states, trans, detail


def export_cases(cfg, d, name):
    """TLC writes <d>/<name>.<fmt> (NDJSON, one abstract case per line) for every format."""
    prefix = os.path.join(d, name)
    r = vlib.tlc("AmmoFormatsMC", cfg, env={"VERIF_OUT": prefix}, workers=1, deadlock=False, timeout=1800, heap="6g")
    if r.error or r.violation:
        raise vlib.MachineryError("case export %s failed: %s %s\n%s" % (cfg, r.kind, r.what, r.out[-3000:]))
    files = [prefix + "." + f for f in FORMATS]
    for f in files:
        if not os.path.exists(f) or os.path.getsize(f) == 0:
            raise vlib.MachineryError("case export %s wrote no %s" % (cfg, f))
    return files


def run_cases(v, b, args, timeout=3000):
    """Runs the driver.  A Go runtime `fatal error: concurrent map ...` with the provider's code on a goroutine stack
    is the observation itself (the real provider and its consumer raced on a map and killed the process), not a
    machinery failure: it is reported as a violation and False is returned (no trace to validate)."""
    import re
    p = vlib.run_driver(b, args, timeout=timeout, ok_codes=(0, 2))
    if p.returncode == 0:
        return True
    m = re.search(r"fatal error: (concurrent map [a-z ]+)", p.stderr)
    frames = [ln.strip() for ln in p.stderr.splitlines() if "github.com/yandex/pandora/components/providers/http" in ln]
    if m and frames:
        v.violation("crash fatal=%s" % m.group(1).strip().replace(" ", "_"),
                    "the process died while the real provider was consumed (Acquire concurrent with Run, as the engine does): "
                    "%s; provider frames: %s" % (m.group(1).strip(), " | ".join(frames[:6])),
                    replay_obj={"stderr_head": p.stderr[:6000], "args": args}, replay_name="crash.json")
        return False
    raise vlib.MachineryError("driver %s failed rc=%s\n%s" % (" ".join(args[:2]), p.returncode, p.stderr[-4000:]))


def brief_case(row, maxitems=6):
    def item(it):
        if it["k"] == "E":
            e = it["e"]
            return "E(%s %s body=%s tag=%r)" % (e["method"], e["uri"], e["body"][:16] or "-", e["tag"])
        if it["k"] == "H":
            return "H(%s: %s)" % (it["key"], it["val"])
        return "Blank"
    items = [item(i) for i in row["items"][:maxitems]]
    if len(row["items"]) > maxitems:
        items.append("... %d items" % len(row["items"]))
    return {"fmt": row["fmt"], "items": items, "lay": row["lay"], "conf": row["conf"], "src": row.get("src")}


def case_class(row):
    """stable words for the failing input class (used in signatures); no expectations in here"""
    lay, conf, items = row["lay"], row["conf"], row["items"]
    last = items[-1] if items else {"k": "none"}
    lk = last["k"]
    if lk == "E":
        lk = "E/emptybody" if last["e"]["body"] == "" else "E/body"
    tags = {i["e"]["tag"] for i in items if i["k"] == "E"}
    ch = conf["chosen"]
    chosen = "none" if not ch else ("nomatch" if not (set(ch) & tags) else ("all" if tags <= set(ch) else "some"))
    return dict(fmt=row["fmt"], style=lay["style"], sep=int(lay["sep"]), final=int(lay["final"]), last=lk,
                mode="preload" if conf["preload"] else "stream", chosen=chosen,
                limit="0" if conf["limit"] == 0 else "n", passes="0" if conf["passes"] == 0 else "n",
                src=(row.get("src") or "tlc").split(":")[0], rep=conf.get("rep") or "absent",
                entries="0" if not any(i["k"] == "E" for i in items) else "n")


def _original_case(case_files, row):
    """the TLC case as exported (macros unexpanded): the driver numbers the cases in input order"""
    if not case_files or (row.get("src") or "") != "tlc":
        return None
    n = row["id"]
    for f in case_files:
        with open(f) as fh:
            for ln in fh:
                if ln.strip():
                    n -= 1
                    if n == 0:
                        return json.loads(ln)
    return None


def validate(v, trace, sig_fn, what, heap="6g", workers=8, timeout=1500, case_files=None):
    """TLC (TraceAmmoFormats) over the recorded cases; every violated line -> v.violation, grouped by
    signature (first example of each signature kept as replay file).  Returns (lines, trace states)."""
    rows = vlib.read_ndjson(trace)
    tr = vlib.tlc("TraceAmmoFormats", "TraceAmmoFormats.cfg", env={"VERIF_TRACE": trace}, cont=True,
                  timeout=timeout, heap=heap, workers=workers)
    if tr.error:
        raise vlib.MachineryError("TraceAmmoFormats failed: %s\n%s" % (tr.kind, tr.out[-3000:]))
    if tr.distinct != len(rows) + 1:
        raise vlib.MachineryError("TraceAmmoFormats visited %d states for %d lines" % (tr.distinct, len(rows)))
    groups = {}
    seen = set()
    for inv, st in tr.all_violations:
        ln = int(st.get("l", "0"))
        if ln < 1 or ln in seen:
            continue
        seen.add(ln)
        row = rows[ln - 1]
        sig = sig_fn(row, inv)
        groups.setdefault(sig, []).append((ln, inv, row))
    for sig, lst in sorted(groups.items()):
        ln, inv, row = lst[0]
        o = row["obs"]
        v.violation(sig, "%s: %d case(s); first: %s -> built=%s delivered %d, ended=%s, Run outcome=%s %s; invariant %s of "
                    "TraceAmmoFormats fails" % (what, len(lst), json.dumps(brief_case(row)), o["built"], len(o["deliv"]),
                                                 o["ended"], o["outcome"], ("(" + o["err"] + ")") if o["err"] else "", inv),
                    replay_obj={"invariant": inv, "case": row, "case_input": _original_case(case_files, row),
                                "cases_with_this_signature": len(lst)},
                    replay_name="case_%s.json" % "".join(ch if ch.isalnum() else "_" for ch in sig)[:120])
    return rows, tr.distinct, len(seen)


def replay_case(path, v, sig_fn, what):
    obj = json.load(open(path))
    case = dict(obj.get("case_input") or obj["case"])
    case.pop("obs", None)
    if not obj.get("case_input") and ":sha256:" in json.dumps(case["items"]):
        print("case with long strings/bodies recorded as digests: re-run the check with the same VERIF_SEED (%s)" % case.get("src"))
        return None
    d = vlib.scratch()
    cf = os.path.join(d, "case.ndjson")
    vlib.write_ndjson(cf, [case])
    b = vlib.harness_build()
    trace = os.path.join(d, "trace.ndjson")
    vlib.run_driver(b, ["ammofmt", "-in", cf, "-out", trace])
    rows, _, bad = validate(v, trace, sig_fn, what)
    print("replayed 1 case: %s" % ("diverges" if bad else "conforms"))
    return None
