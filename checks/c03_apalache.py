"""C03 extra (thorough tier): unbounded evidence for the conservation laws.  spec/PoolCounters.tla (counter
abstraction of the instance loop, N, T, A unconstrained naturals) is checked with Apalache as an inductive invariant:
Init => IndInv, IndInv /\\ Next => IndInv', IndInv => Accounting, plus a negative control (token conservation alone
must NOT imply Accounting).  A missing / stalling tool is a note in the evidence, never a verdict; a refuted
obligation is a defect of the model (machinery failure)."""
import os
import shutil
import subprocess
import time
import vlib

OBLIGATIONS = [
    ("init_implies_inv", ["--init=Init", "--inv=IndInv", "--length=0"], True),
    ("inv_is_inductive", ["--init=IndInit", "--inv=IndInv", "--length=1"], True),
    ("inv_implies_accounting", ["--init=IndInit", "--inv=Accounting", "--length=0"], True),
    ("negative_control_weak_inv_implies_accounting", ["--init=IndInitWeak", "--inv=Accounting", "--length=0"], False),
]


def run():
    exe = shutil.which("apalache-mc")
    if not exe:
        return {"apalache": "not installed: skipped"}
    d = vlib.scratch("verif-apa-")
    shutil.copyfile(os.path.join(vlib.SPEC, "PoolCounters.tla"), os.path.join(d, "PoolCounters.tla"))
    out = {}
    t0 = time.time()
    for name, args, must_hold in OBLIGATIONS:
        try:
            p = subprocess.run(["timeout", "300", exe, "check", "--cinit=CInit"] + args + ["PoolCounters.tla"], cwd=d,
                               stdout=subprocess.PIPE, stderr=subprocess.STDOUT, text=True, timeout=330)
        except subprocess.TimeoutExpired:
            out[name] = "tool timeout (no result)"
            continue
        if "The outcome is: NoError" in p.stdout:
            res = "holds"
        elif "The outcome is: Error" in p.stdout and p.returncode == 12:
            res = "counterexample"
        else:
            out[name] = "tool failure rc=%s (no result)" % p.returncode
            continue
        out[name] = res
        if must_hold and res == "counterexample":
            raise vlib.MachineryError("Apalache refutes %s of PoolCounters.tla: the abstraction or its invariant is wrong\n%s"
                                      % (name, p.stdout[-2000:]))
        if not must_hold and res == "holds":
            raise vlib.MachineryError("Apalache negative control %s found no counterexample: the obligation is vacuous" % name)
    out["seconds"] = round(time.time() - t0, 1)
    # the same module on small constants with TLC (both tools exercise the abstraction)
    r = vlib.tlc("PoolCounters", "PoolCounters_tlc.cfg", workers=2, timeout=300, deadlock=False)
    vlib.tlc_must_pass(r, "PoolCounters_tlc.cfg")
    out["tlc_states_small_constants"] = r.distinct
    return {"apalache_inductive_invariant": out}
