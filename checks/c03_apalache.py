"""C03 extra (thorough tier): unbounded evidence for the conservation laws.  spec/PoolCounters.tla (counter
abstraction of the instance loop with one SHARED profile, incl. discard_overflow; N, T, A unconstrained naturals) and
spec/PoolCountersPI.tla (PER-INSTANCE profiles, incl. discard_overflow; N, TT = created x tokens, A unconstrained) are
each checked with Apalache as an inductive invariant:
Init => IndInv, IndInv /\\ Next => IndInv', IndInv => Accounting, plus a negative control (token conservation alone
must NOT imply Accounting).  A missing / stalling tool is a note in the evidence, never a verdict; a refuted
obligation is a defect of the model (machinery failure)."""
import os
import shutil
import subprocess
import time
import vlib

OBLIGATIONS = [
    ("init_implies_inv", ["--init=Init", "--inv=IndInv", "--length=0"], True),
    ("inv_is_inductive", ["--init=IndInit", "--inv=IndInv", "--length=1"], True),
    ("inv_implies_accounting", ["--init=IndInit", "--inv=Accounting", "--length=0"], True),
    ("negative_control_weak_inv_implies_accounting", ["--init=IndInitWeak", "--inv=Accounting", "--length=0"], False),
]


MODULES = [  # (module, TLC config with small constants, key in the evidence)
    ("PoolCounters", "PoolCounters_tlc.cfg", "apalache_inductive_invariant"),
    ("PoolCountersPI", "PoolCountersPI_tlc.cfg", "apalache_inductive_invariant_per_instance_profiles"),
]


def run():
    exe = shutil.which("apalache-mc")
    if not exe:
        return {"apalache": "not installed: skipped"}
    from concurrent.futures import ThreadPoolExecutor
    with ThreadPoolExecutor(max_workers=2) as ex:
        res = list(ex.map(lambda m: run_module(exe, *m), MODULES))
    out = {}
    for r in res:
        out.update(r)
    return out


def run_module(exe, module, tlc_cfg, key):
    d = vlib.scratch("verif-apa-")
    shutil.copyfile(os.path.join(vlib.SPEC, module + ".tla"), os.path.join(d, module + ".tla"))
    out = {}
    t0 = time.time()
    for name, args, must_hold in OBLIGATIONS:
        try:
            p = subprocess.run(["timeout", "300", exe, "check", "--cinit=CInit"] + args + [module + ".tla"], cwd=d,
                               stdout=subprocess.PIPE, stderr=subprocess.STDOUT, text=True, timeout=330)
        except subprocess.TimeoutExpired:
            out[name] = "tool timeout (no result)"
            continue
        if "The outcome is: NoError" in p.stdout:
            res = "holds"
        elif "The outcome is: Error" in p.stdout and p.returncode == 12:
            res = "counterexample"
        else:
            out[name] = "tool failure rc=%s (no result)" % p.returncode
            continue
        out[name] = res
        if must_hold and res == "counterexample":
            raise vlib.MachineryError("Apalache refutes %s of %s.tla: the abstraction or its invariant is wrong\n%s"
                                      % (name, module, p.stdout[-2000:]))
        if not must_hold and res == "holds":
            raise vlib.MachineryError("Apalache negative control %s of %s.tla found no counterexample: the obligation is vacuous"
                                      % (name, module))
    out["seconds"] = round(time.time() - t0, 1)
    # the same module on small constants with TLC (both tools exercise the abstraction)
    r = vlib.tlc(module, tlc_cfg, workers=2, timeout=300, deadlock=False)
    vlib.tlc_must_pass(r, tlc_cfg)
    out["tlc_states_small_constants"] = r.distinct
    return {key: out}
