"""C18 — plugin registry: every constructor shape yields rightly configured components.

TLC design level : PluginRegistry.tla — Registry.New / NewFactory + the pluginconfig hooks as a small state
                   machine (decode the holder, call the factory 1..3 (thorough: 1..4) times, the driver mutating the previous
                   product's config in between; the USER'S MAP is state), checked for the complete space of
                   constructor shapes x requested forms x injected failures x nested plugin x map shape;
                   four negative controls must produce counterexamples.
Overlapping calls : PluginRegistryConc.tla (decode / construct steps of concurrent calls of one factory, all interleavings; negative
                   control: the config variable shared by the calls); the factory cases run by 4 goroutines in a -race build,
                   TracePluginRegistryConc.tla checks own-config / one-config per call and that no data race was reported.
M2 (spec->code)  : TLC writes the complete case space; `vdrive plugreg` executes every case on the real registry
                   (constructors of each shape made with reflect) and records what happened;
                   TracePluginRegistry.tla loads each observed run into the model's variables, evaluates the
                   property invariants on it and demands the exact observable the model computes.
"""
import json
import os
import vlib

PID = "C18"

MANIFEST = dict(
    category="model_checking",
    technique="TLA+ spec PluginRegistry (registry + config hooks as a state machine over constructor shapes, requested forms, call "
              "sequences and the user's map) model-checked exhaustively; the complete TLC-generated case space executed on the real "
              "registry with reflect-made constructors and validated by TLC (TracePluginRegistry)",
    design_ref="DESIGN.md §4 C18",
    text=("PluginRegistry.tla models what decoding a plugin-typed field does (pluginconfig.Hook/FactoryHook, Registry.New/NewFactory, "
          "defaultConfigContainer.Get, pluginConstructor/factoryConstructor) and each later call of the returned factory, including the "
          "state of the user's map that parseConf handles. The property is stated independently as invariants over observables: config seen "
          "by each product = defaults overlaid by user settings; no failure unless injected (also for the 2nd/3rd product); an injected "
          "constructor/config/product error reaches the caller where it strikes; panic carrying the error only when the requested factory type "
          "has no error result; component constructors get a fresh, freshly decoded config per product; factory constructors decode once and "
          "the registered factory runs once per product. TLC checks them on every step for the full cross product (10 838 cases) and four "
          "negative controls fail. Every case is then executed on the real code (fresh registry per case, constructors generated with reflect, "
          "both map shapes, nested plugin / list->composite, product config mutated between calls, plus the real `rps` list/composite entries) "
          "and TLC validates each observed run against the invariants and the model's exact observable. This is the right level: the statement "
          "is a cross product over registration shapes and call histories, which the unit tests only sample on the first product."),
    note=("How a constructor gets into the registry is a dimension: Registry.Register or each helper of core/register (RegisterPtr, Provider, "
          "Limiter, Gun, Aggregator, DataSource, DataSink) called for real with constructors of every shape, with and without default-config "
          "func (negative control: a helper that drops the default func). "
          "Exhaustive over the stated finite space (calls <= 3, thorough 4; one nested level incl. a plugin list of length 0, one config layout). "
          "The registry as an object (PluginRegistryApi.tla): sequences of Register operations - duplicates, the same name under another type, "
          "37 constructor type descriptors incl. variadic / pointer-vs-value receiver / malformed ones, 9 default-config arguments - with Lookup, "
          "LookupFactory, New, NewFactory probed after every operation on a fresh real registry (2 430 cases quick, 4 158 thorough, five negative "
          "controls). Concurrent Register is not covered. Trusted: the recording drivers (harness/cmd/vdrive/plugreg*.go), TLC."),
)

INVS = ["IsCase", "Conforms", "PConfigRight", "PNoSpuriousFailure", "PFailureReaches", "PPanicRule",
        "PFreshPerProduct", "POncePerFactory"]
NEGS = ["PluginRegistry_neg_typeonly.cfg", "PluginRegistry_neg_mapcopy.cfg", "PluginRegistry_neg_cache.cfg", "PluginRegistry_neg_nodefault.cfg",
        "PluginRegistry_neg_panic.cfg", "PluginRegistry_neg_helperdrops.cfg"]


def case_sig(c):
    return ("reg=%s ret=%s cfg=%s cerr=%s ferr=%s dflt=%s form=%s fail=%s nested=%s shape=%s calls=%s mutate=%s" % (
        c["reg"], c["ret"], c["cfg"], int(c["cerr"]), int(c["ferr"]), int(c["dflt"]), c["form"], c["fail"], c["nested"],
        c["shape"], "1" if c["calls"] == 1 else ">=2", int(c["mutate"])) +
            ("" if (c.get("user", "set"), c.get("dv", "valid")) == ("set", "valid") else " user=%s defaults=%s" % (c["user"], c["dv"])) +
            ("" if c.get("how", "Register") == "Register" else " registered-through=register.%s" % c["how"]))


def validate(v, obs_path, rows, workers=8):
    # pass 1 stops at the first rejected line (the normal, green case visits every line once)
    tr = vlib.tlc("TracePluginRegistry", "TracePluginRegistry.cfg", env={"VERIF_TRACE": obs_path},
                  workers=workers, heap="4g", deadlock=False, timeout=1500)
    if tr.error:
        raise vlib.MachineryError("TracePluginRegistry failed: %s\n%s" % (tr.kind, tr.out[-3000:]))
    if not tr.violation and tr.distinct != len(rows) + 1:
        raise vlib.MachineryError("TracePluginRegistry visited %d states for %d lines" % (tr.distinct, len(rows)))
    if not tr.violation:
        return tr
    # pass 2 (only when something is rejected): every violated invariant of a bounded sample of the lines - a regression
    # typically breaks thousands of cases, and TLC's report of all of them is slow and adds nothing to the verdict
    try:
        first = int(tr.trace_state.get("l", "0"))
    except ValueError:
        first = 0
    step = max(1, len(rows) // 600)
    idx = sorted(set(range(0, len(rows), step)) | ({first - 1} if 1 <= first <= len(rows) else set()))
    all_rows, rows = rows, [rows[i] for i in idx]
    sample = obs_path + ".sample"
    vlib.write_ndjson(sample, rows)
    tr2 = vlib.tlc("TracePluginRegistry", "TracePluginRegistry.cfg", env={"VERIF_TRACE": sample}, cont=True,
                   workers=workers, heap="4g", deadlock=False, timeout=1500)
    if tr2.error or not tr2.all_violations:
        raise vlib.MachineryError("TracePluginRegistry: pass 2 does not reproduce the rejection of line %d\n%s" % (first, tr2.out[-2000:]))
    tr2.distinct = len(all_rows) + 1
    tr = tr2
    seen = {}
    for inv, st in tr.all_violations:
        try:
            ln = int(st.get("l", "0"))
        except ValueError:
            ln = 0
        if ln < 1 or ln > len(rows):
            continue
        row = rows[ln - 1]
        sig = "%s inv=%s" % (case_sig(row["c"]), inv)
        if sig in seen:
            continue
        seen[sig] = True
        v.violation(sig, "real registry diverges from PluginRegistry.tla on case %s: observed %s (invariant %s of TracePluginRegistry)" % (
            json.dumps(row["c"], sort_keys=True), json.dumps(row["obs"], sort_keys=True), inv),
            replay_obj={"invariant": inv, "line": row}, replay_name="plugreg_%d_%s.json" % (ln, inv))
    return tr


def overlapping(v, cases, d, thorough):
    """Overlapping calls of one factory (core/engine calls NewGun / NewRPSSchedule from many goroutines):
    PluginRegistryConc.tla exhaustively (all interleavings, 3 callers x 2 calls) + negative control; the eligible TLC cases
    executed by G goroutines on the real registry in a race-detector build; TracePluginRegistryConc.tla decides."""
    out = {"states": 0, "transitions": 0}
    for cfg in ("PluginRegistryConc_exh_comp.cfg", "PluginRegistryConc_exh_fact.cfg", "PluginRegistryConc_exh_new.cfg"):
        r = vlib.tlc("PluginRegistryConc", cfg, workers=4, heap="2g", deadlock=False, timeout=600)
        vlib.tlc_must_pass(r, cfg)
        out["states"] += r.distinct
        out["transitions"] += r.generated
    vlib.tlc_must_fail(vlib.tlc("PluginRegistryConc", "PluginRegistryConc_neg_sharedvar.cfg", workers=2, heap="2g", deadlock=False,
                                timeout=600), "PluginRegistryConc_neg_sharedvar")
    vlib.tlc_must_fail(vlib.tlc("PluginRegistryConc", "PluginRegistryConc_neg_sharedentry.cfg", workers=2, heap="2g", deadlock=False,
                                timeout=600), "PluginRegistryConc_neg_sharedentry")
    rb = vlib.harness_build(race=True)
    obs = os.path.join(d, "conc.ndjson")
    g, rounds = (8, 200) if thorough else (4, 40)
    p = vlib.run_driver(rb, ["plugreg", "-mode", "conc", "-in", cases, "-out", obs, "-goroutines", str(g), "-rounds", str(rounds)],
                        timeout=1500, env={"GORACE": "halt_on_error=0 exitcode=0"})
    rows = vlib.read_ndjson(obs)
    if len(rows) < 50:
        raise vlib.MachineryError("only %d overlapping-call cases ran" % len(rows))
    reports = p.stderr.split("WARNING: DATA RACE")[1:]
    first = ""
    if reports:
        first = " | ".join(ln.strip() for ln in reports[0].splitlines() if ln.strip() and ("()" in ln or ".go:" in ln))[:900]
    rows.append({"kind": "race", "n": len(reports), "first": first})
    vlib.write_ndjson(obs, rows)
    tr = vlib.tlc("TracePluginRegistryConc", "TracePluginRegistryConc.cfg", env={"VERIF_TRACE": obs}, cont=True, workers=1, heap="4g",
                  deadlock=False, timeout=1500)
    if tr.error:
        raise vlib.MachineryError("TracePluginRegistryConc failed: %s\n%s" % (tr.kind, tr.out[-3000:]))
    if tr.distinct != len(rows) + 1:
        raise vlib.MachineryError("TracePluginRegistryConc visited %d states for %d lines" % (tr.distinct, len(rows)))
    seen = set()
    for inv, st in tr.all_violations:
        try:
            ln = int(st.get("l", "0"))
        except ValueError:
            continue
        if not 1 <= ln <= len(rows):
            continue
        row = rows[ln - 1]
        if row["kind"] == "race":
            sig = "overlapping-calls inv=NoRace"
            what = ("the race detector reports %d data race(s) between overlapping calls of one factory (state shared between calls); "
                    "first: %s" % (row["n"], row["first"]))
            robj = row
        else:
            c = row["c"]
            wrong = [x for x in row["calls"] if x["got"] != x["dec"]][:5]
            sig = "overlapping-calls ret=%s cfg=%s dflt=%d form=%s inv=%s" % (c["ret"], c["cfg"], int(c["dflt"]), c["form"], inv)
            what = ("overlapping calls of one factory on case %s: %d calls, %d failed, calls whose product holds another call's config: %s "
                    "(invariant %s of TracePluginRegistryConc)" % (json.dumps(c, sort_keys=True), len(row["calls"]), row["bad"], wrong, inv))
            robj = {"kind": "conc", "invariant": inv, "line": {"c": c, "bad": row["bad"], "calls_sample": wrong}}
        if sig in seen:
            continue
        seen.add(sig)
        v.violation(sig, what, replay_obj=robj, replay_name="conc_%d_%s.json" % (ln, inv))
    out.update(new_cases=len([r_ for r_ in rows[:-1] if r_["c"]["form"] == "New"]), cases=len(rows) - 1, calls=sum(len(r_["calls"]) for r_ in rows[:-1]), races_reported=len(reports), goroutines=g, rounds=rounds)
    return out


import threading
_build_lock = threading.Lock()


def build():
    """vlib.harness_build() is not meant to be entered by two threads at once (the second one would build again)."""
    with _build_lock:
        return vlib.harness_build()


API_NEGS = ["PluginRegistryApi_neg_overwrite.cfg", "PluginRegistryApi_neg_keep.cfg", "PluginRegistryApi_neg_nonatomic.cfg",
            "PluginRegistryApi_neg_variadic.cfg", "PluginRegistryApi_neg_ptrrecv.cfg"]
API_INVS = ["IsCase", "TPanicRule", "TNewRule", "TNewFactoryRule", "TLookupRule", "TLookupFactoryRule", "Conforms"]


def op_text(op):
    """func(Conf, ...int) (T1, error) - the Go type of a constructor descriptor, for messages and signatures."""
    c = op["c"]

    def params(ins, variadic):
        ps = list(ins)
        if variadic and ps:
            ps[-1] = "..." + ps[-1]
        return ", ".join(ps)

    def results(outs):
        return "" if not outs else (" " + outs[0] if len(outs) == 1 else " (" + ", ".join(outs) + ")")
    if not c["isfunc"]:
        ct = "<not a func>"
    elif c["noout"]:
        ct = "func(%s)" % params(c["ins"], c["variadic"])
    elif c["fact"]:
        ct = "func(%s)%s" % (params(c["ins"], c["variadic"]),
                             results(["func(%s)%s" % (params(c["fins"], c["fvariadic"]), results(c["fouts"]))] + c["rest"]))
    else:
        ct = "func(%s)%s" % (params(c["ins"], c["variadic"]), results([c["prod"]] + c["rest"]))
    d = op["d"]
    dt = {"none": "", "nil": " default=nil", "value": " default=<a value>", "two": " default=<two arguments>"}.get(
        d["k"], " default=func(%s) %s" % (params(d["ins"], d["variadic"]), d["out"]))
    return "Register(%s, %r, %s%s)" % (op["t"], op["n"], ct, dt)


def registry_api(v, d, thorough=False):
    """The registry as an object (PluginRegistryApi.tla): sequences of Register operations - re-registration, duplicate names,
    malformed constructors / default-config arguments of every kind, the same name under another plugin type - and after every
    operation every probe (Lookup, LookupFactory, New, NewFactory).  Design level + 5 negative controls; every TLC-generated
    sequence executed on a fresh real registry; TracePluginRegistryApi decides after every operation."""
    import threading
    out = {"states": 0, "transitions": 0}
    res = {}

    def job(name, cfg):
        res[name] = vlib.tlc("PluginRegistryApi", cfg, workers=2, heap="2g", deadlock=False, timeout=900)
    sfx = "3" if thorough else ""        # thorough: sequences of three operations as well
    ths = [threading.Thread(target=job, args=(n, n)) for n in API_NEGS + ["PluginRegistryApi_exh%s.cfg" % sfx]]
    for t in ths:
        t.start()
    cases, probes, obs = (os.path.join(d, n) for n in ("api_cases.ndjson", "api_probes.ndjson", "api_obs.ndjson"))
    g = vlib.tlc("PluginRegistryApiMC", "PluginRegistryApi_gen%s.cfg" % sfx, workers=1, heap="2g", deadlock=False, timeout=600,
                 env={"VERIF_OUT": cases, "VERIF_OUT_PROBES": probes})
    if g.error or g.violation or not os.path.exists(cases) or not os.path.exists(probes):
        raise vlib.MachineryError("PluginRegistryApi case generation failed\n%s" % g.out[-3000:])
    gen = vlib.read_ndjson(cases)
    if len(gen) < 1000:
        raise vlib.MachineryError("only %d registry cases generated" % len(gen))
    b = build()
    vlib.run_driver(b, ["plugreg", "-mode", "api", "-in", cases, "-probes", probes, "-out", obs], timeout=900)
    rows = vlib.read_ndjson(obs)
    if len(rows) != len(gen) or any(r_["c"] != g_ or len(r_["steps"]) != len(g_["ops"]) + 1 for r_, g_ in zip(rows, gen)):
        raise vlib.MachineryError("plugreg -mode api answered %d of %d cases / cases altered" % (len(rows), len(gen)))
    nstates = sum(len(r_["steps"]) for r_ in rows)
    tr = vlib.tlc("TracePluginRegistryApi", "TracePluginRegistryApi.cfg", env={"VERIF_TRACE": obs}, cont=True, workers=8, heap="4g",
                  deadlock=False, timeout=1500)
    if tr.error:
        raise vlib.MachineryError("TracePluginRegistryApi failed: %s\n%s" % (tr.kind, tr.out[-3000:]))
    if tr.distinct != nstates + 1:
        raise vlib.MachineryError("TracePluginRegistryApi visited %d states for %d recorded steps" % (tr.distinct, nstates))
    seen = set()
    for inv, st in tr.all_violations:
        try:
            ln, j = int(st.get("l", "0")), int(st.get("j", "0"))
        except ValueError:
            continue
        if not 1 <= ln <= len(rows) or j > len(rows[ln - 1]["c"]["ops"]):
            continue
        ops = rows[ln - 1]["c"]["ops"]
        step = rows[ln - 1]["steps"][j]
        last = op_text(ops[j - 1]) if j else "<empty registry>"
        before = "; ".join("%s -> %s" % (op_text(o), rows[ln - 1]["steps"][i + 1]["out"]) for i, o in enumerate(ops[:max(j - 1, 0)]))
        sig = "registry-api inv=%s after=%s%s" % (inv, last, (" earlier=" + "|".join(op_text(o) for o in ops[:j - 1])) if j > 1 else "")
        if sig in seen:
            continue
        seen.add(sig)
        v.violation(sig, "after %s -> %s%s the real registry answers lookup=%s lookupf=%s new=%s newf=%s; violates %s of "
                    "TracePluginRegistryApi" % (last, step["out"], (" (earlier: %s)" % before) if before else "",
                                                 json.dumps(step["pr"]["lookup"]), json.dumps(step["pr"]["lookupf"]),
                                                 json.dumps([[x["out"] + (":%d" % x["id"] if x["id"] else "") for x in r_] for r_ in step["pr"]["new"]]),
                                                 json.dumps([[x["out"] + (":%d" % x["id"] if x["id"] else "") for x in r_] for r_ in step["pr"]["newf"]]),
                                                 inv),
                    replay_obj={"kind": "api", "invariant": inv, "case": rows[ln - 1]["c"], "step": j, "observed": step},
                    replay_name="api_%d_%d_%s.json" % (ln, j, inv))
    for t in ths:
        t.join()
    r = res["PluginRegistryApi_exh%s.cfg" % sfx]
    vlib.tlc_must_pass(r, "PluginRegistryApi_exh")
    out["states"], out["transitions"] = r.distinct, r.generated
    for n in API_NEGS:
        vlib.tlc_must_fail(res[n], n)
    out.update(cases=len(rows), steps=nstates, trace_states=tr.distinct,
               accepted_registrations=sum(1 for r_ in rows for s_ in r_["steps"][1:] if s_["out"] == "ok"),
               rejected_registrations=sum(1 for r_ in rows for s_ in r_["steps"][1:] if s_["out"] == "panic"),
               sample={"ops": [op_text(o) for o in rows[len(rows) // 2]["c"]["ops"]],
                       "outcomes": [s_["out"] for s_ in rows[len(rows) // 2]["steps"][1:]]})
    return out


def run(tier, v):
    thorough = tier == "thorough"
    states = trans = 0
    sfx = "4" if thorough else ""     # thorough: factories are called up to 4 times
    r = vlib.tlc("PluginRegistryMC", "PluginRegistry_exh%s.cfg" % sfx, workers=8, heap="4g", deadlock=False, timeout=900,
                 coverage=False)
    vlib.tlc_must_pass(r, "PluginRegistry_exh")
    states += r.distinct
    trans += r.generated
    import threading
    vlib.spec_copy()
    negres = {}

    def run_neg(n):
        negres[n] = vlib.tlc("PluginRegistryMC", n, workers=2, heap="2g", deadlock=False, timeout=600)
    negths = [threading.Thread(target=run_neg, args=(n,)) for n in NEGS]     # negative controls run beside the case generation / driver
    for t in negths:
        t.start()
    d = vlib.scratch()
    api = {}

    def api_job():
        try:
            api["out"] = registry_api(v, d, thorough)
        except BaseException as ex:      # re-raised in the main thread
            api["exc"] = ex
    api_thread = threading.Thread(target=api_job)
    api_thread.start()
    cases = os.path.join(d, "cases.ndjson")
    g = vlib.tlc("PluginRegistryMC", "PluginRegistry_gen%s.cfg" % sfx, workers=1, heap="2g", deadlock=False, timeout=600,
                 env={"VERIF_OUT": cases})
    if g.error or g.violation or not os.path.exists(cases):
        raise vlib.MachineryError("case generation failed\n%s" % g.out[-3000:])
    gen = vlib.read_ndjson(cases)
    if len(gen) < 1000:
        raise vlib.MachineryError("only %d cases generated" % len(gen))
    b = build()
    obs = os.path.join(d, "obs.ndjson")
    vlib.run_driver(b, ["plugreg", "-in", cases, "-out", obs], timeout=900)
    rows = vlib.read_ndjson(obs)
    if len(rows) != len(gen) or any(r_["c"] != g_ for r_, g_ in zip(rows, gen)):
        raise vlib.MachineryError("driver answered %d of %d cases / cases altered" % (len(rows), len(gen)))
    tr = validate(v, obs, rows)
    for t in negths:
        t.join()
    for neg in NEGS:
        if neg not in negres:
            raise vlib.MachineryError("negative control %s did not run" % neg)
        vlib.tlc_must_fail(negres[neg], neg)
    conc = overlapping(v, cases, d, thorough)
    states += conc["states"]
    trans += conc["transitions"]
    api_thread.join()
    if "exc" in api:
        raise api["exc"]
    states += api["out"]["states"]
    trans += api["out"]["transitions"]
    nontrivial = len({json.dumps(r_["obs"], sort_keys=True) + case_sig(r_["c"]) for r_ in rows})
    real = [r_ for r_ in rows if r_["c"]["reg"] == "real"]
    samples = [{"case": r_["c"], "observed": r_["obs"]} for r_ in (rows[7::1733][:4] + real[-2:])]
    cov = {
        "states": states, "transitions": trans,
        "traces_validated_against_impl": len(rows),
        "samples": samples,
        "exhaustive": True, "evaluations": len(rows), "distinct_nontrivial": nontrivial,
        "rule": "every valid combination of constructor shape x requested form x injected failure/position x calls 1..MaxCalls x nested plugin x "
                "map shape x mutation (as defined by Valid in PluginRegistry.tla) is one case; distinct = distinct (case class, observable)",
        "real_registry_cases": len(real),
        "overlapping_calls": {k: conc[k] for k in ("cases", "new_cases", "calls", "races_reported", "goroutines", "rounds")},
        "trace_spec_states": tr.distinct,
        "registry_api": {k: api["out"][k] for k in ("cases", "steps", "trace_states", "accepted_registrations", "rejected_registrations", "sample")},
        "negative_controls": [n[len("PluginRegistry_neg_"):-4] for n in NEGS] + ["api_" + n[len("PluginRegistryApi_neg_"):-4] for n in API_NEGS],
        "invariants_on_observed_runs": INVS + ["api:" + i for i in API_INVS],
    }
    return "model_checking", cov, [
        "finite case space: calls <= %d," % (4 if thorough else 3) + " one nested plugin level, config layout {A int, B string, C text-unmarshaler, S core.Schedule}",
        "decode count observed through a TextUnmarshaler field, config identity through the pointer value (products kept alive)",
        "trusted: the recording driver (harness/cmd/vdrive/plugreg.go), TLC"]


def replay(path, v):
    obj = json.load(open(path))
    d = vlib.scratch()
    if obj.get("kind") == "api":
        registry_api(v, d)
        return None
    if obj.get("kind") in ("conc", "race"):
        cases = os.path.join(d, "cases.ndjson")
        g = vlib.tlc("PluginRegistryMC", "PluginRegistry_gen.cfg", workers=1, heap="2g", deadlock=False, timeout=600, env={"VERIF_OUT": cases})
        if g.error or not os.path.exists(cases):
            raise vlib.MachineryError("case generation failed")
        overlapping(v, cases, d, False)
        return None
    cases = os.path.join(d, "cases.ndjson")
    vlib.write_ndjson(cases, [obj["line"]["c"]])
    b = vlib.harness_build()
    obs = os.path.join(d, "obs.ndjson")
    vlib.run_driver(b, ["plugreg", "-in", cases, "-out", obs])
    rows = vlib.read_ndjson(obs)
    print("observed now: %s" % json.dumps(rows[0]["obs"], sort_keys=True))
    validate(v, obs, rows, workers=1)
    return None
