"""Shared machinery of C03 (engine shot accounting) and C12 (instance startup profile): both are
decided with spec/Pool.tla, the driver `vdrive pool` and spec/TracePool.tla.

  design(...)       TLC exhaustive on PoolMC with a configuration family; the same run exports, for every
                    configuration, the set of outcomes (instances created, shots, items acquired) that
                    the specification can reach (M2 case table computed by TLC)
  negatives(...)    negative-control configs, each MUST produce a counterexample
  traces(...)       M1: real engine runs (seeded random configurations) -> TracePool.tla
  cases(...)        M2: the TLC-generated configurations executed on the real engine; every recorded run
                    goes through TracePool.tla AND its outcome must be one TLC computed for that configuration
"""
import concurrent.futures
import json
import os
import shutil
import uuid
import vlib



def tlc_trace(path, timeout=3000, heap="6g"):
    """TracePool.tla over one trace file.  A TLC process that dies without a result (killed from outside, the
    machine is shared) is started once more; a second failure is reported as machinery failure by the caller."""
    # vlib.tlc copies the config next to the spec under a name made of module, pid and config name and removes
    # it afterwards; trace validations run side by side in this process, so each gets a config name of its own
    sc = vlib.spec_copy()
    name = "TracePool_%s.cfg" % uuid.uuid4().hex[:10]
    shutil.copyfile(os.path.join(sc, "cfg", "TracePool.cfg"), os.path.join(sc, "cfg", name))
    for attempt in (0, 1):
        tr = vlib.tlc("TracePool", name, env={"VERIF_TRACE": path, "VERIF_SEED": vlib.seed()}, workers=1,
                      deadlock=False, timeout=timeout, heap=heap)
        if not tr.error or tr.kind == "timeout":
            break
        errs = [ln for ln in tr.out.splitlines() if "rror" in ln or "xception" in ln][:4]
        vlib.log("TracePool run failed (%s rc=%s: %s), %s" % (tr.kind, tr.rc, " | ".join(errs)[:400],
                                                           "retrying" if attempt == 0 else "giving up"))
    return tr


def outcomes_of(r):
    """The VERIF lines printed by PoolMC!Export: {config key: set of (created, shots, acquired)}."""
    table = {}
    for ln in r.out.splitlines():
        if ln.startswith('<<"VERIF", "'):
            o = json.loads(json.loads(ln[len('<<"VERIF", '):-2]))
            key = cfg_key(o)
            table.setdefault(key, {"cfg": {k: o[k] for k in ("startup", "n", "t", "tmin", "a", "per", "discard")},
                                   "expected": set(), "outs": set()})
            table[key]["outs"].add((o["created"], o["shots"], o["acquired"]))
    return table


def cfg_key(o):
    return json.dumps([o["startup"], o["t"], o["tmin"], o["a"], o["per"], o["discard"]])


def design(cfg, workers=8, timeout=1500, heap="6g"):
    r = vlib.tlc("PoolMC", cfg, workers=workers, timeout=timeout, heap=heap)
    vlib.tlc_must_pass(r, cfg)
    table = outcomes_of(r)
    if not table:
        raise vlib.MachineryError("%s exported no outcome table" % cfg)
    return r, table


def negatives_start(names):
    """Negative controls run in the background while the exhaustive run is busy; join with negatives_join."""
    vlib.spec_copy()

    def one(n):
        return n, vlib.tlc("PoolMC", "Pool_neg_%s.cfg" % n, workers=2, timeout=900, heap="3g")
    ex = concurrent.futures.ThreadPoolExecutor(max_workers=3)
    return ex, [ex.submit(one, n) for n in names]


def negatives_join(h):
    ex, futs = h
    names = []
    for f in futs:
        n, r = f.result()
        vlib.tlc_must_fail(r, "Pool_neg_" + n)
        names.append(n)
    ex.shutdown()
    return names


def groups(d):
    """C12: the complete small space of groupings (composites nested in a startup profile, token-less items
    trailing / leading / inside) enumerated by TLC on StartupGroups.tla, with the design-level statement
    HoldHonoured; the negative control (a group is over with its last token) MUST fail.  Returns the TLC result
    and the path of the exported profiles (one {desc, tokens} per line)."""
    r = vlib.tlc("StartupGroups", "StartupGroups_exh.cfg", workers=2, timeout=600, heap="2g", deadlock=False)
    vlib.tlc_must_pass(r, "StartupGroups_exh.cfg")
    neg = vlib.tlc("StartupGroups", "StartupGroups_neg_droptail.cfg", workers=1, timeout=600, heap="2g", deadlock=False)
    vlib.tlc_must_fail(neg, "StartupGroups_neg_droptail")
    seen, rows = set(), []
    for ln in r.out.splitlines():
        if ln.startswith('<<"VERIF", "'):
            txt = json.loads(ln[len('<<"VERIF", '):-2])
            if txt not in seen:
                seen.add(txt)
                rows.append(json.loads(txt))
    if len(rows) != r.distinct or not rows:
        raise vlib.MachineryError("StartupGroups exported %d profiles for %d states" % (len(rows), r.distinct))
    path = os.path.join(d, "startup_groups.ndjson")
    vlib.write_ndjson(path, rows)
    return r, path


def both(v, pid, b, d, table, rep, focus, runs, enum=None, hot=0, groups_path=None):
    """M2 cases and M1 random traces: drivers one after the other (they time real runs), TLC validations and the
    binding self-test side by side."""
    keys = sorted(table)
    cpath = os.path.join(d, "%s_cases.ndjson" % pid)
    vlib.write_ndjson(cpath, [table[k]["cfg"] for k in keys])
    p1 = os.path.join(d, "%s_cases_out.ndjson" % pid)
    vlib.run_driver(b, ["pool", "-out", p1, "-cases", cpath, "-rep", str(rep)], timeout=3000)
    p2 = os.path.join(d, "%s_traces_out.ndjson" % pid)
    vlib.run_driver(b, ["pool", "-out", p2, "-runs", str(runs), "-focus", focus, "-hot", str(hot)], timeout=3000)
    rows_c, rows_t = vlib.read_ndjson(p1), vlib.read_ndjson(p2)
    if enum:
        # complete small parameter space of the startup constructors (driver: plEnumStartupConfs)
        p3 = os.path.join(d, "%s_enum_out.ndjson" % pid)
        vlib.run_driver(b, ["pool", "-out", p3, "-focus", enum], timeout=3000)
        rows_e = vlib.read_ndjson(p3)
        for r in rows_e:
            r["run"] += 1000000
        rows_t = rows_t + rows_e
    if groups_path:
        # TLC's enumeration of nested startup profiles (StartupGroups.tla), rendered and run by the driver
        p4 = os.path.join(d, "%s_groups_out.ndjson" % pid)
        vlib.run_driver(b, ["pool", "-out", p4, "-groups", groups_path], timeout=3000)
        rows_g = vlib.read_ndjson(p4)
        for r in rows_g:
            r["run"] += 3000000
        rows_t = rows_t + rows_g
    tag = pid.lower()
    with concurrent.futures.ThreadPoolExecutor(max_workers=3) as ex:
        f1 = ex.submit(validate_parallel, v, pid, rows_c, d, tag + "_cases")
        f2 = ex.submit(validate_parallel, v, pid, rows_t, d, tag + "_traces")
        f3 = ex.submit(binding_selftest, rows_t, d)
        val_c, st_c = f1.result()
        val_t, st_t = f2.result()
        corrupted = f3.result()
    cstat = outcome_check(v, pid, rows_c, table, keys, tag + "_cases")
    return rows_c, rows_t, val_c + val_t, st_c + st_t, cstat, corrupted


def _run_rows(rows):
    by = {}
    for r in rows:
        by.setdefault(r["run"], []).append(r)
    return by


def validate(v, pid, rows, d, tag):
    """TracePool.tla over the recorded runs; a rejected run is reported and dropped, the rest continues."""
    validated, states = 0, 0
    for attempt in range(8):
        if not rows:
            break
        p = os.path.join(d, "%s_%d.ndjson" % (tag, attempt))
        write_rows(p, rows)
        tr = tlc_trace(p)
        if tr.error:
            raise vlib.MachineryError("TracePool failed: %s\n%s" % (tr.kind, tr.out[-3000:]))
        states += tr.distinct
        runs = sorted({r["run"] for r in rows})
        if not tr.violation:
            validated += len(runs)
            break
        ln = int(tr.trace_state.get("l", "1"))
        idx = min(max(ln - (1 if tr.what == "Accepted" else 2), 0), len(rows) - 1)
        ev = rows[idx]
        run = ev["run"]
        if ev["ev"] == "hot":       # a high-contention run is one summary entry: it is its own configuration
            conf = dict(ev, per=False, discard=False)
        else:
            conf = next(r for r in rows if r["ev"] == "conf" and r["run"] == run)
        bad = tr.trace_state.get("bad", "").replace(" ", "").replace('"', "")
        what = tr.what
        detail = bad if what == "NoViolation" else (ev["ev"] if what == "Accepted" else "")
        mode = "per-instance" if conf["per"] else "shared"
        if what == "Accepted":
            msg = "the real engine did something Pool.tla does not allow: entry %s is not a step of the specification" % (
                {k: ev.get(k) for k in ("ev", "inst", "item", "n", "k", "sid", "ok") if k in ev},)
        else:
            msg = "recorded run of the real engine violates %s %s after entry %s" % (
                what, bad, {k: ev.get(k) for k in ("ev", "inst", "item", "n", "k", "sid", "ok", "err", "request",
                                                   "response", "inst_start", "inst_finish", "fired", "acquired",
                                                   "released", "created") if k in ev})
        v.violation("pool trace inv=%s %s mode=%s discard=%s" % (what, detail, mode, conf["discard"]),
                    "%s [%s]" % (msg, conf["desc"]),
                    replay_obj={"kind": "trace", "conf": conf, "events": [r for r in rows if r["run"] == run], "at": idx,
                                "invariant": what, "bad": bad},
                    replay_name="%s_run%d.json" % (tag, run))
        validated += len([r for r in runs if r < run])
        rows = [r for r in rows if r["run"] > run]
    return validated, states


def write_rows(path, rows):
    # key order does not matter to TLC; keep the driver's lines compact
    with open(path, "w") as f:
        for r in rows:
            f.write(json.dumps(r, separators=(",", ":")) + "\n")


def validate_parallel(v, pid, rows, d, tag, chunk_lines=60000, par=4):
    """Split at run boundaries into chunks, one TLC each, a few at a time."""
    chunks, cur = [], []
    for run, rr in sorted(_run_rows(rows).items()):
        if cur and len(cur) + len(rr) > chunk_lines:
            chunks.append(cur)
            cur = []
        cur += rr
    if cur:
        chunks.append(cur)
    if len(chunks) <= 1:
        return validate(v, pid, rows, d, tag)
    tot_v = tot_s = 0
    with concurrent.futures.ThreadPoolExecutor(max_workers=par) as ex:
        futs = [ex.submit(validate, v, pid, c, d, "%s_c%d" % (tag, i)) for i, c in enumerate(chunks)]
        for f in futs:
            a, b = f.result()
            tot_v += a
            tot_s += b
    return tot_v, tot_s


def outcome_check(v, pid, rows, table, keys, tag):
    # outcome of every run against the outcomes TLC reached for that configuration (plain membership
    # of one abstract value in a set of abstract values computed by the specification)
    confs = {r["run"]: r for r in rows if r["ev"] == "conf"}
    seen = {}
    evaluations = 0
    for r in rows:
        if r["ev"] != "end":
            continue
        conf = confs[r["run"]]
        key = keys[conf["case"]]
        out = (r["created"], r["shots"], r["acquired"])
        evaluations += 1
        seen.setdefault(key, set()).add(out)
        if table[key]["cfg"]["t"] < 0:
            continue    # unknown length: TLC's outcome set is cut at tmin + UnlExtra tokens; trace validation only
        if r["err"] == "" and out not in table[key]["outs"]:
            c = table[key]["cfg"]
            v.violation("pool case outcome n=%d t=%d a=%d per=%s discard=%s" % (c["n"], c["t"], c["a"], c["per"], c["discard"]),
                        "real engine ended with (created, shots, acquired) = %s; Pool.tla reaches only %s for this "
                        "configuration [%s]" % (out, sorted(table[key]["outs"]), conf["desc"]),
                        replay_obj={"kind": "case", "cfg": c, "allowed": sorted(table[key]["outs"]), "observed": out,
                                    "conf": conf, "events": [x for x in rows if x["run"] == r["run"]]},
                        replay_name="%s_case%d.json" % (tag, conf["case"]))
    known = [k for k in keys if table[k]["cfg"]["t"] >= 0]
    reached = sum(len(seen.get(k, set()) & table[k]["outs"]) for k in known)
    possible = sum(len(table[k]["outs"]) for k in known)
    return {"cases": len(keys), "case_runs": evaluations,
            "spec_outcomes": possible, "spec_outcomes_observed": reached}


def binding_selftest(rows, d):
    """The trace specification has teeth on THIS run's data: three corrupted copies of recorded runs (a Release
    entry dropped; a creation instant moved before its startup token; a Left() answer changed) must each be
    rejected.  Failure here is a failure of the machinery, never a verdict."""
    by = _run_rows(rows)
    muts = []
    for run, rr in sorted(by.items()):
        rels = [i for i, e in enumerate(rr) if e["ev"] == "rel"]
        if rels and not any(m[0] == "drop-release" for m in muts):
            muts.append(("drop-release", rr[:rels[0]] + rr[rels[0] + 1:]))
        late = [i for i, e in enumerate(rr) if e["ev"] == "bind" and e["inst"] >= 1 and len(e["t"]) >= 2]
        if late and not any(m[0] == "early-bind" for m in muts):
            cp = [dict(e) for e in rr]
            cp[late[-1]]["t"] = []
            # only meaningful if that token's instant is after the base instant, which it always is (t > 0)
            muts.append(("early-bind", cp))
        lefts = [i for i, e in enumerate(rr) if e["ev"] == "left" and e["n"] > 0 and rr[0]["t"] >= 0]
        if lefts and not any(m[0] == "left-off-by-one" for m in muts):
            cp = [dict(e) for e in rr]
            cp[lefts[0]]["n"] -= 1 if cp[lefts[0]]["n"] > 1 else -1
            muts.append(("left-off-by-one", cp))
        if len(muts) == 3:
            break
    if len(muts) < 3:
        raise vlib.MachineryError("binding self-test: recorded runs too poor to corrupt (%s)" % [m[0] for m in muts])

    def one(m):
        name, rr = m
        p = os.path.join(d, "selftest_%s.ndjson" % name)
        write_rows(p, rr)
        return name, tlc_trace(p, timeout=600, heap="2g")
    with concurrent.futures.ThreadPoolExecutor(max_workers=3) as ex:
        for name, tr in ex.map(one, muts):
            if tr.error:
                raise vlib.MachineryError("binding self-test: TLC failed on corrupted trace '%s' (%s rc=%s)\n%s"
                                          % (name, tr.kind, tr.rc, tr.out[-2500:]))
            if not tr.violation:
                raise vlib.MachineryError("binding self-test: corrupted trace '%s' was not rejected by TracePool.tla\n%s"
                                          % (name, tr.out[-1500:]))
    return [m[0] for m in muts]


def sample_of(rows, run):
    conf = next(r for r in rows if r["ev"] == "conf" and r["run"] == run)
    evs = [r for r in rows if r["run"] == run and r["ev"] not in ("conf",)]
    end = evs[-1]
    return {"conf": conf["desc"], "n_impl": conf["n_impl"], "t": conf["t"],
            "first_events": [[e["ev"], e.get("inst"), e.get("item"), e.get("n"), e.get("ok")] for e in evs[:10]],
            "end": {k: end.get(k) for k in ("created", "shots", "acquired", "request", "response", "inst_start",
                                             "inst_finish", "err")}}


def replay(path, v, pid):
    obj = json.load(open(path))
    d = vlib.scratch()
    rows = obj["events"]
    if rows and rows[0]["ev"] != "conf":
        rows = [obj["conf"]] + rows
    for r in rows:      # replay files written before the second pool was recorded
        if r["ev"] == "end":
            r.setdefault("twin_ids", [])
            r.setdefault("twin_shots", 0)
    validate(v, pid, rows, d, "replay")
    return None
