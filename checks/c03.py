"""C03 - engine shot accounting: one shot or one discard per token and ammo item.

TLC design level : Pool.tla (provider, starter, instance loop exactly as core/engine/instance.go, shared vs
                   per-instance RPS schedule, discard_overflow, await bookkeeping of a normal end), exhaustive
                   over a configuration family; negative controls (token before ammo, release before the
                   shot, no Left() test, Left() one short, Request counting discards) must each fail.
M1 (code->spec)  : the REAL engine.Engine with logging mocks and REAL schedules, seeded random
                   configurations; TracePool.tla accepts a run only if every recorded entry is the
                   corresponding Pool action, and evaluates every invariant on every step.
M2 (spec->code)  : the configuration family of the exhaustive run and, per configuration, the set of
                   outcomes TLC reached; each configuration is executed on the real engine and must end in
                   one of them (and goes through TracePool.tla as well).
"""
import vlib
import pool_common as pc

PID = "C03"

MANIFEST = dict(
    category="model_checking",
    technique="TLC exhaustive check of the implementation-shaped Pool.tla (instance loop, shared/per-instance "
              "schedules, provider, starter, await bookkeeping) + trace validation of real engine runs by "
              "TracePool.tla + TLC-computed outcome sets per configuration executed on the real engine",
    design_ref="DESIGN.md §4 C03",
    text="Pool.tla transcribes instance.Run (Left()==0/ctx test, Acquire, token draw, Shoot or discarded report, "
         "deferred Release), buildNewInstanceSchedule (one shared schedule with the on-finish callback vs a factory), "
         "startInstances and the await loop of a normal end. TLC checks on every reachable state token conservation, "
         "token-only-with-ammo, item discipline (released exactly once, never used after release), Request/Response "
         "bookkeeping, and at a normal end fired+discarded = min(tokens, ammo), unfired <= instances-1 (shared) / 0 "
         "(per-instance), Request = Response = fired. The binding runs the real engine.Engine with logging mocks of "
         "Provider/Gun/Aggregator and logging wrappers around REAL schedules; TracePool.tla re-uses Pool's actions, so a "
         "run is accepted only if it is a behaviour of the specification, with every invariant evaluated on every "
         "recorded step and the engine Metrics compared at the end. The conservation law quantifies over interleavings "
         "- TLC covers them exhaustively for small pools, the traces cover real pools of 1-8 instances.",
    note="Thorough tier adds, beyond the statement: PoolSched.tla (Pool composed with the composite schedule's RW-lock / "
         "shift / retry steps and the Waiter's due-or-sleep decision, all interleavings of 2 instances, bound to real runs by "
         "TracePoolSched.tla) and an Apalache inductive invariant of the counter abstraction PoolCounters.tla for unbounded "
         "N, T, A. Exhaustive bounds: <= 3 instances, <= 2-3 tokens, ammo 0..T+1 and unbounded, both modes, discard on/off. "
         "Normal operation only (failures and cancellation are C05 / PoolRun.tla). The schedule wrapper serialises "
         "Next()/Left() (their concurrency is C02's subject); whether a token is >= 2 s late is C04's subject "
         "(nondeterministic here). Trusted: the mocks and the log order (one mutex-protected append).",
)

NEGS = ["tokenfirst", "releaseearly", "noleftcheck", "leftshort", "leftshort_unknown", "countdiscard"]


def run(tier, v):
    thorough = tier == "thorough"
    cfgs = ["Pool_exh.cfg"] + (["Pool_exh_large.cfg"] if thorough else [])
    states = trans = 0
    table = {}
    negs = pc.negatives_start(NEGS)
    for cfg in cfgs:
        r, t = pc.design(cfg, workers=8 if not thorough else 12, heap="6g" if not thorough else "16g")
        states += r.distinct
        trans += r.generated
        for k, x in t.items():
            table.setdefault(k, x)["outs"] |= x["outs"]
    pc.negatives_join(negs)
    b = vlib.harness_build()
    d = vlib.scratch()
    rows_c, rows_t, validated, tstates, cstat, corrupted = pc.both(
        v, PID, b, d, table, 3 if thorough else 1, "c03", 5000 if thorough else 300, hot=12 if thorough else 5)
    hots = [r for r in rows_t if r["ev"] == "hot"]
    runs_t = sorted({r["run"] for r in rows_t if r["ev"] != "hot"})
    extra = {}
    if thorough:
        # growth beyond the statement (DESIGN 9.1): Pool x Schedule x Waiter grain, design level + binding
        import c03_sched
        ps_states, ps_trans = c03_sched.design()
        states += ps_states
        trans += ps_trans
        extra = c03_sched.bind(v, b, d, 400)
        extra["poolsched_design_states"] = ps_states
        validated += extra["poolsched_runs_accepted"]
        # unbounded evidence (DESIGN 9.5): Apalache inductive invariant of the counter abstraction
        import c03_apalache
        extra.update(c03_apalache.run())
    cov = {
        "states": states, "transitions": trans,
        "traces_validated_against_impl": validated,
        "trace_events": len(rows_c) + len(rows_t), "trace_states": tstates,
        "random_configurations": len(runs_t),
        "high_contention_runs": len(hots), "high_contention_shots": sum(h["fired"] for h in hots),
        "runs_via_config_decoding": len([r for r in rows_t if r["ev"] == "conf" and "viaconf=true" in r["desc"]]),
        "runs_with_discards": len({r["run"] for r in rows_t if r["ev"] == "discard"}),
        "runs_out_of_ammo": len({r["run"] for r in rows_t if r["ev"] == "acq" and not r["ok"]}),
        "samples": [pc.sample_of(rows_t, x) for x in runs_t[:2]] + [pc.sample_of(rows_c, 0)],
        "corrupted_traces_rejected": corrupted,
        "negative_controls": NEGS, "design_configs": cfgs,
        "exhaustive": False,
    }
    cov.update(cstat)
    cov.update(extra)
    return "model_checking", cov, [
        "exhaustive TLC bounds: <= 3 instances, T <= %d tokens, ammo <= %d or unbounded" % ((3, 7) if thorough else (2, 3)),
        "normal operation only: no component fails, nobody cancels (C05)",
        "the logging schedule wrapper serialises Next()/Left() of the real schedule; token draw atomicity is C02's result",
        "trusted: harness mocks (provider, gun, aggregator, schedule wrapper) and the per-run log order"]


def replay(path, v):
    import json
    obj = json.load(open(path))
    if obj.get("kind") == "poolsched":
        import c03_sched
        c03_sched.validate(v, obj["events"], vlib.scratch(), "replay")
        return None
    return pc.replay(path, v, PID)
