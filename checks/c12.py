"""C12 - instance startup profile: how many instances start, when, and with which ids.

TLC design level : Pool.tla (starter = Waiter over the startup schedule, first instance synchronous, ids from
                   the `started` counter, start context cancelled by the first out-of-ammo result and by the
                   shared RPS schedule's on-finish callback), exhaustive over startup shapes x relative order of
                   the cancel sources and the next startup token; negative controls (starter does not wait for
                   the token instant, start cancelled by any instance end) must fail.
M1 (code->spec)  : REAL engine with REAL startup schedules (once, const, instance_step, composites; 20-60 ms
                   steps); the gun-factory wrapper logs (creation instant, InstanceID), the startup-schedule
                   wrapper every token instant; TracePool.tla: id k needs token k, creation instant >= the
                   token's instant (one-sided, exact: the Waiter never returns early), ids = 0..created-1 distinct,
                   token instants realise the profile (ProfileMath, when the start instant is known), an
                   instance ends only for its own reasons, all tokens become instances unless a cut-short
                   reason was observed.
M2 (spec->code)  : TLC's configuration family + reachable outcome sets executed on the real engine.
"""
import concurrent.futures

import vlib
import pool_common as pc

PID = "C12"

MANIFEST = dict(
    category="model_checking",
    technique="TLC exhaustive check of the starter/cancel-source part of Pool.tla + trace validation of real engine "
              "runs with real startup schedules by TracePool.tla (ProfileMath for the token instants) + TLC-computed "
              "outcome sets per configuration executed on the real engine",
    design_ref="DESIGN.md §4 C12",
    text="Pool.tla's starter transcribes startInstances (Waiter.Wait = context test, Next(), sleep until the token's "
         "instant or cancel; first instance synchronous; id := started) and both sources of instanceStartCancel (first "
         "out-of-ammo result seen by the await loop before the start result; on-finish callback of the shared RPS "
         "schedule). TLC explores every order of these against the next startup token and checks: ids 0,1,2,... in "
         "creation order and distinct, created <= tokens released at the current tick, instances end only because of "
         "their schedule/ammo/context, created = tokens at a normal end unless a cut-short reason was observed. The "
         "binding records real runs: creation instants and ids at Gun.Bind, token instants at the startup schedule; "
         "TracePool.tla demands creation >= token instant exactly (never an upper bound on lateness), checks the "
         "token instants against ProfileMath, and evaluates the end-of-run statements with the observed reasons. "
         "Composites nested in a profile (list in the list / type: composite, token-less items trailing, leading or "
         "inside a group) are logged as configured; StartupMath.tla says what they denote, StartupGroups.tla enumerates "
         "the small space of groupings (HoldHonoured; negative control: a group that ends with its last token) and the "
         "driver runs every one of them on the real engine. A quarter of the enumerated runs have a second pool in the "
         "same engine: ids are numbered per pool (both pools' ids must be 0..count-1).",
    note="Exhaustive bounds: <= 3 startup tokens at ticks 0..2. Creation errors and cancellation are C05's. The "
         "instant at which a cancellation reaches the starter is not observable without hooks, so the trace "
         "specification constrains the starter only through its tokens; the order of cancel sources is covered at "
         "design level. Startup token instants are checked against the profile at 1 us (C01's tolerance).",
)

NEGS = ["earlystart", "cancelonanyend"]
GROUP_NEG = "StartupGroups_neg_droptail"


def run(tier, v):
    thorough = tier == "thorough"
    cfgs = ["Pool_exh_start.cfg"] + (["Pool_exh_large.cfg"] if thorough else [])
    states = trans = 0
    table = {}
    negs = pc.negatives_start(NEGS)
    gd = vlib.scratch()
    gex = concurrent.futures.ThreadPoolExecutor(max_workers=1)
    gfut = gex.submit(pc.groups, gd)        # small (147 states + negative control): alongside the exhaustive run
    for cfg in cfgs:
        r, t = pc.design(cfg, workers=8 if not thorough else 12, heap="6g" if not thorough else "16g")
        states += r.distinct
        trans += r.generated
        for k, x in t.items():
            table.setdefault(k, x)["outs"] |= x["outs"]
    pc.negatives_join(negs)
    b = vlib.harness_build()
    d = vlib.scratch()
    gr, gpath = gfut.result()
    gex.shutdown()
    states += gr.distinct
    trans += gr.generated
    if thorough:
        table = {k: x for k, x in table.items() if len(set(x["cfg"]["startup"])) > 1 or x["cfg"]["n"] == 3}
    rows_c, rows_t, validated, tstates, cstat, corrupted = pc.both(
        v, PID, b, d, table, 3 if thorough else 2, "c12", 2000 if thorough else 150, enum="c12enum", groups_path=gpath)
    runs_t = sorted({r["run"] for r in rows_t})
    ends = [r for r in rows_t if r["ev"] == "end"]
    confs = {r["run"]: r for r in rows_t if r["ev"] == "conf"}
    cov = {
        "states": states, "transitions": trans,
        "traces_validated_against_impl": validated,
        "trace_events": len(rows_c) + len(rows_t), "trace_states": tstates,
        "random_configurations": len([x for x in runs_t if x < 1000000]),
        "enumerated_startup_configurations": len([x for x in runs_t if 1000000 <= x < 3000000]),
        "nested_group_profiles_from_tlc": len([x for x in runs_t if x >= 3000000]),
        "runs_with_a_second_pool": len([c for c in confs.values() if "otherpool=0" not in c["desc"]]),
        "runs_with_nested_composites": len([c for c in confs.values() if any(i["ctor"] == "composite" for i in c["sdesc"])]),
        "runs_via_config_decoding": len([r for r in rows_t if r["ev"] == "conf" and "viaconf=true" in r["desc"]]),
        "runs_start_cut_short": len([e for e in ends if e["created"] < confs[e["run"]]["n_impl"]]),
        "runs_all_tokens_started": len([e for e in ends if e["created"] == confs[e["run"]]["n_impl"]]),
        "instances_created": sum(e["created"] for e in ends),
        "runs_with_known_start_instant": len([c for c in confs.values() if c["explicit"]]),
        "samples": [pc.sample_of(rows_t, x) for x in runs_t[:2]] + [pc.sample_of(rows_c, 0)],
        "corrupted_traces_rejected": corrupted,
        "negative_controls": NEGS + [GROUP_NEG], "design_configs": cfgs + ["StartupGroups_exh.cfg"],
        "exhaustive": False,
    }
    cov.update(cstat)
    return "model_checking", cov, [
        "exhaustive TLC bounds: <= 3 startup tokens at ticks 0..2, T <= 2 (quick) / 3 (thorough)",
        "creation errors and run cancellation are not exercised here (C05)",
        "timing is one-sided: creation instant >= token instant; no upper bound on lateness is asserted",
        "trusted: harness mocks and the per-run log order; goroutine id -> instance id from the gun's Close entry"]


def replay(path, v):
    return pc.replay(path, v, PID)
