"""C02 — schedule token contract (exactly-once tokens, order, chained starts, Left, composites).

TLC design level : Schedule.tla (implementation-shaped composite/doAt/unlimited with RW-lock steps and
                   call stacks), exhaustive for 2 callers x 3 root calls over the tree catalogue,
                   + three negative controls that must produce counterexamples.
M2 (spec->code)  : TLC -simulate behaviours are replayed step by step through the REAL compositeSchedule
                   under the `verif` yield hooks; TraceSchedule.tla validates what was observed.
M1 (code->spec)  : free-running goroutines hammer real trees; TraceSchedStress.tla checks the recorded
                   call/return history against the sequential contract (linearisation intervals).
"""
import json
import os
import time
import vlib

PID = "C02"


def behaviours(r):
    out = []
    for ln in r.out.splitlines():
        if ln.startswith('<<"VERIF", "'):
            out.append(json.loads(json.loads(ln[len('<<"VERIF", '):-2])))
    return out


def tree_sig(t):
    def go(n):
        k = t["kind"][n - 1]
        if k == "comp":
            return "[" + ",".join(go(c) for c in t["kids"][n - 1]) + "]"
        if k == "unl":
            return "unl"
        return "doat%d" % len(t["toks"][n - 1])
    return go(1)


def validate_replays(v, obs_path, behs, cfg="TraceSchedule.cfg"):
    """TLC over the observed steps; on a rejection drop that behaviour and continue with the rest."""
    rows = vlib.read_ndjson(obs_path)
    d = os.path.dirname(obs_path)
    validated, states = 0, 0
    for attempt in range(6):
        if not rows:
            break
        p = os.path.join(d, "obs_%d.ndjson" % attempt)
        vlib.write_ndjson(p, rows)
        tr = vlib.tlc("TraceSchedule", cfg, env={"VERIF_TRACE": p}, workers=1, deadlock=False, timeout=1200)
        if tr.error:
            raise vlib.MachineryError("TraceSchedule failed: %s\n%s" % (tr.kind, tr.out[-3000:]))
        states += tr.distinct
        if not tr.violation:
            validated += len({r_["b"] for r_ in rows})
            break
        ln = int(tr.trace_state.get("l", "0"))
        # the invariant failed in the state reached AFTER consuming line ln-1 (Accepted: line ln cannot be taken)
        bad_line = rows[min(ln, len(rows)) - 1] if tr.what == "Accepted" else rows[max(ln - 2, 0)]
        b = bad_line["b"]
        beh = behs[b]
        viol = tr.trace_state.get("viol", "")
        v.violation("replay tree=%s mode=%s inv=%s viol=%s site=%s" % (tree_sig(beh["tree"]), beh["tree"]["mode"], tr.what,
                                                                      viol.replace(" ", ""), bad_line.get("site")),
                    "real compositeSchedule diverges from Schedule.tla at step %s of replayed behaviour %d (%s)" % (
                        {k: bad_line.get(k) for k in ("c", "op", "site", "node", "ret")}, b, tr.what),
                    replay_obj={"kind": "replay", "behaviour": beh, "observed": [r_ for r_ in rows if r_["b"] == b]},
                    replay_name="replay_b%d.json" % b)
        validated += len({r_["b"] for r_ in rows if r_["b"] < b})
        rows = [r_ for r_ in rows if r_["b"] > b]
    return validated, states


def run(tier, v):
    """The stages are independent of each other and run side by side (threads; TLC and the drivers are processes)."""
    import threading
    import c02_stress
    import c02_bigleft
    import c02_unbounded
    thorough = tier == "thorough"
    T0 = time.time()
    laps = {}

    def lap(what):
        laps[what] = round(time.time() - T0, 1)
        vlib.log("C02 %-28s at %.1fs" % (what, time.time() - T0))
    b = vlib.harness_build()
    d = vlib.scratch()
    lap("harness built")
    res, errors = {}, {}

    def stage(name, fn):
        def wrapped():
            try:
                res[name] = fn()
            except BaseException as ex:  # noqa
                errors[name] = ex
            lap(name + " done")
        t = threading.Thread(target=wrapped, name=name)
        t.start()
        return t

    # 0. unbounded evidence (Apalache on SchedInd.tla + TLC on small shapes); never a verdict about the code
    def unbounded():
        return c02_unbounded.run(parallel=3 if thorough else 2)

    # 1. design level
    cfgs = (["Schedule_exh_flat.cfg", "Schedule_nested.cfg", "Schedule_exh3.cfg", "Schedule_nested3.cfg"] if thorough else ["Schedule_exh.cfg"])
    NEGS = ["Schedule_neg_leftbug.cfg", "Schedule_neg_norecheck.cfg", "Schedule_neg_unlearly.cfg", "Schedule_neg_ctorshift.cfg"]

    def design():
        states = trans = 0
        per = {}
        negr = {}

        def neg(cfg):
            negr[cfg] = vlib.tlc("ScheduleMC", cfg, deadlock=False, timeout=900, workers=2, heap="2g")
        nts = [threading.Thread(target=neg, args=(c,)) for c in NEGS]
        [t.start() for t in nts]
        for cfg in cfgs:
            r = vlib.tlc("ScheduleMC", cfg, deadlock=False, timeout=3000, heap="24g" if thorough else "8g",
                         workers=None if thorough else 8, coverage=thorough)
            vlib.tlc_must_pass(r, cfg)
            states += r.distinct
            trans += r.generated
            per[cfg] = {"distinct": r.distinct, "generated": r.generated, "wall_s": round(r.wall, 1)}
            if thorough:
                per[cfg]["actions_never_taken"] = uncovered_actions(r, cfg)
        [t.join() for t in nts]
        for cfg in NEGS:
            vlib.tlc_must_fail(negr[cfg], cfg)
        return {"states": states, "trans": trans, "per": per}

    # 2. M2: behaviours -> real code
    def replays():
        nb = 3000 if thorough else 400
        out = {"validated": 0, "tstates": 0, "behs": [], "families": {}}
        fams = [("Schedule_sim.cfg", nb, "TraceSchedule.cfg", 600)]
        if thorough:
            fams.append(("Schedule_sim3n.cfg", 1500, "TraceSchedule.cfg", 900))     # 3 callers on the nested trees only, deeper walks
        for i, (cfg, num, tcfg, depth) in enumerate(fams):
            r = vlib.tlc("ScheduleMC", cfg, workers=1, simulate="num=%d" % num, depth=depth, seed_=vlib.seed(),
                         deadlock=False, timeout=1800)
            if r.error or r.violation:
                raise vlib.MachineryError("simulation %s failed: %s %s\n%s" % (cfg, r.kind, r.what, r.out[-2000:]))
            behs = behaviours(r)
            if len(behs) < num * 0.9:
                raise vlib.MachineryError("%s: only %d behaviours exported" % (cfg, len(behs)))
            bp = os.path.join(d, "beh%d.ndjson" % i)
            vlib.write_ndjson(bp, behs)
            obs = os.path.join(d, "obs_f%d.ndjson" % i)
            vlib.run_driver(b, ["schedreplay", "-in", bp, "-out", obs], timeout=1800)
            fd = os.path.join(d, "fam%d" % i)
            os.makedirs(fd)
            obs2 = os.path.join(fd, "obs.ndjson")
            os.rename(obs, obs2)
            val, ts = validate_replays(v, obs2, behs, cfg=tcfg)
            out["validated"] += val
            out["tstates"] += ts
            out["behs"] += behs
            out["families"][cfg] = {"behaviours": len(behs), "validated": val}
        out["distinct"] = len({json.dumps([(e["c"], e["a"]) for e in bh["hist"]]) + tree_sig(bh["tree"]) + bh["tree"]["mode"] for bh in out["behs"]})
        return out

    # 3. M1: free-running stress
    def stress():
        sd = os.path.join(d, "stress")
        os.makedirs(sd)
        return c02_stress.run(tier, v, b, sd)

    # 3b. M1: lazy start under contention (first Next() of a never-started doAt schedule)
    def lazy():
        lz = os.path.join(d, "lazy.ndjson")
        ntrials = 1000000 if thorough else 120000
        vlib.run_driver(b, ["schedlazy", "-out", lz, "-trials", str(ntrials)], timeout=1800)
        tl = vlib.tlc("TraceLazyStart", "TraceLazyStart.cfg", env={"VERIF_TRACE": lz}, cont=True, timeout=1800, heap="8g", workers=4)
        if tl.error:
            raise vlib.MachineryError("TraceLazyStart failed: %s\n%s" % (tl.kind, tl.out[-3000:]))
        lrows = vlib.read_ndjson(lz)
        if tl.distinct != len(lrows) + 1:
            raise vlib.MachineryError("TraceLazyStart visited %d states for %d lines" % (tl.distinct, len(lrows)))
        seen_l = set()
        for inv, stt in tl.all_violations:
            ln = int(stt.get("l", "0"))
            if ln < 1 or (inv, ln) in seen_l:
                continue
            seen_l.add((inv, ln))
            row = lrows[ln - 1]
            badt = [t for t in row["trials"] if (row["kind"] == "once" and (t["ok"] != row["n"] or t["end"] != row["g"] or t["dist"] != 1)) or t["loneg"] or t["hineg"] or t["leftneg"] != t["leftall"] or (row["kind"] == "once" and t["leftend"] != 0) or (row["kind"] == "unl" and t["end"] != 0)][:3]
            v.violation("lazystart kind=%s inv=%s n=%d" % (row["kind"], inv, row["n"]),
                        "%s never Start()ed, %d goroutines released together: %s fails, e.g. trials %s" % ("once(%d)" % row["n"] if row["kind"] == "once" else "unlimited(1h)", row["g"], inv, badt),
                        replay_obj={"kind": "lazy", "invariant": inv, "line": row}, replay_name="lazy_%d_%s.json" % (ln, inv))
        return {"lines": len(lrows), "trials": ntrials}

    # 3c. M1: Left() bookkeeping beyond 32 bits (TraceLeftBig.tla)
    def bigleft():
        bd = os.path.join(d, "big")
        os.makedirs(bd)
        return c02_bigleft.run(tier, v, b, bd)

    ths = [stage("design", design), stage("replay", replays), stage("stress", stress), stage("lazy", lazy), stage("bigleft", bigleft)]
    if thorough:        # 7 SMT runs: too much CPU for the quick tier on a loaded machine
        ths.append(stage("unbounded", unbounded))
    else:
        res["unbounded"] = {"status": "thorough tier only"}
    [t.join() for t in ths]
    for name in ("design", "replay", "stress", "lazy", "bigleft", "unbounded"):
        if name in errors:
            raise errors[name]
    ds, rp, st, lzr, bl = res["design"], res["replay"], res["stress"], res["lazy"], res["bigleft"]
    behs = rp["behs"]
    samples = [{"tree": tree_sig(bh["tree"]), "mode": bh["tree"]["mode"],
                "steps": [[e["c"], e["a"], e["node"]] + ([e["ret"]] if e["ret"] else []) for e in bh["hist"][:14]]}
               for bh in behs[:2]] + st["samples"][:2] + bl["samples"][:1]
    cov = {
        "states": ds["states"], "transitions": ds["trans"],
        "traces_validated_against_impl": rp["validated"] + st["validated"] + lzr["lines"] + bl["lines"],
        "samples": samples,
        "replayed_behaviours": len(behs), "distinct_replayed_behaviours": rp["distinct"], "replay_families": rp["families"],
        "replay_events_validated_states": rp["tstates"],
        "stress_runs": st["runs"], "stress_events": st["events"],
        "lazy_start_trials": lzr["trials"],
        "big_left": {k: bl[k] for k in bl if k != "samples"},
        "negative_controls": ["leftbug", "norecheck", "unlearly", "ctorshift", "TraceLeftBig_neg_wrap32"],
        "design_configs": ds["per"],
        "unbounded_evidence": res["unbounded"],
        "stage_finished_at_s": laps,
        "exhaustive": False,
    }
    return "model_checking", cov, [
        "exhaustive TLC bounds: 2 callers x 3 root calls (3 callers x 2 calls in the thorough tier, also on nested trees), trees with <= 7 nodes / <= 3 tokens per leaf, clock 0..3; callers are symmetric (model values + SYMMETRY)",
        "replayed behaviours have no clock ticks (tick = 1 h in the real tree); real-time behaviour of unlimited parts is covered by the stress traces",
        "Left() beyond 32 bits: totals up to 2^62 + rounding slack of the float count at exact-integer boundaries (ProfileMath tolerance 1 us); an int64 overflow of the total is outside the explored domain",
        "trusted: the replayer/recorder (harness/cmd/vdrive/sched*.go), the yield hooks being placed at the statements the spec names"]


def uncovered_actions(r, cfg):
    """-coverage 1 report of an exhaustive run: an action of Schedule.tla that was never taken means the configuration
    does not exercise what it claims (machinery failure, not a verdict).  Returns the (allowed) never-taken list."""
    import re
    zero = []
    for m in re.finditer(r"^<(\w+) line \d+, col \d+ to line \d+, col \d+ of module (\w+)>: (\d+):(\d+)", r.out, re.M):
        name, mod, distinct, taken = m.group(1), m.group(2), int(m.group(3)), int(m.group(4))
        if mod == "Schedule" and taken == 0:
            zero.append(name)
    zero = sorted(set(zero))
    allowed = COVERAGE_ALLOWED_ZERO.get(cfg, set())
    bad = [a for a in zero if a not in allowed]
    if bad:
        raise vlib.MachineryError("%s: actions never taken in the exhaustive run: %s (coverage 0 = the configuration does not "
                                  "exercise the code path it is meant to)" % (cfg, bad))
    return zero


# actions that CANNOT fire in a configuration, with the reason (anything else at count 0 fails the machinery)
COVERAGE_ALLOWED_ZERO = {}


def replay(path, v):
    obj = json.load(open(path))
    d = vlib.scratch()
    if obj.get("kind") == "lazy":
        p = os.path.join(d, "lazy1.ndjson")
        vlib.write_ndjson(p, [obj["line"]])
        tl = vlib.tlc("TraceLazyStart", "TraceLazyStart.cfg", env={"VERIF_TRACE": p}, cont=True)
        for inv, _ in tl.all_violations:
            v.violation("lazystart kind=%s inv=%s n=%d" % (obj["line"]["kind"], inv, obj["line"]["n"]), "recorded batch violates %s" % inv)
        return None
    if obj.get("kind") == "replay":
        b = vlib.harness_build()
        beh = obj["behaviour"]
        vlib.write_ndjson(os.path.join(d, "beh.ndjson"), [beh])
        obs = os.path.join(d, "obs.ndjson")
        vlib.run_driver(b, ["schedreplay", "-in", os.path.join(d, "beh.ndjson"), "-out", obs])
        validate_replays(v, obs, [beh])
    elif obj.get("kind") == "bigleft":
        import c02_bigleft
        c02_bigleft.replay(obj, v, d)
    else:
        import c02_stress
        c02_stress.replay(obj, v, d)
    return None
