"""C02 — schedule token contract (exactly-once tokens, order, chained starts, Left, composites).

TLC design level : Schedule.tla (implementation-shaped composite/doAt/unlimited with RW-lock steps and
                   call stacks), exhaustive for 2 callers x 3 root calls over the tree catalogue,
                   + three negative controls that must produce counterexamples.
M2 (spec->code)  : TLC -simulate behaviours are replayed step by step through the REAL compositeSchedule
                   under the `verif` yield hooks; TraceSchedule.tla validates what was observed.
M1 (code->spec)  : free-running goroutines hammer real trees; TraceSchedStress.tla checks the recorded
                   call/return history against the sequential contract (linearisation intervals).
"""
import json
import os
import time
import vlib

PID = "C02"


def behaviours(r):
    out = []
    for ln in r.out.splitlines():
        if ln.startswith('<<"VERIF", "'):
            out.append(json.loads(json.loads(ln[len('<<"VERIF", '):-2])))
    return out


def tree_sig(t):
    def go(n):
        k = t["kind"][n - 1]
        if k == "comp":
            return "[" + ",".join(go(c) for c in t["kids"][n - 1]) + "]"
        if k == "unl":
            return "unl"
        return "doat%d" % len(t["toks"][n - 1])
    return go(1)


def validate_replays(v, obs_path, behs, cfg="TraceSchedule.cfg"):
    """TLC over the observed steps; on a rejection drop that behaviour and continue with the rest."""
    rows = vlib.read_ndjson(obs_path)
    d = os.path.dirname(obs_path)
    validated, states = 0, 0
    for attempt in range(6):
        if not rows:
            break
        p = os.path.join(d, "obs_%d.ndjson" % attempt)
        vlib.write_ndjson(p, rows)
        tr = vlib.tlc("TraceSchedule", cfg, env={"VERIF_TRACE": p}, workers=1, deadlock=False, timeout=1200)
        if tr.error:
            raise vlib.MachineryError("TraceSchedule failed: %s\n%s" % (tr.kind, tr.out[-3000:]))
        states += tr.distinct
        if not tr.violation:
            validated += len({r_["b"] for r_ in rows})
            break
        ln = int(tr.trace_state.get("l", "0"))
        # the invariant failed in the state reached AFTER consuming line ln-1 (Accepted: line ln cannot be taken)
        bad_line = rows[min(ln, len(rows)) - 1] if tr.what == "Accepted" else rows[max(ln - 2, 0)]
        b = bad_line["b"]
        beh = behs[b]
        viol = tr.trace_state.get("viol", "")
        v.violation("replay tree=%s mode=%s inv=%s viol=%s site=%s" % (tree_sig(beh["tree"]), beh["tree"]["mode"], tr.what,
                                                                      viol.replace(" ", ""), bad_line.get("site")),
                    "real compositeSchedule diverges from Schedule.tla at step %s of replayed behaviour %d (%s)" % (
                        {k: bad_line.get(k) for k in ("c", "op", "site", "node", "ret")}, b, tr.what),
                    replay_obj={"kind": "replay", "behaviour": beh, "observed": [r_ for r_ in rows if r_["b"] == b]},
                    replay_name="replay_b%d.json" % b)
        validated += len({r_["b"] for r_ in rows if r_["b"] < b})
        rows = [r_ for r_ in rows if r_["b"] > b]
    return validated, states


def run(tier, v):
    thorough = tier == "thorough"
    states = trans = 0
    # 1. design level
    cfgs = (["Schedule_exh_flat.cfg", "Schedule_nested.cfg", "Schedule_exh3.cfg"] if thorough else ["Schedule_exh.cfg"])
    for cfg in cfgs:
        r = vlib.tlc("ScheduleMC", cfg, deadlock=False, timeout=3000, heap="24g", coverage=False)
        vlib.tlc_must_pass(r, cfg)
        states += r.distinct
        trans += r.generated
    for neg in ["Schedule_neg_leftbug.cfg", "Schedule_neg_norecheck.cfg", "Schedule_neg_unlearly.cfg", "Schedule_neg_ctorshift.cfg"]:
        vlib.tlc_must_fail(vlib.tlc("ScheduleMC", neg, deadlock=False, timeout=600), neg)
    # 2. M2: behaviours -> real code
    b = vlib.harness_build()
    d = vlib.scratch()
    nb = 3000 if thorough else 400
    r = vlib.tlc("ScheduleMC", "Schedule_sim.cfg", workers=1, simulate="num=%d" % nb, depth=600, seed_=vlib.seed(),
                 deadlock=False, timeout=1800)
    if r.error or r.violation:
        raise vlib.MachineryError("simulation failed: %s %s\n%s" % (r.kind, r.what, r.out[-2000:]))
    behs = behaviours(r)
    if len(behs) < nb * 0.9:
        raise vlib.MachineryError("only %d behaviours exported" % len(behs))
    vlib.write_ndjson(os.path.join(d, "beh.ndjson"), behs)
    obs = os.path.join(d, "obs.ndjson")
    vlib.run_driver(b, ["schedreplay", "-in", os.path.join(d, "beh.ndjson"), "-out", obs], timeout=1800)
    validated, tstates = validate_replays(v, obs, behs)
    distinct_beh = len({json.dumps([(e["c"], e["a"]) for e in bh["hist"]]) + tree_sig(bh["tree"]) + bh["tree"]["mode"] for bh in behs})
    # 3. M1: free-running stress
    import c02_stress
    st = c02_stress.run(tier, v, b, d)
    # 3b. M1: lazy start under contention (first Next() of a never-started doAt schedule)
    lz = os.path.join(d, "lazy.ndjson")
    ntrials = 1000000 if thorough else 200000
    vlib.run_driver(b, ["schedlazy", "-out", lz, "-trials", str(ntrials)], timeout=1800)
    tl = vlib.tlc("TraceLazyStart", "TraceLazyStart.cfg", env={"VERIF_TRACE": lz}, cont=True, timeout=1800, heap="8g")
    if tl.error:
        raise vlib.MachineryError("TraceLazyStart failed: %s\n%s" % (tl.kind, tl.out[-3000:]))
    lrows = vlib.read_ndjson(lz)
    if tl.distinct != len(lrows) + 1:
        raise vlib.MachineryError("TraceLazyStart visited %d states for %d lines" % (tl.distinct, len(lrows)))
    seen_l = set()
    for inv, stt in tl.all_violations:
        ln = int(stt.get("l", "0"))
        if ln < 1 or (inv, ln) in seen_l:
            continue
        seen_l.add((inv, ln))
        row = lrows[ln - 1]
        badt = [t for t in row["trials"] if (row["kind"] == "once" and (t["ok"] != row["n"] or t["end"] != row["g"] or t["dist"] != 1)) or t["loneg"] or t["hineg"] or t["leftneg"] != t["leftall"] or (row["kind"] == "once" and t["leftend"] != 0) or (row["kind"] == "unl" and t["end"] != 0)][:3]
        v.violation("lazystart kind=%s inv=%s n=%d" % (row["kind"], inv, row["n"]),
                    "%s never Start()ed, %d goroutines released together: %s fails, e.g. trials %s" % ("once(%d)" % row["n"] if row["kind"] == "once" else "unlimited(1h)", row["g"], inv, badt),
                    replay_obj={"kind": "lazy", "invariant": inv, "line": row}, replay_name="lazy_%d_%s.json" % (ln, inv))
    samples = [{"tree": tree_sig(bh["tree"]), "mode": bh["tree"]["mode"],
                "steps": [[e["c"], e["a"], e["node"]] + ([e["ret"]] if e["ret"] else []) for e in bh["hist"][:14]]}
               for bh in behs[:2]] + st["samples"][:2]
    cov = {
        "states": states, "transitions": trans,
        "traces_validated_against_impl": validated + st["validated"] + len(lrows),
        "samples": samples,
        "replayed_behaviours": len(behs), "distinct_replayed_behaviours": distinct_beh,
        "replay_events_validated_states": tstates,
        "stress_runs": st["runs"], "stress_events": st["events"],
        "lazy_start_trials": ntrials,
        "negative_controls": ["leftbug", "norecheck", "unlearly", "ctorshift"],
        "design_configs": cfgs,
        "exhaustive": False,
    }
    return "model_checking", cov, [
        "exhaustive TLC bounds: 2 callers x 3 root calls, trees with <= 7 nodes / <= 3 tokens per leaf, clock 0..3",
        "replayed behaviours have no clock ticks (tick = 1 h in the real tree); real-time behaviour of unlimited parts is covered by the stress traces",
        "trusted: the replayer/recorder (harness/cmd/vdrive/sched*.go), the yield hooks being placed at the statements the spec names"]


def replay(path, v):
    obj = json.load(open(path))
    d = vlib.scratch()
    if obj.get("kind") == "lazy":
        p = os.path.join(d, "lazy1.ndjson")
        vlib.write_ndjson(p, [obj["line"]])
        tl = vlib.tlc("TraceLazyStart", "TraceLazyStart.cfg", env={"VERIF_TRACE": p}, cont=True)
        for inv, _ in tl.all_violations:
            v.violation("lazystart kind=%s inv=%s n=%d" % (obj["line"]["kind"], inv, obj["line"]["n"]), "recorded batch violates %s" % inv)
        return None
    if obj.get("kind") == "replay":
        b = vlib.harness_build()
        beh = obj["behaviour"]
        vlib.write_ndjson(os.path.join(d, "beh.ndjson"), [beh])
        obs = os.path.join(d, "obs.ndjson")
        vlib.run_driver(b, ["schedreplay", "-in", os.path.join(d, "beh.ndjson"), "-out", obs])
        validate_replays(v, obs, [beh])
    else:
        import c02_stress
        c02_stress.replay(obj, v, d)
    return None
