package main

// C17 driver, part 2: the recording registry, the read-back walker, the log.Fatal interception.

import (
	"context"
	"fmt"
	"io"
	"net/http"
	"reflect"
	"sort"
	"strconv"
	"strings"
	"time"
	"unsafe"
	_ "unsafe" // go:linkname

	"github.com/yandex/pandora/components/providers/http/middleware"
	"github.com/yandex/pandora/core"
	"github.com/yandex/pandora/core/plugin"
	"go.uber.org/zap"
	"go.uber.org/zap/zapcore"
)

// ---- log.Fatal of the CLI reader: zap calls internal/exit._exit (a package variable, = os.Exit).
// The driver points it at a panic so that a fatal config error of cli.readConfig is observed in-process.

//go:linkname zapExitFn go.uber.org/zap/internal/exit._exit
var zapExitFn func(int)

type zapExit struct{ code int }

func zapExitToPanic() { zapExitFn = func(code int) { panic(zapExit{code}) } }

// ---- recording stubs: one per plugin interface reachable from a pool configuration

type recBase struct {
	name string
	conf interface{} // the config struct (value or pointer) the constructor received; nil if it takes none
}

func (r *recBase) recConf() (string, interface{}) { return r.name, r.conf }

type recorded interface {
	recConf() (string, interface{})
}

type recProvider struct{ recBase }

func (*recProvider) Run(context.Context, core.ProviderDeps) error { return nil }
func (*recProvider) Acquire() (core.Ammo, bool)                   { return nil, false }
func (*recProvider) Release(core.Ammo)                            {}

type recAggregator struct{ recBase }

func (*recAggregator) Run(context.Context, core.AggregatorDeps) error { return nil }
func (*recAggregator) Report(core.Sample)                             {}

type recGun struct{ recBase }

func (*recGun) Bind(core.Aggregator, core.GunDeps) error { return nil }
func (*recGun) Shoot(core.Ammo)                          {}

type recSchedule struct{ recBase }

func (*recSchedule) Start(time.Time)         {}
func (*recSchedule) Next() (time.Time, bool) { return time.Time{}, false }
func (*recSchedule) Left() int               { return 0 }

type recSource struct{ recBase }

func (*recSource) OpenSource() (io.ReadCloser, error) { return nil, fmt.Errorf("recording stub") }

type recSink struct{ recBase }

func (*recSink) OpenSink() (io.WriteCloser, error) { return nil, fmt.Errorf("recording stub") }

type recMiddleware struct{ recBase }

func (*recMiddleware) InitMiddleware(context.Context, *zap.Logger) error { return nil }
func (*recMiddleware) UpdateRequest(*http.Request) error                 { return nil }

var recStubs = map[reflect.Type]func(b recBase) interface{}{
	plugin.PtrType((*core.Provider)(nil)):         func(b recBase) interface{} { return &recProvider{b} },
	plugin.PtrType((*core.Aggregator)(nil)):       func(b recBase) interface{} { return &recAggregator{b} },
	plugin.PtrType((*core.Gun)(nil)):              func(b recBase) interface{} { return &recGun{b} },
	plugin.PtrType((*core.Schedule)(nil)):         func(b recBase) interface{} { return &recSchedule{b} },
	plugin.PtrType((*core.DataSource)(nil)):       func(b recBase) interface{} { return &recSource{b} },
	plugin.PtrType((*core.DataSink)(nil)):         func(b recBase) interface{} { return &recSink{b} },
	plugin.PtrType((*middleware.Middleware)(nil)): func(b recBase) interface{} { return &recMiddleware{b} },
}

func exported(v reflect.Value) reflect.Value {
	return reflect.NewAt(v.Type(), unsafe.Pointer(v.UnsafeAddr())).Elem()
}

func addressable(v reflect.Value) reflect.Value {
	a := reflect.New(v.Type()).Elem()
	a.Set(v)
	return a
}

// buildRecRegistry mirrors every registration of the real registry: same plugin type, same name, same config
// type, same default-config func; the constructor only records.  A registered factory constructor (returns
// func() P) is mirrored by a factory constructor, so that the config is decoded at the same moment.
func buildRecRegistry(real *plugin.Registry) *plugin.Registry {
	rec := plugin.NewRegistry()
	byType := exported(reflect.ValueOf(real).Elem().Field(0)) // map[reflect.Type]nameRegistry
	for it := byType.MapRange(); it.Next(); {
		ptype := it.Key().Interface().(reflect.Type)
		for it2 := it.Value().MapRange(); it2.Next(); {
			name := it2.Key().String()
			entry := addressable(it2.Value())                // nameRegistryEntry{constructor, defaultConfig}
			impl := exported(entry.Field(0)).Elem()          // *pluginConstructor | *factoryConstructor
			fn := exported(impl.Elem().Field(1)).Interface() // newPlugin / newFactory: a reflect.Value
			realFn := fn.(reflect.Value)
			newDefault := exported(entry.Field(1).Field(0)).Interface().(reflect.Value)
			var dflt []interface{}
			if newDefault.IsValid() {
				dflt = append(dflt, newDefault.Interface())
			}
			mk := recStubs[ptype]
			if mk == nil {
				rec.Register(ptype, name, realFn.Interface(), dflt...) // not reachable from a pool config: keep
				continue
			}
			ft := realFn.Type()
			ins := []reflect.Type{}
			for i := 0; i < ft.NumIn(); i++ {
				ins = append(ins, ft.In(i))
			}
			isFactory := ft.Out(0).Kind() == reflect.Func
			factT := reflect.FuncOf(nil, []reflect.Type{ptype}, false)
			outT := ptype
			if isFactory {
				outT = factT
			}
			pname, pt := name, ptype
			twin := reflect.MakeFunc(reflect.FuncOf(ins, []reflect.Type{outT}, false), func(in []reflect.Value) []reflect.Value {
				b := recBase{name: pname}
				if len(in) == 1 {
					b.conf = in[0].Interface()
				}
				stub := reflect.New(pt).Elem()
				stub.Set(reflect.ValueOf(mk(b)))
				if !isFactory {
					return []reflect.Value{stub}
				}
				return []reflect.Value{reflect.MakeFunc(factT, func([]reflect.Value) []reflect.Value { return []reflect.Value{stub} })}
			})
			rec.Register(ptype, name, twin.Interface(), dflt...)
		}
	}
	return rec
}

// ---- read-back: canonical text of every leaf of the decoded configuration, keyed by its key path

type cdWalker struct {
	vals   map[string]string
	points [][]string
	err    error // a factory (gun, rps) failed when called
}

func newCdWalker() *cdWalker { return &cdWalker{vals: map[string]string{}} }

func (w *cdWalker) walkRoot(conf interface{}) { w.walk(reflect.ValueOf(conf), nil) }

func (w *cdWalker) put(path []string, v string) {
	w.vals[strings.ToLower(strings.Join(path, "\x00"))] = v
}

func sub(path []string, k string) []string {
	return append(append([]string{}, path...), k)
}

var (
	durT   = reflect.TypeOf(time.Duration(0))
	levelT = reflect.TypeOf(zapcore.Level(0))
	errT   = reflect.TypeOf((*error)(nil)).Elem()
)

func (w *cdWalker) walk(v reflect.Value, path []string) {
	if !v.IsValid() {
		return
	}
	switch v.Type() {
	case durT:
		d := time.Duration(v.Int())
		if d%time.Millisecond == 0 {
			w.put(path, strconv.FormatInt(int64(d/time.Millisecond), 10))
		} else {
			w.put(path, d.String())
		}
		return
	case levelT:
		w.put(path, zapcore.Level(v.Int()).String())
		return
	}
	switch v.Kind() {
	case reflect.Ptr:
		if !v.IsNil() {
			w.walk(v.Elem(), path)
		}
	case reflect.Interface:
		if v.IsNil() {
			return
		}
		if r, ok := v.Interface().(recorded); ok {
			name, conf := r.recConf()
			if conf != nil {
				w.walk(reflect.ValueOf(conf), path)
				if name == "composite" {
					// `rps: [a, b]` is turned into {type: composite, nested: [a, b]}: publish the parts under both spellings
					cv := reflect.Indirect(reflect.ValueOf(conf))
					if n := cv.FieldByName("Nested"); n.IsValid() {
						for i := 0; i < n.Len(); i++ {
							w.walk(n.Index(i), sub(path, "#"+strconv.Itoa(i+1)))
						}
					}
				}
			} else {
				w.points = append(w.points, path) // a plugin without config is still a map level ({type: x})
			}
		}
	case reflect.Func:
		if v.IsNil() || v.Type().NumIn() != 0 {
			return
		}
		outs := v.Call(nil)
		if len(outs) == 2 && outs[1].Type() == errT && !outs[1].IsNil() {
			if w.err == nil {
				w.err = fmt.Errorf("%s: %v", strings.Join(path, "."), outs[1].Interface())
			}
			return
		}
		w.walk(outs[0], path)
	case reflect.Struct:
		w.points = append(w.points, path)
		t := v.Type()
		for i := 0; i < t.NumField(); i++ {
			f := t.Field(i)
			if f.PkgPath != "" {
				continue
			}
			name, squash := strings.ToLower(f.Name), false
			if tag, ok := f.Tag.Lookup("config"); ok {
				parts := strings.Split(tag, ",")
				if parts[0] == "-" {
					continue
				}
				if parts[0] != "" {
					name = parts[0]
				}
				for _, o := range parts[1:] {
					if o == "squash" {
						squash = true
					}
				}
			}
			if squash {
				w.walkSquashed(v.Field(i), path)
			} else {
				w.walk(v.Field(i), sub(path, name))
			}
		}
	case reflect.Slice:
		if v.Type().Elem().Kind() == reflect.String {
			l := []string{}
			for i := 0; i < v.Len(); i++ {
				l = append(l, v.Index(i).String())
			}
			w.put(path, strings.Join(l, "|"))
			return
		}
		for i := 0; i < v.Len(); i++ {
			w.walk(v.Index(i), sub(path, "#"+strconv.Itoa(i+1)))
		}
	case reflect.Map:
		kv := []string{}
		for it := v.MapRange(); it.Next(); {
			kv = append(kv, fmt.Sprint(it.Key().Interface())+"="+fmt.Sprint(it.Value().Interface()))
		}
		sort.Strings(kv)
		w.put(path, strings.Join(kv, "|"))
	case reflect.Bool:
		w.put(path, strconv.FormatBool(v.Bool()))
	case reflect.Int, reflect.Int8, reflect.Int16, reflect.Int32, reflect.Int64:
		w.put(path, strconv.FormatInt(v.Int(), 10))
	case reflect.Uint, reflect.Uint8, reflect.Uint16, reflect.Uint32, reflect.Uint64:
		w.put(path, strconv.FormatUint(v.Uint(), 10))
	case reflect.Float32, reflect.Float64:
		w.put(path, strconv.FormatFloat(v.Float(), 'f', -1, 64))
	case reflect.String:
		w.put(path, v.String())
	}
}

// a squashed struct contributes its fields to the enclosing map level (no new level)
func (w *cdWalker) walkSquashed(v reflect.Value, path []string) {
	if v.Kind() != reflect.Struct {
		w.walk(v, path)
		return
	}
	n := len(w.points)
	w.walk(v, path)
	// drop the level the struct itself announced (it is the enclosing one)
	if n < len(w.points) {
		w.points = append(w.points[:n], w.points[n+1:]...)
	}
}

func reflectValue(x interface{}) reflect.Value { return reflect.ValueOf(x) }
