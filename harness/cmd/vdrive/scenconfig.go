package main

// C16 driver: for every case of ScenarioConfig.tla (key + abstract description, one JSON line each, generated
// by TLC) render the description as HCL (plain, and through locals + collection functions) and as YAML (plain,
// and through locals/anchors/merge keys), feed every rendering to the REAL front-ends
//
//     config.ReadAmmoConfig(memfs, file)                     -> AmmoConfig          ("cfg" projection)
//     provider built by the registered http/scenario or grpc/scenario factory
//       (ReadAmmoConfig + ExtractVariableStorage + decodeAmmo) -> []*Scenario ammo   ("ammo" projection)
//
// and record the canonical projection of what came out.  Nothing is compared here: TraceScenarioConfig.tla
// demands that all four renderings equal Decoded(desc) / Ammo(desc).
//
// The projection keeps everything that determines the behaviour of the ammo (names, strings, numbers, order of
// processors and steps, sleeps, waiting time, templater kind) and deliberately ignores representation:
// nil vs empty map/slice (every consumer ranges over them or takes len()), the Locals helper block, pointer
// identity, the preprocessors' private iterator.

import (
	"bytes"
	"encoding/json"
	"flag"
	"fmt"
	"os"
	"os/exec"
	"reflect"
	"sort"
	"strings"
	"sync"
	"time"
	"unsafe"

	"github.com/spf13/afero"
	grpcgun "github.com/yandex/pandora/components/guns/grpc/scenario"
	httpgun "github.com/yandex/pandora/components/guns/http_scenario"
	scnconfig "github.com/yandex/pandora/components/providers/scenario/config"
	grpcpost "github.com/yandex/pandora/components/providers/scenario/grpc/postprocessor"
	grpcpre "github.com/yandex/pandora/components/providers/scenario/grpc/preprocessor"
	httppost "github.com/yandex/pandora/components/providers/scenario/http/postprocessor"
	httppre "github.com/yandex/pandora/components/providers/scenario/http/preprocessor"
	httptempl "github.com/yandex/pandora/components/providers/scenario/http/templater"
	scnimport "github.com/yandex/pandora/components/providers/scenario/import"
	"github.com/yandex/pandora/components/providers/scenario/vs"
	"github.com/yandex/pandora/core"
	coreconfig "github.com/yandex/pandora/core/config"
	"github.com/yandex/pandora/core/plugin/pluginconfig"

	"verifharness/internal/vt"
)

func init() { register("scenconfig", scenconfigMain) }

type scCase struct {
	ID   int             `json:"id"` // optional: the case's number in the full list (default: its line number)
	Key  json.RawMessage `json:"key"`
	Desc scDesc          `json:"desc"`
}

// One rendering's outcome.  To keep the trace small a rendering whose outcome is deep-equal to that of an
// earlier style of the same case is written as {"same": "<style>"} (lossless; TraceScenarioConfig resolves it).
type scfOut struct {
	Same string      `json:"same,omitempty"`
	Err  string      `json:"err"`
	Cfg  interface{} `json:"cfg,omitempty"`
	Ammo interface{} `json:"ammo,omitempty"`
}

type scLine struct {
	ID  int               `json:"id"`
	Key json.RawMessage   `json:"key"`
	Out map[string]scfOut `json:"out"`
	Fs  map[string]string `json:"fs"` // how the file system delivered each rendering (information for reports)
}

type jmap = map[string]interface{}

// ------------------------------------------------------------------ projections

func pMap(m map[string]string) jmap {
	out := jmap{}
	for k, v := range m {
		out[tok(k)] = tok(v)
	}
	return out
}

func pAnyMap(m map[string]interface{}) jmap {
	out := jmap{}
	for k, v := range m {
		switch x := v.(type) {
		case string:
			out[tok(k)] = tok(x)
		case int, int64, uint64, float64:
			out[tok(k)] = fmt.Sprintf("#%v", x) // a number, abstractly "#<n>"
		default:
			out[tok(k)] = fmt.Sprintf("?%T:%v", v, v)
		}
	}
	return out
}

func pList(xs []string) []string {
	out := make([]string, len(xs))
	for i, x := range xs {
		out[i] = tok(x)
	}
	return out
}

func pSource(s vs.VariableSource) jmap {
	o := jmap{"type": fmt.Sprintf("?%T", s), "name": s.GetName(), "file": tok(""), "fields": []string{}, "ifl": false,
		"delim": tok(""), "variables": jmap{}}
	switch x := s.(type) {
	case *vs.VariableSourceCsv:
		o["type"], o["file"], o["fields"], o["ifl"], o["delim"] = "file/csv", tok(x.File), pList(x.Fields), x.IgnoreFirstLine, tok(x.Delimiter)
	case *vs.VariableSourceJSON:
		o["type"], o["file"] = "file/json", tok(x.File)
	case *vs.VariableSourceVariables:
		o["type"], o["variables"] = "variables", pAnyMap(x.Variables)
	}
	return o
}

func pHTTPPost(p httpgun.Postprocessor) jmap {
	o := jmap{"type": fmt.Sprintf("?%T", p), "mapping": jmap{}, "headers": jmap{}, "body": []string{}, "status": 0, "size": []jmap{}}
	switch x := p.(type) {
	case *httppost.VarHeaderPostprocessor:
		o["type"], o["mapping"] = "var/header", pMap(x.Mapping)
	case *httppost.VarJsonpathPostprocessor:
		o["type"], o["mapping"] = "var/jsonpath", pMap(x.Mapping)
	case *httppost.VarXpathPostprocessor:
		o["type"], o["mapping"] = "var/xpath", pMap(x.Mapping)
	case *httppost.AssertResponse:
		o["type"], o["headers"], o["body"], o["status"] = "assert/response", pMap(x.Headers), pList(x.Body), x.StatusCode
		if x.Size != nil {
			o["size"] = []jmap{{"val": x.Size.Val, "op": tok(x.Size.Op)}}
		}
	}
	return o
}

func pTemplater(t httpgun.Templater) string {
	if t == nil {
		return ""
	}
	switch t.(type) {
	case *httptempl.TextTemplater:
		return "text"
	case *httptempl.HTMLTemplater:
		return "html"
	}
	return fmt.Sprintf("?%T", t)
}

func pBody(b *string) []string {
	if b == nil {
		return []string{}
	}
	return []string{tok(*b)}
}

func pHTTPPre(p interface{}) []jmap {
	switch x := p.(type) {
	case nil:
		return []jmap{}
	case *httppre.Preprocessor:
		if x == nil {
			return []jmap{}
		}
		return []jmap{pMap(x.Mapping)}
	}
	return []jmap{{"?": fmt.Sprintf("%T", p)}}
}

func pHTTPReq(name, method, uri, tag string, headers map[string]string, body *string, pre interface{},
	posts []httpgun.Postprocessor, templ httpgun.Templater) jmap {
	ps := make([]jmap, len(posts))
	for i, p := range posts {
		ps[i] = pHTTPPost(p)
	}
	return jmap{"name": name, "method": tok(method), "uri": tok(uri), "headers": pMap(headers), "tag": tok(tag),
		"body": pBody(body), "pre": pHTTPPre(pre), "templater": pTemplater(templ), "posts": ps}
}

func pCall(name, call, tag, payload string, md map[string]string, pres []grpcgun.Preprocessor, posts []grpcgun.Postprocessor) jmap {
	pr := make([]jmap, len(pres))
	for i, p := range pres {
		if x, ok := p.(*grpcpre.PreparePreprocessor); ok {
			pr[i] = jmap{"type": "prepare", "mapping": pMap(x.Mapping)}
		} else {
			pr[i] = jmap{"type": fmt.Sprintf("?%T", p), "mapping": jmap{}}
		}
	}
	po := make([]jmap, len(posts))
	for i, p := range posts {
		if x, ok := p.(*grpcpost.AssertResponse); ok {
			po[i] = jmap{"type": "assert/response", "payload": pList(x.Payload), "status": x.StatusCode}
		} else {
			po[i] = jmap{"type": fmt.Sprintf("?%T", p), "payload": []string{}, "status": 0}
		}
	}
	return jmap{"name": name, "call": tok(call), "tag": tok(tag), "payload": tok(payload), "metadata": pMap(md), "pres": pr, "posts": po}
}

func pConfig(c *scnconfig.AmmoConfig) jmap {
	srcs := make([]jmap, len(c.VariableSources))
	for i, s := range c.VariableSources {
		srcs[i] = pSource(s)
	}
	reqs := make([]jmap, len(c.Requests))
	for i, r := range c.Requests {
		var pre interface{}
		if r.Preprocessor != nil {
			pre = r.Preprocessor
		}
		reqs[i] = pHTTPReq(r.Name, r.Method, r.URI, r.Tag, r.Headers, r.Body, pre, r.Postprocessors, r.Templater)
	}
	calls := make([]jmap, len(c.Calls))
	for i, r := range c.Calls {
		calls[i] = pCall(r.Name, r.Call, r.Tag, r.Payload, r.Metadata, r.Preprocessors, r.Postprocessors)
	}
	scs := make([]jmap, len(c.Scenarios))
	for i, s := range c.Scenarios {
		scs[i] = jmap{"name": s.Name, "weight": vt.Small(s.Weight), "mwt": vt.Small(s.MinWaitingTime), "requests": append([]string{}, s.Requests...)}
	}
	return jmap{"sources": srcs, "requests": reqs, "calls": calls, "scenarios": scs}
}

// ms: a duration as whole milliseconds; anything that is not a whole number of ms is shown as it is
func ms(d time.Duration) interface{} {
	if d%time.Millisecond != 0 {
		return fmt.Sprintf("?%dns", int64(d))
	}
	return vt.Small(int64(d / time.Millisecond))
}

func pHTTPAmmo(as []*httpgun.Scenario) []jmap {
	out := make([]jmap, len(as))
	for i, a := range as {
		steps := make([]jmap, len(a.Requests))
		for j, r := range a.Requests {
			var pre interface{}
			if r.Preprocessor != nil {
				pre = r.Preprocessor
			}
			steps[j] = jmap{"sleep": ms(r.Sleep),
				"req": pHTTPReq(r.Name, r.Method, r.URI, r.Tag, r.Headers, r.Body, pre, r.Postprocessors, r.Templater)}
		}
		out[i] = jmap{"name": a.Name, "mwt": ms(a.MinWaitingTime), "steps": steps, "vars": pVars(a.VariableStorage)}
	}
	return out
}

// pVars: what the templates of an ammo see under .source: for a `variables` source its map, for file sources
// nothing (their content is the data file's, not the description's)
func pVars(st interface{ Variables() map[string]any }) jmap {
	out := jmap{}
	if st == nil {
		return out
	}
	for name, v := range st.Variables() {
		if m, ok := v.(map[string]interface{}); ok {
			out[name] = pAnyMap(m)
		} else {
			out[name] = jmap{}
		}
	}
	return out
}

func pGRPCAmmo(as []*grpcgun.Scenario) []jmap {
	out := make([]jmap, len(as))
	for i, a := range as {
		steps := make([]jmap, len(a.Calls))
		for j, r := range a.Calls {
			steps[j] = jmap{"sleep": ms(r.Sleep),
				"req": pCall(r.Name, r.Call, r.Tag, string(r.Payload), r.Metadata, r.Preprocessors, r.Postprocessors)}
		}
		out[i] = jmap{"name": a.Name, "mwt": ms(a.MinWaitingTime), "steps": steps, "vars": pVars(a.VariableStorage)}
	}
	return out
}

// providerAmmos reads the unexported `ammos` field of scenario.Provider[A]: the list the provider cycles through
func providerAmmos(p core.Provider) interface{} {
	v := reflect.ValueOf(p)
	if v.Kind() != reflect.Ptr || v.Elem().Kind() != reflect.Struct {
		panic(fmt.Sprintf("scenconfig: unexpected provider %T", p))
	}
	f := v.Elem().FieldByName("ammos")
	if !f.IsValid() {
		panic(fmt.Sprintf("scenconfig: provider %T has no field ammos", p))
	}
	return reflect.NewAt(f.Type(), unsafe.Pointer(f.UnsafeAddr())).Elem().Interface()
}

// ------------------------------------------------------------------ running the real code

func scRun(fs afero.Fs, kind, file, text string) (out scfOut) {
	defer func() {
		if r := recover(); r != nil {
			out = scfOut{Err: fmt.Sprintf("panic: %v", r)}
		}
	}()
	if err := afero.WriteFile(fs, file, []byte(text), 0644); err != nil {
		panic(err)
	}
	cfg, err := scnconfig.ReadAmmoConfig(fs, file)
	if err != nil {
		return scfOut{Err: "ReadAmmoConfig: " + err.Error()}
	}
	out.Cfg = pConfig(cfg)
	// the provider through the registered factory, as the engine config would create it
	var holder struct{ Ammo core.Provider }
	conf := map[string]interface{}{"ammo": map[string]interface{}{"type": kind + "/scenario", "file": file}}
	if err := coreconfig.Decode(conf, &holder); err != nil {
		return scfOut{Err: "provider: " + err.Error(), Cfg: out.Cfg}
	}
	switch as := providerAmmos(holder.Ammo).(type) {
	case []*httpgun.Scenario:
		out.Ammo = pHTTPAmmo(as)
	case []*grpcgun.Scenario:
		out.Ammo = pGRPCAmmo(as)
	default:
		panic(fmt.Sprintf("scenconfig: unexpected ammo list %T", as))
	}
	return out
}

// The four main styles are rendered for every case.  The two further HCL convenience styles -- collection
// functions without any locals block (hclf), locals spread over several blocks without functions (hclv) -- take
// alternate cases.  Format selection by file extension is independent of the content, so the two further documented
// extensions are exercised on a smaller share: the plain YAML text under `.yml` on every 8th case, a JSON document
// under `.json` on every 4th.  Which cases rotates with VERIF_SEED; `-allstyles` renders everything for every case.
var scStyles = []struct {
	name, ext    string
	every, phase int
	render       func(d scDesc, rot int) string
}{
	{"hcl", "hcl", 1, 0, func(d scDesc, _ int) string { return renderHCL(d) }},
	{"hcll", "hcl", 1, 0, func(d scDesc, rot int) string { return renderHCLGen(d, rot, true, true) }},
	{"yaml", "yaml", 1, 0, func(d scDesc, _ int) string { return renderYAML(d) }},
	{"yamla", "yaml", 1, 0, func(d scDesc, _ int) string { return renderYAMLAnchors(d) }},
	{"hclf", "hcl", 2, 0, func(d scDesc, rot int) string { return renderHCLGen(d, rot, false, true) }},
	{"hclv", "hcl", 2, 1, func(d scDesc, rot int) string { return renderHCLGen(d, rot, true, false) }},
	{"yml", "yml", 8, 0, func(d scDesc, _ int) string { return renderYAML(d) }},
	{"json", "json", 4, 0, func(d scDesc, _ int) string { return renderJSON(d) }},
}

func scenconfigMain(args []string) {
	fl := flag.NewFlagSet("scenconfig", flag.ExitOnError)
	cases := fl.String("cases", "", "NDJSON case list generated by TLC (key, desc)")
	outp := fl.String("out", "", "NDJSON trace to write")
	texts := fl.String("texts", "", "optional: NDJSON file receiving the rendered texts of every case")
	workers := fl.Int("workers", 8, "parallel worker processes")
	allStyles := fl.Bool("allstyles", false, "render every style for every case (thorough tier)")
	shard := fl.Int("shard", -1, "internal: worker process number")
	of := fl.Int("of", 1, "internal: number of worker processes")
	after := fl.Int("after", 0, "internal: skip the cases of this shard up to and including this id")
	_ = fl.Parse(args)
	if *cases == "" || *outp == "" {
		fmt.Fprintln(os.Stderr, "scenconfig: -cases and -out are required")
		os.Exit(2)
	}
	f, err := os.Open(*cases)
	if err != nil {
		panic(err)
	}
	defer f.Close()
	dec := json.NewDecoder(f)
	var all []scCase
	for dec.More() {
		var c scCase
		if err := dec.Decode(&c); err != nil {
			panic(fmt.Sprintf("scenconfig: case %d: %v", len(all)+1, err))
		}
		if c.ID == 0 {
			c.ID = len(all) + 1
		}
		all = append(all, c)
	}
	if *shard >= 0 {
		scWorker(all, *outp, *texts, *allStyles, *shard, *of, *after)
		return
	}
	scParent(all, args, *outp, *texts, *workers)
}

// scWorker: one worker PROCESS handles the cases shard, shard+of, ... strictly one after the other -- the real
// front-ends are used the way pandora uses them (providers are created sequentially), and everything they keep at
// package level lives as long as it would in a pandora process that reads many scenario files.  Every finished case
// is written out at once, so that the parent knows which case a dying worker was at.
func scWorker(all []scCase, outp, texts string, allStyles bool, shard, of, after int) {
	if allStyles {
		for i := range scStyles {
			scStyles[i].every, scStyles[i].phase = 1, 0
		}
	}
	// the file system the front-ends and the providers read from: memory, scenario files served with short reads
	var fs afero.Fs = scShortFs{afero.NewMemMapFs()}
	scnimport.Import(fs)
	pluginconfig.AddHooks()
	// data files the variable sources name (the provider opens them): one content for every data file, valid JSON
	// and valid CSV (a substituted token may name the csv file in one case and the json file in another)
	for _, c := range all {
		for _, s := range c.Desc.Sources {
			if len(s.File) != 1 {
				continue
			}
			name := lit(s.File[0])
			if ok, _ := afero.Exists(fs, name); ok {
				continue
			}
			if err := afero.WriteFile(fs, name, []byte("[1, 2, 3]\n"), 0644); err != nil {
				panic(fmt.Sprintf("scenconfig: cannot create data file %q: %v", name, err))
			}
		}
	}
	out, err := os.OpenFile(outp, os.O_CREATE|os.O_WRONLY|os.O_APPEND, 0644)
	if err != nil {
		panic(err)
	}
	defer out.Close()
	var tout *os.File
	if texts != "" {
		if tout, err = os.OpenFile(texts, os.O_CREATE|os.O_WRONLY|os.O_APPEND, 0644); err != nil {
			panic(err)
		}
		defer tout.Close()
	}
	emit := func(f *os.File, v interface{}) {
		b, err := json.Marshal(v)
		if err != nil {
			panic(err)
		}
		if _, err := f.Write(append(b, '\n')); err != nil {
			panic(err)
		}
	}
	for i := shard; i < len(all); i += of {
		if all[i].ID <= after {
			continue
		}
		line, rendered := scOne(fs, 0, all[i].ID, all[i])
		emit(out, line)
		if tout != nil {
			emit(tout, map[string]interface{}{"id": line.ID, "texts": rendered})
		}
	}
}

// scParent: starts the worker processes, restarts a worker that died behind the case it died at (the death of the
// process while the real code handles a valid file is recorded as the outcome of that case), merges by case number.
func scParent(all []scCase, args []string, outp, texts string, workers int) {
	if workers < 1 {
		workers = 1
	}
	if workers > len(all) {
		workers = len(all)
	}
	type shardRes struct {
		lines []scLine
		texts []json.RawMessage
	}
	res := make([]shardRes, workers)
	var wg sync.WaitGroup
	for sh := 0; sh < workers; sh++ {
		wg.Add(1)
		go func(sh int) {
			defer wg.Done()
			so, st := fmt.Sprintf("%s.shard%d", outp, sh), ""
			os.Remove(so)
			if texts != "" {
				st = fmt.Sprintf("%s.shard%d", texts, sh)
				os.Remove(st)
			}
			after, deaths := 0, 0
			var crashed []scLine
			for {
				a := append([]string{"scenconfig"}, args...)
				a = append(a, "-out", so, "-shard", fmt.Sprint(sh), "-of", fmt.Sprint(workers), "-after", fmt.Sprint(after))
				if st != "" {
					a = append(a, "-texts", st)
				}
				cmd := exec.Command(os.Args[0], a...)
				var stderr bytes.Buffer
				cmd.Stderr = &stderr
				err := cmd.Run()
				if err == nil {
					break
				}
				// which case was the worker at?  the first one of its shard (behind `after`) that it did not write out
				done := map[int]bool{}
				for _, ln := range scReadLines(so) {
					done[ln.ID] = true
				}
				at := 0
				for i := sh; i < len(all); i += workers {
					if all[i].ID > after && !done[all[i].ID] {
						at = i
						break
					}
				}
				deaths++
				if deaths > 25 {
					fmt.Fprintf(os.Stderr, "scenconfig: worker %d keeps dying: %v\n%s\n", sh, err, scTail(stderr.String(), 3000))
					os.Exit(3)
				}
				msg := "the process died while the front-end handled this case: " + scFirstLine(stderr.String())
				ln := scLine{ID: all[at].ID, Key: all[at].Key, Out: map[string]scfOut{}, Fs: map[string]string{}}
				for _, s := range scStyles[:4] {
					ln.Out[s.name] = scfOut{Err: msg}
				}
				crashed = append(crashed, ln)
				after = all[at].ID
			}
			res[sh].lines = append(scReadLines(so), crashed...)
			os.Remove(so)
			if st != "" {
				if b, err := os.ReadFile(st); err == nil {
					for _, l := range bytes.Split(b, []byte("\n")) {
						if len(l) > 0 {
							res[sh].texts = append(res[sh].texts, json.RawMessage(append([]byte{}, l...)))
						}
					}
				}
				os.Remove(st)
			}
		}(sh)
	}
	wg.Wait()
	var lines []scLine
	for _, r := range res {
		lines = append(lines, r.lines...)
	}
	sort.Slice(lines, func(i, j int) bool { return lines[i].ID < lines[j].ID })
	w := vt.Create(outp)
	for _, ln := range lines {
		w.Emit(ln)
	}
	w.Close()
	if texts != "" {
		type tl struct {
			ID    int             `json:"id"`
			Texts json.RawMessage `json:"texts"`
		}
		var ts []tl
		for _, r := range res {
			for _, raw := range r.texts {
				var t tl
				if err := json.Unmarshal(raw, &t); err != nil {
					panic(err)
				}
				ts = append(ts, t)
			}
		}
		sort.Slice(ts, func(i, j int) bool { return ts[i].ID < ts[j].ID })
		tw := vt.Create(texts)
		for _, t := range ts {
			tw.Emit(t)
		}
		tw.Close()
	}
}

func scReadLines(path string) []scLine {
	b, err := os.ReadFile(path)
	if err != nil {
		return nil
	}
	var out []scLine
	for _, l := range bytes.Split(b, []byte("\n")) {
		if len(l) == 0 {
			continue
		}
		var ln scLine
		if err := json.Unmarshal(l, &ln); err != nil {
			continue // a line cut short by the death of the worker
		}
		out = append(out, ln)
	}
	return out
}

func scFirstLine(s string) string {
	for _, l := range strings.Split(s, "\n") {
		if strings.TrimSpace(l) != "" {
			return scTail(l, 300)
		}
	}
	return "(no message)"
}

func scTail(s string, n int) string {
	if len(s) > n {
		return s[len(s)-n:]
	}
	return s
}

func scOne(fs afero.Fs, wk, id int, c scCase) (scLine, map[string]string) {
	line := scLine{ID: id, Key: c.Key, Out: map[string]scfOut{}, Fs: map[string]string{}}
	rendered := map[string]string{}
	full := map[string]scfOut{}
	for i, st := range scStyles {
		if (id+scSeed())%st.every != st.phase {
			continue
		}
		// the conveniences rotate with the seed and the case number
		text := st.render(c.Desc, 7*scSeed()+id)
		rendered[st.name] = text
		// the way the file system delivers the bytes rotates over styles, cases and seeds
		mode := (id + 3*scSeed() + i) % fsModes
		line.Fs[st.name] = fsModeNames[mode]
		o := scRun(fs, c.Desc.Kind, fmt.Sprintf("/case%d/fs%d/%s.%s", wk, mode, st.name, st.ext), text)
		full[st.name] = o
		line.Out[st.name] = o
		for _, prev := range scStyles[:i] {
			if p, ok := full[prev.name]; ok && reflect.DeepEqual(p, o) {
				line.Out[st.name] = scfOut{Same: prev.name}
				break
			}
		}
	}
	return line, rendered
}
