package main

// C17 driver, overlapping decodes (`vdrive confdecode -mode conc`, built with -race by the check).
// After the config file is read pandora keeps decoding: factories made from plain plugin constructors decode their
// section for every product, and every pool runs in its own goroutine.  G goroutines therefore decode DIFFERENT plugin
// sections of the variants of ConfigDecode.tla at the same time (different struct types, and the same type with
// different values), many times:
//   how = decode  : config.Decode({comp: section}, &engine.InstancePoolConfig{}) - the real hook chain, the registry,
//                   pluginconfig.parseConf -> config.DecodeAndValidate of the component config,
//   how = factory : the pool's rps factory taken from the decoded whole configuration, called concurrently,
//   kind = real   : the real rps factories of two pools (real constructors), Left() of every product.
// There is no synchronisation between the goroutines while they run; statistics are goroutine-local.
// The driver records the distinct value vectors read back per section; TraceConfigDecodeConc.tla decides.

import (
	"fmt"
	"os"
	"sort"
	"strings"
	"sync"

	"github.com/yandex/pandora/cli"
	"github.com/yandex/pandora/core"
	"github.com/yandex/pandora/core/config"
	"github.com/yandex/pandora/core/engine"
	"github.com/yandex/pandora/core/plugin"

	"verifharness/internal/vt"
)

type ccJob struct {
	how, v string
	pre    []string
	leaf   []int      // 1-based indices into the variant's leaf list
	paths  [][]string // their paths
	run    func(round int) (map[string]string, error)
}

type ccStat struct {
	n, nerr int
	vectors map[string][]string
	err     string
}

func subtree(tree map[string]interface{}, p []string) interface{} {
	var cur interface{} = tree
	for _, k := range p {
		switch x := cur.(type) {
		case map[string]interface{}:
			cur = x[k]
		case []interface{}:
			i := 0
			fmt.Sscanf(k, "#%d", &i)
			cur = x[i-1]
		default:
			return nil
		}
	}
	return cur
}

func confdecodeConc(vars map[string]*cdVariant, e *cdEnv, out string, goroutines, rounds int) {
	w := vt.Create(out)
	defer w.Close()
	names := []string{}
	for n := range vars {
		names = append(names, n)
	}
	sort.Strings(names)

	// sequential warm-up: every variant decodes, hooks are compiled, validator caches are filled
	plugin.SetDefaultRegistry(e.recReg)
	whole := map[string]*cli.CliConfig{}
	trees := map[string]map[string]interface{}{}
	for _, n := range names {
		trees[n] = build(vars[n].full, nil, nil, e.props)
		conf := cli.DefaultConfig()
		if err := config.DecodeAndValidate(shapeMap(trees[n], "viper"), conf); err != nil {
			// the documented configuration itself is rejected: recorded as a failed decode of the whole variant
			fmt.Fprintln(os.Stderr, "conc: base configuration rejected:", n, err)
			w.Emit(map[string]interface{}{"kind": "section", "how": "decode", "v": n, "pre": []string{}, "leaf": []int{},
				"n": 1, "nerr": 1, "vectors": [][]string{}, "err": oneLine(err.Error())})
			delete(trees, n)
			continue
		}
		whole[n] = conf
	}
	kept := names[:0]
	for _, n := range names {
		if trees[n] != nil {
			kept = append(kept, n)
		}
	}
	names = kept

	var jobs []*ccJob
	for _, n := range names {
		v := vars[n]
		for pi := 1; pi <= 2; pi++ {
			for _, comp := range []string{"gun", "ammo", "result", "rps", "startup"} {
				pre := []string{"pools", fmt.Sprintf("#%d", pi), comp}
				section := subtree(trees[n], pre)
				if section == nil {
					continue
				}
				j := &ccJob{how: "decode", v: n, pre: pre, leaf: []int{}, paths: [][]string{}}
				for i, p := range v.leaves {
					if hasPrefix(p, pre) {
						j.leaf = append(j.leaf, i+1)
						j.paths = append(j.paths, p)
					}
				}
				comp, poolPath := comp, pre[:2]
				j.run = func(round int) (map[string]string, error) {
					shape := "viper"
					if round%2 == 1 {
						shape = "yaml"
					}
					holder := &engine.InstancePoolConfig{}
					if err := config.Decode(shapeMap(map[string]interface{}{comp: section}, shape), holder); err != nil {
						return nil, err
					}
					wk := newCdWalker()
					wk.walk(reflectValue(holder), poolPath)
					return wk.vals, wk.err
				}
				jobs = append(jobs, j)
				if comp == "rps" {
					f := &ccJob{how: "factory", v: n, pre: pre, leaf: j.leaf, paths: j.paths}
					newRPS := whole[n].Engine.Pools[pi-1].NewRPSSchedule
					f.run = func(int) (map[string]string, error) {
						s, err := newRPS()
						if err != nil {
							return nil, err
						}
						wk := newCdWalker()
						var iface core.Schedule = s
						wk.walk(reflectValue(&iface).Elem(), pre)
						return wk.vals, wk.err
					}
					jobs = append(jobs, f)
				}
			}
		}
	}
	stats := runConc(goroutines, rounds, len(jobs), func(job, round int) (string, []string, error) {
		j := jobs[job]
		vals, err := j.run(round)
		if err != nil {
			return "", nil, err
		}
		vec := make([]string, len(j.paths))
		for i, p := range j.paths {
			x, ok := vals[strings.ToLower(strings.Join(p, "\x00"))]
			if !ok {
				x = "<missing>"
			}
			vec[i] = x
		}
		return strings.Join(vec, "\x01"), vec, nil
	})
	for i, j := range jobs {
		st := stats[i]
		vectors := [][]string{}
		keys := []string{}
		for k := range st.vectors {
			keys = append(keys, k)
		}
		sort.Strings(keys)
		for _, k := range keys {
			vectors = append(vectors, st.vectors[k])
		}
		w.Emit(map[string]interface{}{"kind": "section", "how": j.how, "v": j.v, "pre": j.pre, "leaf": j.leaf,
			"n": st.n, "nerr": st.nerr, "vectors": vectors, "err": st.err})
	}

	// the real constructors: rps factories of the two pools of V1 and V2, called at the same time
	plugin.SetDefaultRegistry(e.realReg)
	var facts []func() (core.Schedule, error)
	var where [][]string
	for _, n := range []string{"V1", "V2"} {
		if trees[n] == nil {
			continue
		}
		conf := cli.DefaultConfig()
		if err := config.DecodeAndValidate(shapeMap(trees[n], "viper"), conf); err != nil {
			fmt.Fprintln(os.Stderr, "conc: base configuration rejected by the real constructors:", n, err)
			w.Emit(map[string]interface{}{"kind": "real", "v": n, "pre": []string{}, "n": 1, "nerr": 1, "lefts": []string{}, "err": oneLine(err.Error())})
			continue
		}
		for pi, p := range conf.Engine.Pools {
			facts = append(facts, p.NewRPSSchedule)
			where = append(where, []string{n, "pools", fmt.Sprintf("#%d", pi+1), "rps"})
		}
	}
	rstats := runConc(goroutines, rounds, len(facts), func(job, round int) (string, []string, error) {
		s, err := facts[job]()
		if err != nil {
			return "", nil, err
		}
		l := fmt.Sprint(s.Left())
		return l, []string{l}, nil
	})
	for i := range facts {
		lefts := []string{}
		for k := range rstats[i].vectors {
			lefts = append(lefts, k)
		}
		sort.Strings(lefts)
		w.Emit(map[string]interface{}{"kind": "real", "v": where[i][0], "pre": where[i][1:], "n": rstats[i].n, "nerr": rstats[i].nerr,
			"lefts": lefts, "err": rstats[i].err})
	}
	plugin.SetDefaultRegistry(e.realReg)
}

// runConc: G goroutines, each walks the jobs from its own offset; no synchronisation while they run.
func runConc(goroutines, rounds, njobs int, do func(job, round int) (string, []string, error)) []ccStat {
	per := make([][]ccStat, goroutines)
	var start, finished sync.WaitGroup
	start.Add(1)
	finished.Add(goroutines)
	for g := 0; g < goroutines; g++ {
		per[g] = make([]ccStat, njobs)
		for i := range per[g] {
			per[g][i].vectors = map[string][]string{}
		}
		go func(g int) {
			defer finished.Done()
			start.Wait()
			for r := 0; r < rounds*njobs; r++ {
				job := (g*7 + r) % njobs
				st := &per[g][job]
				func() {
					defer func() {
						if x := recover(); x != nil {
							st.nerr++
							st.err = oneLine(fmt.Sprint("panic: ", x))
						}
					}()
					st.n++
					key, vec, err := do(job, r)
					if err != nil {
						st.nerr++
						st.err = oneLine(err.Error())
						return
					}
					st.vectors[key] = vec
				}()
			}
		}(g)
	}
	start.Done()
	finished.Wait()
	out := make([]ccStat, njobs)
	for i := range out {
		out[i].vectors = map[string][]string{}
		for g := range per {
			out[i].n += per[g][i].n
			out[i].nerr += per[g][i].nerr
			if per[g][i].err != "" {
				out[i].err = per[g][i].err
			}
			for k, v := range per[g][i].vectors {
				out[i].vectors[k] = v
			}
		}
	}
	return out
}
