// vdrive scenario: C15, spec -> code.  Reads the cases TLC generated from ScenarioMC (abstract scenario
// description + target script), renders each description to the YAML (or HCL) payload format, builds the
// REAL http/scenario provider and the REAL http/scenario gun through the registered factories (config
// decoding as the CLI does), runs a real engine (one instance, `once` schedule with `shots` tokens) against a
// scripted in-process target and records what happened: the target's ordered request log, the samples the
// gun reported, the scenario names the provider hands out.  Nothing is decided here: TraceScenario.tla
// compares with Expected(case).
package main

import (
	"context"
	"flag"
	"fmt"
	"os"
	"path/filepath"
	"sort"
	"strings"
	"sync"
	"sync/atomic"
	"syscall"
	"time"

	"github.com/spf13/afero"
	"github.com/yandex/pandora/cli"
	grpcscenario "github.com/yandex/pandora/components/guns/grpc/scenario"
	httpscenario "github.com/yandex/pandora/components/guns/http_scenario"
	"github.com/yandex/pandora/core"
	"github.com/yandex/pandora/core/aggregator/netsample"
	"github.com/yandex/pandora/core/config"
	"github.com/yandex/pandora/core/engine"
	"github.com/yandex/pandora/lib/monitoring"
	"go.uber.org/zap"
	"gopkg.in/yaml.v2"

	grpcimport "github.com/yandex/pandora/components/grpc/import"
	phttpimport "github.com/yandex/pandora/components/phttp/import"
	coreimport "github.com/yandex/pandora/core/import"

	"verifharness/internal/scentarget"
	"verifharness/internal/vt"
)

func init() {
	register("scenario", scenarioMain)
}

var scnImportOnce sync.Once

func importAll() {
	scnImportOnce.Do(func() {
		var lim syscall.Rlimit
		if syscall.Getrlimit(syscall.RLIMIT_NOFILE, &lim) == nil && lim.Cur < lim.Max {
			lim.Cur = lim.Max
			_ = syscall.Setrlimit(syscall.RLIMIT_NOFILE, &lim)
		}
		fs := afero.NewOsFs()
		coreimport.Import(fs)
		phttpimport.Import(fs)
		grpcimport.Import(fs)
	})
}

// ---------------------------------------------------------------- recording aggregator

type obsSample struct {
	Sc    string `json:"sc"`
	Step  string `json:"step"`
	Proto int    `json:"proto"`
	Err   bool   `json:"err"`
	Empty bool   `json:"empty"`
	Tags  string `json:"tags"`
	ErrS  string `json:"errs,omitempty"`
}

type scnRecAggregator struct {
	mu      sync.Mutex
	samples []obsSample
}

func (a *scnRecAggregator) Run(ctx context.Context, _ core.AggregatorDeps) error {
	<-ctx.Done()
	return nil
}

func (a *scnRecAggregator) Report(s core.Sample) {
	ns, ok := s.(*netsample.Sample)
	if !ok {
		panic(fmt.Sprintf("unexpected sample type %T", s))
	}
	o := obsSample{Tags: ns.Tags(), Proto: ns.ProtoCode(), Err: ns.Err() != nil}
	if ns.Err() != nil {
		o.ErrS = ns.Err().Error()
		if len(o.ErrS) > 160 {
			o.ErrS = o.ErrS[:160]
		}
	}
	parts := strings.Split(o.Tags, "|")
	for _, p := range parts[1:] {
		if p == "__EMPTY__" {
			o.Empty = true
		}
	}
	if i := strings.Index(parts[0], "."); i >= 0 {
		o.Sc, o.Step = parts[0][:i], parts[0][i+1:]
	} else {
		o.Sc = parts[0]
	}
	a.mu.Lock()
	a.samples = append(a.samples, o)
	a.mu.Unlock()
}

func (a *scnRecAggregator) Samples() []obsSample {
	a.mu.Lock()
	defer a.mu.Unlock()
	return append([]obsSample{}, a.samples...)
}

func nopMetrics() engine.Metrics {
	return engine.Metrics{
		Request:        &monitoring.Counter{},
		Response:       &monitoring.Counter{},
		InstanceStart:  &monitoring.Counter{},
		InstanceFinish: &monitoring.Counter{},
	}
}

// ---------------------------------------------------------------- renderer: abstract description -> payload

func ref(use map[string]interface{}) string {
	switch vt.Str(use["src"]) {
	case "pre":
		return "{{.request." + vt.Str(use["of"]) + ".preprocessor.row}}"
	case "post":
		return "{{.request." + vt.Str(use["of"]) + ".postprocessor.tok}}"
	case "ghost":
		return "{{.request.zz.postprocessor.tok}}"
	case "bad":
		return "{{.source.users.id}}"
	}
	return ""
}

// pathExpr renders a PATH of spec/Scenario.tla (an indexable list of one of the data sources) with an index expression:
// users, items: file/csv sources; buyers, sellers: lists of the nested file/json source `market`; vlist, glist: lists of
// strings of the `variables` source `vars` (top level / nested)
func pathExpr(path, index string) string {
	switch path {
	case "buyers", "sellers":
		return "source.market." + path + ".users[" + index + "].id"
	case "vlist":
		return "source.vars.list[" + index + "]"
	case "glist":
		return "source.vars.grp.list[" + index + "]"
	}
	return "source." + path + "[" + index + "].id"
}

func preMapping(pre map[string]interface{}, idx int) string {
	switch vt.Str(pre["k"]) {
	case "next":
		return pathExpr(vt.Str(pre["of"]), "next")
	case "last":
		return pathExpr(vt.Str(pre["of"]), "last")
	case "rand":
		return pathExpr(vt.Str(pre["of"]), "rand")
	case "idx":
		return pathExpr(vt.Str(pre["of"]), fmt.Sprint(idx))
	case "from":
		return "request." + vt.Str(pre["of"]) + ".postprocessor.tok"
	case "missing":
		return "source.ghost[next].id"
	}
	return ""
}

func itemString(it map[string]interface{}, variant int) string {
	if vt.Str(it["k"]) == "sleep" {
		return fmt.Sprintf("sleep(%d)", vt.Int(it["sl"]))
	}
	name, n, sl := vt.Str(it["name"]), vt.Int(it["n"]), vt.Int(it["sl"])
	switch {
	case sl > 0 && variant%2 == 0:
		return fmt.Sprintf("%s(%d, %d)", name, n, sl)
	case sl > 0:
		return fmt.Sprintf("%s(%d,%d)", name, n, sl)
	case n == 1 && variant%2 == 0:
		return name
	default:
		return fmt.Sprintf("%s(%d)", name, n)
	}
}

func sortedNames(m map[string]interface{}) []string {
	out := []string{}
	for k := range m {
		out = append(out, k)
	}
	sort.Strings(out)
	return out
}

type reqRender struct {
	name, method, uri, body, capKind string
	headers                          [][2]string
	pre                              string
	assert                           bool
}

func renderReq(name string, d map[string]interface{}, idx int) reqRender {
	r := reqRender{name: name, method: "GET", uri: "/" + name, capKind: vt.Str(d["cap"]), assert: vt.Bool(d["assert"])}
	r.headers = [][2]string{{"X-Req", name}, {"X-Cap", r.capKind}}
	use := vt.Map(d["use"])
	switch vt.Str(use["at"]) {
	case "uri":
		r.uri += "?v=" + ref(use)
	case "hdr":
		r.headers = append(r.headers, [2]string{"X-Val", ref(use)})
	case "body":
		r.method, r.body = "POST", "v="+ref(use)
	case "hurl": // a header that is called "url"
		r.headers = append(r.headers, [2]string{"url", ref(use)})
	case "hbody": // a header that is called "body", next to a literal body
		r.headers = append(r.headers, [2]string{"body", ref(use)})
		r.method, r.body = "POST", "lit=1"
	}
	r.pre = preMapping(vt.Map(d["pre"]), idx)
	return r
}

// sourcesYAML: the variable_sources section (lengths of the lists: spec/Scenario.tla PathRows)
func sourcesYAML(dir string) string {
	var b strings.Builder
	b.WriteString("variable_sources:\n")
	for _, s := range []string{"users", "items"} {
		fmt.Fprintf(&b, "  - type: file/csv\n    name: %s\n    file: %s\n    fields: [id]\n", s, filepath.Join(dir, s+".csv"))
	}
	fmt.Fprintf(&b, "  - type: file/json\n    name: market\n    file: %s\n", filepath.Join(dir, "market.json"))
	b.WriteString("  - type: variables\n    name: vars\n    variables:\n      list: [v0, v1]\n      grp:\n        list: [w0, w1, w2]\n")
	return b.String()
}

func writeSources(dir string, rows int, special bool) {
	var mj strings.Builder // nested file/json source: {"buyers": {"users": [rows+1 x {"id": "b<i>"}]}, "sellers": {"users": [rows x ...]}}
	mj.WriteString(`{"buyers": {"users": [`)
	for i := 0; i <= rows; i++ {
		if i > 0 {
			mj.WriteString(", ")
		}
		fmt.Fprintf(&mj, `{"id": "b%d"}`, i)
	}
	mj.WriteString(`]}, "sellers": {"users": [`)
	for i := 0; i < rows; i++ {
		if i > 0 {
			mj.WriteString(", ")
		}
		fmt.Fprintf(&mj, `{"id": "s%d"}`, i)
	}
	mj.WriteString("]}}\n")
	if err := os.WriteFile(filepath.Join(dir, "market.json"), []byte(mj.String()), 0o644); err != nil {
		panic(err)
	}
	for _, s := range [][2]string{{"users", "r"}, {"items", "q"}} {
		var b strings.Builder
		for i := 0; i < rows; i++ {
			if special && s[0] == "users" { // values html/template escapes
				fmt.Fprintf(&b, "%s%d<\n", s[1], i)
				continue
			}
			fmt.Fprintf(&b, "%s%d\n", s[1], i)
		}
		if err := os.WriteFile(filepath.Join(dir, s[0]+".csv"), []byte(b.String()), 0o644); err != nil {
			panic(err)
		}
	}
}

func scnRenderYAML(c map[string]interface{}, dir string) string {
	var b strings.Builder
	id := vt.Int(c["id"])
	b.WriteString(sourcesYAML(dir))
	b.WriteString("requests:\n")
	reqs := vt.Map(c["reqs"])
	for _, name := range sortedNames(reqs) {
		r := renderReq(name, vt.Map(reqs[name]), vt.Int(c["idx"]))
		fmt.Fprintf(&b, "  - name: %s\n    method: %s\n    uri: '%s'\n    headers:\n", r.name, r.method, r.uri)
		for _, h := range r.headers {
			fmt.Fprintf(&b, "      %s: '%s'\n", h[0], h[1])
		}
		if r.body != "" {
			fmt.Fprintf(&b, "    body: '%s'\n", r.body)
		}
		if vt.Str(c["tmpl"]) == "html" {
			b.WriteString("    templater:\n      type: html\n")
		}
		if r.pre != "" {
			fmt.Fprintf(&b, "    preprocessor:\n      mapping:\n        row: %s\n", r.pre)
		}
		if r.capKind != "none" || r.assert {
			b.WriteString("    postprocessors:\n")
			switch r.capKind {
			case "json":
				b.WriteString("      - type: var/jsonpath\n        mapping:\n          tok: $.tok\n")
			case "jsonnum":
				b.WriteString("      - type: var/jsonpath\n        mapping:\n          tok: $.num\n")
			case "hdr":
				b.WriteString("      - type: var/header\n        mapping:\n          tok: X-Tok\n")
			case "xpath":
				b.WriteString("      - type: var/xpath\n        mapping:\n          tok: \"//div[@id='tok']\"\n")
			}
			if r.assert {
				b.WriteString("      - type: assert/response\n        status_code: 200\n")
			}
		}
	}
	b.WriteString("scenarios:\n")
	for _, s := range vt.List(c["scens"]) {
		sc := vt.Map(s)
		b.WriteString(scenYAML(sc, id))
	}
	return b.String()
}

// scenYAML: one entry of the scenarios section (a scenario without requests is written as an empty list)
func scenYAML(sc map[string]interface{}, id int) string {
	var b strings.Builder
	fmt.Fprintf(&b, "  - name: %s\n    weight: %d\n    min_waiting_time: %d\n", vt.Str(sc["name"]), vt.Int(sc["weight"]), vt.Int(sc["mwt"]))
	if len(vt.List(sc["items"])) == 0 {
		b.WriteString("    requests: []\n")
		return b.String()
	}
	b.WriteString("    requests:\n")
	for j, it := range vt.List(sc["items"]) {
		fmt.Fprintf(&b, "      - %s\n", itemString(vt.Map(it), id+j))
	}
	return b.String()
}

// usesVarsSource: the case indexes a list of the `variables` source
func usesVarsSource(c map[string]interface{}) bool {
	for _, d := range vt.Map(c["reqs"]) {
		switch vt.Str(vt.Map(vt.Map(d)["pre"])["of"]) {
		case "vlist", "glist":
			return true
		}
	}
	return false
}

func scnRenderHCL(c map[string]interface{}, dir string) string {
	var b strings.Builder
	id := vt.Int(c["id"])
	for _, s := range []string{"users", "items"} {
		fmt.Fprintf(&b, "variable_source \"%s\" \"file/csv\" {\n  file = \"%s\"\n  fields = [\"id\"]\n}\n", s, filepath.Join(dir, s+".csv"))
	}
	fmt.Fprintf(&b, "variable_source \"market\" \"file/json\" {\n  file = \"%s\"\n}\n", filepath.Join(dir, "market.json"))
	// (the HCL format types `variables` as a map of strings: the lists of the `vars` source cannot be written in it;
	// cases that index them are rendered through YAML only, see usesVarsSource)
	reqs := vt.Map(c["reqs"])
	for _, name := range sortedNames(reqs) {
		r := renderReq(name, vt.Map(reqs[name]), vt.Int(c["idx"]))
		fmt.Fprintf(&b, "request \"%s\" {\n  method = \"%s\"\n  uri = \"%s\"\n  headers = {\n", r.name, r.method, r.uri)
		for _, h := range r.headers {
			fmt.Fprintf(&b, "    %s = \"%s\"\n", h[0], h[1])
		}
		b.WriteString("  }\n")
		if r.body != "" {
			fmt.Fprintf(&b, "  body = \"%s\"\n", r.body)
		}
		if r.pre != "" {
			fmt.Fprintf(&b, "  preprocessor {\n    mapping = {\n      row = \"%s\"\n    }\n  }\n", r.pre)
		}
		if vt.Str(c["tmpl"]) == "html" {
			b.WriteString("  templater {\n    type = \"html\"\n  }\n")
		}
		switch r.capKind {
		case "json":
			b.WriteString("  postprocessor \"var/jsonpath\" {\n    mapping = {\n      tok = \"$.tok\"\n    }\n  }\n")
		case "jsonnum":
			b.WriteString("  postprocessor \"var/jsonpath\" {\n    mapping = {\n      tok = \"$.num\"\n    }\n  }\n")
		case "hdr":
			b.WriteString("  postprocessor \"var/header\" {\n    mapping = {\n      tok = \"X-Tok\"\n    }\n  }\n")
		case "xpath":
			b.WriteString("  postprocessor \"var/xpath\" {\n    mapping = {\n      tok = \"//div[@id='tok']\"\n    }\n  }\n")
		}
		if r.assert {
			b.WriteString("  postprocessor \"assert/response\" {\n    status_code = 200\n  }\n")
		}
		b.WriteString("}\n")
	}
	for _, s := range vt.List(c["scens"]) {
		sc := vt.Map(s)
		fmt.Fprintf(&b, "scenario \"%s\" {\n  weight = %d\n  min_waiting_time = %d\n  requests = [\n", vt.Str(sc["name"]), vt.Int(sc["weight"]), vt.Int(sc["mwt"]))
		for j, it := range vt.List(sc["items"]) {
			fmt.Fprintf(&b, "    \"%s\",\n", itemString(vt.Map(it), id+j))
		}
		b.WriteString("  ]\n}\n")
	}
	return b.String()
}

// stringKeyed converts yaml.v2's map[interface{}]interface{} into the nested map[string]interface{} viper yields
func stringKeyed(v interface{}) interface{} {
	switch x := v.(type) {
	case map[interface{}]interface{}:
		m := map[string]interface{}{}
		for k, vv := range x {
			m[fmt.Sprint(k)] = stringKeyed(vv)
		}
		return m
	case map[string]interface{}:
		for k, vv := range x {
			x[k] = stringKeyed(vv)
		}
		return x
	case []interface{}:
		for i := range x {
			x[i] = stringKeyed(x[i])
		}
		return x
	}
	return v
}

// buildEngineConf decodes a pandora config (YAML text) exactly like the CLI / the acceptance tests do.
func buildEngineConf(text string, viperShape bool) (*cli.CliConfig, error) {
	mapCfg := map[string]interface{}{}
	if err := yaml.Unmarshal([]byte(text), &mapCfg); err != nil {
		return nil, err
	}
	if viperShape {
		mapCfg = stringKeyed(mapCfg).(map[string]interface{})
	}
	conf := cli.DefaultConfig()
	if err := config.DecodeAndValidate(mapCfg, conf); err != nil {
		return nil, err
	}
	return conf, nil
}

func poolYAML(id, gunType, ammoType, ammoFile, target string, shots, instances int, gunExtra string) string {
	return fmt.Sprintf(`pools:
  - id: "%s"
    ammo:
      type: %s
      file: %s
    result:
      type: discard
    gun:
      type: %s
      target: %s
%s    rps:
      - type: once
        times: %d
    startup:
      - type: once
        times: %d
`, id, ammoType, ammoFile, gunType, target, gunExtra, shots, instances)
}

// ---------------------------------------------------------------- first-access contention (M1)
//
// spinBarrier lets n goroutines leave at (almost) the same instant: the last one to arrive opens the gate, the others
// spin on it.  Nobody waits longer than 200 ms (then the run simply is less contended; nothing is decided from timing).
type spinBarrier struct {
	n       int32
	arrived atomic.Int32
}

func (b *spinBarrier) wait() {
	if b.arrived.Add(1) >= b.n {
		return
	}
	deadline := time.Now().Add(200 * time.Millisecond)
	for i := 0; b.arrived.Load() < b.n; i++ {
		if i&0xfff == 0xfff && time.Now().After(deadline) {
			return
		}
	}
}

// barrierPreprocessor sits in front of the REAL preprocessor of one step (through the gun's pluggable Preprocessor
// interface): the instances meet at the barrier and then all call the real Process - i.e. the real, shared
// NextIterator - together.
type barrierPreprocessor struct {
	real httpscenario.Preprocessor
	bar  *spinBarrier
}

func (p *barrierPreprocessor) Process(templateVars map[string]any) (map[string]any, error) {
	p.bar.wait()
	return p.real.Process(templateVars)
}

// barrierProvider wraps the REAL scenario provider: every ammo it hands out gets, per step, the barrier in front of the
// step's real preprocessor (one barrier per step position, shared by all instances; every instance fires one shot).
type barrierProvider struct {
	core.Provider
	mu   sync.Mutex
	bars []*spinBarrier
	n    int
}

func (p *barrierProvider) Acquire() (core.Ammo, bool) {
	a, ok := p.Provider.Acquire()
	if !ok {
		return a, ok
	}
	sc := a.(*httpscenario.Scenario)
	reqs := make([]httpscenario.Request, len(sc.Requests))
	copy(reqs, sc.Requests)
	p.mu.Lock()
	for len(p.bars) < len(reqs) {
		p.bars = append(p.bars, &spinBarrier{n: int32(p.n)})
	}
	p.mu.Unlock()
	for i := range reqs {
		if reqs[i].Preprocessor != nil {
			reqs[i].Preprocessor = &barrierPreprocessor{real: reqs[i].Preprocessor, bar: p.bars[i]}
		}
	}
	sc.Requests = reqs
	return sc, true
}

// obsStep / obsScen: a scenario as the REAL provider expanded it (what the gun is handed): the steps in order, each with
// the pause that follows it, and min_waiting_time (whole milliseconds)
type obsStep struct {
	Name  string `json:"name"`
	Sleep int    `json:"sleep"`
}
type obsScen struct {
	Sc    string    `json:"sc"`
	Mwt   int       `json:"mwt"`
	Steps []obsStep `json:"steps"`
}

// obsSpan: one ammo between Acquire and Release at the provider (whole milliseconds, monotonic clock, rounded DOWN)
type obsSpan struct {
	Sc string `json:"sc"`
	Ms int    `json:"ms"`
}

// spanProvider wraps the REAL provider and records, per ammo, the time between its Acquire and its Release (the instance
// releases an ammo when Shoot has returned)
type spanProvider struct {
	core.Provider
	mu    sync.Mutex
	start map[core.Ammo]time.Time
	spans []obsSpan
}

func ammoName(a core.Ammo) string {
	switch x := a.(type) {
	case *httpscenario.Scenario:
		return x.Name
	case *grpcscenario.Scenario:
		return x.Name
	}
	return ""
}

func (p *spanProvider) Acquire() (core.Ammo, bool) {
	a, ok := p.Provider.Acquire()
	if ok {
		p.mu.Lock()
		p.start[a] = time.Now()
		p.mu.Unlock()
	}
	return a, ok
}

func (p *spanProvider) Release(a core.Ammo) {
	now := time.Now()
	p.mu.Lock()
	if t0, ok := p.start[a]; ok {
		delete(p.start, a)
		p.spans = append(p.spans, obsSpan{Sc: ammoName(a), Ms: int(now.Sub(t0) / time.Millisecond)})
	}
	p.mu.Unlock()
	p.Provider.Release(a)
}

type caseObs struct {
	Log      []scentarget.Entry `json:"log"`
	Samples  []obsSample        `json:"samples"`
	Ring     []string           `json:"ring"`
	Steps    []obsScen          `json:"steps"`
	Spans    []obsSpan          `json:"spans"`
	BuildErr string             `json:"build_err"`
	RunErr   string             `json:"run_err"`
	Format   string             `json:"format"`
}

func scnRunEngine(conf *cli.CliConfig, agg core.Aggregator, timeout time.Duration) string {
	conf.Engine.Pools[0].Aggregator = agg
	return runEngineWith(engine.New(zap.NewNop(), nopMetrics(), conf.Engine), timeout)
}

func runEngineWith(eng *engine.Engine, timeout time.Duration) string {
	ctx, cancel := context.WithTimeout(context.Background(), timeout)
	defer cancel()
	err := eng.Run(ctx)
	cancel()
	waited := make(chan struct{})
	go func() { eng.Wait(); close(waited) }()
	select {
	case <-waited:
	case <-time.After(20 * time.Second):
		if err == nil {
			return "engine.Wait did not return within 20s after a nil Run result"
		}
	}
	if err != nil {
		return err.Error()
	}
	return ""
}

// ringOf asks a fresh real provider for its first n ammo and returns the scenario names and, per scenario (in order of
// first appearance), the expanded steps
func ringOf(payload string, n int, kind string) ([]string, []obsScen, error) {
	conf, err := buildEngineConf(poolYAML("ring", kind, kind, payload, "127.0.0.1:1", 1, 1, ""), false)
	if err != nil {
		return nil, nil, err
	}
	p := conf.Engine.Pools[0].Provider
	ctx, cancel := context.WithCancel(context.Background())
	done := make(chan struct{})
	go func() { _ = p.Run(ctx, core.ProviderDeps{Log: zap.NewNop(), PoolID: "ring"}); close(done) }()
	out := []string{}
	scens := []obsScen{}
	seen := map[string]bool{}
	for i := 0; i < n; i++ {
		a, ok := p.Acquire()
		if !ok {
			break
		}
		o := obsScen{Steps: []obsStep{}}
		switch x := a.(type) {
		case *httpscenario.Scenario:
			o.Sc, o.Mwt = x.Name, int(x.MinWaitingTime/time.Millisecond)
			for _, r := range x.Requests {
				o.Steps = append(o.Steps, obsStep{Name: r.Name, Sleep: int(r.Sleep / time.Millisecond)})
			}
		case *grpcscenario.Scenario:
			o.Sc, o.Mwt = x.Name, int(x.MinWaitingTime/time.Millisecond)
			for _, r := range x.Calls {
				o.Steps = append(o.Steps, obsStep{Name: r.Name, Sleep: int(r.Sleep / time.Millisecond)})
			}
		}
		out = append(out, o.Sc)
		if !seen[o.Sc] {
			seen[o.Sc] = true
			scens = append(scens, o)
		}
		p.Release(a)
	}
	cancel()
	<-done
	return out, scens, nil
}

// scnTargets: the scripted targets of one worker (the gRPC one is started when the first grpc case comes along)
type scnTargets struct {
	http *scentarget.Target
	grpc *scentarget.GrpcFlowTarget
}

func (t *scnTargets) close() {
	t.http.Close()
	if t.grpc != nil {
		t.grpc.Close()
	}
}

func runCase(c map[string]interface{}, tgts *scnTargets, root string, hcl bool, instances int, spin bool, tag string) caseObs {
	id := vt.Int(c["id"])
	dir := filepath.Join(root, fmt.Sprintf("c%d%s", id, tag))
	if err := os.MkdirAll(dir, 0o755); err != nil {
		panic(err)
	}
	defer os.RemoveAll(dir)
	writeSources(dir, vt.Int(c["rows"]), vt.Bool(c["special"]))
	obs := caseObs{Log: []scentarget.Entry{}, Samples: []obsSample{}, Ring: []string{}, Steps: []obsScen{}, Spans: []obsSpan{}, Format: "yaml"}
	tgt := tgts.http
	payload := filepath.Join(dir, "payload.yaml")
	text := scnRenderYAML(c, dir)
	kind, addr := "http/scenario", tgt.Addr()
	script := scentarget.Script{Kind: vt.Str(vt.Map(c["script"])["kind"]), At: vt.Int(vt.Map(c["script"])["at"])}
	if vt.Str(c["gun"]) == "grpc" {
		if tgts.grpc == nil {
			tgts.grpc = scentarget.NewGrpcFlowTarget()
		}
		hcl, kind, addr, text = false, "grpc/scenario", tgts.grpc.Addr(), scnRenderGrpcYAML(c, dir)
		tgts.grpc.ResetCase(script)
	}
	if hcl && usesVarsSource(c) {
		hcl = false
	}
	if hcl {
		payload, text, obs.Format = filepath.Join(dir, "payload.hcl"), scnRenderHCL(c, dir), "hcl"
	}
	if err := os.WriteFile(payload, []byte(text), 0o644); err != nil {
		panic(err)
	}
	tgt.Reset(script)
	pool := poolYAML(fmt.Sprintf("c%d", id), kind, kind, payload, addr, vt.Int(c["shots"]), instances, "")
	conf, err := buildEngineConf(pool, id%2 == 1)
	if err != nil {
		obs.BuildErr = err.Error()
		return obs
	}
	if spin {
		conf.Engine.Pools[0].Provider = &barrierProvider{Provider: conf.Engine.Pools[0].Provider, n: instances}
	}
	sp := &spanProvider{Provider: conf.Engine.Pools[0].Provider, start: map[core.Ammo]time.Time{}}
	conf.Engine.Pools[0].Provider = sp
	agg := &scnRecAggregator{}
	obs.RunErr = scnRunEngine(conf, agg, 120*time.Second)
	sp.mu.Lock()
	obs.Spans = append(obs.Spans, sp.spans...)
	sp.mu.Unlock()
	obs.Log = tgt.Log()
	if kind == "grpc/scenario" {
		obs.Log = tgts.grpc.Log()
	}
	obs.Samples = agg.Samples()
	tgt.DropConns()
	ring, scens, err := ringOf(payload, 30, kind)
	if err != nil {
		obs.BuildErr = "ring: " + err.Error()
	} else {
		obs.Ring, obs.Steps = ring, scens
	}
	return obs
}

func scenarioMain(args []string) {
	fs := flag.NewFlagSet("scenario", flag.ExitOnError)
	in := fs.String("in", "", "cases (ndjson, from TLC)")
	out := fs.String("out", "", "observations (ndjson)")
	workers := fs.Int("workers", 8, "parallel cases (one target each)")
	inst := fs.Int("instances", 1, "instances (1 for the deterministic replay; > 1 for the [next] sharing runs)")
	hclEvery := fs.Int("hcl-every", 0, "render every n-th case through HCL instead of YAML (0 = never)")
	spin := fs.Bool("spin-barrier", false, "first-access contention runs: the instances (one shot each) meet at a spin barrier in front of every step's real preprocessor")
	repeat := fs.Int("repeat", 1, "run every case this many times (each with a fresh provider / iterator)")
	fs.Parse(args)
	importAll()
	cases0 := vt.ReadNDJSON(*in)
	cases := []map[string]interface{}{}
	for r := 0; r < *repeat; r++ {
		cases = append(cases, cases0...)
	}
	w := vt.Create(*out)
	defer w.Close()
	root, err := os.MkdirTemp("", "verif-scen-")
	if err != nil {
		panic(err)
	}
	defer os.RemoveAll(root)
	results := make([]caseObs, len(cases))
	var wg sync.WaitGroup
	next := make(chan int)
	for i := 0; i < *workers; i++ {
		wg.Add(1)
		go func() {
			defer wg.Done()
			tgt := &scnTargets{http: scentarget.NewTarget()}
			defer tgt.close()
			for j := range next {
				results[j] = runCase(cases[j], tgt, root, *hclEvery > 0 && j%*hclEvery == 0, *inst, *spin, fmt.Sprintf("_%d", j))
			}
		}()
	}
	for j := range cases {
		next <- j
	}
	close(next)
	wg.Wait()
	// a case that hit the driver's own time limit (normal: milliseconds) is repeated once, alone
	for j := range cases {
		if strings.Contains(results[j].RunErr, "context deadline exceeded") {
			tgt := &scnTargets{http: scentarget.NewTarget()}
			results[j] = runCase(cases[j], tgt, root, results[j].Format == "hcl", *inst, *spin, fmt.Sprintf("_%dr", j))
			tgt.close()
		}
	}
	for j := range cases {
		w.Emit(map[string]interface{}{"case": cases[j], "obs": results[j], "inst": *inst})
	}
}
