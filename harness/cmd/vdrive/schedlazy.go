package main

// C02 M1, lazy-start family: a doAt schedule that is never Start()ed starts itself on the first Next().
// Many short trials: G goroutines are released together on a fresh once(n) schedule and drain it; every
// instant they get back is recorded.  The driver only records (per trial: how many tokens, how many
// DISTINCT instants among tokens and finish times, and how far the earliest/latest instant lies inside the
// trial's own wall-clock window); TraceLazyStart.tla decides: a once(n) profile releases all its tokens at
// ONE start instant, which is also its finish instant, and that instant is taken during the trial.

import (
	"flag"
	"fmt"
	"sync"
	"sync/atomic"
	"time"

	"github.com/yandex/pandora/core/schedule"

	"verifharness/internal/vt"
)

func init() { register("schedlazy", schedLazyMain) }

type slTrial struct {
	LeftEnd int `json:"leftend"` // once trials: Left() after every goroutine saw the end
	LeftNeg int `json:"leftneg"` // unlimited trials: Left() answers that were negative
	LeftAll int `json:"leftall"` // unlimited trials: Left() calls made
	Ok    int   `json:"ok"`    // tokens handed out
	End   int   `json:"end"`   // calls that returned !ok
	Dist  int   `json:"dist"`  // distinct instants among tokens and finish times
	LoNeg bool  `json:"loneg"` // earliest instant lies before the trial began
	Lo    []int `json:"lo"`    // earliest instant - wall clock before the trial (ns, limbs)
	HiNeg bool  `json:"hineg"` // latest instant lies after the trial ended
	Hi    []int `json:"hi"`    // wall clock after the trial - latest instant
}

type slBatch struct {
	Ev     string    `json:"ev"`
	Kind   string    `json:"kind"` // "once": once(n) drained; "unl": unlimited(1h), half the goroutines read Left()
	N      int       `json:"n"`
	G      int       `json:"g"`
	Trials []slTrial `json:"trials"`
}

func schedLazyMain(args []string) {
	fs := flag.NewFlagSet("schedlazy", flag.ExitOnError)
	out := fs.String("out", "", "trace")
	trials := fs.Int("trials", 200000, "trials")
	_ = fs.Parse(args)
	w := vt.Create(*out)
	defer w.Close()
	const G = 8
	batch := slBatch{Ev: "lazy", G: G}
	for tr := 0; tr < *trials; tr++ {
		n := 1 + (tr/1000)%6
		kind := "once"
		if (tr/1000)%3 == 2 {
			kind = "unl"
		}
		if (batch.N != n || batch.Kind != kind) && len(batch.Trials) > 0 || len(batch.Trials) == 1000 {
			w.Emit(batch)
			batch = slBatch{Ev: "lazy", G: G}
		}
		batch.N, batch.Kind = n, kind
		if kind == "unl" {
			batch.Trials = append(batch.Trials, unlTrial(G))
			continue
		}
		s := schedule.NewOnce(int64(n))
		var gate int32
		var wg sync.WaitGroup
		res := make([][]time.Time, G)
		oks := make([]int, G)
		before := time.Now()
		for g := 0; g < G; g++ {
			g := g
			wg.Add(1)
			go func() {
				defer wg.Done()
				for atomic.LoadInt32(&gate) == 0 {
				}
				for {
					t, ok := s.Next()
					res[g] = append(res[g], t)
					if !ok {
						return
					}
					oks[g]++
				}
			}()
		}
		atomic.StoreInt32(&gate, 1)
		wg.Wait()
		after := time.Now()
		t := slTrial{LeftEnd: s.Left()}
		seen := map[int64]bool{}
		var lo, hi time.Time
		first := true
		for g := 0; g < G; g++ {
			t.Ok += oks[g]
			t.End += len(res[g]) - oks[g]
			for _, x := range res[g] {
				seen[x.UnixNano()] = true
				if first || x.Before(lo) {
					lo = x
				}
				if first || x.After(hi) {
					hi = x
				}
				first = false
			}
		}
		t.Dist = len(seen)
		if d := lo.Sub(before); d < 0 {
			t.LoNeg, t.Lo = true, []int{}
		} else {
			t.Lo = vt.Limbs(int64(d))
		}
		if d := after.Sub(hi); d < 0 {
			t.HiNeg, t.Hi = true, []int{}
		} else {
			t.Hi = vt.Limbs(int64(d))
		}
		batch.Trials = append(batch.Trials, t)
	}
	if len(batch.Trials) > 0 {
		w.Emit(batch)
	}
	fmt.Printf("{\"trials\":%d}\n", *trials)
}

// unlTrial: a fresh unlimited(1h) schedule that is never Start()ed; half of the goroutines call Next() once, the other
// half read Left() a few times, all released together.  Recorded: how many Left() answers were negative, how many
// tokens, and how far the earliest/latest token lies inside the trial's wall-clock window.
func unlTrial(G int) slTrial {
	s := schedule.NewUnlimited(time.Hour)
	var gate int32
	var wg sync.WaitGroup
	toks := make([]time.Time, G)
	oks := make([]bool, G)
	negs := make([]int, G)
	alls := make([]int, G)
	before := time.Now()
	for g := 0; g < G; g++ {
		g := g
		wg.Add(1)
		go func() {
			defer wg.Done()
			for atomic.LoadInt32(&gate) == 0 {
			}
			if g%2 == 0 {
				toks[g], oks[g] = s.Next()
				return
			}
			for i := 0; i < 4; i++ {
				alls[g]++
				if s.Left() < 0 {
					negs[g]++
				}
			}
		}()
	}
	atomic.StoreInt32(&gate, 1)
	wg.Wait()
	after := time.Now()
	t := slTrial{Dist: 1}
	var lo, hi time.Time
	first := true
	for g := 0; g < G; g++ {
		t.LeftNeg += negs[g]
		t.LeftAll += alls[g]
		if g%2 != 0 {
			continue
		}
		if oks[g] {
			t.Ok++
		} else {
			t.End++
		}
		if first || toks[g].Before(lo) {
			lo = toks[g]
		}
		if first || toks[g].After(hi) {
			hi = toks[g]
		}
		first = false
	}
	if d := lo.Sub(before); d < 0 {
		t.LoNeg, t.Lo = true, []int{}
	} else {
		t.Lo = vt.Limbs(int64(d))
	}
	if d := after.Sub(hi); d < 0 {
		t.HiNeg, t.Hi = true, []int{}
	} else {
		t.Hi = vt.Limbs(int64(d))
	}
	return t
}
