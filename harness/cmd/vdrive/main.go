// vdrive: conformance drivers.  `vdrive <subcommand> [flags]`.  One sub-command per
// property family; each writes NDJSON traces of what the real pandora code did, or consumes a
// TLC-generated case file and records the observable result of every case.
package main

import (
	"fmt"
	"os"
	"sort"
)

var commands = map[string]func(args []string){}

func register(name string, f func(args []string)) { commands[name] = f }

func main() {
	if len(os.Args) < 2 || commands[os.Args[1]] == nil {
		names := []string{}
		for n := range commands {
			names = append(names, n)
		}
		sort.Strings(names)
		fmt.Fprintln(os.Stderr, "usage: vdrive <cmd> ...; commands:", names)
		os.Exit(2)
	}
	commands[os.Args[1]](os.Args[2:])
}
