package main

// C03 / C12 driver: runs the REAL engine.Engine (one instance pool, normal operation) with harness
// mocks of the pluggable interfaces and REAL schedules, and records what happened:
//
//   core.Provider    bounded counting provider (queue filled by its Run goroutine, closed on
//                    exhaustion); logs every Acquire / Release under its own mutex
//   core.Gun         Shoot sleeps a seeded 0..3 ms, reports one sample; logs begin / end with the item;
//                    Bind logs (creation instant, InstanceID); Close logs the end of the instance
//   core.Aggregator  logs discarded samples (tag "discarded", net code 777) and ordinary ones
//   core.Schedule    logging wrappers around the real RPS schedule(s) and the real startup schedule;
//                    the inner call and its log entry are one critical section, so the logged order
//                    of Next()/Left() IS the order in which the real schedule served them
//
// Every entry gets its position in one per-run log (a mutex-protected append = a global sequence
// number that extends happens-before).  Provider, schedule, gun and aggregator calls all run on the
// instance's goroutine, so the goroutine id identifies the instance (resolved from the gun's Close
// entry when the run is over).  The driver records; TracePool.tla decides.

import (
	"context"
	"encoding/json"
	"flag"
	"fmt"
	"math/rand"
	"os"
	"strconv"
	"strings"
	"sync"
	"sync/atomic"
	"time"

	"github.com/spf13/afero"
	"github.com/yandex/pandora/core"
	"github.com/yandex/pandora/core/aggregator/netsample"
	"github.com/yandex/pandora/core/config"
	"github.com/yandex/pandora/core/engine"
	coreimport "github.com/yandex/pandora/core/import"
	"github.com/yandex/pandora/core/schedule"
	"github.com/yandex/pandora/lib/monitoring"
	"go.uber.org/zap"

	"verifharness/internal/vt"
)

func init() { register("pool", poolMain) }

// ---------------------------------------------------------------- schedule descriptions

// one simple part in ProfileMath's vocabulary (rates in milli-ops/s, duration in ns)
type plPart struct {
	Kind  string `json:"kind"`
	FromM int    `json:"from_m"`
	ToM   int    `json:"to_m"`
	Step  int    `json:"step"`
	Times int    `json:"times"`
	Dur   []int  `json:"dur"`
	durNs int64
}

// a schedule as the driver builds it: a constructor name + arguments, or a composite of those
type plSched struct {
	Ctor  string // once const line step instance_step composite
	From  float64
	To    float64
	Step  int64
	Times int64
	Dur   time.Duration
	Kids  []plSched
	Typed bool // a composite written as {type: composite, nested: [...]} instead of a plain list
}

func (s plSched) build() core.Schedule {
	switch s.Ctor {
	case "once":
		return schedule.NewOnce(s.Times)
	case "const":
		return schedule.NewConst(s.From, s.Dur)
	case "line":
		return schedule.NewLine(s.From, s.To, s.Dur)
	case "step":
		return schedule.NewStep(s.From, s.To, s.Step, s.Dur)
	case "instance_step":
		return schedule.NewInstanceStep(int64(s.From), int64(s.To), s.Step, s.Dur)
	case "unlimited":
		return schedule.NewUnlimited(s.Dur)
	case "composite":
		var ks []core.Schedule
		for _, k := range s.Kids {
			ks = append(ks, k.build())
		}
		return schedule.NewComposite(ks...)
	}
	panic("ctor " + s.Ctor)
}

// the schedule as it is written in a pandora config (a composite as a plain list: the
// list -> composite hook of core/import is on the path)
func (s plSched) confValue(yamlShape bool) interface{} {
	m := map[string]interface{}{"type": s.Ctor}
	switch s.Ctor {
	case "once":
		m["times"] = s.Times
	case "const":
		m["ops"], m["duration"] = s.From, s.Dur.String()
	case "line":
		m["from"], m["to"], m["duration"] = s.From, s.To, s.Dur.String()
	case "step":
		m["from"], m["to"], m["step"], m["duration"] = s.From, s.To, s.Step, s.Dur.String()
	case "instance_step":
		m["from"], m["to"], m["step"], m["stepduration"] = int64(s.From), int64(s.To), s.Step, s.Dur.String()
	case "unlimited":
		m["duration"] = s.Dur.String()
	case "composite":
		l := []interface{}{}
		for _, k := range s.Kids {
			l = append(l, k.confValue(yamlShape))
		}
		if !s.Typed {
			return l
		}
		m["nested"] = l
	}
	if yamlShape {
		// what yaml.v2 produces (the acceptance tests' path); viper (the CLI path) gives map[string]interface{}
		y := map[interface{}]interface{}{}
		for k, v := range m {
			y[k] = v
		}
		return y
	}
	return m
}

// what config decoding of the pool section gives (the part of engine.InstancePoolConfig under test)
type plDecoded struct {
	Startup         core.Schedule                 `config:"startup" validate:"required"`
	RPS             func() (core.Schedule, error) `config:"rps" validate:"required"`
	RPSPerInstance  bool                          `config:"rps-per-instance"`
	DiscardOverflow bool                          `config:"discard_overflow"`
}

func (c plConf) decode() plDecoded {
	var d plDecoded
	err := config.DecodeAndValidate(map[string]interface{}{
		"startup": c.Startup.confValue(c.YamlShape), "rps": c.RPS.confValue(c.YamlShape),
		"rps-per-instance": c.Per, "discard_overflow": c.Discard}, &d)
	if err != nil {
		panic(fmt.Sprintf("config decode of %s / %s: %v", c.Startup, c.RPS, err))
	}
	return d
}

func plMrate(r float64) int { return int(r*1000 + 0.5) }

// one item of a schedule as it is CONFIGURED (constructor name + arguments).  This is all the
// specification gets: StartupMath.tla says how many tokens the configuration denotes and when.
type plItem struct {
	Ctor  string `json:"ctor"`
	FromM int    `json:"from_m"`
	ToM   int    `json:"to_m"`
	Step  int    `json:"step"`
	Times int    `json:"times"`
	IFrom int    `json:"ifrom"`
	ITo   int    `json:"ito"`
	Dur   []int  `json:"dur"`
	// a composite NESTED in the profile is logged as it is configured (ctor "composite" + its items): that a
	// group is the concatenation of its items, token-less ones included, is StartupMath's statement, not the driver's
	Kids interface{} `json:"kids,omitempty"` // []plItem of a composite, absent otherwise
}

// the profile as a list of items: the items of the top-level list, or the single item
func (s plSched) desc() []plItem {
	if s.Ctor == "composite" {
		return s.kidItems()
	}
	return []plItem{s.item()}
}

func (s plSched) kidItems() []plItem {
	out := []plItem{}
	for _, k := range s.Kids {
		out = append(out, k.item())
	}
	return out
}

func (s plSched) item() plItem {
	if s.Ctor == "composite" {
		return plItem{Ctor: "composite", Dur: vt.Limbs(0), Kids: s.kidItems()}
	}
	it := plItem{Ctor: s.Ctor, Step: int(s.Step), Times: int(s.Times), Dur: vt.Limbs(int64(s.Dur))}
	switch s.Ctor {
	case "const":
		it.FromM, it.ToM = plMrate(s.From), plMrate(s.From)
	case "line", "step":
		it.FromM, it.ToM = plMrate(s.From), plMrate(s.To)
	case "instance_step":
		it.IFrom, it.ITo = int(s.From), int(s.To)
	}
	return it
}

// rough size of a schedule, used by the GENERATOR only (to keep runs small); never logged
func (s plSched) estTokens() int {
	n := 0
	for _, p := range s.parts() {
		if p.Kind == "once" {
			n += p.Times
		} else {
			n += int(float64(p.FromM+p.ToM) / 2000 * float64(p.durNs) / 1e9)
		}
	}
	return n
}

// generator-side expansion into simple parts (estTokens only)
func (s plSched) parts() []plPart {
	mk := func(kind string, from, to float64, step, times int64, d time.Duration) plPart {
		return plPart{Kind: kind, FromM: plMrate(from), ToM: plMrate(to), Step: int(step), Times: int(times),
			Dur: vt.Limbs(int64(d)), durNs: int64(d)}
	}
	switch s.Ctor {
	case "once":
		return []plPart{mk("once", 0, 0, 0, s.Times, 0)}
	case "const":
		return []plPart{mk("const", s.From, s.From, 0, 0, s.Dur)}
	case "line":
		return []plPart{mk("line", s.From, s.To, 0, 0, s.Dur)}
	case "step":
		return []plPart{mk("step", s.From, s.To, s.Step, 0, s.Dur)}
	case "unlimited":
		return nil
	case "instance_step":
		out := []plPart{mk("once", 0, 0, 0, int64(s.From), 0)}
		for i := int64(s.From) + s.Step; i <= int64(s.To); i += s.Step {
			out = append(out, mk("const", 0, 0, 0, 0, s.Dur), mk("once", 0, 0, 0, s.Step, 0))
		}
		return out
	case "composite":
		var out []plPart
		for _, k := range s.Kids {
			out = append(out, k.parts()...)
		}
		return out
	}
	panic("ctor " + s.Ctor)
}

func (s plSched) String() string {
	switch s.Ctor {
	case "once":
		return fmt.Sprintf("once(%d)", s.Times)
	case "const":
		return fmt.Sprintf("const(%g,%s)", s.From, s.Dur)
	case "line":
		return fmt.Sprintf("line(%g,%g,%s)", s.From, s.To, s.Dur)
	case "step":
		return fmt.Sprintf("step(%g,%g,%d,%s)", s.From, s.To, s.Step, s.Dur)
	case "instance_step":
		return fmt.Sprintf("instance_step(%g,%g,%d,%s)", s.From, s.To, s.Step, s.Dur)
	case "unlimited":
		return fmt.Sprintf("unlimited(%s)", s.Dur)
	}
	ks := []string{}
	for _, k := range s.Kids {
		ks = append(ks, k.String())
	}
	if s.Typed {
		return "composite[" + strings.Join(ks, ",") + "]"
	}
	return "[" + strings.Join(ks, ",") + "]"
}

// number of tokens: what a fresh twin reports before its start (how many a profile has is C01's subject)
// -1 when the schedule has an `unlimited` part (length unknown).
func (s plSched) tokens() int {
	if s.hasUnlimited() {
		return -1
	}
	return s.build().Left()
}

// tokens the schedule hands out in any case: those of its parts of known length
func (s plSched) minTokens() int {
	switch s.Ctor {
	case "unlimited":
		return 0
	case "composite":
		n := 0
		for _, k := range s.Kids {
			n += k.minTokens()
		}
		return n
	}
	return s.build().Left()
}

// once(0) exists as a constructor call (and inside instance_step) but not as a config (`times` min=1)
func (s plSched) hasOnceZero() bool {
	if s.Ctor == "once" && s.Times == 0 {
		return true
	}
	for _, k := range s.Kids {
		if k.hasOnceZero() {
			return true
		}
	}
	return false
}

func (s plSched) hasUnlimited() bool {
	if s.Ctor == "unlimited" {
		return true
	}
	for _, k := range s.Kids {
		if k.hasUnlimited() {
			return true
		}
	}
	return false
}

type plConf struct {
	Startup   plSched
	RPS       plSched
	Per       bool
	Discard   bool
	A         int           // ammo items, -1 = unbounded
	ShotMin   time.Duration
	ShotMax   time.Duration // Shoot sleeps a seeded ShotMin..ShotMin+ShotMax
	ProvDelay time.Duration // pause of the provider between two items
	Past      time.Duration // RPS schedules are started this far in the past (provokes discards); 0 = lazy start
	Explicit  bool          // startup schedule started explicitly at its first use (else lazily by Next)
	YamlShape bool          // nested config maps are map[interface{}]interface{} (yaml.v2) instead of viper's
	ViaConf   bool          // schedules, rps-per-instance and discard_overflow come out of pandora's config decoding
	Case      int           // M2: index of the TLC-generated case, -1 otherwise
	Twin      int           // > 0: the engine has a SECOND pool that starts this many instances (ids are numbered per pool)
}

// the gun of the second pool: records the InstanceID it is bound with, counts its shots
type plTwinGun struct {
	mu    *sync.Mutex
	ids   *[]int
	shots *int64
}

func (g *plTwinGun) Bind(_ core.Aggregator, deps core.GunDeps) error {
	g.mu.Lock()
	*g.ids = append(*g.ids, deps.InstanceID)
	g.mu.Unlock()
	return nil
}
func (g *plTwinGun) Shoot(core.Ammo) { atomic.AddInt64(g.shots, 1) }

// ---------------------------------------------------------------- the per-run log

type plEv struct {
	Run  int    `json:"run"`
	Seq  int    `json:"seq"`
	Ev   string `json:"ev"`
	Inst int    `json:"inst"` // pandora InstanceID, -1 = not an instance goroutine
	Item int    `json:"item"`
	N    int    `json:"n"`
	K    int    `json:"k"`
	Sid  int    `json:"sid"`
	Ok   bool   `json:"ok"`
	T    []int  `json:"t"`  // instant, ns since the run's base, limbs
	Rt   []int  `json:"rt"` // startup token: ns since the startup schedule's start, limbs
	g    int64
}

type plRun struct {
	mu   sync.Mutex
	evs  []plEv
	base time.Time
}

func (r *plRun) log(e plEv) {
	e.g = goid()
	if e.T == nil {
		e.T = []int{}
	}
	if e.Rt == nil {
		e.Rt = []int{}
	}
	r.mu.Lock()
	e.Seq = len(r.evs) + 1
	r.evs = append(r.evs, e)
	r.mu.Unlock()
}

func (r *plRun) since(t time.Time) []int {
	d := t.Sub(r.base)
	if d < 0 {
		d = 0
	}
	return vt.Limbs(int64(d))
}

// ---------------------------------------------------------------- mocks

type plAmmo struct{ id int }

type plProvider struct {
	r      *plRun
	a      int
	delay  time.Duration
	mu     sync.Mutex
	cond   *sync.Cond
	avail  int
	made   int
	next   int
	closed bool
}

func (p *plProvider) Run(ctx context.Context, _ core.ProviderDeps) error {
	stop := make(chan struct{})
	defer close(stop)
	go func() {
		select {
		case <-ctx.Done():
			p.mu.Lock()
			p.closed = true
			p.cond.Broadcast()
			p.mu.Unlock()
		case <-stop:
		}
	}()
	for {
		p.mu.Lock()
		for !p.closed && p.avail >= 4 && (p.a < 0 || p.made < p.a) {
			p.cond.Wait()
		}
		if p.closed {
			p.mu.Unlock()
			return nil
		}
		if p.a >= 0 && p.made >= p.a {
			// everything delivered to the queue: close it, as the real providers close their sink
			p.closed = true
			p.cond.Broadcast()
			p.mu.Unlock()
			return nil
		}
		p.made++
		p.avail++
		p.cond.Broadcast()
		p.mu.Unlock()
		if p.delay > 0 {
			select {
			case <-time.After(p.delay):
			case <-ctx.Done():
			}
		}
	}
}

func (p *plProvider) Acquire() (core.Ammo, bool) {
	p.mu.Lock()
	defer p.mu.Unlock()
	for p.avail == 0 && !p.closed {
		p.cond.Wait()
	}
	if p.avail == 0 {
		p.r.log(plEv{Ev: "acq", Item: 0})
		return nil, false
	}
	p.avail--
	p.next++
	p.cond.Broadcast()
	p.r.log(plEv{Ev: "acq", Item: p.next, Ok: true})
	return &plAmmo{id: p.next}, true
}

func (p *plProvider) Release(a core.Ammo) {
	p.mu.Lock()
	defer p.mu.Unlock()
	p.r.log(plEv{Ev: "rel", Item: a.(*plAmmo).id})
}

// plAggregator records every Report and - when real is set - hands the sample on to the REAL phout aggregator, which
// writes its line and returns the sample to netsample's pool (as in a real run: a sample is reused by the next
// Acquire as soon as its line is written, so whoever keeps a reported sample sees it change).
type plAggregator struct {
	r    *plRun
	real netsample.Aggregator
}

func (a *plAggregator) Run(ctx context.Context, deps core.AggregatorDeps) error {
	if a.real != nil {
		return a.real.Run(ctx, deps)
	}
	<-ctx.Done()
	return nil
}

func (a *plAggregator) Report(s core.Sample) {
	ns, ok := s.(*netsample.Sample)
	if !ok {
		a.r.log(plEv{Ev: "rep", N: -1})
		return
	}
	// phout line: ... errno (net code), proto code
	f := strings.Split(strings.TrimSpace(ns.String()), "\t")
	net, _ := strconv.Atoi(f[len(f)-2])
	if ns.Tags() == netsample.DiscardedShootTag {
		a.r.log(plEv{Ev: "discard", N: net})
	} else {
		a.r.log(plEv{Ev: "rep", N: net})
	}
	if a.real != nil {
		a.real.Report(ns)
	}
}

type plGun struct {
	r    *plRun
	rng  *rand.Rand
	max  time.Duration
	min  time.Duration
	aggr core.Aggregator
	id   int
}

func (g *plGun) Bind(aggr core.Aggregator, deps core.GunDeps) error {
	g.aggr = aggr
	g.id = deps.InstanceID
	g.r.log(plEv{Ev: "bind", Inst: deps.InstanceID, T: g.r.since(time.Now())})
	return nil
}

func (g *plGun) Shoot(a core.Ammo) {
	item := a.(*plAmmo).id
	g.r.log(plEv{Ev: "shoot_b", Item: item, K: g.id})
	if g.max > 0 || g.min > 0 {
		time.Sleep(g.min + time.Duration(g.rng.Int63n(int64(g.max)+1)))
	}
	s := netsample.Acquire("shot")
	s.SetProtoCode(200)
	g.aggr.Report(s)
	g.r.log(plEv{Ev: "shoot_e", Item: item, K: g.id})
}

func (g *plGun) Close() error {
	g.r.log(plEv{Ev: "close", K: g.id})
	return nil
}

// logging wrapper around a real schedule
type plSchedule struct {
	r       *plRun
	inner   core.Schedule
	sid     int  // 0 = the shared RPS schedule, i = i-th schedule made by the factory
	startup bool // the startup schedule (events snext), else an RPS schedule (events next / left)
	expl    bool
	mu      sync.Mutex
	k       int
	started bool
	start   time.Time
}

func (s *plSchedule) Start(t time.Time) { s.inner.Start(t) }

func (s *plSchedule) Next() (time.Time, bool) {
	s.mu.Lock()
	defer s.mu.Unlock()
	if s.startup {
		if s.expl && !s.started {
			// same meaning as the lazy start (start = now at the first Next), but the instant is known
			s.start = time.Now()
			s.inner.Start(s.start)
		}
		s.started = true
		t, ok := s.inner.Next()
		e := plEv{Ev: "snext", K: s.k, Ok: ok, T: s.r.since(t)}
		if s.expl {
			d := t.Sub(s.start)
			if d < 0 {
				e.N = -1 // before the start: never
				d = 0
			}
			e.Rt = vt.Limbs(int64(d))
		}
		s.r.log(e)
		s.k++
		return t, ok
	}
	t, ok := s.inner.Next()
	s.r.log(plEv{Ev: "next", Sid: s.sid, Ok: ok})
	return t, ok
}

func (s *plSchedule) Left() int {
	s.mu.Lock()
	defer s.mu.Unlock()
	n := s.inner.Left()
	if !s.startup {
		s.r.log(plEv{Ev: "left", Sid: s.sid, N: n})
	}
	return n
}

// ---------------------------------------------------------------- one run

type plResult struct {
	conf plConf
	evs  []plEv
	end  map[string]interface{}
}

func plRunOne(c plConf, seed int64) plResult {
	r := &plRun{base: time.Now()}
	rng := rand.New(rand.NewSource(seed))
	prov := &plProvider{r: r, a: c.A, delay: c.ProvDelay}
	prov.cond = sync.NewCond(&prov.mu)
	aggr := &plAggregator{r: r}
	// every run with discard_overflow on: the real phout (on a memory file system) behind the recording aggregator
	phFs := afero.NewMemMapFs()
	if c.Discard {
		phc := netsample.DefaultPhoutConfig()
		phc.Destination = "/phout.log"
		real, err := netsample.NewPhout(phFs, phc)
		if err != nil {
			panic(err)
		}
		aggr.real = real
	}
	var gmu sync.Mutex
	nsched := 0
	per, discard := c.Per, c.Discard
	buildRPS := func() (core.Schedule, error) { return c.RPS.build(), nil }
	startupInner := c.Startup.build()
	if c.ViaConf {
		dec := c.decode()
		per, discard, startupInner = dec.RPSPerInstance, dec.DiscardOverflow, dec.Startup
		buildRPS = dec.RPS
	}
	newSched := func() (core.Schedule, error) {
		gmu.Lock()
		defer gmu.Unlock()
		inner, err := buildRPS()
		if err != nil {
			// recorded through Engine.Run's error; the run is then not a normal run
			return nil, err
		}
		if c.Past > 0 {
			// a factory that hands out a schedule object it has handed out before (already started) is the
			// observation, not a failure of the driver: recorded as an event no behaviour of Pool.tla contains
			reused := func() (reused bool) {
				defer func() {
					if p := recover(); p != nil {
						reused = true
					}
				}()
				inner.Start(time.Now().Add(-c.Past))
				return false
			}()
			if reused {
				r.log(plEv{Ev: "sched_reused"})
				return nil, fmt.Errorf("the schedule factory returned a schedule that was already started")
			}
		}
		sid := 0
		if c.Per {
			nsched++
			sid = nsched
		}
		return &plSchedule{r: r, inner: inner, sid: sid}, nil
	}
	newGun := func() (core.Gun, error) {
		gmu.Lock()
		defer gmu.Unlock()
		return &plGun{r: r, rng: rand.New(rand.NewSource(rng.Int63())), max: c.ShotMax, min: c.ShotMin, id: -1}, nil
	}
	m := engine.Metrics{Request: &monitoring.Counter{}, Response: &monitoring.Counter{},
		InstanceStart: &monitoring.Counter{}, InstanceFinish: &monitoring.Counter{}}
	pool := engine.InstancePoolConfig{
		ID:              "p",
		Provider:        prov,
		Aggregator:      aggr,
		NewGun:          newGun,
		RPSPerInstance:  per,
		NewRPSSchedule:  newSched,
		StartupSchedule: &plSchedule{r: r, inner: startupInner, startup: true, expl: c.Explicit},
		DiscardOverflow: discard,
	}
	pools := []engine.InstancePoolConfig{pool}
	var twinMu sync.Mutex
	twinIDs := []int{}
	var twinShots int64
	if c.Twin > 0 {
		// a second pool in the same engine, before or after the recorded one: c.Twin instances at once, one shot
		// each; its mocks record only the ids its guns are bound with and the number of shots
		twin := engine.InstancePoolConfig{
			ID: "q", Provider: &plHotProvider{gate: make(chan struct{}), ammo: &plAmmo{id: 1}}, Aggregator: plHotAggregator{},
			NewGun:          func() (core.Gun, error) { return &plTwinGun{mu: &twinMu, ids: &twinIDs, shots: &twinShots}, nil },
			RPSPerInstance:  true,
			NewRPSSchedule:  func() (core.Schedule, error) { return schedule.NewOnce(1), nil },
			StartupSchedule: schedule.NewOnce(int64(c.Twin)),
		}
		if seed%2 == 0 {
			pools = []engine.InstancePoolConfig{twin, pool}
		} else {
			pools = append(pools, twin)
		}
	}
	eng := engine.New(zap.NewNop(), m, engine.Config{Pools: pools})
	done := make(chan error, 1)
	go func() {
		err := eng.Run(context.Background())
		eng.Wait()
		done <- err
	}()
	errs := ""
	select {
	case err := <-done:
		if err != nil {
			errs = err.Error()
		}
	case <-time.After(90 * time.Second):
		errs = "TIMEOUT: Engine.Run/Wait did not return within 90 s"
	}
	r.mu.Lock()
	evs := append([]plEv(nil), r.evs...)
	r.mu.Unlock()
	// goroutine -> instance: the gun's Close runs on the instance goroutine after instance.Run
	gi := map[int64]int{}
	for _, e := range evs {
		if e.Ev == "close" {
			gi[e.g] = e.K
		}
	}
	acquired, shots, created := 0, 0, 0
	for i := range evs {
		e := &evs[i]
		switch e.Ev {
		case "bind":
			created++
			continue // carries the InstanceID itself (id 0 is bound on the starter goroutine)
		case "snext":
			e.Inst = -1
			continue
		case "acq":
			if e.Ok {
				acquired++
			}
		case "shoot_e", "discard":
			shots++
		}
		if id, ok := gi[e.g]; ok {
			e.Inst = id
		} else {
			e.Inst = -1
		}
	}
	end := map[string]interface{}{"ev": "end", "err": errs,
		"request": vt.Small(int64(m.Request.Get())), "response": vt.Small(int64(m.Response.Get())),
		"inst_start": vt.Small(int64(m.InstanceStart.Get())), "inst_finish": vt.Small(int64(m.InstanceFinish.Get())),
		"created": created, "shots": shots, "acquired": acquired}
	// the other pool of the engine (none: no ids, no shots): the engine's counters are engine-wide
	twinMu.Lock()
	end["twin_ids"], end["twin_shots"] = append([]int{}, twinIDs...), int(atomic.LoadInt64(&twinShots))
	twinMu.Unlock()
	// what the real phout wrote: one line per Report, the discarded ones tagged and coded as such
	end["phout"] = aggr.real != nil
	phLines, phDisc := 0, 0
	if aggr.real != nil {
		b, _ := afero.ReadFile(phFs, "/phout.log")
		for _, ln := range strings.Split(string(b), "\n") {
			f := strings.Split(ln, "\t")
			if len(f) < 12 {
				continue
			}
			phLines++
			if f[1] == netsample.DiscardedShootTag && f[len(f)-2] == "777" {
				phDisc++
			}
		}
	}
	end["ph_lines"], end["ph_disc"] = phLines, phDisc
	return plResult{conf: c, evs: evs, end: end}
}

// ---------------------------------------------------------------- configurations

func plMs(n int) time.Duration { return time.Duration(n) * time.Millisecond }

func plRandRPS(rng *rand.Rand, long bool) plSched {
	dur := func() time.Duration {
		if long {
			return plMs(10 + rng.Intn(190))
		}
		return plMs(5 + rng.Intn(76))
	}
	simple := func() plSched {
		switch rng.Intn(4) {
		case 0:
			return plSched{Ctor: "once", Times: int64(rng.Intn(9))}
		case 1:
			return plSched{Ctor: "const", From: float64(50 + 50*rng.Intn(8)), Dur: dur()}
		case 2:
			f, t := float64(50*rng.Intn(7)), float64(50*rng.Intn(7))
			if f == t {
				t = f + 100
			}
			return plSched{Ctor: "line", From: f, To: t, Dur: dur()}
		}
		f := float64(50 + 50*rng.Intn(3))
		return plSched{Ctor: "step", From: f, To: f + float64(100*(1+rng.Intn(2))), Step: 100, Dur: dur() / 2}
	}
	switch rng.Intn(11) {
	case 0, 1, 2:
		return plSched{Ctor: "once", Times: int64(rng.Intn(13))}
	case 3, 4, 5, 6:
		return simple()
	case 10:
		// a part of unknown length (unlimited) before, between or after parts of known length
		unl := plSched{Ctor: "unlimited", Dur: plMs(2 + rng.Intn(7))}
		fin := func() plSched {
			if rng.Intn(2) == 0 {
				return plSched{Ctor: "once", Times: int64(rng.Intn(5))}
			}
			return plSched{Ctor: "const", From: float64(100 + 100*rng.Intn(4)), Dur: plMs(5 + rng.Intn(16))}
		}
		switch rng.Intn(3) {
		case 0:
			return plSched{Ctor: "composite", Kids: []plSched{fin(), unl}}
		case 1:
			return plSched{Ctor: "composite", Kids: []plSched{unl, fin()}}
		}
		return plSched{Ctor: "composite", Kids: []plSched{fin(), unl, fin()}}
	}
	n := 2 + rng.Intn(2)
	ks := []plSched{}
	for i := 0; i < n; i++ {
		ks = append(ks, simple())
	}
	if rng.Intn(3) == 0 {
		// a group nested in the profile, with a hold trailing / leading in the group
		hold := plSched{Ctor: "const", From: 0, Dur: dur() / 2}
		g := plSched{Ctor: "composite", Typed: rng.Intn(2) == 0}
		if rng.Intn(2) == 0 {
			g.Kids = []plSched{ks[0], hold}
		} else {
			g.Kids = []plSched{hold, ks[0], hold}
		}
		ks[0] = g
	}
	return plSched{Ctor: "composite", Kids: ks}
}

// startup profiles with steps of 20..60 ms (slow) or a few ms (fast)
func plRandStartup(rng *rand.Rand, n int, slow bool) plSched {
	for {
		s := plRandStartup1(rng, n, slow)
		if s.estTokens() <= 12 {
			return s
		}
	}
}

func plRandStartup1(rng *rand.Rand, n int, slow bool) plSched {
	step := plMs(2 + rng.Intn(6))
	cstep := plMs([]int{2, 4, 5, 8}[rng.Intn(4)]) // const parts: 1000/step is an exact rate
	if slow {
		step = plMs(20 + rng.Intn(41))
		cstep = plMs([]int{20, 25, 40, 50}[rng.Intn(4)])
	}
	// instance_step over ALL small parameter triples: from 0..3, to below / equal / above from, (to - from) a
	// multiple of step or not, step larger than to - from
	istep := func() plSched {
		return plSched{Ctor: "instance_step", From: float64(rng.Intn(4)), To: float64(rng.Intn(9)),
			Step: int64(1 + rng.Intn(4)), Dur: step}
	}
	// const with fractional ops and a duration that does not hold a whole number of periods
	fconst := func() plSched {
		if slow {
			return plSched{Ctor: "const", From: []float64{12.5, 33.3, 62.5}[rng.Intn(3)], Dur: plMs(40 + rng.Intn(121))}
		}
		return plSched{Ctor: "const", From: []float64{125.5, 250.7, 412.5}[rng.Intn(3)], Dur: plMs(6 + rng.Intn(15))}
	}
	pause := plSched{Ctor: "const", From: 0, Dur: step}
	switch rng.Intn(10) {
	case 8, 9:
		return plNested(rng, n, step)
	case 0:
		if rng.Intn(10) == 0 {
			return plSched{Ctor: "once", Times: 0} // a startup profile without any token
		}
		return plSched{Ctor: "once", Times: int64(n)}
	case 1:
		// n tokens, one per step
		rate := float64(time.Second) / float64(cstep)
		return plSched{Ctor: "const", From: rate, Dur: time.Duration(n) * cstep}
	case 2, 3:
		return istep()
	case 4:
		return fconst()
	case 5:
		// composites containing instance_step
		ks := []plSched{}
		if rng.Intn(2) == 0 {
			ks = append(ks, plSched{Ctor: "once", Times: int64(rng.Intn(3))})
		}
		ks = append(ks, istep())
		switch rng.Intn(3) {
		case 0:
			ks = append(ks, pause, plSched{Ctor: "once", Times: int64(1 + rng.Intn(2))})
		case 1:
			ks = append(ks, istep())
		}
		return plSched{Ctor: "composite", Kids: ks}
	case 6:
		// empty parts and fractional rates inside a composite
		return plSched{Ctor: "composite", Kids: []plSched{{Ctor: "once", Times: 0}, fconst(), {Ctor: "once", Times: int64(rng.Intn(3))}}}
	}
	a := 1 + rng.Intn(n)
	ks := []plSched{{Ctor: "once", Times: int64(a)}}
	if a < n {
		ks = append(ks, pause, plSched{Ctor: "once", Times: int64(n - a)})
	} else {
		ks = append(ks, pause)
	}
	if rng.Intn(2) == 0 {
		ks = append(ks, plSched{Ctor: "const", From: float64(time.Second) / float64(cstep), Dur: 2 * cstep})
	}
	return plSched{Ctor: "composite", Kids: ks}
}

// composites NESTED in a profile (a list in the list, or `type: composite`), with token-less items - a hold
// (const 0 for d) or a const whose ops * d stays below 1 - trailing, leading or inside a group, at depth 1 or 2,
// followed and preceded by further parts; n tokens in all (n >= 1)
func plNested(rng *rand.Rand, n int, step time.Duration) plSched {
	hold := func() plSched {
		if rng.Intn(4) == 0 {
			return plSched{Ctor: "const", From: 0.4, Dur: step} // 0.4 ops for <= 60 ms: no token
		}
		return plSched{Ctor: "const", From: 0, Dur: step}
	}
	once := func(k int) plSched { return plSched{Ctor: "once", Times: int64(k)} }
	grp := func(ks ...plSched) plSched { return plSched{Ctor: "composite", Kids: ks, Typed: rng.Intn(3) == 0} }
	a := 1 + rng.Intn(n)
	b := n - a
	if b == 0 && a > 1 {
		a, b = a-1, 1
	}
	var ks []plSched
	switch rng.Intn(7) {
	case 0: // trailing hold in a group, parts after it
		ks = []plSched{grp(once(a), hold()), once(b)}
	case 1: // leading hold in a group
		ks = []plSched{once(a), grp(hold(), once(b))}
	case 2: // a group that is nothing but a hold, between parts
		ks = []plSched{once(a), grp(hold()), once(b)}
	case 3: // hold inside a group, and a second group ending with a hold
		ks = []plSched{grp(once(a), hold(), once(b)), grp(once(1), hold()), once(1)}
	case 4: // depth 2: the hold ends the inner group, which ends the outer one
		ks = []plSched{grp(once(a), grp(once(b), hold())), once(1)}
	case 5: // a group ending with two token-less items
		ks = []plSched{grp(once(a), hold(), hold()), once(b), hold()}
	default: // an instance_step in a group with a trailing hold
		ks = []plSched{grp(plSched{Ctor: "instance_step", From: float64(rng.Intn(2)), To: float64(a), Step: 1, Dur: step}, hold()), once(b)}
	}
	return plSched{Ctor: "composite", Kids: ks, Typed: rng.Intn(4) == 0}
}

// C12 groupings enumerated by TLC (spec/StartupGroups.tla, one line {desc, tokens} per profile): rendered as the
// real nested schedule / nested config; run like the enumerated constructors (every instance a one-token profile,
// unbounded ammo: the starter drains the startup schedule, all token instants are compared)
func plGroupConfs(path string, seed int64) []plConf {
	var item func(m map[string]interface{}, rng *rand.Rand) plSched
	list := func(v interface{}, rng *rand.Rand) []plSched {
		ks := []plSched{}
		for _, x := range vt.List(v) {
			ks = append(ks, item(x.(map[string]interface{}), rng))
		}
		return ks
	}
	item = func(m map[string]interface{}, rng *rand.Rand) plSched {
		ns := int64(0)
		mul := int64(1)
		for _, l := range vt.List(m["dur"]) {
			ns += int64(vt.Int(l)) * mul
			mul *= 10000
		}
		switch m["ctor"].(string) {
		case "once":
			return plSched{Ctor: "once", Times: int64(vt.Int(m["times"]))}
		case "const":
			return plSched{Ctor: "const", From: float64(vt.Int(m["from_m"])) / 1000, Dur: time.Duration(ns)}
		case "composite":
			return plSched{Ctor: "composite", Kids: list(m["kids"], rng), Typed: rng.Intn(3) == 0}
		}
		panic(fmt.Sprintf("groups: item %v", m))
	}
	var out []plConf
	for i, m := range vt.ReadNDJSON(path) {
		rng := rand.New(rand.NewSource(seed*104729 + int64(i)))
		st := plSched{Ctor: "composite", Kids: list(m["desc"], rng), Typed: rng.Intn(4) == 0}
		c := plConf{Case: -1, Startup: st, RPS: plSched{Ctor: "once", Times: 1}, Per: true, A: -1,
			Explicit: rng.Intn(8) != 0, ShotMax: time.Duration(i%2) * 300 * time.Microsecond}
		c.ViaConf = rng.Intn(2) == 0
		c.YamlShape = rng.Intn(2) == 0
		if rng.Intn(3) == 0 {
			c.Twin = 1 + rng.Intn(3)
		}
		out = append(out, c)
	}
	return out
}

// C12: the complete small parameter space of the startup constructors, one run each.  Every instance owns a
// one-token profile and the ammo is unbounded, so nothing cuts the start short: the starter drains the startup
// schedule and the number and the instants of ALL its tokens are compared with StartupMath's.
func plEnumStartupConfs(seed int64) []plConf {
	var out []plConf
	add := func(st plSched) {
		i := len(out)
		c := plConf{Case: -1, Startup: st, RPS: plSched{Ctor: "once", Times: 1}, Per: true, A: -1,
			Explicit: i%4 != 3, ShotMax: time.Duration(i%2) * 300 * time.Microsecond}
		c.ViaConf = (int64(i)+seed)%3 == 0 && !st.hasOnceZero()
		c.YamlShape = (int64(i)+seed)%2 == 0
		if i%4 == 1 {
			c.Twin = 1 + i%3
		}
		out = append(out, c)
	}
	pause := plSched{Ctor: "const", From: 0, Dur: plMs(3)}
	i := 0
	for from := 0; from <= 3; from++ {
		for to := 0; to <= 8; to++ {
			for step := 1; step <= 4; step++ {
				is := plSched{Ctor: "instance_step", From: float64(from), To: float64(to), Step: int64(step), Dur: plMs(2 + (i+int(seed))%3)}
				switch (i + int(seed)) % 4 {
				case 1:
					add(plSched{Ctor: "composite", Kids: []plSched{{Ctor: "once", Times: 1}, is}})
				case 2:
					add(plSched{Ctor: "composite", Kids: []plSched{is, pause, {Ctor: "once", Times: 1}}})
				default:
					add(is)
				}
				i++
			}
		}
	}
	for _, ops := range []float64{125.5, 250.7, 333.3, 412.5, 500, 0.4, 0} {
		for _, d := range []int{6, 9, 10, 13, 20} {
			add(plSched{Ctor: "const", From: ops, Dur: plMs(d)})
		}
	}
	// bursts: many startup tokens released back to back (ids must still be 0..n-1, each once)
	add(plSched{Ctor: "once", Times: 8})
	add(plSched{Ctor: "once", Times: 12})
	add(plSched{Ctor: "composite", Kids: []plSched{{Ctor: "once", Times: 4}, pause, {Ctor: "once", Times: 6}}})
	add(plSched{Ctor: "instance_step", From: 4, To: 12, Step: 4, Dur: plMs(3)})
	for k := 0; k <= 4; k++ {
		add(plSched{Ctor: "once", Times: int64(k)})
		add(plSched{Ctor: "composite", Kids: []plSched{{Ctor: "once", Times: 0}, pause, {Ctor: "once", Times: int64(k)}}})
	}
	return out
}

// PoolSched binding: a shared two-part composite of once / unlimited parts (exact token counts, the composite's
// shift and retry paths), 1..4 instances started at once
func plSchedConf(rng *rand.Rand) plConf {
	c := plConf{Case: -1}
	c.Startup = plSched{Ctor: "once", Times: int64(1 + rng.Intn(4))}
	unl := plSched{Ctor: "unlimited", Dur: plMs(2 + rng.Intn(5))}
	once := func(max int) plSched { return plSched{Ctor: "once", Times: int64(rng.Intn(max + 1))} }
	switch rng.Intn(5) {
	case 0, 1:
		c.RPS = plSched{Ctor: "composite", Kids: []plSched{once(5), once(5)}}
	case 2, 3:
		c.RPS = plSched{Ctor: "composite", Kids: []plSched{once(5), unl}}
	default:
		c.RPS = plSched{Ctor: "composite", Kids: []plSched{unl, once(4)}}
	}
	c.Discard = rng.Intn(2) == 0
	c.ShotMax = time.Duration(rng.Intn(3)) * time.Millisecond
	if c.RPS.hasUnlimited() {
		c.ShotMin = 300 * time.Microsecond
	} else if c.Discard && rng.Intn(2) == 0 {
		c.Past = 2*time.Second - plMs(2) + plMs(rng.Intn(4))
	}
	if rng.Intn(3) == 0 {
		c.ProvDelay = time.Duration(rng.Intn(500)) * time.Microsecond
	}
	t := c.RPS.minTokens()
	switch rng.Intn(3) {
	case 0:
		c.A = -1
	default:
		c.A = rng.Intn(t + 4)
	}
	return c
}

// the RPS schedule as PoolSched's two-part tree, when it is one
func (c plConf) schedTree() []map[string]interface{} {
	out := []map[string]interface{}{}
	if c.RPS.Ctor != "composite" || len(c.RPS.Kids) != 2 || c.Per {
		return out
	}
	for _, k := range c.RPS.Kids {
		switch k.Ctor {
		case "once":
			out = append(out, map[string]interface{}{"kind": "doat", "n": int(k.Times)})
		case "unlimited":
			out = append(out, map[string]interface{}{"kind": "unl", "n": 0})
		default:
			return []map[string]interface{}{}
		}
	}
	return out
}

func plRandConf(rng *rand.Rand, focus string) plConf {
	n := 1 + rng.Intn(8)
	c := plConf{Case: -1}
	c.Per = rng.Intn(2) == 0
	c.Discard = rng.Intn(2) == 0
	c.Explicit = rng.Intn(2) == 0
	c.ViaConf = rng.Intn(3) == 0
	c.YamlShape = rng.Intn(2) == 0
	c.ShotMax = time.Duration(rng.Intn(4)) * time.Millisecond
	if rng.Intn(3) == 0 {
		c.ProvDelay = time.Duration(rng.Intn(800)) * time.Microsecond
	}
	if focus == "c12" {
		// mostly 20..60 ms steps; some profiles with steps of a few ms (tokens closer than timer granularity)
		c.Startup = plRandStartup(rng, n, rng.Intn(4) != 0)
		c.RPS = plRandRPS(rng, true)
	} else {
		c.Startup = plRandStartup(rng, n, rng.Intn(4) == 0)
		c.RPS = plRandRPS(rng, false)
	}
	if c.Discard && rng.Intn(3) != 0 {
		// some tokens are already >= 2 s late when they are drawn, some are not
		c.Past = 2*time.Second - plMs(40) + plMs(rng.Intn(80))
	}
	if c.Startup.hasOnceZero() || c.RPS.hasOnceZero() {
		c.ViaConf = false
	}
	t := c.RPS.tokens()
	if c.RPS.hasUnlimited() {
		// tokens as fast as they are asked for: keep every shot >= 0.3 ms so the log stays small
		c.ShotMin = 300 * time.Microsecond
		c.Past = 0
		t = c.RPS.minTokens() + 20
	}
	tot := t
	if c.Per {
		tot = t * c.Startup.tokens()
	}
	switch rng.Intn(4) {
	case 0:
		c.A = -1
	case 1:
		c.A = rng.Intn(tot + 4)
	case 2:
		c.A = rng.Intn(t + 4)
	default:
		c.A = tot + rng.Intn(4) - 1
		if c.A < 0 {
			c.A = 0
		}
	}
	if focus == "c12" && rng.Intn(4) == 0 {
		c.Twin = 1 + rng.Intn(4)
	}
	return c
}

// M2: a configuration enumerated by TLC (PoolMC!Matrix): once(n) startup, t tokens, a items
func plCaseConf(rng *rand.Rand, m map[string]interface{}, idx int) plConf {
	t := vt.Int(m["t"])
	if t < 0 {
		return plCaseConfUnknown(rng, m, idx)
	}
	c := plConf{Case: idx, Per: vt.Bool(m["per"]), Discard: vt.Bool(m["discard"]), A: vt.Int(m["a"])}
	// startup token instants in ticks (1 tick = 15 ms): equal ticks = once(count), gaps = pauses
	var ks []plSched
	prev, cnt := 0, 0
	flush := func() {
		if cnt > 0 {
			ks = append(ks, plSched{Ctor: "once", Times: int64(cnt)})
		}
		cnt = 0
	}
	for _, x := range vt.List(m["startup"]) {
		tick := vt.Int(x)
		if tick != prev {
			flush()
			ks = append(ks, plSched{Ctor: "const", From: 0, Dur: plMs(15 * (tick - prev))})
			prev = tick
		}
		cnt++
	}
	flush()
	grouping := rand.New(rand.NewSource(rng.Int63() + 1)) // own stream: the other choices stay as they were
	if len(ks) == 1 {
		c.Startup = ks[0]
	} else {
		// the same profile written flat, or with every pause grouped with the part before it / after it
		var gs []plSched
		switch mode := grouping.Intn(3); {
		case mode == 1:
			for i := 0; i < len(ks); i++ {
				if i+1 < len(ks) && ks[i].Ctor == "once" && ks[i+1].Ctor == "const" {
					gs = append(gs, plSched{Ctor: "composite", Kids: []plSched{ks[i], ks[i+1]}, Typed: grouping.Intn(2) == 0})
					i++
				} else {
					gs = append(gs, ks[i])
				}
			}
		case mode == 2:
			for i := 0; i < len(ks); i++ {
				if i+1 < len(ks) && ks[i].Ctor == "const" && ks[i+1].Ctor == "once" {
					gs = append(gs, plSched{Ctor: "composite", Kids: []plSched{ks[i], ks[i+1]}, Typed: grouping.Intn(2) == 0})
					i++
				} else {
					gs = append(gs, ks[i])
				}
			}
		default:
			gs = ks
		}
		c.Startup = plSched{Ctor: "composite", Kids: gs}
		c.Explicit = grouping.Intn(2) == 0
		c.ViaConf = grouping.Intn(3) == 0
		c.YamlShape = grouping.Intn(2) == 0
	}
	if c.Startup.tokens() != vt.Int(m["n"]) {
		panic(fmt.Sprintf("case %d: rendered startup %s has %d tokens", idx, c.Startup, c.Startup.tokens()))
	}
	switch rng.Intn(3) {
	case 0:
		c.RPS = plSched{Ctor: "once", Times: int64(t)}
	case 1:
		// t tokens, one per 2 ms
		c.RPS = plSched{Ctor: "const", From: 500, Dur: plMs(2 * t)}
		if t == 0 {
			c.RPS = plSched{Ctor: "const", From: 0, Dur: plMs(3)}
		}
	default:
		c.RPS = plSched{Ctor: "composite", Kids: []plSched{{Ctor: "once", Times: int64(t / 2)},
			{Ctor: "const", From: 0, Dur: plMs(2)}, {Ctor: "once", Times: int64(t - t/2)}}}
	}
	if c.RPS.tokens() != t {
		panic(fmt.Sprintf("case %d: rendered profile %s has %d tokens, want %d", idx, c.RPS, c.RPS.tokens(), t))
	}
	c.ShotMax = time.Duration(rng.Intn(3)) * time.Millisecond
	if c.Discard && rng.Intn(2) == 0 {
		c.Past = 2*time.Second - plMs(3) + plMs(rng.Intn(6))
	}
	if rng.Intn(3) == 0 {
		c.ProvDelay = time.Duration(rng.Intn(500)) * time.Microsecond
	}
	if c.Startup.hasOnceZero() || c.RPS.hasOnceZero() {
		c.ViaConf = false // once(0) exists as a constructor call, not as a config (`times` min=1)
	}
	return c
}

func plCaseConfUnknown(rng *rand.Rand, m map[string]interface{}, idx int) plConf {
	mm := map[string]interface{}{}
	for k, v := range m {
		mm[k] = v
	}
	tmin := vt.Int(m["tmin"])
	mm["t"] = tmin
	c := plCaseConf(rng, mm, idx) // startup, ammo, modes
	unl := plSched{Ctor: "unlimited", Dur: plMs(2 + rng.Intn(3))}
	fin := plSched{Ctor: "once", Times: int64(tmin)}
	if rng.Intn(2) == 0 {
		c.RPS = plSched{Ctor: "composite", Kids: []plSched{fin, unl}}
	} else {
		c.RPS = plSched{Ctor: "composite", Kids: []plSched{unl, fin}}
	}
	c.Past = 0
	c.ShotMin = 300 * time.Microsecond
	if c.RPS.hasOnceZero() {
		c.ViaConf = false
	}
	return c
}

// ---------------------------------------------------------------- high-contention runs
//
// C03's counter clause ("Request = Response = fired") under real contention: 8 instances race through a shared
// profile with very many tokens that are all due at once; nothing on the hot path sleeps, locks or logs (the gun
// counts its own shots in a field of its own, the provider hands out one preallocated ammo and counts with two
// atomics, the aggregator drops the sample, the real schedule is used without the logging wrapper).  The first
// Acquire of every instance is a barrier, so the instances really run at the same time even on a busy machine.
// One summary entry per run; TracePool's T_Hot applies the end-of-run rules to it.

type plHotProvider struct {
	n        int32
	arrived  int32
	gate     chan struct{}
	acquired int64
	released int64
	ammo     *plAmmo
}

func (p *plHotProvider) Run(ctx context.Context, _ core.ProviderDeps) error {
	<-ctx.Done()
	return nil
}

func (p *plHotProvider) Acquire() (core.Ammo, bool) {
	if atomic.LoadInt32(&p.arrived) < p.n {
		if atomic.AddInt32(&p.arrived, 1) == p.n {
			close(p.gate)
		}
		select {
		case <-p.gate:
		case <-time.After(5 * time.Second): // fewer instances than planned: do not hang
		}
	}
	atomic.AddInt64(&p.acquired, 1)
	return p.ammo, true
}

func (p *plHotProvider) Release(core.Ammo) { atomic.AddInt64(&p.released, 1) }

type plHotAggregator struct{}

func (plHotAggregator) Run(ctx context.Context, _ core.AggregatorDeps) error { <-ctx.Done(); return nil }
func (plHotAggregator) Report(core.Sample)                                  {}

type plHotGun struct {
	shots int64 // written by the owning instance only, read after the run
	bound int32
	_pad  [48]byte
}

func (g *plHotGun) Bind(core.Aggregator, core.GunDeps) error { g.bound = 1; return nil }
func (g *plHotGun) Shoot(core.Ammo)                        { g.shots++ }

func plRunHot(run, n, tokens int) map[string]interface{} {
	prov := &plHotProvider{n: int32(n), gate: make(chan struct{}), ammo: &plAmmo{id: 1}}
	var gmu sync.Mutex
	var guns []*plHotGun
	m := engine.Metrics{Request: &monitoring.Counter{}, Response: &monitoring.Counter{},
		InstanceStart: &monitoring.Counter{}, InstanceFinish: &monitoring.Counter{}}
	shared := schedule.NewOnce(int64(tokens))
	pool := engine.InstancePoolConfig{
		ID: "hot", Provider: prov, Aggregator: plHotAggregator{},
		NewGun: func() (core.Gun, error) {
			g := &plHotGun{}
			gmu.Lock()
			guns = append(guns, g)
			gmu.Unlock()
			return g, nil
		},
		NewRPSSchedule:  func() (core.Schedule, error) { return shared, nil },
		StartupSchedule: schedule.NewOnce(int64(n)),
	}
	eng := engine.New(zap.NewNop(), m, engine.Config{Pools: []engine.InstancePoolConfig{pool}})
	done := make(chan error, 1)
	go func() {
		err := eng.Run(context.Background())
		eng.Wait()
		done <- err
	}()
	errs := ""
	select {
	case err := <-done:
		if err != nil {
			errs = err.Error()
		}
	case <-time.After(120 * time.Second):
		errs = "TIMEOUT: Engine.Run/Wait did not return within 120 s"
	}
	fired, created := int64(0), 0
	gmu.Lock()
	for _, g := range guns {
		fired += g.shots
		if g.bound == 1 {
			created++
		}
	}
	gmu.Unlock()
	return map[string]interface{}{"run": run, "seq": 0, "ev": "hot", "err": errs,
		"n": n, "t": tokens, "created": created, "fired": vt.Small(fired),
		"acquired": vt.Small(atomic.LoadInt64(&prov.acquired)), "released": vt.Small(atomic.LoadInt64(&prov.released)),
		"request": vt.Small(m.Request.Get()), "response": vt.Small(m.Response.Get()),
		"inst_start": vt.Small(m.InstanceStart.Get()), "inst_finish": vt.Small(m.InstanceFinish.Get()),
		"desc": fmt.Sprintf("hot: startup=once(%d) rps=once(%d) shared, unbounded ammo, gun returns at once", n, tokens)}
}

// ---------------------------------------------------------------- main

func poolMain(args []string) {
	fs := flag.NewFlagSet("pool", flag.ExitOnError)
	out := fs.String("out", "", "NDJSON trace file")
	runs := fs.Int("runs", 100, "number of random configurations")
	focus := fs.String("focus", "c03", "c03 | c12: which part of the configuration space is emphasised")
	cases := fs.String("cases", "", "NDJSON file of TLC-generated configurations (M2) instead of random ones")
	rep := fs.Int("rep", 1, "repetitions of every case")
	par := fs.Int("par", 6, "runs in parallel")
	hot := fs.Int("hot", 0, "high-contention runs (8 instances, one shared profile of -hottokens tokens due at once), after the others")
	hotTokens := fs.Int("hottokens", 400000, "tokens of a high-contention run")
	groups := fs.String("groups", "", "NDJSON file of TLC-enumerated nested startup profiles (StartupGroups.tla) instead of random ones")
	fs.Parse(args)
	seed := vt.Seed()
	coreimport.Import(afero.NewMemMapFs())
	var confs []plConf
	if *cases != "" {
		cs := vt.ReadNDJSON(*cases)
		for i, m := range cs {
			for k := 0; k < *rep; k++ {
				rng := rand.New(rand.NewSource(seed*7919 + int64(i)*131 + int64(k)))
				confs = append(confs, plCaseConf(rng, m, i))
			}
		}
	} else if *groups != "" {
		confs = plGroupConfs(*groups, seed)
	} else if *focus == "c12enum" {
		confs = plEnumStartupConfs(seed)
	} else if *focus == "c03sched" {
		for i := 0; i < *runs; i++ {
			confs = append(confs, plSchedConf(rand.New(rand.NewSource(seed*1000033+int64(i)))))
		}
	} else {
		for i := 0; i < *runs; i++ {
			rng := rand.New(rand.NewSource(seed*1000003 + int64(i)))
			confs = append(confs, plRandConf(rng, *focus))
		}
	}
	results := make([]plResult, len(confs))
	var wg sync.WaitGroup
	sem := make(chan struct{}, *par)
	for i := range confs {
		wg.Add(1)
		sem <- struct{}{}
		go func(i int) {
			defer wg.Done()
			results[i] = plRunOne(confs[i], seed*31+int64(i))
			<-sem
		}(i)
	}
	wg.Wait()
	w := vt.Create(*out)
	defer w.Close()
	for i, res := range results {
		c := res.conf
		w.Emit(map[string]interface{}{"run": i, "seq": 0, "ev": "conf",
			// n_impl, t, tmin: what the REAL schedules report before their start (Left()); sdesc, rdesc: the configuration
			"n_impl": c.Startup.tokens(), "t": c.RPS.tokens(), "tmin": c.RPS.minTokens(), "a": c.A, "per": c.Per, "discard": c.Discard,
			"sdesc": c.Startup.desc(), "rdesc": c.RPS.desc(), "explicit": c.Explicit, "case": c.Case, "tree": c.schedTree(),
			"desc": fmt.Sprintf("startup=%s rps=%s per=%v discard=%v a=%d past=%s shot<=%s provdelay=%s explicit=%v viaconf=%v yamlshape=%v otherpool=%d",
				c.Startup, c.RPS, c.Per, c.Discard, c.A, c.Past, c.ShotMax, c.ProvDelay, c.Explicit, c.ViaConf, c.ViaConf && c.YamlShape, c.Twin)})
		for _, e := range res.evs {
			e.Run = i
			w.Emit(e)
		}
		res.end["run"] = i
		res.end["seq"] = len(res.evs) + 1
		w.Emit(res.end)
	}
	// one at a time, nothing else running in this process: all cores for the eight instances
	for k := 0; k < *hot; k++ {
		w.Emit(plRunHot(2000000+k, 8, *hotTokens))
	}
	if os.Getenv("VERIF_DEBUG") != "" {
		b, _ := json.Marshal(map[string]int{"runs": len(results)})
		fmt.Fprintln(os.Stderr, string(b))
	}
}
