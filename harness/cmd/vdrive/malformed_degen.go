package main

// C13, family `degen` (spec/Malformed.tla, DegenSucc): the file consists of nothing but n copies of ONE degenerate
// item (a raw entry of size 0, blank lines, header lines without an entry, empty JSON objects); streaming reader,
// passes = 0 (unlimited), `take` consumers each asking for one entry.  Recorded: one Deliver("d") per entry handed
// out (buildable or not), the number of times the provider REWOUND the file after Run had started (file
// operations counted by a wrapper around the file system - no clocks), how Run ended.  A provider that keeps
// rewinding is stopped through its own context by the wrapper once it has rewound the file mfRewindCap times.

import (
	"context"
	"fmt"
	"io"
	"strconv"
	"strings"
	"sync"

	"github.com/spf13/afero"
	"go.uber.org/zap"

	"github.com/yandex/pandora/components/providers/grpc/grpcjson"
	httpprov "github.com/yandex/pandora/components/providers/http"
	httpconf "github.com/yandex/pandora/components/providers/http/config"
	"github.com/yandex/pandora/core"

	"verifharness/internal/vt"
)

const mfRewindCap = 200

type mfRewindCount struct {
	mu     sync.Mutex
	armed  bool
	n      int
	cancel context.CancelFunc
}

func (r *mfRewindCount) rewound() {
	r.mu.Lock()
	defer r.mu.Unlock()
	if !r.armed {
		return
	}
	r.n++
	if r.n >= mfRewindCap && r.cancel != nil {
		r.cancel()
	}
}

type mfCountFs struct {
	afero.Fs
	rc *mfRewindCount
}

func (f mfCountFs) Open(name string) (afero.File, error) {
	fl, err := f.Fs.Open(name)
	if err != nil {
		return nil, err
	}
	return mfCountFile{fl, f.rc}, nil
}

type mfCountFile struct {
	afero.File
	rc *mfRewindCount
}

func (f mfCountFile) Seek(offset int64, whence int) (int64, error) {
	if offset == 0 && whence == io.SeekStart {
		f.rc.rewound()
	}
	return f.File.Seek(offset, whence)
}

func mfDegenItem(format, kind string) string {
	switch kind {
	case "size0":
		return "0\n"
	case "size0tag":
		return "0 tag\n"
	case "blank":
		return "\n"
	case "hdronly":
		return "[Host: example.org]\n"
	case "emptyobj":
		return "{}\n"
	}
	machinery("unknown degenerate item %q", kind)
	return ""
}

func mfRunDegenCase(c mfCase) mfLine {
	kind, _ := c.Arg[0].(string)
	n, take := vt.Int(c.Arg[1]), vt.Int(c.Arg[2])
	data := strings.Repeat(mfDegenItem(c.Format, kind), n)
	rc := &mfRewindCount{}
	base := afero.NewMemMapFs()
	if err := afero.WriteFile(base, "/ammo", []byte(data), 0o644); err != nil {
		machinery("%v", err)
	}
	fs := mfCountFs{base, rc}
	panics := make(chan string, 8)
	var p core.Provider
	var ctorErr error
	safely(panics, "constructor", func() {
		if c.Format == "grpcjson" {
			p = grpcjson.NewProvider(fs, grpcjson.Config{File: "/ammo"})
		} else {
			p, ctorErr = httpprov.NewProvider(fs, httpconf.Config{Decoder: httpconf.DecoderType(c.Format), File: "/ammo"})
		}
	})
	info := map[string]interface{}{"file": data, "ctor_err": errStr(ctorErr)}
	evs := []mfEvent{}
	finish := func(res string) mfLine {
		rc.mu.Lock()
		k := rc.n
		rc.mu.Unlock()
		select {
		case pm := <-panics:
			evs = append(evs, mfEvent{"Panic", trunc(pm, 200)})
		default:
			evs = append(evs, mfEvent{"Rewinds", strconv.Itoa(k)}, mfEvent{"End", res})
		}
		return mfLine{K: "case", C: &c, Evs: evs, Info: info}
	}
	if len(panics) > 0 {
		return finish("")
	}
	if ctorErr != nil {
		return finish("rejected")
	}
	ctx, cancel := context.WithCancel(context.Background())
	defer cancel()
	rc.mu.Lock()
	rc.cancel, rc.armed = cancel, true
	rc.mu.Unlock()
	runDone := make(chan error, 1)
	go func() {
		var err error
		safely(panics, "Run", func() { err = p.Run(ctx, core.ProviderDeps{Log: zap.NewNop(), PoolID: "verif"}) })
		cancel()
		runDone <- err
	}()
	handed, unbuildable := 0, 0
	consDone := make(chan struct{})
	go func() {
		defer close(consDone)
		safely(panics, "Acquire", func() {
			for handed < take {
				a, ok := p.Acquire()
				if !ok {
					if a == nil || isNilAmmo(a) {
						return // the provider has finished
					}
					unbuildable++ // handed out, but no request can be built from it: that instance stops
					handed++
					continue
				}
				handed++
				p.Release(a)
			}
		})
	}()
	<-consDone
	cancel() // the consumers are gone: the engine cancels the provider
	runErr := <-runDone
	rc.mu.Lock()
	spun := rc.n >= mfRewindCap
	rc.mu.Unlock()
	if runErr == context.Canceled && !spun {
		runErr = nil
	}
	for i := 0; i < handed; i++ {
		evs = append(evs, mfEvent{"Deliver", "d"})
	}
	info["run_err"] = errStr(runErr)
	info["unbuildable"] = unbuildable
	if spun {
		info["spin"] = fmt.Sprintf("the provider rewound the file %d times; stopped through its context", mfRewindCap)
	}
	if runErr != nil {
		return finish("rejected")
	}
	return finish("accepted")
}
