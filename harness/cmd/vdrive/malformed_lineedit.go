package main

// C13, line-edit cases enumerated by TLC from spec/LineEdit.tla: ONE edit operator (duplicate / delete / swap lines,
// insert a NUL or CR byte into an entry line, change the size field, drop the final newline) applied to the LINES of a
// valid file.  The driver renders the lines the way the module lists them (roles C H1 H2 U S B R J), applies the edit,
// runs the real provider and records res, the number of deliveries, the length of the prefix equal to the unedited
// run and the positions of invalid deliveries.  TraceLineEdit re-computes the expectation with the module's reader.

import (
	"sort"
	"strconv"
	"strings"
)

type mfLEdit struct {
	Op string `json:"op"`
	I  int    `json:"i"`
	W  string `json:"w"`
}

type mfLineEditCase struct {
	Format string  `json:"format"`
	Mode   string  `json:"mode"`
	N      int     `json:"n"`
	E      mfLEdit `json:"e"`
}

type mfFileLine struct {
	role string
	text string // with its newline
}

// the lines of the valid file, in the order of LineEdit!Lines
func mfFileLines(format string, n int) []mfFileLine {
	var out []mfFileLine
	if format == "uri" || format == "uripost" {
		out = append(out, mfFileLine{"C", "[X-Common: c]\n"})
	}
	for _, id := range mfIDs("e", n) {
		s := mfWellFormed(format, id).render(format)
		if format == "jsonline" {
			s += "\n"
		}
		switch format {
		case "uri", "uripost":
			parts := strings.SplitAfter(s, "\n")
			roles := []string{"H1", "H2", "U"}
			if format == "uripost" {
				roles = []string{"H1", "H2", "S", "B"}
			}
			if len(parts) != len(roles)+1 || parts[len(roles)] != "" {
				machinery("a %s entry does not have %d lines: %q", format, len(roles), s)
			}
			for i, r := range roles {
				out = append(out, mfFileLine{r, parts[i]})
			}
		case "raw":
			i := strings.Index(s, "\n")
			out = append(out, mfFileLine{"S", s[:i+1]}, mfFileLine{"R", s[i+1:]})
		default:
			out = append(out, mfFileLine{"J", s})
		}
	}
	return out
}

func mfJoinLines(ls []mfFileLine) string {
	var sb strings.Builder
	for _, l := range ls {
		sb.WriteString(l.text)
	}
	return sb.String()
}

func mfApplyLineEdit(ls []mfFileLine, e mfLEdit) string {
	i := e.I - 1
	if i < 0 || i >= len(ls) {
		machinery("line edit of line %d of %d", e.I, len(ls))
	}
	cp := append([]mfFileLine{}, ls...)
	switch e.Op {
	case "dup":
		cp = append(cp[:i+1], append([]mfFileLine{ls[i]}, ls[i+1:]...)...)
	case "del":
		cp = append(cp[:i], ls[i+1:]...)
	case "swap":
		if i+1 >= len(ls) {
			machinery("swap of the last line")
		}
		cp[i], cp[i+1] = ls[i+1], ls[i]
	case "nofinalnl":
		s := mfJoinLines(cp)
		if !strings.HasSuffix(s, "\n") {
			machinery("the valid file does not end with a newline")
		}
		return strings.TrimSuffix(s, "\n")
	case "nul", "cr":
		b := "\x00"
		if e.Op == "cr" {
			b = "\r"
		}
		t := ls[i].text
		var at int
		switch e.W {
		case "start":
			at = 0
		case "end":
			at = len(t) - 1
		case "mid":
			switch ls[i].role {
			case "U", "S":
				at = 1 // inside the URL ("/..."), inside the size number (two digits at least)
			case "J":
				at = strings.Index(t, "\"") + 1 // inside the first string
			default:
				machinery("byte insert into a %s line", ls[i].role)
			}
		default:
			machinery("unknown insert position %q", e.W)
		}
		if ls[i].role == "S" {
			if sp := strings.Index(t, " "); sp < 2 {
				machinery("size field of %q has fewer than two digits", t)
			}
		}
		cp[i].text = t[:at] + b + t[at:]
	case "size":
		t := ls[i].text
		if ls[i].role != "S" {
			machinery("size edit of a %s line", ls[i].role)
		}
		sp := strings.Index(t, " ")
		n, err := strconv.Atoi(t[:sp])
		if err != nil || n < 10 {
			machinery("size line %q", t)
		}
		switch e.W {
		case "p1":
			n++
		case "m1":
			n--
		case "x100":
			n *= 100
		case "d10":
			n /= 10
		default:
			machinery("unknown size edit %q", e.W)
		}
		cp[i].text = strconv.Itoa(n) + t[sp:]
	default:
		machinery("unknown line edit %q", e.Op)
	}
	return mfJoinLines(cp)
}

func mfRunLineEdit(lc mfLineEditCase) mfLine {
	if lc.N < 1 || lc.N > 9 {
		machinery("line-edit case without a sane n: %+v", lc)
	}
	ls := mfFileLines(lc.Format, lc.N)
	v := mfEditValid(lc.Format, lc.Mode, lc.N) // the reference run of the unedited file (same rendering)
	if mfJoinLines(ls) != v.head+strings.Join(v.entries, "") {
		machinery("line rendering of the %s file differs from the entry rendering", lc.Format)
	}
	data := mfApplyLineEdit(ls, lc.E)
	if data == mfJoinLines(ls) && !(lc.E.Op == "swap" && ls[lc.E.I-1].text == ls[lc.E.I].text) {
		machinery("line edit %+v did not change the %s file", lc.E, lc.Format)
	}
	r := mfRunBytes(lc.Format, lc.Mode, []byte(data))
	same := 0
	for same < len(r.deliveries) && same < len(v.ref) && r.deliveries[same].Raw == v.ref[same] {
		same++
	}
	invalid := []int{}
	for i, d := range r.deliveries {
		if d.Invalid {
			invalid = append(invalid, i+1)
		}
	}
	sort.Ints(invalid)
	res := "ok"
	if len(r.panics) > 0 {
		res = "panic"
	} else if r.ctorErr != nil || r.runErr != nil {
		res = "error"
	}
	info := map[string]interface{}{"ctor_err": errStr(r.ctorErr), "run_err": errStr(r.runErr), "file": trunc(data, 700)}
	if len(r.panics) > 0 {
		info["panic"] = trunc(strings.Join(r.panics, " | "), 300)
	}
	if r.falseAmmo {
		info["acquire_returned_ammo_with_ok_false"] = true
	}
	return mfLine{K: "ledit", LC: &lc, Evs: []mfEvent{}, Info: info,
		Obs: &mfEditObs{Res: res, Delivered: len(r.deliveries), Same: same, InvalidAt: invalid}}
}
