package main

// C13, byte-edit cases sampled by TLC -simulate from spec/ByteEdit.tla: one or two edits (delete / duplicate /
// flip the lowest bit) of a STRUCTURAL byte of given entries of a valid file.  The driver locates the byte in
// the rendered entry, applies the edit, runs the real provider and records res, the number of deliveries, the
// positions of invalid deliveries and the length of the prefix equal to the unedited run.  TraceByteEdit decides.

import (
	"fmt"
	"sort"
	"strings"
	"sync"
)

type mfEditFile struct {
	head    string   // bytes in front of the first entry
	entries []string // rendered entries, in order
	ref     []string // deliveries of the unedited file
}

var (
	mfEditMu    sync.Mutex
	mfEditCache = map[string]*mfEditFile{}
)

func mfEditValid(format, mode string, n int) *mfEditFile {
	mfEditMu.Lock()
	defer mfEditMu.Unlock()
	key := fmt.Sprintf("%s/%s/%d", format, mode, n)
	if v, ok := mfEditCache[key]; ok {
		return v
	}
	v := &mfEditFile{}
	if format == "uri" || format == "uripost" {
		v.head = "[X-Common: c]\n"
	}
	for _, id := range mfIDs("e", n) {
		s := mfWellFormed(format, id).render(format)
		if format == "jsonline" {
			s += "\n"
		}
		v.entries = append(v.entries, s)
	}
	r := mfRunBytes(format, mode, []byte(v.head+strings.Join(v.entries, "")))
	if len(r.panics) > 0 || r.ctorErr != nil || r.runErr != nil || len(r.deliveries) != n {
		machinery("reference run of the valid %s file failed: %+v", format, r)
	}
	for _, d := range r.deliveries {
		v.ref = append(v.ref, d.Raw)
	}
	mfEditCache[key] = v
	return v
}

// offset of the structural byte of the given kind inside one rendered entry
func mfLocate(format, entry, kind string) int {
	start := 0 // start of the size line (uripost: behind the two header lines)
	if format == "uripost" {
		i := strings.Index(entry, "]\n")
		j := strings.Index(entry[i+2:], "]\n")
		start = i + 2 + j + 2
	}
	o := -1
	switch kind {
	case "hdr_open":
		o = strings.Index(entry, "[")
	case "hdr_colon":
		o = strings.Index(entry, ":")
	case "hdr_close":
		o = strings.Index(entry, "]")
	case "hdr_nl":
		o = strings.Index(entry, "\n")
	case "uri_sp":
		o = strings.LastIndex(entry, " ")
	case "size_digit":
		o = start
	case "size_sp":
		o = start + strings.Index(entry[start:], " ")
	case "line_nl":
		if format == "uripost" || format == "raw" {
			o = start + strings.Index(entry[start:], "\n")
		} else {
			o = strings.LastIndex(entry, "\n")
		}
	case "body_nl":
		o = strings.LastIndex(entry, "\n")
	case "obj_open":
		o = strings.Index(entry, "{")
	case "obj_close":
		o = strings.LastIndex(entry, "}")
	case "quote":
		o = strings.Index(entry, "\"")
	case "colon":
		o = strings.Index(entry, ":")
	case "comma":
		o = strings.Index(entry, ",")
	}
	if o < 0 || o >= len(entry) {
		machinery("byte kind %q not found in a %s entry", kind, format)
	}
	return o
}

func mfApplyEdit(entry string, o int, op string) string {
	switch op {
	case "delete":
		return entry[:o] + entry[o+1:]
	case "duplicate":
		return entry[:o+1] + entry[o:]
	case "flip":
		b := []byte(entry)
		b[o] ^= 1
		return string(b)
	}
	machinery("unknown edit op %q", op)
	return ""
}

func mfRunEdit(ec mfEditCase) mfLine {
	if ec.N < 1 || ec.N > 9 {
		machinery("edit case without a sane n: %+v", ec)
	}
	v := mfEditValid(ec.Format, ec.Mode, ec.N)
	entries := append([]string{}, v.entries...)
	for _, e := range []mfEdit{ec.E1, ec.E2} {
		if e.K == 0 {
			continue
		}
		if e.K < 1 || e.K > len(entries) {
			machinery("edit of entry %d of %d", e.K, len(entries))
		}
		entries[e.K-1] = mfApplyEdit(entries[e.K-1], mfLocate(ec.Format, v.entries[e.K-1], e.Kind), e.Op)
	}
	data := []byte(v.head + strings.Join(entries, ""))
	r := mfRunBytes(ec.Format, ec.Mode, data)
	same := 0
	for same < len(r.deliveries) && same < len(v.ref) && r.deliveries[same].Raw == v.ref[same] {
		same++
	}
	invalid := []int{}
	for i, d := range r.deliveries {
		if d.Invalid {
			invalid = append(invalid, i+1)
		}
	}
	sort.Ints(invalid)
	res := "ok"
	if len(r.panics) > 0 {
		res = "panic"
	} else if r.ctorErr != nil || r.runErr != nil {
		res = "error"
	}
	info := map[string]interface{}{"ctor_err": errStr(r.ctorErr), "run_err": errStr(r.runErr)}
	if len(r.panics) > 0 {
		info["panic"] = trunc(strings.Join(r.panics, " | "), 300)
	}
	if ec.E1.K > 0 {
		info["edited_entry_1"] = trunc(entries[ec.E1.K-1], 300)
	}
	if ec.E2.K > 0 {
		info["edited_entry_2"] = trunc(entries[ec.E2.K-1], 300)
	}
	return mfLine{K: "edit", EC: &ec, Evs: []mfEvent{}, Info: info,
		Obs: &mfEditObs{Res: res, Delivered: len(r.deliveries), Same: same, InvalidAt: invalid}}
}
