package main

// C13, description-level cases, syntax families (Malformed!DescTable, classes hcl_*, yaml_*, csv_*, json_*): defects of
// the TEXT of a scenario description (HCL / YAML grammar, labels, locals, anchors) and of the data files its variable
// sources read.  Every class is an edit of the bundled payload / data file; an edit that does not change the text is a
// machinery failure (mfDoc.rep).

import (
	"flag"
	"fmt"
	"os"
	"regexp"
	"strings"

	"github.com/spf13/afero"

	phttpimport "github.com/yandex/pandora/components/phttp/import"
	scnimport "github.com/yandex/pandora/components/providers/scenario/import"
	coreimport "github.com/yandex/pandora/core/import"
)

var (
	reTagAuth  = regexp.MustCompile(`tag\s*=\s*"auth"`)
	reFirstBlk = regexp.MustCompile(`(?m)^(request|call) "auth_req" \{`)
)

func (d *mfDoc) reRep(re *regexp.Regexp, new string) {
	loc := re.FindStringIndex(d.text)
	if loc == nil {
		machinery("class %s: payload does not match %s", d.cls, re)
	}
	d.text = d.text[:loc[0]] + new + d.text[loc[1]:]
}

func mfRenderDescSyntax(d *mfDoc, format, cls string, files map[string]string) bool {
	proto, _, _ := strings.Cut(format, "_")
	blk := "request"
	if proto == "grpc" {
		blk = "call"
	}
	laughs := func() string {
		var sb strings.Builder
		sb.WriteString("zz_a0: &a0 [\"lol\", \"lol\", \"lol\", \"lol\", \"lol\", \"lol\", \"lol\", \"lol\", \"lol\"]\n")
		for i := 1; i <= 9; i++ {
			sb.WriteString("zz_a" + itoa(i) + ": &a" + itoa(i) + " [" + strings.TrimSuffix(strings.Repeat("*a"+itoa(i-1)+", ", 9), ", ") + "]\n")
		}
		return sb.String()
	}
	switch cls {
	// ---- HCL grammar
	case "hcl_unclosed_block":
		d.text += "\nscenario \"late\" {\n  weight = 1\n"
	case "hcl_extra_close":
		d.text += "\n}\n"
	case "hcl_unclosed_string":
		d.reRep(reTagAuth, `tag = "auth`)
	case "hcl_unclosed_heredoc":
		if !strings.Contains(d.text, "\nEOF\n") {
			machinery("class %s: payload has no heredoc", cls)
		}
		d.text = strings.ReplaceAll(d.text, "\nEOF\n", "\n")
	case "hcl_unclosed_template":
		d.reRep(reTagAuth, `tag = "${local.next"`)
	case "hcl_unclosed_list":
		d.reRep(reTagAuth, "tag = \"auth\"\n  zz = [1, 2")
	case "hcl_missing_eq":
		d.reRep(reTagAuth, `tag "auth"`)
	case "hcl_bare_word":
		d.reRep(reTagAuth, `tag = auth`)
	case "hcl_unknown_function":
		d.reRep(reTagAuth, `tag = nosuchfn("auth")`)
	case "hcl_unknown_local":
		d.reRep(reTagAuth, `tag = local.nosuch`)
	case "hcl_unknown_root":
		d.reRep(reTagAuth, `tag = nosuch.thing`)
	case "hcl_cyclic_locals":
		d.text = "locals {\n  cyc_a = local.cyc_b\n  cyc_b = local.cyc_a\n}\n" + d.text
	case "hcl_self_local":
		d.text = "locals {\n  cyc_a = local.cyc_a\n}\n" + d.text
	case "hcl_cyclic_local_used":
		d.text = "locals {\n  cyc_a = local.cyc_b\n  cyc_b = local.cyc_a\n}\n" + d.text
		d.reRep(reTagAuth, `tag = local.cyc_a`)
	case "hcl_two_labels":
		d.reRep(reFirstBlk, blk+` "auth_req" "extra" {`)
	case "hcl_no_label":
		d.reRep(reFirstBlk, blk+` {`)
	case "hcl_label_unquoted_number":
		d.reRep(reFirstBlk, blk+` 5 {`)
	case "hcl_unknown_block":
		d.text += "\nnosuchblock \"x\" {\n}\n"
	case "hcl_unknown_attr":
		d.reRep(reTagAuth, "tag = \"auth\"\n  nosuchattr = 1")
	case "hcl_dup_attr":
		d.reRep(reTagAuth, "tag = \"auth\"\n  tag = \"auth\"")
	case "hcl_dup_request":
		if proto == "http" {
			d.text += "\nrequest \"auth_req\" {\n  method = \"GET\"\n  uri = \"/dup\"\n}\n"
		} else {
			d.text += "\ncall \"auth_req\" {\n  call = \"target.TargetService.Auth\"\n  payload = \"{}\"\n}\n"
		}
	case "hcl_block_as_attr":
		d.reRep(reTagAuth, "tag = \"auth\"\n  "+map[string]string{"http": "postprocessor", "grpc": "postprocessor"}[proto]+" = 5")
	case "hcl_attr_as_block":
		d.reRep(reTagAuth, "tag {\n    a = 1\n  }")
	case "hcl_top_level_attr":
		d.text += "\nzz = 1\n"
	case "hcl_nul":
		d.reRep(reTagAuth, "tag = \"au\x00th\"")
	case "hcl_nul_outside":
		d.text = "\x00" + d.text
	case "hcl_bom":
		d.text = "\xef\xbb\xbf" + d.text
	case "hcl_badutf8":
		d.reRep(reTagAuth, "tag = \"au\xff\xfeth\"")
	case "hcl_deep_list":
		d.reRep(reTagAuth, "tag = \"auth\"\n  zz = "+strings.Repeat("[", 100000)+strings.Repeat("]", 100000))
	case "hcl_deep_parens":
		d.reRep(reTagAuth, "tag = "+strings.Repeat("(", 100000)+"\"auth\""+strings.Repeat(")", 100000))
	case "hcl_unary_chain":
		d.reRep(reTagAuth, "tag = "+strings.Repeat("!", 100000)+"true")
	case "hcl_deep_unclosed":
		d.reRep(reTagAuth, "tag = "+strings.Repeat("[", 100000))
	case "hcl_huge_weight":
		d.rep("weight           = 50", "weight           = 99999999999999999999999", 1)
	case "hcl_float_weight":
		d.rep("weight           = 50", "weight           = 1.5", 1)
	case "hcl_string_weight":
		d.rep("weight           = 50", "weight           = \"50\"", 1)
	case "hcl_empty_file":
		d.text = ""
	case "hcl_only_comment":
		d.text = "# nothing\n"
	case "hcl_json_text":
		d.text = "{\"request\": {\"auth_req\": {\"method\": \"GET\"}}}\n"
	case "hcl_long_string":
		d.reRep(reTagAuth, "tag = \""+strings.Repeat("x", 4<<20)+"\"")
	case "hcl_crlf":
		d.text = strings.ReplaceAll(d.text, "\n", "\r\n")
	// ---- YAML grammar (twins)
	case "yaml_tab":
		d.rep("  - name: auth_req\n", "\t- name: auth_req\n", 1)
	case "yaml_bad_indent":
		d.rep("  - name: auth_req\n", " - name: auth_req\n", 1)
	case "yaml_unclosed_quote":
		d.rep("    tag: auth\n", "    tag: \"auth\n", 1)
	case "yaml_unclosed_flow":
		d.rep("    tag: auth\n", "    tag: [auth\n", 1)
	case "yaml_missing_colon":
		d.rep("    tag: auth\n", "    tag auth\n", 1)
	case "yaml_dup_key":
		d.rep("    tag: auth\n", "    tag: auth\n    tag: auth\n", 1)
	case "yaml_alias_undefined":
		d.rep("    tag: auth\n", "    tag: *nosuch\n", 1)
	case "yaml_alias_ok":
		d.rep("    tag: auth\n", "    tag: &t auth\n", 1)
		d.rep("    tag: list\n", "    tag: *t\n", 1)
	case "yaml_anchor_cycle":
		d.rep("    tag: auth\n", "    tag: &t [*t]\n", 1)
	case "yaml_laughs":
		d.text = laughs() + d.text
	case "yaml_laughs_used":
		d.text = laughs() + d.text
		d.rep("    tag: auth\n", "    tag: *a9\n", 1)
	case "yaml_nul":
		d.rep("    tag: auth\n", "    tag: au\x00th\n", 1)
	case "yaml_bom":
		d.text = "\xef\xbb\xbf" + d.text
	case "yaml_badutf8":
		d.rep("    tag: auth\n", "    tag: au\xff\xfeth\n", 1)
	case "yaml_second_doc":
		d.text += "---\nrequests: 5\n"
	case "yaml_empty_file":
		d.text = ""
	case "yaml_only_comment":
		d.text = "# nothing\n"
	case "yaml_scalar_doc":
		d.text = "42\n"
	case "yaml_list_doc":
		d.text = "- a\n- b\n"
	case "yaml_tag_bad":
		d.rep("    tag: auth\n", "    tag: !!int auth\n", 1)
	case "yaml_deep_flow":
		d.rep("    tag: auth\n", "    tag: "+strings.Repeat("[", 100000)+strings.Repeat("]", 100000)+"\n", 1)
	case "yaml_crlf":
		d.text = strings.ReplaceAll(d.text, "\n", "\r\n")
	case "yaml_unknown_key":
		d.rep("    tag: auth\n", "    tag: auth\n    nosuchkey: 1\n", 1)
	// ---- data files
	case "csv_ragged_short":
		files["testdata/users.csv"] = "user_id,login,pass\n1,1\n2,2,2\n"
	case "csv_ragged_long":
		files["testdata/users.csv"] = "user_id,login,pass\n1,1,1,9,9\n2,2,2\n"
	case "csv_wrong_delim":
		files["testdata/users.csv"] = "user_id;login;pass\n1;1;1\n2;2;2\n"
	case "csv_bare_quote":
		files["testdata/users.csv"] = "user_id,login,pass\n1,a\"b,1\n2,2,2\n"
	case "csv_quote_garbage":
		files["testdata/users.csv"] = "user_id,login,pass\n1,\"a\"b,1\n2,2,2\n"
	case "csv_only_header":
		files["testdata/users.csv"] = "user_id,login,pass"
	case "csv_zero_bytes":
		files["testdata/users.csv"] = ""
	case "csv_blank_lines":
		files["testdata/users.csv"] = "user_id,login,pass\n\n1,1,1\n\n\n2,2,2\n\n"
	case "csv_crlf":
		files["testdata/users.csv"] = "user_id,login,pass\r\n1,1,1\r\n2,2,2\r\n"
	case "csv_cr_only":
		files["testdata/users.csv"] = "user_id,login,pass\r1,1,1\r2,2,2\r"
	case "csv_nul":
		files["testdata/users.csv"] = "user_id,login,pass\n1,\x00,1\n2,2,2\n"
	case "csv_bom":
		files["testdata/users.csv"] = "\xef\xbb\xbfuser_id,login,pass\n1,1,1\n2,2,2\n"
	case "csv_badutf8":
		files["testdata/users.csv"] = "user_id,login,pass\n1,\xff\xfe,1\n2,2,2\n"
	case "csv_huge_field":
		files["testdata/users.csv"] = "user_id,login,pass\n1," + strings.Repeat("x", 4<<20) + ",1\n2,2,2\n"
	case "csv_many_fields":
		files["testdata/users.csv"] = "user_id,login,pass\n1" + strings.Repeat(",9", 100000) + "\n2,2,2\n"
	case "csv_binary":
		files["testdata/users.csv"] = "\x7fELF\x02\x01\x01\x00\x00\x00\x00\x00\x00\x00\x00\x00\x03\x00>\x00"
	case "csv_is_dir":
		delete(files, "testdata/users.csv")
		files["testdata/users.csv/inner"] = "x"
	case "json_is_dir":
		delete(files, "testdata/filter.json")
		files["testdata/filter.json/inner"] = "x"
	case "json_scalar":
		files["testdata/filter.json"] = "42\n"
	case "json_string":
		files["testdata/filter.json"] = "\"str\"\n"
	case "json_null":
		files["testdata/filter.json"] = "null\n"
	case "json_list_scalars":
		files["testdata/filter.json"] = "[1, 2, 3]\n"
	case "json_zero_bytes":
		files["testdata/filter.json"] = ""
	case "json_trailing_garbage":
		files["testdata/filter.json"] = jsonFilter + "x\n"
	case "json_two_values":
		files["testdata/filter.json"] = jsonFilter + jsonFilter
	case "json_nul":
		files["testdata/filter.json"] = "{\"name\": \"a\x00b\"}\n"
	case "json_bom":
		files["testdata/filter.json"] = "\xef\xbb\xbf" + jsonFilter
	case "json_deep":
		files["testdata/filter.json"] = strings.Repeat("[", 100000) + strings.Repeat("]", 100000) + "\n"
	case "json_deep_unclosed":
		files["testdata/filter.json"] = strings.Repeat("[", 100000) + "\n"
	case "json_dup_key":
		files["testdata/filter.json"] = "{\"name\": \"a\", \"name\": \"b\"}\n"
	case "json_huge_number":
		files["testdata/filter.json"] = "{\"name\": 1e999999}\n"
	case "json_huge_string":
		files["testdata/filter.json"] = "{\"name\": \"" + strings.Repeat("x", 8<<20) + "\"}\n"
	default:
		return false
	}
	return true
}

// `vdrive malformed-descprobe -format http_hcl -file F`: development aid - takes one scenario description file
// through the description pipeline (bundled data files) and prints what happened.
func init() { register("malformed-descprobe", malformedDescProbe) }

func malformedDescProbe(args []string) {
	fl := flag.NewFlagSet("malformed-descprobe", flag.ExitOnError)
	format := fl.String("format", "http_hcl", "")
	file := fl.String("file", "", "")
	repo := fl.String("repo", "/repo", "")
	fl.Parse(args)
	mfRepo = *repo
	mfFS = afero.NewMemMapFs()
	coreimport.Import(mfFS)
	scnimport.Import(mfFS)
	phttpimport.Import(mfFS)
	b, err := os.ReadFile(*file)
	if err != nil {
		machinery("%v", err)
	}
	_, syn, _ := strings.Cut(*format, "_")
	evs, info := mfDescPipeline(*format, "/scn/payload."+syn, string(b), map[string]string{"testdata/users.csv": csvFull, "testdata/filter.json": jsonFilter})
	out := []string{}
	for _, e := range evs {
		out = append(out, e.Ev+"("+trunc(e.Arg, 80)+")")
	}
	fmt.Println(strings.Join(out, " "), "|", trunc(strings.ReplaceAll(fmt.Sprint(info), "\n", " "), 300))
}
