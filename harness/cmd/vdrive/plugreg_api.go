package main

// C18, the registry as an object (spec/PluginRegistryApi.tla): `plugreg -mode api` executes every TLC-generated
// sequence of Register operations on a FRESH real plugin.Registry and, after every operation, asks the registry
// everything the probe lists name: Lookup of every type, LookupFactory of every factory-type candidate, New and
// NewFactory of every (type, name).  Constructors, default-config arguments and factory types are RENDERED from the
// descriptors TLC exports (parameter / result type names, variadic or not) with reflect.FuncOf / reflect.MakeFunc -
// the only table on the Go side maps type names to Go types.  A product reports the index of the operation that
// registered its constructor.  The driver records; TracePluginRegistryApi.tla decides.

import (
	"bufio"
	"encoding/json"
	"fmt"
	"os"
	"reflect"

	"github.com/yandex/pandora/core/plugin"

	"verifharness/internal/vt"
)

// ---- the Go types behind the type names of the specification

type raT1 interface{ raM1() int }
type raT2 interface{ raM2() int }
type raT12 interface {
	raT1
	raT2
}

type raV struct{ id int } // M1 with a VALUE receiver: raV and *raV implement raT1

func (v raV) raM1() int { return v.id }

type raP struct{ id int } // M1 with a POINTER receiver: only *raP implements raT1

func (p *raP) raM1() int { return p.id }

type raB struct{ id int } // M1 and M2, pointer receivers: *raB implements raT1, raT2, raT12

func (b *raB) raM1() int { return b.id }
func (b *raB) raM2() int { return b.id }

type raS struct{ id int } // no methods

type raConf struct{ A int }
type raConf2 struct{ B int }

var raTypes = map[string]reflect.Type{
	"T1":      reflect.TypeOf((*raT1)(nil)).Elem(),
	"T2":      reflect.TypeOf((*raT2)(nil)).Elem(),
	"T12":     reflect.TypeOf((*raT12)(nil)).Elem(),
	"V":       reflect.TypeOf(raV{}),
	"pV":      reflect.TypeOf(&raV{}),
	"P":       reflect.TypeOf(raP{}),
	"pP":      reflect.TypeOf(&raP{}),
	"pB":      reflect.TypeOf(&raB{}),
	"S":       reflect.TypeOf(raS{}),
	"struct":  reflect.TypeOf(raConf{}),
	"ptr":     reflect.TypeOf(&raConf{}),
	"struct2": reflect.TypeOf(raConf2{}),
	"int":     reflect.TypeOf(0),
	"pint":    reflect.TypeOf((*int)(nil)),
	"error":   reflect.TypeOf((*error)(nil)).Elem(),
	"string":  reflect.TypeOf(""),
}

func raType(name string) reflect.Type {
	t, ok := raTypes[name]
	if !ok {
		panic("plugreg api: unknown type name " + name)
	}
	return t
}

// raValue makes a value of type t that carries id (where the type can carry one).
func raValue(t reflect.Type, id int) reflect.Value {
	v := reflect.New(t).Elem()
	switch t {
	case raTypes["T1"]:
		v.Set(reflect.ValueOf(raV{id}))
	case raTypes["T2"], raTypes["T12"], raTypes["pB"]:
		v.Set(reflect.ValueOf(&raB{id}))
	case raTypes["V"]:
		v.Set(reflect.ValueOf(raV{id}))
	case raTypes["pV"]:
		v.Set(reflect.ValueOf(&raV{id}))
	case raTypes["P"]:
		v.Set(reflect.ValueOf(raP{id}))
	case raTypes["pP"]:
		v.Set(reflect.ValueOf(&raP{id}))
	case raTypes["S"]:
		v.Set(reflect.ValueOf(raS{id}))
	case raTypes["ptr"]:
		v.Set(reflect.ValueOf(&raConf{}))
	}
	if t.Kind() == reflect.Func {
		return reflect.MakeFunc(t, func([]reflect.Value) []reflect.Value { return raOuts(t, id) })
	}
	return v // zero value for error, string, int, config structs, ...
}

func raOuts(ft reflect.Type, id int) []reflect.Value {
	outs := make([]reflect.Value, ft.NumOut())
	for i := range outs {
		outs[i] = raValue(ft.Out(i), id)
	}
	return outs
}

func raFuncType(ins []string, variadic bool, outs []reflect.Type) reflect.Type {
	in := make([]reflect.Type, len(ins))
	for i, n := range ins {
		in[i] = raType(n)
	}
	if variadic {
		if len(in) == 0 {
			panic("plugreg api: variadic descriptor without parameters")
		}
		in[len(in)-1] = reflect.SliceOf(in[len(in)-1])
	}
	return reflect.FuncOf(in, outs, variadic)
}

func raNamed(names []string) []reflect.Type {
	out := make([]reflect.Type, len(names))
	for i, n := range names {
		out[i] = raType(n)
	}
	return out
}

type raCtor struct {
	IsFunc    bool     `json:"isfunc"`
	NoOut     bool     `json:"noout"`
	Ins       []string `json:"ins"`
	Variadic  bool     `json:"variadic"`
	Fact      bool     `json:"fact"`
	Prod      string   `json:"prod"`
	Rest      []string `json:"rest"`
	FIns      []string `json:"fins"`
	FVariadic bool     `json:"fvariadic"`
	FOuts     []string `json:"fouts"`
}

type raDflt struct {
	K        string   `json:"k"`
	Ins      []string `json:"ins"`
	Variadic bool     `json:"variadic"`
	Out      string   `json:"out"`
}

type raOp struct {
	T string `json:"t"`
	N string `json:"n"`
	C raCtor `json:"c"`
	D raDflt `json:"d"`
}

type raFT struct {
	IsFunc   bool     `json:"isfunc"`
	Ins      []string `json:"ins"`
	Variadic bool     `json:"variadic"`
	Outs     []string `json:"outs"`
}

type raProbeLists struct {
	Types []string `json:"types"`
	Names []string `json:"names"`
	FTs   []raFT   `json:"fts"`
}

type raRes struct {
	Out string `json:"out"`
	ID  int    `json:"id"`
}

type raProbes struct {
	Lookup  []bool    `json:"lookup"`
	LookupF []bool    `json:"lookupf"`
	New     [][]raRes `json:"new"`
	NewF    [][]raRes `json:"newf"`
}

type raStep struct {
	Out string   `json:"out"`
	Err string   `json:"err"` // free text, not compared
	Pr  raProbes `json:"pr"`
}

type raLine struct {
	C     json.RawMessage `json:"c"`
	Steps []raStep        `json:"steps"`
}

// the constructor value of a descriptor; products carry id
func (c raCtor) render(id int) interface{} {
	if !c.IsFunc {
		return raConf{A: id}
	}
	var outs []reflect.Type
	switch {
	case c.NoOut:
	case c.Fact:
		outs = append([]reflect.Type{raFuncType(c.FIns, c.FVariadic, raNamed(c.FOuts))}, raNamed(c.Rest)...)
	default:
		outs = append([]reflect.Type{raType(c.Prod)}, raNamed(c.Rest)...)
	}
	t := raFuncType(c.Ins, c.Variadic, outs)
	return reflect.MakeFunc(t, func([]reflect.Value) []reflect.Value { return raOuts(t, id) }).Interface()
}

func (d raDflt) render() []interface{} {
	mk := func() interface{} {
		t := raFuncType(d.Ins, d.Variadic, []reflect.Type{raType(d.Out)})
		return reflect.MakeFunc(t, func([]reflect.Value) []reflect.Value { return raOuts(t, 0) }).Interface()
	}
	switch d.K {
	case "none":
		return nil
	case "nil":
		return []interface{}{nil}
	case "value":
		return []interface{}{raConf{A: 1}}
	case "two":
		return []interface{}{mk(), mk()}
	}
	return []interface{}{mk()}
}

func (f raFT) render() reflect.Type {
	if !f.IsFunc {
		return raType(f.Outs[0])
	}
	return raFuncType(f.Ins, f.Variadic, raNamed(f.Outs))
}

func raProductID(p interface{}) int {
	switch x := p.(type) {
	case raT1:
		return x.raM1()
	case raT2:
		return x.raM2()
	}
	return -1
}

func raProbe(reg *plugin.Registry, pl raProbeLists) raProbes {
	var pr raProbes
	guard := func(f func() raRes) (r raRes) {
		defer func() {
			if x := recover(); x != nil {
				r = raRes{Out: "panic"}
			}
		}()
		return f()
	}
	for _, tn := range pl.Types {
		t := raType(tn)
		pr.Lookup = append(pr.Lookup, reg.Lookup(t))
		row := []raRes{}
		for _, n := range pl.Names {
			n := n
			row = append(row, guard(func() raRes {
				p, err := reg.New(t, n)
				if err != nil {
					return raRes{Out: "error"}
				}
				return raRes{Out: "ok", ID: raProductID(p)}
			}))
		}
		pr.New = append(pr.New, row)
	}
	for _, f := range pl.FTs {
		ft := f.render()
		pr.LookupF = append(pr.LookupF, reg.LookupFactory(ft))
		row := []raRes{}
		for _, n := range pl.Names {
			n := n
			row = append(row, guard(func() raRes {
				fac, err := reg.NewFactory(ft, n)
				if err != nil {
					return raRes{Out: "error"}
				}
				outs := reflect.ValueOf(fac).Call(nil)
				if len(outs) == 2 && !outs[1].IsNil() {
					return raRes{Out: "callerror"}
				}
				return raRes{Out: "ok", ID: raProductID(outs[0].Interface())}
			}))
		}
		pr.NewF = append(pr.NewF, row)
	}
	return pr
}

func plugregAPI(in, probes, out string) {
	var pl raProbeLists
	pb, err := os.ReadFile(probes)
	if err != nil {
		panic(err)
	}
	if err := json.Unmarshal(pb, &pl); err != nil {
		panic(err)
	}
	w := vt.Create(out)
	defer w.Close()
	for _, raw := range raReadRaw(in) {
		var c struct {
			Ops []raOp `json:"ops"`
		}
		if err := json.Unmarshal(raw, &c); err != nil {
			panic(err)
		}
		reg := plugin.NewRegistry()
		line := raLine{C: raw, Steps: []raStep{{Out: "", Pr: raProbe(reg, pl)}}}
		for i, op := range c.Ops {
			st := raStep{Out: "ok"}
			func() {
				defer func() {
					if x := recover(); x != nil {
						st.Out, st.Err = "panic", firstLine(fmt.Sprint(x))
					}
				}()
				reg.Register(raType(op.T), op.N, op.C.render(i+1), op.D.render()...)
			}()
			st.Pr = raProbe(reg, pl)
			line.Steps = append(line.Steps, st)
		}
		w.Emit(line)
	}
}

func raReadRaw(path string) []json.RawMessage {
	f, err := os.Open(path)
	if err != nil {
		panic(err)
	}
	defer f.Close()
	var out []json.RawMessage
	sc := bufio.NewScanner(f)
	sc.Buffer(make([]byte, 1<<20), 1<<26)
	for sc.Scan() {
		if len(sc.Bytes()) > 0 {
			out = append(out, append(json.RawMessage(nil), sc.Bytes()...))
		}
	}
	if err := sc.Err(); err != nil {
		panic(err)
	}
	return out
}
