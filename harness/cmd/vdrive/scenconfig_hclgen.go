package main

// C16 renderer for the HCL conveniences (trusted base).  One generator, three styles:
//
//   hcll   locals AND collection functions (the documentation's own way of writing a scenario)
//   hclf   collection functions WITHOUT any locals block: every attribute that takes an expression is a call
//   hclv   locals WITHOUT functions: values spread over several locals blocks
//
// (the plain style `hcl` of scenconfig_render.go has neither).  The expected meaning of the file is always
// Decoded(desc): the generator only decides how the literals are spread over locals and wrapped into calls.
//
// Locals blocks.  docs/eng/scenario/locals.md: several `locals` blocks may be given, a later block may use the
// locals of an earlier one, and the example repeats a name (`next`) in two blocks.  The code evaluates the blocks in
// order, each with the locals of all earlier blocks, and a later definition of a name replaces the earlier one for
// everything that follows.  place() spreads a literal over up to three blocks in one of these patterns:
//   single definition | redefinition (a WRONG decoy value in the earlier block, the right one later) | chain over
//   three blocks | later block building on a redefined name | same name same value | redefined twice.
// Derived values (calls over locals) live in a fourth block.  No local refers to a local of its own block.
//
// Functions.  Every entry of the function table of hcl.go (coalesce coalescelist compact concat distinct element
// flatten index keys lookup merge reverse slice sort split values zipmap) is used, with arguments that make a wrong
// binding or a wrong evaluation visible: decoy values that a correct evaluation drops, empty leading lists,
// overlapping keys for merge (the later argument must win), reversed inputs for reverse/sort.  Which convenience is
// used where rotates with VERIF_SEED and the case number.

import (
	"fmt"
	"strings"
)

const hclSep = "|~|"

type hclGen struct {
	locals, funcs bool
	rot           int
	blocks        [4][]string
	n             int
}

func (g *hclGen) pick(n int) int { g.rot++; return g.rot % n }

func (g *hclGen) fresh(p string) string {
	g.n++
	return fmt.Sprintf("%s_%d", p, g.n)
}

func (g *hclGen) def(block int, name, expr string) string {
	g.blocks[block] = append(g.blocks[block], "  "+name+" = "+expr)
	return "local." + name
}

// derived: an expression that refers to locals of blocks 0..2
func (g *hclGen) derived(prefix, expr string) string { return g.def(3, g.fresh(prefix), expr) }

// place: a literal expression (no references) goes into the locals blocks; decoy is a wrong value of the same type
func (g *hclGen) place(prefix, expr, decoy string) string {
	a := g.fresh(prefix)
	switch g.pick(6) {
	case 0: // one definition
		return g.def(g.pick(3), a, expr)
	case 1: // redefinition across blocks: the later block wins
		g.def(0, a, decoy)
		return g.def(1, a, expr)
	case 2: // a local referring to a local of an earlier block, over three blocks
		b, c := g.fresh(prefix), g.fresh(prefix)
		g.def(0, a, expr)
		g.def(1, b, "local."+a)
		return g.def(2, c, "local."+b)
	case 3: // a third block building on a name the second block redefined
		b := g.fresh(prefix)
		g.def(0, a, decoy)
		g.def(1, a, expr)
		return g.def(2, b, "local."+a)
	case 4: // same name, same value (as `next` in the documentation)
		g.def(0, a, expr)
		return g.def(2, a, expr)
	default: // redefined twice
		g.def(0, a, decoy)
		g.def(1, a, decoy)
		return g.def(2, a, expr)
	}
}

type hclVariant struct {
	ok   bool
	expr func() string
}

// choose: the next applicable variant in rotation
func (g *hclGen) choose(vs []hclVariant) string {
	i := g.pick(len(vs))
	for k := 0; k < len(vs); k++ {
		if v := vs[(i+k)%len(vs)]; v.ok {
			return v.expr()
		}
	}
	panic("hclGen: no applicable variant")
}

func bytesAscending(xs []string) bool {
	for i := 1; i < len(xs); i++ {
		if !(xs[i-1] < xs[i]) {
			return false
		}
	}
	return true
}

// ------------------------------------------------------------------ strings

func (g *hclGen) interpolated(a string) string {
	// template interpolation of a local, as in the repository's own payload ("source.users[${local.next}].user_id")
	rs := []rune(lit(a))
	head, rest := string(rs[:len(rs)/2]), string(rs[len(rs)/2:])
	return `"${` + g.place("half", `"`+hclQuoteInner(head)+`"`, `"stale"`) + `}` + hclQuoteInner(rest) + `"`
}

func (g *hclGen) str(a string) string {
	s := lit(a)
	if !g.funcs {
		if g.pick(4) == 0 {
			return g.interpolated(a)
		}
		return g.place("s", hclStrL(a), `"stale"`)
	}
	// the literal as an argument: in place, or through the locals blocks when the style has them
	x := hclQuote(a)
	if g.locals && g.pick(2) == 0 {
		x = g.place("s", hclStrL(a), `"stale"`)
	}
	q := func(f string, args ...interface{}) func() string {
		return func() string { return fmt.Sprintf(f, args...) }
	}
	vs := []hclVariant{
		{true, q(`element(["stale", %s], 1)`, x)},
		{true, q(`lookup({ wanted = %s, other = "stale" }, "wanted", "default")`, x)},
		{true, q(`coalesce(%s, "unused")`, x)},
		{!strings.Contains(s, hclSep), q(`element(split("%s", "stale%s%s"), 1)`, hclSep, hclSep, hclQuoteInner(s))},
		{s != "", q(`element(compact(["", %s, ""]), 0)`, x)},
		{true, q(`element(values({ a = %s }), 0)`, x)},
		{s != "", q(`element(keys({ (%s) = "v" }), 0)`, x)},
		{s != "stale", q(`element(distinct([%s, %s, "stale"]), 0)`, x, x)},
		{true, q(`element(reverse(["stale", %s]), 0)`, x)},
		{true, q(`element(flatten([["stale"], [%s]]), 1)`, x)},
		{true, q(`element(slice(["stale", %s, "stale"], 1, 2), 0)`, x)},
		{true, q(`element(concat(["stale"], [%s]), 1)`, x)},
		{true, q(`element(coalescelist([], [%s]), 0)`, x)},
		{true, q(`lookup(merge({ wanted = "stale" }, { wanted = %s }), "wanted", "default")`, x)},
		{true, q(`lookup(zipmap(["other", "wanted"], ["stale", %s]), "wanted", "default")`, x)},
		{true, q(`index(["stale", %s], 1)`, x)}, // index(collection, key) is collection[key]
		{s < "zzzz", q(`element(sort(["zzzz-stale", %s]), 0)`, x)},
	}
	if g.locals {
		vs = append(vs, hclVariant{true, func() string { return g.interpolated(a) }},
			hclVariant{true, func() string { return g.place("s", hclStrL(a), `"stale"`) }})
	}
	return g.choose(vs)
}

// text: body / payload -- in the styles with locals the documented heredoc form, written in place
func (g *hclGen) text(a string) string {
	if g.locals && g.pick(2) == 0 {
		return hclStrL(a)
	}
	return g.str(a)
}

// ------------------------------------------------------------------ maps

func (g *hclGen) mapx(ps dPairs, ind string) string {
	inline := func(x dPairs) string { return hclObj(x, ind, hclKeyL, hclQuote) }
	if !g.funcs {
		if g.pick(2) == 0 || len(ps) == 0 {
			return g.place("m", hclObj(ps, "  ", hclKeyL, hclStrL), `{ stale = "stale" }`)
		}
		// an object written in place whose values come from locals
		var b strings.Builder
		b.WriteString("{\n")
		for _, p := range ps {
			b.WriteString(ind + "  " + hclKeyL(p[0]) + " = " + g.place("v", hclStrL(p[1]), `"stale"`) + "\n")
		}
		return b.String() + ind + "}"
	}
	// the object as an argument: in place or through locals
	obj := func(x dPairs) string {
		if g.locals && g.pick(2) == 0 {
			return g.place("m", hclObj(x, "  ", hclKeyL, hclStrL), `{ stale = "stale" }`)
		}
		return inline(x)
	}
	keys, vals := make([]string, len(ps)), make([]string, len(ps))
	for i, p := range ps {
		keys[i], vals[i] = p[0], p[1]
	}
	vs := []hclVariant{
		{len(ps) >= 1, func() string { // overlapping key: the later argument must win
			return "merge(" + inline(dPairs{{ps[0][0], "stale"}}) + ", " + obj(ps) + ")"
		}},
		{true, func() string { return "zipmap(" + hclList(keys, hclQuote) + ", " + hclList(vals, hclQuote) + ")" }},
		{true, func() string {
			if g.locals {
				o := g.place("m", hclObj(ps, "  ", hclKeyL, hclStrL), `{ stale = "stale" }`)
				return g.derived("again", "zipmap(keys("+o+"), values("+o+"))")
			}
			return "zipmap(keys(" + inline(ps) + "), values(" + inline(ps) + "))"
		}},
		{true, func() string {
			if len(ps) >= 2 {
				return "merge(" + obj(ps[:1]) + ", " + obj(ps[1:]) + ")"
			}
			return "merge({}, " + obj(ps) + ")"
		}},
		{g.locals && len(ps) >= 2, func() string {
			// the idiom of the documentation: a later block extends a name of an earlier block
			a := g.fresh("common")
			g.def(0, a, hclObj(ps[:1], "  ", hclKeyL, hclStrL))
			g.def(1, a, "merge(local."+a+", "+hclObj(ps[1:], "  ", hclKeyL, hclStrL)+")")
			return g.def(2, g.fresh("all"), "local."+a)
		}},
	}
	return g.choose(vs)
}

// ------------------------------------------------------------------ lists

func (g *hclGen) listx(xs []string) string {
	ls := make([]string, len(xs))
	allNonEmpty, distinct := true, true
	seen := map[string]bool{}
	noSep := true
	for i, x := range xs {
		ls[i] = lit(x)
		allNonEmpty = allNonEmpty && ls[i] != ""
		distinct = distinct && !seen[ls[i]] && ls[i] != "stale"
		seen[ls[i]] = true
		noSep = noSep && !strings.Contains(ls[i], hclSep)
	}
	asc := bytesAscending(ls)
	L := hclList(xs, hclQuote)
	if !g.funcs {
		if g.pick(2) == 0 || len(xs) == 0 {
			return g.place("l", L, `["stale"]`)
		}
		es := make([]string, len(xs))
		for i, x := range xs {
			es[i] = g.place("e", hclStrL(x), `"stale"`)
		}
		return "[" + strings.Join(es, ", ") + "]"
	}
	// a list as an argument: in place or through locals
	arg := func(ys []string) string {
		if g.locals && g.pick(2) == 0 {
			return g.place("l", hclList(ys, hclQuote), `["stale"]`)
		}
		return hclList(ys, hclQuote)
	}
	rev := func(ys []string) []string {
		out := make([]string, len(ys))
		for i, y := range ys {
			out[len(ys)-1-i] = y
		}
		return out
	}
	n := len(xs)
	vs := []hclVariant{
		{true, func() string {
			if n == 0 {
				return "concat([], [])"
			}
			return "concat([], " + arg(xs[:1]) + ", " + arg(xs[1:]) + ")"
		}},
		{n >= 1, func() string { return "flatten([" + arg(xs[:1]) + ", [" + arg(xs[1:]) + "]])" }},
		{true, func() string { return "reverse(" + arg(rev(xs)) + ")" }},
		{true, func() string {
			return fmt.Sprintf("slice(%s, 1, %d)", arg(append(append([]string{"stale"}, xs...), "stale")), n+1)
		}},
		{n >= 1, func() string { return "coalescelist([], " + arg(xs) + ")" }},
		{n >= 1 && allNonEmpty, func() string {
			return "compact(" + hclList(append(append([]string{"T_empty"}, xs...), "T_empty"), hclQuote) + ")"
		}},
		{n >= 1 && distinct, func() string { return "distinct(" + hclList(append([]string{xs[0]}, xs...), hclQuote) + ")" }},
		{n >= 2 && asc, func() string { return "sort(" + arg(rev(xs)) + ")" }},
		{n >= 1 && noSep, func() string {
			inner := make([]string, n)
			for i := range ls {
				inner[i] = hclQuoteInner(ls[i])
			}
			return `split("` + hclSep + `", "` + strings.Join(inner, hclSep) + `")`
		}},
		{n >= 1 && n < 10, func() string {
			es := make([]string, n)
			for i, x := range xs {
				es[i] = fmt.Sprintf("a%d = %s", i, hclQuote(x))
			}
			return "values({ " + strings.Join(es, ", ") + " })"
		}},
		{n >= 1 && asc && allNonEmpty, func() string {
			es := make([]string, n)
			for i, x := range xs {
				es[i] = "(" + hclQuote(x) + `) = "v"`
			}
			return "keys({ " + strings.Join(es, ", ") + " })"
		}},
	}
	if g.locals {
		vs = append(vs, hclVariant{true, func() string { return g.place("l", L, `["stale"]`) }})
	}
	return g.choose(vs)
}

// ------------------------------------------------------------------ numbers and booleans

func (g *hclGen) num(n int) string {
	x := fmt.Sprintf("%d", n)
	if !g.funcs {
		return g.place("n", x, "-7")
	}
	if g.locals && g.pick(2) == 0 {
		x = g.place("n", x, "-7")
	}
	return g.choose([]hclVariant{
		{true, func() string { return `index([-7, ` + x + `], 1)` }},
		{true, func() string { return `lookup({ n = ` + x + `, m = -7 }, "n", -7)` }},
		{true, func() string { return `coalesce(` + x + `, -7)` }},
		{true, func() string { return `element(reverse([-7, ` + x + `]), 0)` }},
		{true, func() string { return `element(concat([], [` + x + `]), 0)` }},
	})
}

func (g *hclGen) boolean(v bool) string {
	if !g.funcs {
		return g.place("b", fmt.Sprint(v), fmt.Sprint(!v))
	}
	if g.pick(2) == 0 {
		return fmt.Sprintf("element([%v, %v], 0)", v, !v)
	}
	return fmt.Sprintf(`lookup({ flag = %v }, "flag", %v)`, v, !v)
}

// ------------------------------------------------------------------ the file

func (g *hclGen) localsBlocks() string {
	if !g.locals {
		return "" // no locals block at all
	}
	var b strings.Builder
	for i, lines := range g.blocks {
		b.WriteString("locals {\n")
		if i < 2 {
			b.WriteString("  next = \"next\"\n") // the documentation's example repeats a name in two blocks
		}
		for _, ln := range lines {
			b.WriteString(ln + "\n")
		}
		b.WriteString("}\n")
	}
	return b.String()
}

func renderHCLGen(d scDesc, rot int, locals, funcs bool) string {
	g := &hclGen{locals: locals, funcs: funcs, rot: rot}
	var b strings.Builder
	w := func(f string, a ...interface{}) { fmt.Fprintf(&b, f, a...) }
	q := hclQuote
	for _, s := range d.Sources {
		w("variable_source %s %s {\n", q(s.Name), q(s.Type))
		if len(s.File) == 1 {
			w("  file = %s\n", g.str(s.File[0]))
		}
		if len(s.Fields) == 1 {
			w("  fields = %s\n", g.listx(s.Fields[0]))
		}
		if len(s.Ifl) == 1 {
			w("  ignore_first_line = %s\n", g.boolean(s.Ifl[0]))
		}
		if len(s.Delim) == 1 {
			w("  delimiter = %s\n", g.str(s.Delim[0]))
		}
		if len(s.Variables) == 1 {
			switch {
			case len(s.Numvars) == 0:
				w("  variables = %s\n", g.mapx(s.Variables[0], "  "))
			case g.funcs:
				w("  variables = merge(%s, {\n", g.mapx(s.Variables[0], "  "))
				for _, nv := range s.Numvars {
					w("    %s = %d\n", nv.Key, nv.Val)
				}
				w("  })\n")
			default:
				var o strings.Builder
				o.WriteString("{\n")
				for _, p := range s.Variables[0] {
					o.WriteString("    " + hclKeyL(p[0]) + " = " + q(p[1]) + "\n")
				}
				for _, nv := range s.Numvars {
					fmt.Fprintf(&o, "    %s = %d\n", nv.Key, nv.Val)
				}
				o.WriteString("  }")
				w("  variables = %s\n", g.place("vars", o.String(), `{ stale = "stale" }`))
			}
		}
		w("}\n")
	}
	for _, r := range d.Requests {
		w("request %s {\n", q(r.Name))
		w("  method = %s\n", g.str(r.Method))
		w("  uri = %s\n", g.str(r.URI))
		if len(r.Headers) == 1 {
			w("  headers = %s\n", g.mapx(r.Headers[0], "  "))
		}
		if len(r.Tag) == 1 {
			w("  tag = %s\n", g.str(r.Tag[0]))
		}
		if len(r.Body) == 1 {
			w("  body = %s\n", g.text(r.Body[0]))
		}
		if len(r.Templater) == 1 {
			w("  templater {\n    type = %s\n  }\n", g.str(r.Templater[0]))
		}
		if len(r.Pre) == 1 {
			w("  preprocessor {\n    mapping = %s\n  }\n", g.mapx(r.Pre[0], "    "))
		}
		for _, p := range r.Posts {
			w("  postprocessor %s {\n", q(p.Type))
			if len(p.Mapping) == 1 {
				w("    mapping = %s\n", g.mapx(p.Mapping[0], "    "))
			}
			if len(p.Headers) == 1 {
				w("    headers = %s\n", g.mapx(p.Headers[0], "    "))
			}
			if len(p.Body) == 1 {
				w("    body = %s\n", g.listx(p.Body[0]))
			}
			if len(p.Status) == 1 {
				w("    status_code = %s\n", g.num(p.Status[0]))
			}
			if len(p.Size) == 1 {
				w("    size {\n      val = %s\n      op = %s\n    }\n", g.num(p.Size[0].Val), g.str(p.Size[0].Op))
			}
			w("  }\n")
		}
		w("}\n")
	}
	for _, c := range d.Calls {
		w("call %s {\n", q(c.Name))
		w("  call = %s\n", g.str(c.Call))
		if len(c.Tag) == 1 {
			w("  tag = %s\n", g.str(c.Tag[0]))
		}
		if len(c.Metadata) == 1 {
			w("  metadata = %s\n", g.mapx(c.Metadata[0], "  "))
		}
		for _, p := range c.Pres {
			w("  preprocessor %s {\n    mapping = %s\n  }\n", q(p.Type), g.mapx(p.Mapping, "    "))
		}
		w("  payload = %s\n", g.text(c.Payload))
		for _, p := range c.Posts {
			w("  postprocessor %s {\n", q(p.Type))
			if len(p.Payload) == 1 {
				w("    payload = %s\n", g.listx(p.Payload[0]))
			}
			if len(p.Status) == 1 {
				w("    status_code = %s\n", g.num(p.Status[0]))
			}
			w("  }\n")
		}
		w("}\n")
	}
	for _, sc := range d.Scenarios {
		w("scenario %s {\n", q(sc.Name))
		if len(sc.Weight) == 1 {
			w("  weight = %s\n", g.num(sc.Weight[0]))
		}
		if len(sc.Mwt) == 1 {
			w("  min_waiting_time = %s\n", g.num(sc.Mwt[0]))
		}
		w("  requests = %s\n", g.listx(stepTexts(sc)))
		w("}\n")
	}
	// comments of all three kinds; nothing in them is evaluated
	return "// scenario \"file\" ${not.evaluated} %{if}\n# second comment style: 'x'\n/* block\n   comment */\n" +
		g.localsBlocks() + b.String()
}
