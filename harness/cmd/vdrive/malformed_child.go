package main

// C13 driver (child side): runs a batch of jobs against the real pandora code, one after the other, each
// in its own goroutine under `recover` and a watchdog.  Before a job starts a {"begin":n} marker is
// written and flushed, after it the result line: if the process dies in between (a panic in a goroutine
// the driver does not own, an allocation failure under the address-space limit), the parent knows which
// job killed it.
//
// Hang rule: a job that has not finished 5 s after it was started (normal: < 5 ms) is run once more; if it
// is stuck again the observation gets a Hang event, and the child leaves (exit 4) so that spinning
// goroutines do not disturb later jobs.

import (
	"context"
	"encoding/json"
	"flag"
	"fmt"
	"net/http"
	"os"
	"runtime/debug"
	"strings"
	"syscall"
	"time"

	"github.com/spf13/afero"
	"go.uber.org/zap"

	phttpimport "github.com/yandex/pandora/components/phttp/import"
	grpcammo "github.com/yandex/pandora/components/providers/grpc"
	"github.com/yandex/pandora/components/providers/grpc/grpcjson"
	httpprov "github.com/yandex/pandora/components/providers/http"
	httpconf "github.com/yandex/pandora/components/providers/http/config"
	scnimport "github.com/yandex/pandora/components/providers/scenario/import"
	"github.com/yandex/pandora/core"
	coreimport "github.com/yandex/pandora/core/import"

	"verifharness/internal/vt"
)

var (
	mfFS       afero.Fs // the one file system the scenario plugins were registered with
	mfRepo     string
	mfHangWait = 5 * time.Second
)

func malformedChild(args []string) {
	fl := flag.NewFlagSet("malformed-child", flag.ExitOnError)
	jobsPath := fl.String("jobs", "", "")
	out := fl.String("out", "", "")
	repo := fl.String("repo", "/repo", "")
	memMB := fl.Int("mem", 4096, "")
	hangMs := fl.Int("hangms", 5000, "")
	fl.Parse(args)
	mfHangWait = time.Duration(*hangMs) * time.Millisecond
	mfRepo = *repo
	if *memMB > 0 {
		lim := syscall.Rlimit{Cur: uint64(*memMB) << 20, Max: uint64(*memMB) << 20}
		if err := syscall.Setrlimit(syscall.RLIMIT_AS, &lim); err != nil {
			fmt.Fprintln(os.Stderr, "setrlimit:", err)
			os.Exit(5)
		}
	}
	debug.SetTraceback("single")
	mfFS = afero.NewMemMapFs()
	coreimport.Import(mfFS)
	scnimport.Import(mfFS)
	phttpimport.Import(mfFS)
	zapExitToPanic() // log.Fatal of cli.readConfig is observed in-process (confdecode_rec.go)

	var jobs []mfJob
	for _, m := range vt.ReadNDJSON(*jobsPath) {
		b, _ := json.Marshal(m)
		var j mfJob
		if err := json.Unmarshal(b, &j); err != nil {
			machinery("bad job: %v", err)
		}
		jobs = append(jobs, j)
	}
	f, err := os.Create(*out)
	if err != nil {
		machinery("%v", err)
	}
	emit := func(v interface{}) {
		b, err := json.Marshal(v)
		if err != nil {
			machinery("%v", err)
		}
		f.Write(append(b, '\n'))
	}
	for i, j := range jobs {
		emit(map[string]int{"begin": i})
		var ln mfLine
		hung := false
		for attempt := 0; attempt < 2; attempt++ {
			res := make(chan mfLine, 1)
			go func() { res <- mfRunJob(j) }()
			select {
			case ln = <-res:
				hung = false
			case <-time.After(mfHangWait):
				hung = true
			}
			if !hung {
				break
			}
		}
		if hung {
			ln = mfLine{K: j.K, C: j.C, Format: j.Fmt, Mode: j.Mode, Seed: j.Seed, EC: j.EC, LC: j.LC, Obs: mfHangObs(j), Evs: []mfEvent{{"Hang", fmt.Sprintf("no return within %v, twice", mfHangWait)}}, Res: "hang"}
			emit(ln)
			f.Close()
			os.Exit(4)
		}
		emit(ln)
	}
	f.Close()
}

func mfHangObs(j mfJob) *mfEditObs {
	if j.K != "edit" && j.K != "ledit" {
		return nil
	}
	return &mfEditObs{Res: "hang", InvalidAt: []int{}}
}

func machinery(format string, a ...interface{}) {
	fmt.Fprintf(os.Stderr, "MACHINERY: "+format+"\n", a...)
	os.Exit(5)
}

func mfRunJob(j mfJob) mfLine {
	if j.C != nil && j.C.Arg == nil {
		j.C.Arg = []interface{}{}
	}
	switch j.K {
	case "case":
		if j.C.Kind == "ammo" {
			return mfRunAmmoCase(*j.C)
		}
		return mfRunDescCase(*j.C)
	case "fuzz":
		return mfRunFuzz(j)
	case "edit":
		return mfRunEdit(*j.EC)
	case "ledit":
		return mfRunLineEdit(*j.LC)
	}
	machinery("unknown job kind %q", j.K)
	return mfLine{}
}

// ---------------------------------------------------------------------------------------------------
// running one ammo file through a real provider

type mfDelivery struct {
	Tag, Method, URI, Body, Common string
	Seq, Host                      string // per-entry in-file header state (uri, uripost): [X-Seq: id] [Host: id.example.org]
	rawURI                         string
	Invalid                        bool
	keep                           *http.Request // the built request, looked at again when the whole file has been read
	Raw                            string        // whole projection (fuzz: compared for equality with the reference run)
}

type mfRunResult struct {
	deliveries []mfDelivery
	ctorErr    error
	runErr     error
	panics     []string
	cancelled  bool // Run had to be cancelled: the consumer was told "no more ammo" while Run was still going
	falseAmmo  bool // Acquire returned (non-nil ammo, false)
}

func safely(panics chan<- string, where string, f func()) {
	defer func() {
		if r := recover(); r != nil {
			panics <- fmt.Sprintf("%s: %v", where, r)
		}
	}()
	f()
}

// mfRunProvider: construct -> Run in its own goroutine -> Acquire until ok=false -> wait for Run.
func mfRunProvider(construct func() (core.Provider, error), project func(core.Ammo) mfDelivery, maxAcquire int) (res mfRunResult) {
	panics := make(chan string, 8)
	var p core.Provider
	safely(panics, "constructor", func() { p, res.ctorErr = construct() })
	drain := func() {
		for {
			select {
			case s := <-panics:
				res.panics = append(res.panics, s)
			default:
				return
			}
		}
	}
	drain()
	if len(res.panics) > 0 || res.ctorErr != nil {
		return
	}
	ctx, cancel := context.WithCancel(context.Background())
	defer cancel()
	runDone := make(chan error, 1)
	go func() {
		var err error
		ok := false
		safely(panics, "Run", func() { err = p.Run(ctx, core.ProviderDeps{Log: zap.NewNop(), PoolID: "verif"}); ok = true })
		if !ok {
			cancel()
		}
		runDone <- err
	}()
	consDone := make(chan struct{})
	go func() {
		defer close(consDone)
		safely(panics, "Acquire", func() {
			for n := 0; maxAcquire == 0 || n < maxAcquire; n++ {
				a, ok := p.Acquire()
				if !ok {
					if a != nil && !isNilAmmo(a) {
						res.falseAmmo = true
					}
					return
				}
				res.deliveries = append(res.deliveries, project(a))
				p.Release(a)
			}
		})
	}()
	runReturned := false
	select {
	case <-consDone:
	case res.runErr = <-runDone:
		runReturned = true
		// Run is over; a consumer that is still blocked in Acquire would be a hang (sink not closed)
		<-consDone
	}
	if !runReturned {
		select {
		case res.runErr = <-runDone:
		case <-time.After(200 * time.Millisecond):
			// the consumer has stopped but Run has not returned: it can only be blocked handing out the
			// next ammo.  The engine would cancel the provider now; do the same.
			res.cancelled = true
			cancel()
			res.runErr = <-runDone
		}
	}
	if res.runErr == context.Canceled {
		res.runErr = nil
	}
	drain()
	return
}

func isNilAmmo(a core.Ammo) bool {
	if g, ok := a.(*grpcammo.Ammo); ok {
		return g == nil
	}
	return false
}

func mfEvents(r mfRunResult, ids []string) []mfEvent {
	evs := []mfEvent{}
	for _, id := range ids {
		evs = append(evs, mfEvent{"Deliver", id})
	}
	if len(r.panics) > 0 {
		return append(evs, mfEvent{"Panic", trunc(strings.Join(r.panics, " | "), 200)})
	}
	if r.ctorErr != nil || r.runErr != nil {
		return append(evs, mfEvent{"End", "rejected"})
	}
	return append(evs, mfEvent{"End", "accepted"})
}

func trunc(s string, n int) string {
	if len(s) > n {
		return s[:n]
	}
	return s
}

func errStr(e error) string {
	if e == nil {
		return ""
	}
	return trunc(e.Error(), 300)
}

// the `headers` option of the http provider config, per class
func mfConfigHeaders(cls string) []string {
	switch cls {
	case "cfghdr_nocolon":
		return []string{"[X-Conf: ok]", "[Host example.org]"}
	case "cfghdr_nobracket":
		return []string{"[Host: example.org"}
	case "cfghdr_emptykey":
		return []string{"[: value]"}
	}
	return nil
}

func mfHTTPProvider(format, mode string, data []byte) func() (core.Provider, error) {
	return mfHTTPProviderH(format, mode, data, nil)
}

func mfHTTPProviderH(format, mode string, data []byte, headers []string) func() (core.Provider, error) {
	return mfHTTPProviderHP(format, mode, data, headers, 1)
}

func mfHTTPProviderHP(format, mode string, data []byte, headers []string, passes int) func() (core.Provider, error) {
	return mfHTTPProviderHPL(format, mode, data, headers, passes, 0)
}

func mfHTTPProviderHPL(format, mode string, data []byte, headers []string, passes, limit int) func() (core.Provider, error) {
	return func() (core.Provider, error) {
		fs := afero.NewMemMapFs()
		if err := afero.WriteFile(fs, "/ammo", data, 0o644); err != nil {
			machinery("%v", err)
		}
		dec := httpconf.DecoderType(format)
		if format == "jsonarray" {
			dec = httpconf.DecoderJSONLine
		}
		conf := httpconf.Config{Decoder: dec, File: "/ammo", Passes: uint(passes), Limit: uint(limit), Preload: mode == "preload",
			ContinueOnError: mode == "continue", Headers: headers}
		return httpprov.NewProvider(fs, conf)
	}
}

func mfGRPCProvider(mode string, data []byte) func() (core.Provider, error) {
	return mfGRPCProviderP(mode, data, 1)
}

func mfGRPCProviderP(mode string, data []byte, passes int) func() (core.Provider, error) {
	return mfGRPCProviderPL(mode, data, passes, 0)
}

func mfGRPCProviderPL(mode string, data []byte, passes, limit int) func() (core.Provider, error) {
	return func() (core.Provider, error) {
		fs := afero.NewMemMapFs()
		if err := afero.WriteFile(fs, "/ammo", data, 0o644); err != nil {
			machinery("%v", err)
		}
		return grpcjson.NewProvider(fs, grpcjson.Config{File: "/ammo", Passes: passes, Limit: limit, ContinueOnError: mode == "continue", MaxAmmoSize: mfGRPCBuf}), nil
	}
}

// max_ammo_size of the grpc/json provider for the case being run (jobs run one at a time in a child)
var mfGRPCBuf int

func mfBufOption(c mfCase) int {
	if c.Cls != "bufline" {
		return 0
	}
	b, _ := c.Arg[1].(string)
	v, ok := map[string]int{"default": 0, "tiny": 50, "large": 100000, "neg": -5}[b]
	if !ok {
		machinery("unknown buffer option %q", b)
	}
	return v
}

// file passes requested from the provider (Malformed!NPasses)
func mfPasses(c mfCase) int {
	switch c.Cls {
	case "cut", "rerun":
		return vt.Int(c.Arg[1])
	case "long":
		return vt.Int(c.Arg[2])
	}
	return 1
}

// delivery limit requested from the provider (Malformed!Limit)
func mfLimit(c mfCase) int {
	if c.Cls == "rerun" {
		return vt.Int(c.Arg[2])
	}
	return 0
}

func mfHeadline(req *http.Request) string {
	return fmt.Sprintf("%s %s host=%q seq=%q common=%q", req.Method, req.URL.RequestURI(), req.Host, req.Header.Get("X-Seq"), req.Header.Get("X-Common"))
}

func mfHeadlineOf(d mfDelivery) string {
	return fmt.Sprintf("%s %s host=%q seq=%q common=%q", d.Method, d.rawURI, d.Host, d.Seq, d.Common)
}

func mfRunAmmoCase(c mfCase) mfLine {
	if c.Cls == "degen" {
		return mfRunDegenCase(c)
	}
	data, entries := mfRenderCase(c)
	passes := mfPasses(c)
	var r mfRunResult
	if c.Format == "grpcjson" {
		mfGRPCBuf = mfBufOption(c)
		r = mfRunProvider(mfGRPCProviderPL(c.Mode, data, passes, mfLimit(c)), mfProjectGRPC, 0)
		mfGRPCBuf = 0
	} else {
		r = mfRunProvider(mfHTTPProviderHPL(c.Format, c.Mode, data, mfConfigHeaders(c.Cls), passes, mfLimit(c)), mfProjectHTTP, 0)
	}
	byTag := map[string]mfEntry{}
	if c.Cls == "long" {
		for _, e := range entries {
			byTag[e.Tag] = e
		}
	}
	ids := make([]string, len(r.deliveries))
	for i, d := range r.deliveries {
		if c.Cls == "long" {
			// hundreds of entries: look the candidate up by tag, then compare the whole projection as usual
			e, ok := byTag[d.Tag]
			if d.Invalid || !ok {
				ids[i] = mfIdentify(d, nil)
			} else {
				ids[i] = mfIdentify(d, []mfEntry{e})
			}
			continue
		}
		ids[i] = mfIdentify(d, entries)
		// "unchanged" holds for the lifetime of a delivery: look at the built request again now that the
		// provider has read the rest of the file
		if d.keep != nil {
			late := mfHeadline(d.keep)
			if late != mfHeadlineOf(d) {
				ids[i] = trunc(fmt.Sprintf("mutated(%s: %s -> %s)", ids[i], mfHeadlineOf(d), late), 200)
			}
		}
	}
	info := map[string]interface{}{"ctor_err": errStr(r.ctorErr), "run_err": errStr(r.runErr), "bytes": len(data)}
	if len(data) < 600 {
		info["file"] = string(data)
	}
	if r.cancelled {
		info["run_cancelled_after_consumer_stopped"] = true
	}
	if r.falseAmmo {
		info["acquire_returned_ammo_with_ok_false"] = true
	}
	return mfLine{K: "case", C: &c, Evs: mfEvents(r, ids), Info: info}
}
