// vdrive samplepool: C10 conformance driver for the life-cycle of pooled samples.
//
// Shots of TLC-generated plans (SamplePoolGen: all sequences of shot kinds) are fired by REAL http guns (ammo from the
// REAL uri provider) into the REAL phout aggregator - built through the plugin registry like everything else - which
// is the aggregator that writes a sample's line and then returns the object to the process-wide pool.  A tee in front
// of the aggregator records, under its mutex, which object was reported and what it contained; after the run the phout
// file is read back line by line.
//
// Records only.  Whether a reported sample codes its own shot (and nothing of the object's previous use) and whether
// the file shows what was reported is decided by TLC (spec/SamplePool.tla through TraceSamplePool.tla).
package main

import (
	"context"
	"encoding/json"
	"flag"
	"fmt"
	"os"
	"runtime"
	"strconv"
	"strings"
	"sync"
	"time"

	"github.com/spf13/afero"
	"github.com/yandex/pandora/cli"
	"github.com/yandex/pandora/core"
	"github.com/yandex/pandora/core/aggregator/netsample"
	"github.com/yandex/pandora/core/config"
	"github.com/yandex/pandora/core/engine"
	"github.com/yandex/pandora/lib/monitoring"
	"go.uber.org/zap"

	"verifharness/internal/targets"
	"verifharness/internal/vt"
)

func init() { register("samplepool", samplepoolMain) }

// spSample: every column of a phout line.
type spSample struct {
	TS    string   `json:"ts"`
	Tags  []string `json:"tags"`
	ID    int      `json:"id"`
	RTT   int      `json:"rtt"`
	Cols  []int    `json:"cols"` // connect, send, latency, receive, interval_event, request bytes, response bytes
	Net   int      `json:"net"`
	Proto int      `json:"proto"`
}

type spShotC struct {
	Kind string `json:"kind"` // http | discard
	Out  scOut  `json:"out"`
	Dump bool   `json:"dump"`
}

type spPlan struct {
	Kind  string            `json:"kind"`
	Shots []json.RawMessage `json:"shots"`
}

type spEv struct {
	Ev      string          `json:"ev"` // Reset | Shot | Line | End
	Run     int             `json:"run"`
	Procs   int             `json:"procs,omitempty"`
	N       int             `json:"n,omitempty"`
	Agg     string          `json:"agg,omitempty"`
	Inst    int             `json:"inst"`
	Plan    int             `json:"plan,omitempty"`
	C       json.RawMessage `json:"c,omitempty"`
	Ammo    int             `json:"ammo"`
	Obj     int             `json:"obj"`
	J       int             `json:"j,omitempty"`
	S       *spSample       `json:"s,omitempty"`
	Reports int             `json:"reports"`
	Lines   int             `json:"lines"`
	Raw     string          `json:"raw,omitempty"` // Line: the line as written (evidence)
}

// spParse reads one phout line (with ids): "<ts>\t<tags>#<id>\t<10 integer columns>".
func spParse(line string) *spSample {
	f := strings.Split(line, "\t")
	if len(f) != 12 {
		panic("samplepool: unexpected phout line " + strconv.Quote(line))
	}
	s := &spSample{TS: f[0], Tags: []string{}, Cols: []int{}}
	tagid := f[1]
	h := strings.LastIndex(tagid, "#")
	if h < 0 {
		panic("samplepool: no #id in " + strconv.Quote(line))
	}
	if tagid[:h] != "" {
		s.Tags = strings.Split(tagid[:h], "|")
	}
	num := func(x string) int {
		n, err := strconv.ParseInt(x, 10, 64)
		if err != nil {
			panic("samplepool: column " + strconv.Quote(x))
		}
		return vt.Small(n)
	}
	s.ID = num(tagid[h+1:])
	s.RTT = num(f[2])
	for _, x := range f[3:10] {
		s.Cols = append(s.Cols, num(x))
	}
	s.Net, s.Proto = num(f[10]), num(f[11])
	return s
}

// spCore is the tee in front of the real aggregator: one mutex around "log, then forward", so the order of the log is
// the order in which the aggregator's queue received the samples.
type spCore struct {
	mu      sync.Mutex
	inner   core.Aggregator
	run     int
	evs     []spEv
	objs    map[*netsample.Sample]int // identity of every sample object ever reported (kept alive: addresses stay unique)
	reports int
}

type spTee struct {
	core *spCore
	inst int
	// the shot this instance is firing (set by the instance's goroutine before Shoot / discard)
	plan int
	c    json.RawMessage
	ammo int
}

func (t *spTee) Run(ctx context.Context, _ core.AggregatorDeps) error { <-ctx.Done(); return nil }

func (t *spTee) Report(s core.Sample) {
	ns, ok := s.(*netsample.Sample)
	if !ok {
		panic(fmt.Sprintf("samplepool: sample %T", s))
	}
	c := t.core
	c.mu.Lock()
	idx, seen := c.objs[ns]
	if !seen {
		idx = len(c.objs) + 1
		c.objs[ns] = idx
	}
	c.reports++
	c.evs = append(c.evs, spEv{Ev: "Shot", Run: c.run, Inst: t.inst, Plan: t.plan, C: t.c, Ammo: t.ammo, Obj: idx, S: spParse(ns.String())})
	c.inner.Report(s) // from here on the object belongs to the aggregator
	c.mu.Unlock()
}

type spInst struct {
	tee     *spTee
	plain   core.Gun
	dump    core.Gun
	refused core.Gun
}

func samplepoolMain(args []string) {
	fl := flag.NewFlagSet("samplepool", flag.ExitOnError)
	plansPath := fl.String("plans", "", "TLC-generated plans (NDJSON)")
	outPath := fl.String("out", "", "output NDJSON")
	procs := fl.Int("procs", 1, "GOMAXPROCS (0: leave the default)")
	nInst := fl.Int("n", 1, "instances shooting concurrently")
	perRun := fl.Int("per-run", 20, "plans per phout aggregator")
	repeat := fl.Int("repeat", 1, "play the plan list that many times")
	mode := fl.String("mode", "plans", "plans | engine (a whole pool run by the real engine from a YAML config, discard_overflow at work)")
	_ = fl.Parse(args)
	if *mode == "engine" {
		spEngineMain(*outPath)
		return
	}
	if *procs > 0 {
		runtime.GOMAXPROCS(*procs)
	}
	w := vt.Create(*outPath)
	defer w.Close()
	fs := hwImport()
	zl := zap.NewNop()
	rec := &targets.Recorder{}
	tgt := targets.NewHTTP("target", false, rec)
	defer tgt.Close()
	refused, err := targets.NewRefusedPort()
	if err != nil {
		panic(err)
	}
	defer refused.Close()
	raw, err := os.ReadFile(*plansPath)
	if err != nil {
		panic(err)
	}
	plans := []hwCase{}
	for r := 0; r < *repeat; r++ {
		for _, ln := range strings.Split(strings.TrimSpace(string(raw)), "\n") {
			var cs hwCase
			if err := json.Unmarshal([]byte(ln), &cs); err != nil {
				panic(err)
			}
			plans = append(plans, cs)
		}
	}
	// the seed rotates the plan list: which plan follows which across run boundaries varies
	if k := int(vt.Seed()) % len(plans); k > 0 {
		plans = append(plans[k:], plans[:k]...)
	}
	shared := &spCore{objs: map[*netsample.Sample]int{}}
	// instances: three real guns each (plain, httptrace dump + trace, target = a port nobody listens on), all reporting
	// through the instance's tee
	insts := []*spInst{}
	for i := 0; i < *nInst; i++ {
		in := &spInst{tee: &spTee{core: shared, inst: i + 1}}
		mk := func(m map[string]interface{}) core.Gun {
			f, err := hwDecodeGunFactory(m, i%2 == 1)
			if err != nil {
				panic(err)
			}
			g, err := hwNewGun(f, in.tee, context.Background(), zl, i, &hwShared{})
			if err != nil {
				panic(err)
			}
			return g
		}
		in.plain = mk(map[string]interface{}{"type": "http", "target": tgt.Addr()})
		in.dump = mk(map[string]interface{}{"type": "http", "target": tgt.Addr(), "httptrace": map[string]interface{}{"dump": true, "trace": true}})
		in.refused = mk(map[string]interface{}{"type": "http", "target": refused.Addr})
		insts = append(insts, in)
	}
	run := 0
	for lo := 0; lo < len(plans); lo += *perRun * *nInst {
		hi := lo + *perRun**nInst
		if hi > len(plans) {
			hi = len(plans)
		}
		run++
		spRun(w, fs, zl, rec, shared, insts, plans[lo:hi], run, *procs)
	}
}

// spEngineMain: the REAL engine runs a pool read from a YAML config the way the CLI reads it (discard_overflow is on by
// default): one instance, real uri provider, real http gun, real phout aggregator.  The first request is answered only
// after 2.3 s, so the tokens of the schedule that fell due in the meantime are more than 2 s overdue when the instance
// comes back - the engine DISCARDS those shots (a `discarded` sample each, which the aggregator writes and puts into the
// sample pool) - and the following tokens are fired normally, with samples taken from that pool.  Only the phout file is
// recorded: every line, in file order.
func spEngineMain(outPath string) {
	w := vt.Create(outPath)
	defer w.Close()
	fs := hwImport()
	rec := &targets.Recorder{}
	tgt := targets.NewHTTP("target", false, rec)
	defer tgt.Close()
	dir, err := os.MkdirTemp("", "verif-sp-engine-")
	if err != nil {
		panic(err)
	}
	defer os.RemoveAll(dir)
	const burst, rate, secs = 12, 20, 3
	var ammo strings.Builder
	ammo.WriteString("/__beh/sleepms/2300/slow\n")
	for k := 0; k < 200; k++ {
		fmt.Fprintf(&ammo, "/fast/%d\n", k)
	}
	if err := afero.WriteFile(fs, "/sp/engine.ammo", []byte(ammo.String()), 0o644); err != nil {
		panic(err)
	}
	dest := "/sp/engine_phout.log"
	yaml := fmt.Sprintf(`pools:
  - id: pool
    gun:
      type: http
      target: %s
      dial: {timeout: 120s}
    ammo:
      type: uri
      file: /sp/engine.ammo
    result:
      type: phout
      destination: %s
      id: true
    rps:
      - {type: once, times: %d}
      - {type: const, ops: %d, duration: %ds}
    startup:
      type: once
      times: 1
log:
  level: error
`, tgt.Addr(), dest, burst, rate, secs)
	cfgFile := dir + "/load.yaml"
	if err := os.WriteFile(cfgFile, []byte(yaml), 0o644); err != nil {
		panic(err)
	}
	conf := cli.VerifReadConfig([]string{cfgFile})
	zap.ReplaceGlobals(zap.NewNop())
	m := engine.Metrics{Request: &monitoring.Counter{}, Response: &monitoring.Counter{}, InstanceStart: &monitoring.Counter{}, InstanceFinish: &monitoring.Counter{}}
	eng := engine.New(zap.NewNop(), m, conf.Engine)
	ctx, cancel := context.WithTimeout(context.Background(), 120*time.Second)
	defer cancel()
	if err := eng.Run(ctx); err != nil {
		panic(fmt.Sprintf("engine run: %v", err))
	}
	eng.Wait()
	tokens := burst + rate*secs
	w.Emit(spEv{Ev: "Reset", Run: 1, N: 1, Agg: "phout engine discard_overflow=" + fmt.Sprint(conf.Engine.Pools[0].DiscardOverflow)})
	b, err := afero.ReadFile(fs, dest)
	if err != nil {
		panic(err)
	}
	n := 0
	for _, ln := range strings.Split(string(b), "\n") {
		if ln == "" {
			continue
		}
		n++
		w.Emit(spEv{Ev: "ELine", Run: 1, J: n, S: spParse(ln), Raw: ln})
	}
	w.Emit(spEv{Ev: "EEnd", Run: 1, Reports: tokens, Lines: n})
}

// spRun: one phout aggregator (own output file), the instances share out the plans and shoot concurrently.
func spRun(w *vt.Writer, fs afero.Fs, zl *zap.Logger, rec *targets.Recorder, shared *spCore, insts []*spInst, plans []hwCase, run, procs int) {
	dest := fmt.Sprintf("/sp/phout%d.log", run)
	var holder struct {
		A core.Aggregator `config:"result" validate:"required"`
	}
	if err := config.DecodeAndValidate(map[string]interface{}{"result": hwShape(map[string]interface{}{"type": "phout", "destination": dest, "id": true}, run%2 == 0)}, &holder); err != nil {
		panic(fmt.Sprintf("phout aggregator: %v", err))
	}
	ctx, cancel := context.WithCancel(context.Background())
	aggDone := make(chan error, 1)
	go func() { aggDone <- holder.A.Run(ctx, core.AggregatorDeps{Log: zl}) }()
	shared.mu.Lock()
	shared.inner, shared.run, shared.evs, shared.reports = holder.A, run, nil, 0
	shared.mu.Unlock()
	w.Emit(spEv{Ev: "Reset", Run: run, Procs: procs, N: len(insts), Agg: "phout"})
	var wg sync.WaitGroup
	for i, in := range insts {
		wg.Add(1)
		go func(i int, in *spInst) {
			defer wg.Done()
			for k := i; k < len(plans); k += len(insts) {
				spPlay(fs, zl, in, plans[k])
				rec.Drain()
			}
		}(i, in)
	}
	wg.Wait()
	cancel() // the aggregator handles everything that is still queued, flushes and closes its file
	select {
	case err := <-aggDone:
		if err != nil {
			panic(fmt.Sprintf("phout aggregator run: %v", err))
		}
	case <-time.After(120 * time.Second):
		panic("phout aggregator did not finish within 120s")
	}
	shared.mu.Lock()
	evs, reports := shared.evs, shared.reports
	shared.inner = nil
	shared.mu.Unlock()
	for _, e := range evs {
		w.Emit(e)
	}
	b, err := afero.ReadFile(fs, dest)
	if err != nil {
		panic(err)
	}
	_ = fs.Remove(dest)
	n := 0
	for _, ln := range strings.Split(string(b), "\n") {
		if ln == "" {
			continue
		}
		n++
		w.Emit(spEv{Ev: "Line", Run: run, J: n, S: spParse(ln), Raw: ln})
	}
	w.Emit(spEv{Ev: "End", Run: run, Reports: reports, Lines: n})
}

// spPlay fires the shots of one plan on one instance, one after the other: the non-discard shots take their ammo from
// ONE real uri provider (the behaviour the target shows travels in the request path), a discard is what the engine
// does for a shot it drops (core/engine/instance.go: aggregator.Report(netsample.DiscardedShootSample())).
func spPlay(fs afero.Fs, zl *zap.Logger, in *spInst, cs hwCase) {
	var p spPlan
	if err := json.Unmarshal(cs.C, &p); err != nil {
		panic(err)
	}
	shots := []spShotC{}
	var file strings.Builder
	nfire := 0
	for _, rawShot := range p.Shots {
		var c spShotC
		if err := json.Unmarshal(rawShot, &c); err != nil {
			panic(err)
		}
		shots = append(shots, c)
		if c.Kind == "http" {
			file.WriteString(scBehPath(c.Out, "x") + "\n")
			nfire++
		}
	}
	var prov core.Provider
	stop := func() error { return nil }
	path := fmt.Sprintf("/sp/i%d_p%d.ammo", in.tee.inst, cs.ID)
	if nfire > 0 {
		if err := afero.WriteFile(fs, path, []byte(file.String()), 0o644); err != nil {
			panic(err)
		}
		var err error
		prov, err = hwDecodeProvider(map[string]interface{}{"type": "uri", "file": path, "limit": nfire}, cs.ID%2 == 1)
		if err != nil {
			panic(err)
		}
		stop = hwRunProvider(prov, zl)
	}
	for k, c := range shots {
		in.tee.plan, in.tee.c = cs.ID, p.Shots[k]
		if c.Kind == "discard" {
			in.tee.ammo = 0
			in.tee.Report(netsample.DiscardedShootSample())
		} else {
			a, ok := prov.Acquire()
			if !ok {
				panic(fmt.Sprintf("plan %d: provider gave no ammo", cs.ID))
			}
			in.tee.ammo = 0
			if ha, ok := a.(interface{ ID() uint64 }); ok {
				in.tee.ammo = vt.Small(int64(ha.ID()))
			}
			g := in.plain
			if c.Dump {
				g = in.dump
			}
			if c.Out.Kind == "refused" {
				g = in.refused
			}
			g.Shoot(a)
			prov.Release(a)
		}
		runtime.Gosched() // let the aggregator take the sample (not needed for correctness: it only makes recycling likelier)
	}
	if err := stop(); err != nil {
		panic(fmt.Sprintf("plan %d provider run: %v", cs.ID, err))
	}
	if nfire > 0 {
		_ = fs.Remove(path)
	}
}
