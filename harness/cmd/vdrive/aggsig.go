// aggsig: C06 process-level driver.
//
//	vdrive aggsig -vpandora <binary> -out trace.ndjson -runs N
//
// Starts the custom pandora `vpandora` (real cli.Run + counting wrapper around the real phout /
// jsonlines aggregators) against an in-process HTTP target, waits until it is shooting, sleeps a
// seeded 30..1500 ms, reads the number of Report calls that have RETURNED so far (ret.bin length),
// sends SIGINT or SIGTERM (some runs: no signal, the run ends by itself), waits for the exit, and
// records
//
//	Start{run,kind,sig,after_ms,q,rps,inst,inst_total,pools,pipe,gomaxprocs}
//	Signal{run,sig,returned_before}
//	Exit{run,status,forced,entered,returned,lines,malformed,last_complete,agg_returned,dropped,agg_err,wait_ms}
//
// Varied per run: phout / jsonlines (small queues: counted drops), SIGINT / SIGTERM / none, one or two
// pools (own aggregator and result file each, shared counters), GOMAXPROCS of pandora, and the result
// destination: a plain file, or a FIFO with a one-page buffer that the driver drains slowly (a slow sink:
// the final flush then takes tens of milliseconds).  `forced` is taken from pandora's own log
// ("timeout exceeded", "Another signal received").
// `returned_before` is read BEFORE the signal is sent, so every one of those reports was made before
// the stop; `entered` counts calls that had at least begun when the process exited.
//
// Scenarios beyond the plain "one signal into a healthy run" (sigRun.scen):
//
//	second    a SECOND SIGINT/SIGTERM 20..200 ms after the first while the final flush crawls into a slow pipe
//	timeout   SIGTERM while the sink has stopped taking bytes altogether: pandora must give up after its 3 s
//	          interrupt timeout (`-long`: SIGINT, 30 s)
//	startup   the signal is sent 0..120 ms after the process was started, without waiting for a first report
//	          (before / around signal.Notify: the default action may still kill the process)
//	hup/quit  SIGHUP / SIGQUIT mid-run: cli.go does not trap them
//	full      the result destination is /dev/full: every write fails with ENOSPC; no signal
//	nodir     the result destination lies in a directory that does not exist: it cannot be opened; no signal
//	grpc      the grpc gun against an in-process grpc target (reflection), one signal
//	mixed     two pools with DIFFERENT aggregator kinds (phout and jsonlines), one signal
//	backpr    queue of 16 + 4 KiB buffer + a pipe slower than the load: the aggregator sits in write(2), instances
//	          are parked in phout's blocking Report (jsonlines: counted drops) when the signal arrives
//	hang      (`-hangs N`) the target stops answering right before SIGTERM (the http gun watches no context and has no
//	          response timeout: the shots in flight hang), the result goes to a plain file - jsonlines with a
//	          flush interval of a minute, phout with its default buffer: pandora gives up after 3 s
//	          ("Interrupt timeout exceeded"), and by then the aggregator - stopped by the cancel of the run, not by the
//	          end of the instances - has flushed and closed everything reported before the signal
//
// The driver only RECORDS; TraceShutdown.tla decides.
package main

import (
	"bytes"
	"context"
	"encoding/json"
	"flag"
	"fmt"
	"math/rand"
	"net"
	"net/http"
	"os"
	"os/exec"
	"path/filepath"
	"strings"
	"sync"
	"sync/atomic"
	"syscall"
	"time"

	"github.com/yandex/pandora/examples/grpc/server"
	"google.golang.org/grpc"
	"google.golang.org/grpc/reflection"

	"verifharness/internal/vt"
)

// the repository's example TargetService, Hello only, with server reflection (the grpc gun needs it)
type sigGrpcTarget struct {
	server.UnimplementedTargetServiceServer
}

func (sigGrpcTarget) Hello(ctx context.Context, r *server.HelloRequest) (*server.HelloResponse, error) {
	return &server.HelloResponse{Hello: "hi " + r.Name}, nil
}

func startSigGrpcTarget() (addr string, stop func()) {
	l, err := net.Listen("tcp", "127.0.0.1:0")
	if err != nil {
		panic(err)
	}
	srv := grpc.NewServer()
	server.RegisterTargetServiceServer(srv, sigGrpcTarget{})
	reflection.Register(srv)
	go func() { _ = srv.Serve(l) }()
	return l.Addr().String(), srv.Stop
}

func init() { register("aggsig", aggSigMain) }

type sigRun struct {
	run     int
	kind    string // vphout | vjsonlines
	sig     string // INT | TERM | none
	afterMs int
	q       int // sample queue size (0: default)
	rps     int
	inst    int
	pipe    bool // the result destination is a FIFO that the driver reads slowly (a slow sink)
	gmp     int  // GOMAXPROCS of the pandora process (0: default)
	pools   int  // instance pools, each with its own aggregator and result file
	fail    bool // an extra pool ("vfail" provider, "vnop" gun) fails ~300 ms into the run: the CLI's error path;
	// the signal (if any) is sent when pandora has logged "Engine run failed. Awaiting started tasks."
	scen     string // "" | second | timeout | startup | hup | quit | full | grpc | mixed | backpr (see the file comment)
	secondMs int    // scen second: the second signal follows that much later
	grpcAddr string
}

var sigByName = map[string]syscall.Signal{"INT": syscall.SIGINT, "TERM": syscall.SIGTERM, "HUP": syscall.SIGHUP, "QUIT": syscall.SIGQUIT}

// slowPipe: a FIFO with a one-page buffer that is drained at a few MB/s: the aggregator's flush of
// more than a page blocks until the reader has taken it, like a slow disk / a piped consumer would.
type slowPipe struct {
	fd     int
	mu     sync.Mutex
	data   []byte
	stop   chan struct{}
	done   chan struct{}
	paused int32 // 1: the reader takes nothing (a sink that blocks) until finish()
}

func (p *slowPipe) pause() { atomic.StoreInt32(&p.paused, 1) }

func newSlowPipe(path string, delay time.Duration) *slowPipe {
	if err := syscall.Mkfifo(path, 0644); err != nil {
		panic(err)
	}
	fd, err := syscall.Open(path, syscall.O_RDWR|syscall.O_NONBLOCK, 0)
	if err != nil {
		panic(err)
	}
	const fSetPipeSz = 1031
	syscall.Syscall(syscall.SYS_FCNTL, uintptr(fd), fSetPipeSz, 4096)
	p := &slowPipe{fd: fd, stop: make(chan struct{}), done: make(chan struct{})}
	go func() {
		defer close(p.done)
		buf := make([]byte, 4096)
		stopping := false
		for {
			if !stopping && atomic.LoadInt32(&p.paused) == 1 {
				select {
				case <-p.stop:
					stopping = true
				case <-time.After(time.Millisecond):
				}
				continue
			}
			n, err := syscall.Read(fd, buf)
			if n > 0 {
				p.mu.Lock()
				p.data = append(p.data, buf[:n]...)
				p.mu.Unlock()
				if !stopping {
					time.Sleep(delay)
				}
				continue
			}
			if err != nil && err != syscall.EAGAIN && err != syscall.EINTR {
				return
			}
			if stopping {
				return // writer is gone and the pipe is empty
			}
			select {
			case <-p.stop:
				stopping = true
			case <-time.After(time.Millisecond):
			}
		}
	}()
	return p
}

// finish is called after the writer process has exited: take what is still in the pipe.
func (p *slowPipe) finish() []byte {
	close(p.stop)
	<-p.done
	syscall.Close(p.fd)
	return p.data
}

func fileSize(p string) int {
	st, err := os.Stat(p)
	if err != nil {
		return 0
	}
	return int(st.Size())
}

// scen hang: requests whose path begins with /h<run>/ are held while that run's gate is in the map (until the gate
// is closed or the client goes away)
var hangGates sync.Map

func sigTargetHandler(rw http.ResponseWriter, r *http.Request) {
	if strings.HasPrefix(r.URL.Path, "/h") {
		if i := strings.IndexByte(r.URL.Path[1:], '/'); i > 0 {
			if g, ok := hangGates.Load(r.URL.Path[1 : 1+i]); ok {
				select {
				case <-g.(chan struct{}):
				case <-r.Context().Done():
				}
			}
		}
	}
	rw.Write([]byte("ok"))
}

func sigRunOne(cfg sigRun, bin, target string, w *vt.Writer) {
	dir, err := os.MkdirTemp("", "verif-aggsig-")
	if err != nil {
		panic(err)
	}
	defer os.RemoveAll(dir)
	// the second entry carries a TAB inside its tag (everything after the first blank is the tag)
	ammo := "/a\n/b?x=1 my\ttag\n/c\n"
	gateID := fmt.Sprintf("h%d", cfg.run)
	if cfg.scen == "hang" {
		ammo = fmt.Sprintf("/%s/a\n/%s/b?x=1 my\ttag\n/%s/c\n", gateID, gateID, gateID)
	}
	if err := os.WriteFile(filepath.Join(dir, "ammo.uri"), []byte(ammo), 0644); err != nil {
		panic(err)
	}
	grpcAmmo := `{"tag": "hello", "call": "target.TargetService.Hello", "payload": {"name": "x"}}` + "\n" +
		`{"tag": "tab\tand\nnewline", "call": "target.TargetService.Hello", "payload": {"name": "y"}}` + "\n"
	if err := os.WriteFile(filepath.Join(dir, "ammo.grpc.json"), []byte(grpcAmmo), 0644); err != nil {
		panic(err)
	}
	dur := "60s"
	if cfg.sig == "none" && !cfg.fail {
		dur = fmt.Sprintf("%dms", cfg.afterMs)
	}
	if cfg.pools == 0 {
		cfg.pools = 1
	}
	// every pool has its own aggregator and result destination; the counters are shared (sums)
	var outs, kinds []string
	var sps []*slowPipe
	conf := "pools:\n"
	for j := 0; j < cfg.pools; j++ {
		out := filepath.Join(dir, fmt.Sprintf("result%d.out", j))
		if cfg.scen == "full" {
			out = "/dev/full"
		}
		if cfg.scen == "nodir" {
			out = filepath.Join(dir, "no", "such", "dir", "result.out") // cannot be created
		}
		outs = append(outs, out)
		kind := cfg.kind
		if cfg.scen == "mixed" {
			kind = []string{"vphout", "vjsonlines"}[j%2]
		}
		kinds = append(kinds, kind)
		var result string
		if kind == "vphout" {
			result = fmt.Sprintf("{type: vphout, destination: %q, id: true", out)
		} else {
			result = fmt.Sprintf("{type: vjsonlines, sink: {type: file, path: %q}", out)
		}
		if cfg.q > 0 {
			result += fmt.Sprintf(", sample-queue-size: %d", cfg.q)
		}
		if cfg.scen == "hang" && kind == "vjsonlines" {
			result += ", flush-interval: 1m" // longer than any timer of cli.go: only the final flush writes
		}
		if cfg.scen == "backpr" {
			result += ", buffer-size: 4096" // every ~70 lines a write(2) into the crawling pipe
			if kind == "vjsonlines" {
				result += ", flush-interval: 5ms"
			}
		}
		result += "}"
		if cfg.pipe {
			delay := 500 * time.Microsecond
			switch {
			case cfg.fail:
				delay = 3 * time.Millisecond // the final flush of the healthy pool takes a few hundred ms
			case cfg.scen == "second":
				delay = 8 * time.Millisecond // 0.5 MB/s: the final flush of a second's worth of lines takes 0.3..1 s
			case cfg.scen == "backpr":
				delay = 40 * time.Millisecond // 100 KB/s: slower than the load produces lines
			}
			sps = append(sps, newSlowPipe(out, delay))
		}
		gun := fmt.Sprintf("{type: http, target: %q}", target)
		ammoConf := fmt.Sprintf("{type: uri, file: %q}", filepath.Join(dir, "ammo.uri"))
		if cfg.scen == "grpc" {
			gun = fmt.Sprintf("{type: grpc, target: %q, timeout: 60s}", cfg.grpcAddr)
			ammoConf = fmt.Sprintf("{type: grpc/json, file: %q}", filepath.Join(dir, "ammo.grpc.json"))
		}
		conf += fmt.Sprintf(`  - id: p%d
    gun: %s
    ammo: %s
    result: %s
    rps: {type: const, ops: %d, duration: %s}
    startup: {type: once, times: %d}
`, j, gun, ammoConf, result, cfg.rps/cfg.pools, dur, (cfg.inst+cfg.pools-1)/cfg.pools)
	}
	npools := cfg.pools
	if cfg.fail {
		badOut := filepath.Join(dir, "result_bad.out")
		outs = append(outs, badOut)
		kinds = append(kinds, "vphout")
		conf += fmt.Sprintf(`  - id: bad
    gun: {type: vnop}
    ammo: {type: vfail, after: %dms}
    result: {type: vphout, destination: %q}
    rps: {type: const, ops: 10, duration: 60s}
    startup: {type: once, times: 1}
`, cfg.afterMs, badOut)
		npools++
	}
	conf += "log: {level: error}\n"
	confPath := filepath.Join(dir, "load.yaml")
	if err := os.WriteFile(confPath, []byte(conf), 0644); err != nil {
		panic(err)
	}
	w.Emit(map[string]interface{}{"ev": "Start", "run": cfg.run, "kind": cfg.kind, "sig": cfg.sig,
		"after_ms": cfg.afterMs, "q": cfg.q, "rps": cfg.rps, "inst": cfg.inst, "pipe": cfg.pipe, "gomaxprocs": cfg.gmp, "pools": npools, "fail": cfg.fail,
		"inst_total": cfg.pools * ((cfg.inst + cfg.pools - 1) / cfg.pools), "scen": cfg.scen, "second_ms": cfg.secondMs})
	logf, _ := os.Create(filepath.Join(dir, "pandora.log"))
	defer logf.Close()
	cmd := exec.Command(bin, confPath)
	cmd.Dir = dir
	cmd.Env = append(os.Environ(), "VPANDORA_DIR="+dir)
	if cfg.gmp > 0 {
		cmd.Env = append(cmd.Env, fmt.Sprintf("GOMAXPROCS=%d", cfg.gmp))
	}
	cmd.Stdout = logf
	cmd.Stderr = logf
	if err := cmd.Start(); err != nil {
		panic(err)
	}
	exited := make(chan error, 1)
	go func() { exited <- cmd.Wait() }()
	retPath, enterPath := filepath.Join(dir, "ret.bin"), filepath.Join(dir, "enter.bin")
	fail := func(what string) {
		cmd.Process.Kill()
		for _, sp := range sps {
			sp.finish()
		}
		b, _ := os.ReadFile(filepath.Join(dir, "pandora.log"))
		if len(b) > 1500 {
			b = b[len(b)-1500:]
		}
		w.Emit(map[string]interface{}{"ev": "Machinery", "run": cfg.run, "what": what, "log": string(b)})
	}
	var waitErr error
	signals := 0
	sigSent := false
	var tSig time.Time
	if cfg.fail && cfg.sig != "none" {
		// the pool "bad" fails by itself; ONE signal is sent as soon as pandora has logged that it is awaiting
		// the started tasks of the failed run (the healthy pool's aggregator is draining into the slow pipe)
		t0 := time.Now()
		logPath := filepath.Join(dir, "pandora.log")
		for {
			lb, _ := os.ReadFile(logPath)
			if bytes.Contains(lb, []byte("Awaiting started tasks")) {
				break
			}
			select {
			case waitErr = <-exited:
				fail(fmt.Sprintf("vpandora exited before it logged the engine failure: %v", waitErr))
				return
			default:
			}
			if time.Since(t0) > 60*time.Second {
				fail("vpandora did not log the engine failure within 60 s")
				return
			}
			time.Sleep(500 * time.Microsecond)
		}
		// the process may have finished its tasks already: then the signal finds nobody (not an error)
		tSig = time.Now()
		if err := cmd.Process.Signal(sigByName[cfg.sig]); err == nil {
			signals = 1
		}
		sigSent = true
		w.Emit(map[string]interface{}{"ev": "Signal", "run": cfg.run, "sig": cfg.sig, "returned_before": -1})
	} else if cfg.scen == "startup" {
		// no waiting for a first report: the signal may find the process before signal.Notify (default action: it
		// dies), while the pools start, or already shooting
		time.Sleep(time.Duration(cfg.afterMs) * time.Millisecond)
		before := fileSize(retPath)
		tSig = time.Now()
		if err := cmd.Process.Signal(sigByName[cfg.sig]); err == nil {
			signals = 1
		}
		sigSent = true
		w.Emit(map[string]interface{}{"ev": "Signal", "run": cfg.run, "sig": cfg.sig, "returned_before": before})
	} else if cfg.sig != "none" {
		signals = 1
		// wait until pandora is shooting
		t0 := time.Now()
		for fileSize(retPath) == 0 {
			select {
			case waitErr = <-exited:
				fail(fmt.Sprintf("vpandora exited before the first report: %v", waitErr))
				return
			default:
			}
			if time.Since(t0) > 60*time.Second {
				fail("vpandora made no report within 60 s")
				return
			}
			time.Sleep(2 * time.Millisecond)
		}
		time.Sleep(time.Duration(cfg.afterMs) * time.Millisecond)
		select {
		case waitErr = <-exited:
			fail(fmt.Sprintf("vpandora exited before the signal: %v", waitErr))
			return
		default:
		}
		if cfg.scen == "timeout" {
			// from now on the sink takes nothing: the final flush can never complete
			for _, sp := range sps {
				sp.pause()
			}
		}
		if cfg.scen == "hang" {
			// from now on the target answers nothing: every shot that is sent hangs (for as long as the process lives)
			gate := make(chan struct{})
			hangGates.Store(gateID, gate)
			defer func() { hangGates.Delete(gateID); close(gate) }()
			time.Sleep(150 * time.Millisecond)
		}
		before := fileSize(retPath)
		tSig = time.Now()
		if err := cmd.Process.Signal(sigByName[cfg.sig]); err != nil {
			fail("signal: " + err.Error())
			return
		}
		sigSent = true
		w.Emit(map[string]interface{}{"ev": "Signal", "run": cfg.run, "sig": cfg.sig, "returned_before": before})
		if cfg.scen == "second" {
			time.Sleep(time.Duration(cfg.secondMs) * time.Millisecond)
			// the process may be gone already: then there was no second signal
			if err := cmd.Process.Signal(sigByName[cfg.sig]); err == nil {
				signals = 2
			}
		}
	}
	t1 := time.Now()
	// scen timeout: pandora must give up by itself (3 s after SIGTERM, 30 s after SIGINT); a process that is still
	// there a minute after that hangs - that is an observation, not a failure of the machinery
	limit := 120 * time.Second
	if cfg.scen == "timeout" || cfg.scen == "hang" {
		limit = 63 * time.Second // SIGTERM: 3 s, and a minute on top of it
		if cfg.sig == "INT" {
			limit = 90 * time.Second // 30 s
		}
	}
	hung := false
	select {
	case waitErr = <-exited:
	case <-time.After(limit):
		if cfg.scen != "timeout" && cfg.scen != "hang" {
			fail("vpandora did not exit within 120 s")
			return
		}
		hung = true
		cmd.Process.Kill()
		waitErr = <-exited
	}
	waitMs := int(time.Since(t1) / time.Millisecond)
	elapsedMs := -1
	if sigSent {
		elapsedMs = int(time.Since(tSig) / time.Millisecond)
	}
	status := 0
	killed := ""
	if waitErr != nil {
		if ee, ok := waitErr.(*exec.ExitError); ok {
			status = ee.ExitCode()
			if ws, ok := ee.Sys().(syscall.WaitStatus); ok && ws.Signaled() {
				killed = ws.Signal().String() // the default action of a signal nobody trapped
			}
		} else {
			status = -2
		}
	}
	ev := map[string]interface{}{"ev": "Exit", "run": cfg.run, "status": status, "wait_ms": waitMs,
		"entered": fileSize(enterPath), "returned": fileSize(retPath), "killed": killed, "hung": hung, "elapsed_ms": elapsedMs,
		"lines": 0, "malformed": 0, "last_complete": true, "agg_returned": false, "dropped": 0, "agg_err": ""}
	lb, _ := os.ReadFile(filepath.Join(dir, "pandora.log"))
	// by design pandora does not wait after a SECOND signal or when its timeout expires.  "Another signal
	// received" after a single signal is NOT such an exit
	ev["timeout_exit"] = bytes.Contains(lb, []byte("timeout exceeded"))
	ev["another_signal"] = bytes.Contains(lb, []byte("Another signal received"))
	ev["signals"] = signals
	ev["forced"] = bytes.Contains(lb, []byte("timeout exceeded")) || (bytes.Contains(lb, []byte("Another signal received")) && signals >= 2) || killed != ""
	if cfg.fail {
		// written by the failing provider right before it failed: reports that had returned by then
		ev["failed_returned_before"] = -1
		if fb, err := os.ReadFile(filepath.Join(dir, "fail.json")); err == nil {
			var rec struct {
				N int `json:"returned_before"`
			}
			if json.Unmarshal(bytes.TrimSpace(fb), &rec) == nil {
				ev["failed_returned_before"] = rec.N
			}
		}
	}
	nlines, bad, complete := 0, 0, true
	for j, out := range outs {
		var b []byte
		if cfg.pipe && j < len(sps) {
			b = sps[j].finish()
		} else if out != "/dev/full" {
			b, _ = os.ReadFile(out)
		}
		if len(b) == 0 {
			continue
		}
		parts := bytes.Split(b, []byte{'\n'})
		partial, lines := parts[len(parts)-1], parts[:len(parts)-1]
		if len(partial) != 0 {
			complete = false // the partial last line is not counted as a line
		}
		for _, ln := range lines {
			ok := false
			if kinds[j] == "vphout" {
				ok = phoutRe.Match(ln)
			} else {
				var v interface{}
				ok = json.Unmarshal(ln, &v) == nil
			}
			if !ok {
				bad++
			}
		}
		nlines += len(lines)
	}
	ev["lines"], ev["malformed"], ev["last_complete"] = nlines, bad, complete
	// one record per aggregator whose Run returned before the process exited
	if rb, err := os.ReadFile(filepath.Join(dir, "run.json")); err == nil {
		nrec, dropped, aggErr := 0, 0, ""
		for _, ln := range bytes.Split(bytes.TrimSpace(rb), []byte{'\n'}) {
			var rec struct {
				Err     string `json:"err"`
				Dropped int    `json:"dropped"`
			}
			if len(ln) > 0 && json.Unmarshal(ln, &rec) == nil {
				nrec++
				dropped += rec.Dropped
				aggErr += rec.Err
			}
		}
		ev["agg_returned"], ev["dropped"], ev["agg_err"] = nrec == npools, dropped, aggErr
	}
	w.Emit(ev)
}

func aggSigMain(args []string) {
	fs := flag.NewFlagSet("aggsig", flag.ExitOnError)
	bin := fs.String("vpandora", "", "vpandora binary")
	out := fs.String("out", "aggsig.ndjson", "trace file")
	runs := fs.Int("runs", 12, "runs")
	par := fs.Int("par", 4, "processes in flight")
	failRuns := fs.Int("fail", 0, "extra runs in which one pool fails by itself (CLI error path), most with one signal while the tasks are awaited")
	scenRuns := fs.Int("scen", 0, "extra runs of the scenarios second / timeout / startup / hup / quit / full / nodir / grpc / mixed / backpr (round robin)")
	long := fs.Int("long", 0, "extra timeout runs with SIGINT (30 s each)")
	hangs := fs.Int("hangs", 0, "extra runs of the scenario hang (the target stops answering right before SIGTERM; 3 s each)")
	fs.Parse(args)
	seed := aggSeed()
	w := vt.Create(*out)
	defer w.Close()

	ln, err := net.Listen("tcp", "127.0.0.1:0")
	if err != nil {
		panic(err)
	}
	srv := &http.Server{Handler: http.HandlerFunc(sigTargetHandler)}
	go srv.Serve(ln)
	defer srv.Close()
	target := ln.Addr().String()
	grpcAddr, stopGrpc := startSigGrpcTarget()
	defer stopGrpc()

	r := rand.New(rand.NewSource(seed*7919 + 13))
	var cfgs []sigRun
	for n := 0; n < *runs; n++ {
		cfg := sigRun{run: n + 1, rps: 2000 + 1000*r.Intn(4), inst: 4 + r.Intn(8)}
		if n%2 == 0 {
			cfg.kind = "vphout"
		} else {
			cfg.kind = "vjsonlines"
		}
		switch {
		case n%6 == 5:
			cfg.sig = "none"
			cfg.afterMs = 200 + r.Intn(600)
		case (n/2)%2 == 0:
			cfg.sig = "INT"
		default:
			cfg.sig = "TERM"
		}
		if cfg.sig != "none" {
			switch r.Intn(3) {
			case 0:
				cfg.afterMs = 30 + r.Intn(100)
			case 1:
				cfg.afterMs = 100 + r.Intn(500)
			default:
				cfg.afterMs = 30 + r.Intn(1471)
			}
		}
		if cfg.kind == "vjsonlines" && r.Intn(3) == 0 {
			cfg.q = 1 + r.Intn(4) // small queue: drops happen and must be counted
		}
		cfg.pipe = (n/3)%2 == 0
		cfg.gmp = []int{0, 1, 0, 2}[n%4]
		cfg.pools = 1
		if n%5 == 2 {
			cfg.pools = 2
		}
		cfgs = append(cfgs, cfg)
	}
	for n := 0; n < *failRuns; n++ {
		cfg := sigRun{run: *runs + n + 1, rps: 3000 + 1000*r.Intn(3), inst: 4 + r.Intn(6), pools: 1, fail: true, pipe: true,
			afterMs: 250 + r.Intn(500)}
		cfg.kind = []string{"vphout", "vjsonlines"}[n%2]
		cfg.sig = []string{"INT", "TERM", "INT", "none"}[n%4]
		cfgs = append(cfgs, cfg)
	}
	r2 := rand.New(rand.NewSource(seed*104729 + 7))
	// the kind alternates with the position (and from round to round): scenarios listed twice get both kinds in one round
	scens := []string{"timeout", "second", "startup", "full", "hup", "grpc", "mixed", "backpr", "quit", "startup", "full", "nodir", "second"}
	for n := 0; n < *scenRuns+*long; n++ {
		cfg := sigRun{run: *runs + *failRuns + n + 1, rps: 3000 + 1000*r2.Intn(3), inst: 4 + r2.Intn(6), pools: 1, grpcAddr: grpcAddr}
		cfg.scen = scens[n%len(scens)]
		cfg.kind = []string{"vphout", "vjsonlines"}[(n/len(scens)+n%len(scens))%2]
		cfg.sig = []string{"INT", "TERM"}[(n/2)%2]
		cfg.afterMs = 100 + r2.Intn(900)
		if n >= *scenRuns {
			cfg.scen, cfg.sig = "timeout", "INT" // 30 s
		}
		switch cfg.scen {
		case "timeout":
			if n < *scenRuns {
				cfg.sig = "TERM" // 3 s
			}
			cfg.pipe = true
			cfg.afterMs = 300 + r2.Intn(500)
		case "second":
			cfg.pipe = true
			cfg.rps = 5000
			cfg.afterMs = 700 + r2.Intn(900)
			cfg.secondMs = 20 + r2.Intn(180)
		case "startup":
			cfg.afterMs = r2.Intn(120)
			if r2.Intn(3) == 0 {
				cfg.afterMs = r2.Intn(25)
			}
		case "hup":
			cfg.sig = "HUP"
		case "quit":
			cfg.sig = "QUIT"
		case "full", "nodir":
			cfg.sig = "none"
			cfg.afterMs = 200 + r2.Intn(400)
		case "mixed":
			cfg.pools, cfg.kind = 2, "mixed"
			cfg.pipe = r2.Intn(2) == 0
		case "backpr":
			cfg.pipe = true
			// more than the instances: a shot in flight at the signal must find room after the drain loop has ended
			// (a parked instance would turn the exit into the interrupt timeout - Shutdown!ReportBlocks)
			cfg.q = 16
			cfg.afterMs = 400 + r2.Intn(800)
		}
		cfgs = append(cfgs, cfg)
	}
	r3 := rand.New(rand.NewSource(seed*15485863 + 11))
	for n := 0; n < *hangs; n++ {
		cfg := sigRun{run: *runs + *failRuns + *scenRuns + *long + n + 1, rps: 2000 + 1000*r3.Intn(3), inst: 3 + r3.Intn(6), pools: 1,
			scen: "hang", sig: "TERM", afterMs: 150 + r3.Intn(600)}
		cfg.kind = []string{"vjsonlines", "vphout"}[n%2]
		cfg.gmp = []int{0, 2, 1}[n%3]
		cfgs = append(cfgs, cfg)
	}
	sem := make(chan struct{}, *par)
	var wg sync.WaitGroup
	// the long ones first: they are mostly waiting
	order := append([]sigRun{}, cfgs...)
	for i, j := 0, len(order)-1; i < j; i, j = i+1, j-1 {
		order[i], order[j] = order[j], order[i]
	}
	for _, cfg := range order {
		wg.Add(1)
		if cfg.scen == "timeout" || cfg.scen == "hang" {
			go func(cfg sigRun) { // sleeps for 3 s / 30 s: does not occupy a slot
				defer wg.Done()
				sigRunOne(cfg, *bin, target, w)
			}(cfg)
			continue
		}
		sem <- struct{}{}
		go func(cfg sigRun) {
			defer wg.Done()
			defer func() { <-sem }()
			sigRunOne(cfg, *bin, target, w)
		}(cfg)
	}
	wg.Wait()
}
