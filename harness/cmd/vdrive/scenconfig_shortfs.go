package main

// C16: the file-system dimension.  The scenario front-ends read their file from an afero.Fs.  Nothing in the
// io.Reader contract makes Read fill the buffer: archive-, network- and FUSE-backed file systems return short reads,
// may deliver the last bytes together with io.EOF, and may not know the size in Stat.  scShortFs wraps the in-memory
// file system and serves every scenario file under /case*/fs<mode>/ in one of these legal ways; the meaning of the
// file is unchanged, so every rendering must still decode to Decoded(desc) -- for HCL, YAML and JSON alike.
// Data files of the variable sources and everything else pass through untouched.

import (
	"hash/fnv"
	"io"
	"math/rand"
	"os"
	"regexp"
	"strconv"

	"github.com/spf13/afero"
)

const (
	fsPlain    = iota // the memory file system as it is (one Read fills the buffer)
	fsOneByte         // every Read returns at most 1 byte
	fsSeven           // every Read returns at most 7 bytes
	fsBoundary        // the first Read ends at the start of the last top-level line (last block / key), the rest follows
	fsRandom          // random chunks of 1..64 bytes
	fsEOFData         // a short first Read, then the rest delivered together with io.EOF (n > 0, err == io.EOF)
	fsNoSize          // Stat reports size 0 (size unknown, as for pipes and /proc), reads of at most 512 bytes
	fsModes
)

var fsModeNames = []string{"plain", "1-byte", "7-byte", "block-boundary", "random-chunks", "data-with-EOF", "size-unknown"}

var fsModeRe = regexp.MustCompile(`^/case\d+/fs(\d+)/`)

type scShortFs struct{ afero.Fs }

func (s scShortFs) Open(name string) (afero.File, error) {
	f, err := s.Fs.Open(name)
	if err != nil {
		return f, err
	}
	m := fsModeRe.FindStringSubmatch(name)
	if m == nil {
		return f, nil
	}
	mode, _ := strconv.Atoi(m[1])
	if mode == fsPlain {
		return f, nil
	}
	data, err := io.ReadAll(f)
	if err != nil {
		return nil, err
	}
	h := fnv.New64a()
	h.Write([]byte(name))
	h.Write(data)
	return &scShortFile{File: f, data: data, mode: mode, rng: rand.New(rand.NewSource(int64(h.Sum64())))}, nil
}

type scShortFile struct {
	afero.File
	data  []byte
	pos   int
	mode  int
	reads int
	rng   *rand.Rand
}

// lastTopLevelLine: offset of the last line that starts in column 0 with a letter or a quote (the last top-level
// block of an HCL file, the last top-level key of a YAML/JSON document) -- or half the file if there is none
func lastTopLevelLine(b []byte) int {
	for i := len(b) - 2; i > 0; i-- {
		c := b[i+1]
		if b[i] == '\n' && (c >= 'a' && c <= 'z' || c >= 'A' && c <= 'Z' || c == '"') {
			return i + 1
		}
	}
	return len(b) / 2
}

func (f *scShortFile) Read(p []byte) (int, error) {
	if len(p) == 0 {
		return 0, nil
	}
	left := len(f.data) - f.pos
	if left == 0 {
		return 0, io.EOF
	}
	f.reads++
	max := left
	switch f.mode {
	case fsOneByte:
		max = 1
	case fsSeven:
		max = 7
	case fsBoundary:
		if f.reads == 1 {
			max = lastTopLevelLine(f.data)
		}
	case fsRandom:
		max = 1 + f.rng.Intn(64)
	case fsEOFData:
		if f.reads == 1 {
			max = 1 + left/3
		}
	case fsNoSize:
		max = 512
	}
	if max < 1 {
		max = 1
	}
	n := len(p)
	if n > max {
		n = max
	}
	if n > left {
		n = left
	}
	copy(p, f.data[f.pos:f.pos+n])
	f.pos += n
	if f.mode == fsEOFData && f.pos == len(f.data) {
		return n, io.EOF // the last bytes and the end of the file in one call
	}
	return n, nil
}

func (f *scShortFile) Stat() (os.FileInfo, error) {
	fi, err := f.File.Stat()
	if err != nil || f.mode != fsNoSize {
		return fi, err
	}
	return sizeUnknown{fi}, nil
}

type sizeUnknown struct{ os.FileInfo }

func (sizeUnknown) Size() int64 { return 0 }
