package main

// C05 M1: the REAL engine (core/engine: Engine.Run / instancePool.Run / awaitRun / instance.Run) is run
// once per (fault plan, repetition) with scripted mocks of the pluggable interfaces (provider,
// aggregator, gun factory, guns, RPS schedule factory) that realise the fault plan exported by TLC from
// PoolRunMC.tla.  Mocks and the `verif` hooks of core/engine write one NDJSON line per event under one
// mutex (the line order is the event order); the caller's cancel is logged BEFORE cancel() is called.
// Seeded Gosched / microsecond sleeps at every mock and hook point diversify the interleavings.
// The driver records; TracePoolRun.tla decides.

import (
	"context"
	"errors"
	"flag"
	"fmt"
	"math/rand"
	"regexp"
	"runtime"
	"strconv"
	"strings"
	"sync"
	"sync/atomic"
	"time"

	pkgerrors "github.com/pkg/errors"
	"github.com/yandex/pandora/core"
	"github.com/yandex/pandora/core/engine"
	"github.com/yandex/pandora/core/schedule"
	"github.com/yandex/pandora/core/warmup"
	"github.com/yandex/pandora/lib/monitoring"
	"go.uber.org/zap"

	"verifharness/internal/vt"
)

func init() { register("poolrun", poolRunMain) }

type prPool struct {
	N, T, Ammo                   int
	Shared, Closable             bool
	Provider, Aggregator, Warm   string
	GunFail, BindFail, SchedFail int
	PanicInst, PanicShot         int
	Fault, Shape, Ek             string
	Block                        string // a component call that does not return before Engine.Run has returned (PoolRun.tla: block)
	Long, Slow                   bool // Long: never ends by itself (unlimited schedule, 2^30 ammo); Slow: shots take milliseconds
}

type prPlan struct {
	ID     int
	Cancel bool
	Pools  []prPool
	// pools that share an id (Engine.tla, "pool ids"): "" / "none" = distinct ids r<run>p<pool>; "same" = every pool
	// carries the id r<run>p0; "default" = the first pool is called `pool_1`, the second has no id (the engine
	// generates pool_1 for it).  The hook lines of such a run carry p = 0: TraceEngine.tla attributes them.
	DupID string
}

func (pl prPlan) poolID(run, p int) string {
	switch pl.DupID {
	case "same":
		return fmt.Sprintf("r%dp0", run)
	case "default":
		if p == 1 {
			return "pool_1"
		}
		if p == 2 {
			return ""
		}
	}
	return fmt.Sprintf("r%dp%d", run, p)
}

// one line of the trace; every field is always present (TLC reads fields unconditionally)
type prEv struct {
	Run  int    `json:"run"`
	Ev   string `json:"ev"`
	P    int    `json:"p"`    // pool index (1-based), 0 for engine-level events
	N    int    `json:"n"`    // instance id / started / awaited / call index / active count
	Cls  string `json:"cls"`  // error class: nil ctx ooa prov agg newgun bind sched warmup panic | ok
	C    string `json:"c"`    // cause carried by a returned error
	Flag bool   `json:"flag"` // Shoot: panics; RunReturn: cancelled before; End: goroutine leak
	Ms   int    `json:"ms"`
	Seq  int    `json:"seq"` // per-pool sequence number of a hook event
	Plan int    `json:"plan"`
}

var (
	prErrProv  = errors.New("mock provider failed")
	prErrAgg   = errors.New("7 samples were dropped")
	prErrGun   = errors.New("mock gun factory failed")
	prErrBind  = errors.New("mock bind failed")
	prErrSched = errors.New("mock schedule factory failed")
	prErrWarm  = errors.New("mock warm-up failed")
)

func prClass(err error) string {
	switch {
	case err == nil:
		return "nil"
	case errors.Is(err, prErrProv):
		return "prov"
	case errors.Is(err, prErrAgg):
		return "agg"
	case errors.Is(err, prErrGun):
		return "newgun"
	case errors.Is(err, prErrBind):
		return "bind"
	case errors.Is(err, prErrSched):
		return "sched"
	case errors.Is(err, prErrWarm):
		return "warmup"
	case strings.Contains(err.Error(), "shoot panic"):
		return "panic"
	}
	for e := err; e != nil; e = errors.Unwrap(e) {
		if engine.VerifIsOutOfAmmo(e) {
			return "ooa"
		}
	}
	// the VALUE of the cause, which is all the engine can look at: the sentinels of package context
	switch {
	case errors.Is(err, context.DeadlineExceeded):
		return "deadline"
	case errors.Is(err, context.Canceled):
		return "ctx"
	}
	return "other:" + err.Error()
}

// prRetClass projects what Run / instancePool.Run returned: nil, the bare ctx.Err() of their own select
// ("ctx"), or an error ("err") whose cause class goes into c.
func prRetClass(err error) (cls, c string) {
	switch {
	case err == nil:
		return "nil", ""
	case err == context.Canceled:
		return "ctx", ""
	}
	return "err", prClass(err)
}

// errVal renders the error VALUE of the plan's failing component (plan field ek, see "error values" in
// PoolRun.tla): the plain sentinel, a wrapped sentinel, the DeadlineExceeded / Canceled of a context of the
// component's OWN (always under a pkg/errors message, so that its Cause is the context sentinel), or the error
// of the context the component was given (the run ctx) returned late.
func (pl prPool) errVal(sentinel error, given context.Context) error {
	switch pl.Ek {
	case "wrapped":
		return fmt.Errorf("mock layer: %w", pkgerrors.WithMessage(sentinel, "mock inner layer"))
	case "deadline":
		own, cancel := context.WithDeadline(context.Background(), time.Now().Add(-time.Second))
		defer cancel()
		<-own.Done()
		return pkgerrors.WithMessage(own.Err(), "mock component: own deadline")
	case "canceled":
		own, cancel := context.WithCancel(context.Background())
		cancel()
		return pkgerrors.WithMessage(own.Err(), "mock component: own context")
	case "runctx":
		if given != nil && given.Err() != nil {
			return given.Err()
		}
		panic("poolrun: plan asks for the run context's error before the run context is done")
	}
	return sentinel
}

// ---------------------------------------------------------------------------------------------
// one run

type prRun struct {
	id   int
	plan prPlan
	w    *vt.Writer

	mu        sync.Mutex
	rng       *rand.Rand
	count     int  // events written
	returned  bool // EngineReturn seen
	cancelAt  int  // cancel when count reaches this (-1: never)
	cancelled bool
	cancelT   time.Time
	cancel    context.CancelFunc

	active int32 // mock Runs / Shoots in flight

	rel     chan struct{} // closed by the driver once Engine.Run has returned (or its hang is confirmed)
	relOnce sync.Once
}

// blocked is called by a mock at the position the plan marks as "does not return before Run has returned": the
// call is context-unaware and slow. The caller's cancel is issued as soon as the mock is inside (see emit).
func (r *prRun) blocked(p int, pl prPool, pos string) {
	if pl.Block != pos {
		return
	}
	r.emit(prEv{Ev: "Blocked", P: p, Cls: pos})
	<-r.rel
}

func (r *prRun) release(log bool) {
	r.relOnce.Do(func() {
		if log {
			r.emit(prEv{Ev: "Release"})
		}
		close(r.rel)
	})
}

func (r *prRun) emit(e prEv) {
	e.Run = r.id
	doCancel := false
	r.mu.Lock()
	if e.Ev == "EngineReturn" {
		r.returned = true
	}
	r.w.Emit(e)
	r.count++
	if ((r.cancelAt >= 0 && r.count >= r.cancelAt) || (e.Ev == "Blocked" && r.plan.Cancel)) && !r.cancelled && !r.returned {
		r.cancelled = true
		r.cancelT = time.Now()
		r.w.Emit(prEv{Run: r.id, Ev: "Cancel"})
		r.count++
		doCancel = true
	}
	r.mu.Unlock()
	if doCancel {
		r.cancel()
	}
	r.jit()
}

// seeded schedule diversification
func (r *prRun) jit() {
	r.mu.Lock()
	k := r.rng.Intn(20)
	d := r.rng.Intn(200)
	r.mu.Unlock()
	switch {
	case k < 9:
	case k < 15:
		for i := 0; i <= k-9; i++ {
			runtime.Gosched()
		}
	case k < 19:
		time.Sleep(time.Duration(d) * time.Microsecond)
	default:
		time.Sleep(time.Duration(d*5) * time.Microsecond)
	}
}

// --- provider

type prProvider struct {
	r  *prRun
	p  int
	pl prPool
	q  chan int
}

func (m *prProvider) Run(ctx context.Context, _ core.ProviderDeps) error {
	atomic.AddInt32(&m.r.active, 1)
	defer atomic.AddInt32(&m.r.active, -1)
	m.r.jit()
	end := func(err error, closeQ bool) error {
		m.r.emit(prEv{Ev: "ProvRunEnd", P: m.p, Cls: prClass(err)})
		if closeQ {
			close(m.q)
		}
		return err
	}
	for i := 0; i < m.pl.Ammo; i++ {
		m.r.jit()
		select {
		case m.q <- i:
		case <-ctx.Done():
			if m.pl.Provider == "end" {
				return end(m.pl.errVal(prErrProv, ctx), true)
			}
			return end(ctx.Err(), true)
		}
	}
	switch m.pl.Provider {
	case "fail":
		return end(m.pl.errVal(prErrProv, ctx), true)
	case "end":
		close(m.q) // out of ammo, but the provider's Run keeps going and fails when it is cancelled
		<-ctx.Done()
		m.r.jit()
		return end(m.pl.errVal(prErrProv, ctx), false)
	}
	return end(nil, true)
}

func (m *prProvider) Acquire() (core.Ammo, bool) {
	m.r.jit()
	a, ok := <-m.q
	return a, ok
}

func (m *prProvider) Release(core.Ammo) {}

// --- aggregator

type prAggregator struct {
	r  *prRun
	p  int
	pl prPool
}

func (m *prAggregator) Run(ctx context.Context, _ core.AggregatorDeps) error {
	atomic.AddInt32(&m.r.active, 1)
	defer atomic.AddInt32(&m.r.active, -1)
	m.r.jit()
	var err error
	if m.pl.Aggregator == "now" {
		err = m.pl.errVal(prErrAgg, ctx)
	} else {
		<-ctx.Done()
		m.r.jit()
		if m.pl.Aggregator == "drop" {
			err = m.pl.errVal(prErrAgg, ctx)
		}
	}
	m.r.emit(prEv{Ev: "AggRunEnd", P: m.p, Cls: prClass(err)})
	return err
}

func (m *prAggregator) Report(core.Sample) {}

// --- guns

type prGun struct {
	r     *prRun
	p     int
	pl    prPool
	inst  int
	shots int
}

func (g *prGun) Bind(_ core.Aggregator, deps core.GunDeps) error {
	g.inst = deps.InstanceID
	g.r.jit()
	if g.inst == 0 {
		g.r.blocked(g.p, g.pl, "bind-first")
	}
	if g.pl.BindFail == g.inst {
		g.r.emit(prEv{Ev: "Bind", P: g.p, N: g.inst, Cls: "bind"})
		return g.pl.errVal(prErrBind, nil)
	}
	g.r.emit(prEv{Ev: "Bind", P: g.p, N: g.inst, Cls: "ok"})
	return nil
}

func (g *prGun) Shoot(core.Ammo) {
	atomic.AddInt32(&g.r.active, 1)
	defer atomic.AddInt32(&g.r.active, -1)
	if g.pl.Long {
		// a pool that shoots until its context is done: thousands of shots, not logged one by one (PoolRun.tla:
		// InstShoot of a long pool is a silent step); throttled so that an abandoned run does not burn a core
		time.Sleep(200 * time.Microsecond)
		return
	}
	if g.pl.Slow {
		time.Sleep(3 * time.Millisecond)
	}
	if g.inst == 0 && g.shots == 0 {
		g.r.blocked(g.p, g.pl, "shoot")
	}
	g.shots++
	boom := g.pl.PanicInst == g.inst && g.pl.PanicShot == g.shots
	g.r.emit(prEv{Ev: "Shoot", P: g.p, N: g.inst, Flag: boom})
	if boom {
		if g.pl.Ek != "plain" && g.pl.Ek != "" {
			panic(g.pl.errVal(errors.New("mock shot panics"), nil)) // the panic VALUE is an error of that kind
		}
		panic("mock shot panics")
	}
}

func (g *prGun) doClose() error {
	g.r.emit(prEv{Ev: "Close", P: g.p, N: g.inst})
	return nil
}

func (g *prGun) doWarmUp(*warmup.Options) (interface{}, error) {
	g.r.jit()
	g.r.blocked(g.p, g.pl, "warmup")
	if g.pl.Warm == "fail" {
		g.r.emit(prEv{Ev: "WarmUp", P: g.p, Cls: "warmup"})
		return nil, g.pl.errVal(prErrWarm, nil)
	}
	g.r.emit(prEv{Ev: "WarmUp", P: g.p, Cls: "ok"})
	return "shared-deps", nil
}

type prGunC struct{ *prGun }  // closable
type prGunW struct{ *prGun }  // warmed up
type prGunCW struct{ *prGun } // both

func (g prGunC) Close() error                                   { return g.doClose() }
func (g prGunCW) Close() error                                  { return g.doClose() }
func (g prGunW) WarmUp(o *warmup.Options) (interface{}, error)  { return g.doWarmUp(o) }
func (g prGunCW) WarmUp(o *warmup.Options) (interface{}, error) { return g.doWarmUp(o) }

type prFactory struct {
	r          *prRun
	p          int
	pl         prPool
	mu         sync.Mutex
	gunCalls   int
	schedCalls int
}

func (f *prFactory) NewGun() (core.Gun, error) {
	f.mu.Lock()
	n := f.gunCalls
	f.gunCalls++
	f.mu.Unlock()
	f.r.jit()
	switch n {
	case 0:
		f.r.blocked(f.p, f.pl, "newgun-warmup")
	case 1:
		f.r.blocked(f.p, f.pl, "newgun-first")
	}
	if n == f.pl.GunFail {
		f.r.emit(prEv{Ev: "NewGunFail", P: f.p, N: n, Cls: "newgun"})
		return nil, f.pl.errVal(prErrGun, nil)
	}
	f.r.emit(prEv{Ev: "NewGunOk", P: f.p, N: n, Cls: "ok"})
	g := &prGun{r: f.r, p: f.p, pl: f.pl, inst: -1}
	warm := f.pl.Warm != "none"
	switch {
	case f.pl.Closable && warm:
		return prGunCW{g}, nil
	case f.pl.Closable:
		return prGunC{g}, nil
	case warm:
		return prGunW{g}, nil
	}
	return g, nil
}

func (f *prFactory) NewSched() (core.Schedule, error) {
	f.mu.Lock()
	n := f.schedCalls
	f.schedCalls++
	f.mu.Unlock()
	f.r.jit()
	if n == 0 && f.pl.Shared {
		f.r.blocked(f.p, f.pl, "sched-shared")
	}
	if n == f.pl.SchedFail {
		f.r.emit(prEv{Ev: "NewSchedFail", P: f.p, N: n, Cls: "sched"})
		return nil, f.pl.errVal(prErrSched, nil)
	}
	f.r.emit(prEv{Ev: "NewSchedOk", P: f.p, N: n, Cls: "ok"})
	if f.pl.Long {
		return schedule.NewUnlimited(time.Hour), nil
	}
	return schedule.NewOnce(int64(f.pl.T)), nil
}

// ---------------------------------------------------------------------------------------------

var prPoolRe = regexp.MustCompile(`r(\d+)p(\d+)`)

var prCurrent atomic.Value // *prRun

func prSink(pool string, seq int64, ev string, n int, err error) {
	r, _ := prCurrent.Load().(*prRun)
	if r == nil {
		return
	}
	m := prPoolRe.FindStringSubmatch(pool)
	if m == nil && pool == "pool_1" && r.plan.DupID == "default" {
		m = []string{"", strconv.Itoa(r.id), "0"} // the explicit id and the generated one coincide: pool not attributable
	}
	if m == nil {
		return
	}
	run, _ := strconv.Atoi(m[1])
	p, _ := strconv.Atoi(m[2])
	if run != r.id {
		return // a run abandoned after a hang
	}
	e := prEv{Ev: ev, P: p, N: n, Cls: prClass(err), Seq: int(seq)}
	if ev == "EngineReturn" {
		e.P, e.Cls = 0, ""
	}
	if ev == "PoolReturn" {
		e.Cls, e.C = prRetClass(err)
	}
	r.emit(e)
}

type prStats struct {
	hangs  int
	maxEvs map[int]int // plan id -> max events seen in one run
}

// runOne runs the real engine once under the plan. It reports whether the run hung.
func prRunOne(w *vt.Writer, id int, plan prPlan, seed int64, cancelAt int, watchdog time.Duration) (hung bool, events int) {
	base := runtime.NumGoroutine()
	ctx, cancel := context.WithCancel(context.Background())
	defer cancel()
	r := &prRun{id: id, plan: plan, w: w, rng: rand.New(rand.NewSource(seed)), cancelAt: cancelAt, cancel: cancel,
		rel: make(chan struct{})}
	defer r.release(false)
	prCurrent.Store(r)
	w.Emit(prEv{Run: id, Ev: "Plan", Plan: plan.ID, N: len(plan.Pools)})

	conf := engine.Config{}
	for i, pl := range plan.Pools {
		p := i + 1
		f := &prFactory{r: r, p: p, pl: pl}
		conf.Pools = append(conf.Pools, engine.InstancePoolConfig{
			ID:              plan.poolID(id, p),
			Provider:        &prProvider{r: r, p: p, pl: pl, q: make(chan int)},
			Aggregator:      &prAggregator{r: r, p: p, pl: pl},
			NewGun:          f.NewGun,
			RPSPerInstance:  !pl.Shared,
			NewRPSSchedule:  f.NewSched,
			StartupSchedule: schedule.NewOnce(int64(pl.N)),
		})
	}
	metrics := engine.Metrics{Request: &monitoring.Counter{}, Response: &monitoring.Counter{},
		InstanceStart: &monitoring.Counter{}, InstanceFinish: &monitoring.Counter{}}
	eng := engine.New(zap.NewNop(), metrics, conf)

	if cancelAt == 0 {
		r.mu.Lock()
		r.cancelled, r.cancelT = true, time.Now()
		w.Emit(prEv{Run: id, Ev: "Cancel"})
		r.count++
		r.mu.Unlock()
		cancel()
	}

	// wait with a generous watchdog; a hang is confirmed twice
	await := func(ch <-chan struct{}) bool {
		for i := 0; i < 2; i++ {
			select {
			case <-ch:
				return true
			case <-time.After(watchdog):
			}
		}
		select {
		case <-ch:
			return true
		default:
			return false
		}
	}

	// a plan with a pool that never ends by itself and a caller cancel: the cancel must happen
	anyLong := false
	for _, pl := range plan.Pools {
		anyLong = anyLong || pl.Long
	}
	if plan.Cancel && anyLong {
		t := time.AfterFunc(time.Duration(5+r.rng.Intn(30))*time.Millisecond, func() {
			r.mu.Lock()
			do := !r.cancelled && !r.returned
			if do {
				r.cancelled, r.cancelT = true, time.Now()
				w.Emit(prEv{Run: id, Ev: "Cancel"})
				r.count++
			}
			r.mu.Unlock()
			if do {
				cancel()
			}
		})
		defer t.Stop()
	}

	runDone := make(chan struct{})
	go func() {
		err := eng.Run(ctx)
		e := prEv{Ev: "RunReturn"}
		e.Cls, e.C = prRetClass(err)
		r.mu.Lock()
		if r.cancelled {
			e.Flag = true
			e.Ms = int(time.Since(r.cancelT) / time.Millisecond)
		}
		r.mu.Unlock()
		if e.Cls == "err" {
			if m := prPoolRe.FindStringSubmatch(err.Error()); m != nil && strings.Contains(err.Error(), "pool run failed") {
				e.P, _ = strconv.Atoi(m[2])
			}
			// (pools sharing the id `pool_1`: p stays 0, as for the id r<run>p0)
		}
		r.emit(e)
		close(runDone)
	}()
	if !await(runDone) {
		r.emit(prEv{Ev: "RunHang"})
		cancel()
		return true, r.count
	}
	r.release(true) // calls that do not return before Run has returned may return now
	waitDone := make(chan struct{})
	go func() {
		eng.Wait()
		r.emit(prEv{Ev: "WaitReturn"})
		close(waitDone)
	}()
	if !await(waitDone) {
		r.emit(prEv{Ev: "WaitHang", N: int(atomic.LoadInt32(&r.active))})
		cancel()
		return true, r.count
	}
	// every goroutine of the run must be gone (poll: the last ones are just exiting)
	leak := true
	for t0 := time.Now(); time.Since(t0) < 2*watchdog; time.Sleep(200 * time.Microsecond) {
		if runtime.NumGoroutine() <= base {
			leak = false
			break
		}
	}
	r.emit(prEv{Ev: "End", N: int(atomic.LoadInt32(&r.active)), Flag: leak, Ms: runtime.NumGoroutine() - base})
	return leak, r.count
}

func prBlock(v interface{}) string {
	if s, ok := v.(string); ok && s != "none" {
		return s
	}
	return ""
}

func prDecodePlans(path string) []prPlan {
	var out []prPlan
	for _, m := range vt.ReadNDJSON(path) {
		pl := prPlan{ID: vt.Int(m["id"]), Cancel: vt.Bool(m["cancel"])}
		if d, ok := m["dupid"].(string); ok && d != "none" {
			pl.DupID = d
		}
		for _, x := range vt.List(m["pools"]) {
			pm := vt.Map(x)
			pl.Pools = append(pl.Pools, prPool{
				N: vt.Int(pm["n"]), T: vt.Int(pm["t"]), Ammo: vt.Int(pm["ammo"]),
				Shared: vt.Bool(pm["shared"]), Closable: vt.Bool(pm["closable"]),
				Provider: vt.Str(pm["provider"]), Aggregator: vt.Str(pm["aggregator"]), Warm: vt.Str(pm["warm"]),
				GunFail: vt.Int(pm["gunFail"]), BindFail: vt.Int(pm["bindFail"]), SchedFail: vt.Int(pm["schedFail"]),
				PanicInst: vt.Int(pm["panicInst"]), PanicShot: vt.Int(pm["panicShot"]),
				Fault: vt.Str(pm["fault"]), Shape: vt.Str(pm["shape"]), Ek: vt.Str(pm["ek"]), Block: prBlock(pm["block"]),
				Long: vt.Bool(pm["long"]), Slow: vt.Bool(pm["slow"]),
			})
		}
		for i := range pl.Pools {
			if pl.Pools[i].Long {
				pl.Pools[i].Ammo = 1 << 30
			}
		}
		out = append(out, pl)
	}
	return out
}

func poolRunMain(args []string) {
	fs := flag.NewFlagSet("poolrun", flag.ExitOnError)
	in := fs.String("plans", "", "fault plans exported by TLC (ndjson)")
	out := fs.String("out", "", "trace file (ndjson)")
	reps1 := fs.Int("runs", 10, "repetitions per one-pool plan")
	reps2 := fs.Int("runs2", 2, "repetitions per plan with several pools")
	sweep := fs.Int("sweep", 0, "one-pool cancel plans: runs per cancel position, swept over every event position (0: random positions)")
	wd := fs.Int("watchdog-ms", 10000, "watchdog (a hang is confirmed twice); 2 s once a first hang has been confirmed")
	fs.Parse(args)
	plans := prDecodePlans(*in)
	w := vt.Create(*out)
	defer w.Close()
	engine.VerifSink = prSink
	seed := vt.Seed()
	watchdog := time.Duration(*wd) * time.Millisecond
	id := 0
	hangs := 0
	for _, pl := range plans {
		maxEv := 14
		hungPlan := false
		one := func(k int, cancelAt int) {
			if hungPlan {
				return // one confirmed hang per plan is the observation; do not wait for it again and again
			}
			id++
			wdog := watchdog
			if hangs > 0 && wdog > 2*time.Second {
				wdog = 2 * time.Second // the verdict is there already; do not spend minutes on the other plans of the class
			}
			h, n := prRunOne(w, id, pl, seed*1000003+int64(pl.ID)*7919+int64(k), cancelAt, wdog)
			if n > maxEv {
				maxEv = n
			}
			if h {
				hungPlan = true
				hangs++
			}
		}
		rng := rand.New(rand.NewSource(seed*31 + int64(pl.ID)))
		reps := reps1
		if len(pl.Pools) > 1 {
			reps = reps2
		}
		anyBlock := false
		for _, pp := range pl.Pools {
			anyBlock = anyBlock || pp.Block != ""
		}
		switch {
		case !pl.Cancel || anyBlock:
			// (a plan with a blocked component call: the cancel is issued when the mock has entered that call)
			for k := 0; k < *reps; k++ {
				one(k, -1)
			}
		case *sweep > 0 && len(pl.Pools) == 1:
			one(0, -1) // measure the length of a run
			for pos := 0; pos <= maxEv+1; pos++ {
				for k := 0; k < *sweep; k++ {
					one(1+pos*(*sweep)+k, pos)
				}
			}
		default:
			for k := 0; k < *reps; k++ {
				one(k, rng.Intn(maxEv+2))
			}
		}
	}
	fmt.Printf("{\"runs\":%d,\"hangs\":%d,\"events\":%d}\n", id, hangs, w.Count())
}
